// Package load type-checks /repo's current working tree with go/packages and
// builds the SSA form of every repo package. Nothing of /repo is executed.
package load

import (
	"fmt"
	"go/ast"
	"go/token"
	"go/types"
	"os"
	"sort"
	"strings"
	"time"

	"golang.org/x/tools/go/packages"
	"golang.org/x/tools/go/ssa"

	"kverif/internal/norm"
)

const Module = "github.com/koordinator-sh/koordinator"

// toleratedErrPkgs lists packages whose load errors are expected in this sandbox
// (a cgo header that is not installed). They are outside every property.
var toleratedErrPkgs = map[string]string{
	Module + "/pkg/koordlet/util/perf_group": "cgo header perfmon/pfmlib.h not installed in the sandbox",
}

type Program struct {
	Repo      string
	Fset      *token.FileSet
	Pkgs      []*packages.Package
	ByPath    map[string]*packages.Package
	SSA       *ssa.Program
	SSAByPath map[string]*ssa.Package
	LoadTime  time.Duration
	Tolerated []string
	// fileOf maps token.File name to the syntax tree
	files map[string]*ast.File
	// normalisation (package norm): helpers unknown on the reference tree that were inlined / left alone
	NewFuncs    []string
	Inlined     []string
	Skipped     []string
	Notes       []string
	Normalized  map[string][]byte
	InlinedAway []string
	Renamed     []string
	allFuncs    []*ssa.Function
}

// DefaultPatterns covers what the real build covers.
var DefaultPatterns = []string{"./pkg/...", "./apis/...", "./cmd/..."}

func Load(repo string, patterns []string, overlay map[string][]byte) (*Program, error) {
	t0 := time.Now()
	if len(patterns) == 0 {
		patterns = DefaultPatterns
	}
	fset := token.NewFileSet()
	cfg := &packages.Config{
		Mode:    packages.LoadSyntax | packages.NeedModule,
		Dir:     repo,
		Fset:    fset,
		Tests:   false,
		Env:     append(os.Environ(), "GOWORK=off"),
		Overlay: overlay,
	}
	pkgs, err := packages.Load(cfg, patterns...)
	if err != nil {
		return nil, fmt.Errorf("go/packages: %w", err)
	}
	if len(pkgs) == 0 {
		return nil, fmt.Errorf("go/packages: no packages matched %v in %s", patterns, repo)
	}
	p := &Program{Repo: repo, Fset: fset, ByPath: map[string]*packages.Package{}, SSAByPath: map[string]*ssa.Package{}, files: map[string]*ast.File{}}
	var errs []string
	for _, pkg := range pkgs {
		if len(pkg.Errors) > 0 {
			if why, ok := toleratedErrPkgs[pkg.PkgPath]; ok {
				p.Tolerated = append(p.Tolerated, pkg.PkgPath+": "+why)
				continue
			}
			for _, e := range pkg.Errors {
				errs = append(errs, pkg.PkgPath+": "+e.Error())
			}
			continue
		}
		if pkg.Types == nil || pkg.TypesInfo == nil {
			errs = append(errs, pkg.PkgPath+": no type information")
			continue
		}
		p.Pkgs = append(p.Pkgs, pkg)
		p.ByPath[pkg.PkgPath] = pkg
		for _, f := range pkg.Syntax {
			p.files[fset.File(f.Pos()).Name()] = f
		}
	}
	if len(errs) > 0 {
		sort.Strings(errs)
		if len(errs) > 20 {
			errs = append(errs[:20], fmt.Sprintf("... and %d more", len(errs)-20))
		}
		return nil, fmt.Errorf("load errors (no verdict possible):\n  %s", strings.Join(errs, "\n  "))
	}
	sort.Slice(p.Pkgs, func(i, j int) bool { return p.Pkgs[i].PkgPath < p.Pkgs[j].PkgPath })
	// ssautil.Packages skips packages marked IllTyped, which includes every package that
	// transitively imports the tolerated cgo package although their own type information is
	// complete (no errors of their own). Build the SSA program by hand instead.
	prog := ssa.NewProgram(fset, ssa.InstantiateGenerics)
	isInitial := map[*packages.Package]bool{}
	for _, pk := range p.Pkgs {
		isInitial[pk] = true
	}
	created := map[*types.Package]bool{}
	packages.Visit(pkgs, nil, func(pk *packages.Package) {
		if pk.Types == nil || created[pk.Types] {
			return
		}
		created[pk.Types] = true
		if isInitial[pk] {
			p.SSAByPath[pk.PkgPath] = prog.CreatePackage(pk.Types, pk.Syntax, pk.TypesInfo, true)
		} else {
			prog.CreatePackage(pk.Types, nil, nil, true)
		}
	})
	for _, pk := range p.Pkgs {
		if p.SSAByPath[pk.PkgPath] == nil {
			return nil, fmt.Errorf("no SSA package for %s", pk.PkgPath)
		}
	}
	prog.Build()
	p.SSA = prog
	p.LoadTime = time.Since(t0)
	return p, nil
}

// Pkg returns the package with the given path relative to the module ("pkg/util").
func (p *Program) Pkg(rel string) *packages.Package {
	return p.ByPath[Module+"/"+rel]
}

func (p *Program) SSAPkg(rel string) *ssa.Package {
	return p.SSAByPath[Module+"/"+rel]
}

// Pos renders a position relative to the repo root.
func (p *Program) Pos(pos token.Pos) string {
	if !pos.IsValid() {
		return "?"
	}
	ps := p.Fset.Position(pos)
	name := strings.TrimPrefix(ps.Filename, p.Repo+"/")
	return fmt.Sprintf("%s:%d", name, ps.Line)
}

// FileOf returns the syntax tree containing pos.
func (p *Program) FileOf(pos token.Pos) *ast.File {
	tf := p.Fset.File(pos)
	if tf == nil {
		return nil
	}
	return p.files[tf.Name()]
}

// Func finds a function or method by package (relative), receiver type name ("" for
// functions; without pointer star) and name.
func (p *Program) Func(rel, recv, name string) *ssa.Function {
	sp := p.SSAPkg(rel)
	if sp == nil {
		return nil
	}
	if recv == "" {
		return sp.Func(name)
	}
	tn, ok := sp.Pkg.Scope().Lookup(recv).(*types.TypeName)
	if !ok {
		return nil
	}
	named, ok := tn.Type().(*types.Named)
	if !ok {
		return nil
	}
	for _, t := range []types.Type{types.NewPointer(named), named} {
		ms := p.SSA.MethodSets.MethodSet(t)
		for i := 0; i < ms.Len(); i++ {
			sel := ms.At(i)
			if sel.Obj().Name() == name && sel.Obj().Pkg() == sp.Pkg {
				// only methods declared on this type (not promoted)
				if len(sel.Index()) == 1 {
					if f := p.SSA.MethodValue(sel); f != nil && f.Synthetic == "" {
						return f
					}
				}
			}
		}
	}
	return nil
}

// FuncDecl returns the syntax of an SSA function declared in source.
func (p *Program) FuncDecl(fn *ssa.Function) *ast.FuncDecl {
	if fn == nil {
		return nil
	}
	if d, ok := fn.Syntax().(*ast.FuncDecl); ok {
		return d
	}
	return nil
}

// Info returns the types.Info of the package that declares fn.
func (p *Program) Info(fn *ssa.Function) *types.Info {
	if fn == nil || fn.Pkg == nil {
		// anonymous functions: walk to parent
		for f := fn; f != nil; f = f.Parent() {
			if f.Pkg != nil {
				if pk := p.ByPath[f.Pkg.Pkg.Path()]; pk != nil {
					return pk.TypesInfo
				}
			}
		}
		return nil
	}
	if pk := p.ByPath[fn.Pkg.Pkg.Path()]; pk != nil {
		return pk.TypesInfo
	}
	return nil
}

// AllFuncs returns every source-level function (including anonymous ones) of repo packages,
// in deterministic order.
// AllFuncs lists the source functions of the repo packages. Helpers unknown on the reference tree whose every call
// site was inlined by the normaliser (no static caller left) are omitted: their logic is analysed where it now sits,
// in the context of its caller, and analysing the left-over declaration out of that context would be meaningless.
func (p *Program) AllFuncs() []*ssa.Function {
	if p.allFuncs != nil {
		return p.allFuncs
	}
	all := p.allFuncsRaw()
	if len(p.NewFuncs) == 0 {
		p.allFuncs = all
		return all
	}
	isNew := map[string]bool{}
	for _, k := range p.NewFuncs {
		isNew[k] = true
	}
	called := map[*ssa.Function]bool{}
	for _, f := range all {
		for _, b := range f.Blocks {
			for _, in := range b.Instrs {
				if cl, ok := in.(ssa.CallInstruction); ok {
					if callee := cl.Common().StaticCallee(); callee != nil {
						called[callee] = true
					}
				}
				// a function value taken (method value, passed as argument) also keeps it alive
				for _, op := range in.Operands(nil) {
					if op == nil || *op == nil {
						continue
					}
					if fv, ok := (*op).(*ssa.Function); ok {
						if cl, isCall := in.(ssa.CallInstruction); !isCall || cl.Common().Value != *op {
							called[fv] = true
						}
					}
					if mc, ok := (*op).(*ssa.MakeClosure); ok {
						if fv, ok := mc.Fn.(*ssa.Function); ok {
							called[fv] = true
						}
					}
				}
			}
		}
	}
	var out []*ssa.Function
	for _, f := range all {
		root := f
		for root.Parent() != nil {
			root = root.Parent()
		}
		if obj, ok := root.Object().(*types.Func); ok && isNew[norm.FuncKey(obj)] && !called[root] {
			p.InlinedAway = append(p.InlinedAway, norm.FuncKey(obj))
			continue
		}
		out = append(out, f)
	}
	p.allFuncs = out
	return out
}

func (p *Program) allFuncsRaw() []*ssa.Function {
	var out []*ssa.Function
	seen := map[*ssa.Function]bool{}
	var add func(f *ssa.Function)
	add = func(f *ssa.Function) {
		if f == nil || seen[f] {
			return
		}
		seen[f] = true
		if f.Blocks != nil && f.Syntax() != nil {
			out = append(out, f)
		}
		for _, a := range f.AnonFuncs {
			add(a)
		}
	}
	for _, pk := range p.Pkgs {
		sp := p.SSAByPath[pk.PkgPath]
		for _, m := range sp.Members {
			switch m := m.(type) {
			case *ssa.Function:
				add(m)
			case *ssa.Type:
				if named, ok := m.Type().(*types.Named); ok {
					for _, t := range []types.Type{named, types.NewPointer(named)} {
						ms := p.SSA.MethodSets.MethodSet(t)
						for i := 0; i < ms.Len(); i++ {
							add(p.SSA.MethodValue(ms.At(i)))
						}
					}
				}
			}
		}
	}
	sort.SliceStable(out, func(i, j int) bool {
		a, b := out[i], out[j]
		if a.Pos() != b.Pos() {
			return a.Pos() < b.Pos()
		}
		return a.String() < b.String()
	})
	return out
}

// FuncName is a stable, line-free name for obligations.
func FuncName(fn *ssa.Function) string {
	if fn == nil {
		return "<nil>"
	}
	s := fn.String()
	s = strings.ReplaceAll(s, Module+"/", "")
	return s
}

// LoadNormalized loads the tree and, when it contains functions that do not exist on the reference tree (knownPath),
// inlines those helpers into their in-package callers (package norm) and reloads, bottom-up, at most four times.
// On the reference tree this is exactly Load.
func LoadNormalized(repo string, patterns []string, overlay map[string][]byte, knownPath string) (*Program, error) {
	t0 := time.Now()
	p, err := Load(repo, patterns, overlay)
	if err != nil {
		return nil, err
	}
	known, kerr := norm.LoadKnown(knownPath)
	if kerr != nil || len(known) == 0 || os.Getenv("KVERIF_NO_NORMALIZE") != "" {
		p.Notes = append(p.Notes, "normalisation off (no reference function list)")
		return p, nil
	}
	cur := map[string][]byte{}
	for k, v := range overlay {
		cur[k] = v
	}
	// pass 0a: renamed functions get their reference names back
	if rf := norm.RenameFuncs(p.Fset, p.Pkgs, known, cur); len(rf.Overlay) > 0 {
		next := map[string][]byte{}
		for k, v := range cur {
			next[k] = v
		}
		for k, v := range rf.Overlay {
			next[k] = v
		}
		if q, err := Load(repo, patterns, next); err == nil {
			q.Renamed = rf.Inlined
			q.Normalized = next
			p, cur = q, next
		} else {
			p.Notes = append(p.Notes, "function renaming abandoned (rewritten source does not load): "+firstLine(err.Error()))
		}
	}
	renamed := p.Renamed
	// pass 0b: parameters of known functions get their reference names back
	if rn := norm.RenameParams(p.Fset, p.Pkgs, known, cur); len(rn.Overlay) > 0 {
		next := map[string][]byte{}
		for k, v := range cur {
			next[k] = v
		}
		for k, v := range rn.Overlay {
			next[k] = v
		}
		if q, err := Load(repo, patterns, next); err == nil {
			q.Inlined = rn.Inlined
			q.Skipped = rn.Skipped
			q.Normalized = next
			q.Renamed = renamed
			p, cur = q, next
		} else {
			p.Notes = append(p.Notes, "parameter renaming abandoned (rewritten source does not load): "+firstLine(err.Error()))
		}
	} else {
		p.Skipped = append(p.Skipped, rn.Skipped...)
	}
	for pass := 1; pass <= 4; pass++ {
		res := norm.Normalize(p.Fset, p.Pkgs, known, cur)
		if pass == 1 {
			p.NewFuncs = res.NewFuncs
		}
		if len(res.Overlay) == 0 {
			p.Skipped = append(p.Skipped, res.Skipped...)
			break
		}
		next := map[string][]byte{}
		for k, v := range cur {
			next[k] = v
		}
		for k, v := range res.Overlay {
			next[k] = v
		}
		q, err := Load(repo, patterns, next)
		if err != nil {
			// the rewritten source does not type-check: keep the last good program and say so
			p.Notes = append(p.Notes, fmt.Sprintf("normalisation pass %d abandoned (rewritten source does not load): %v", pass, firstLine(err.Error())))
			break
		}
		q.Inlined = append(p.Inlined, res.Inlined...)
		q.Skipped = p.Skipped
		q.NewFuncs = p.NewFuncs
		q.Notes = p.Notes
		q.Renamed = p.Renamed
		q.Normalized = next
		p, cur = q, next
	}
	p.LoadTime = time.Since(t0)
	return p, nil
}

func firstLine(s string) string {
	if len(s) > 600 {
		s = s[:600]
	}
	return strings.ReplaceAll(s, "\n", " | ")
}
