// Package mut produces behaviour-preserving source variants of repo files, mechanically and at scale, to test that
// the rules stay silent on them (negative controls that need no sub-agent):
//
//	else    every "if c { A } else { B }" (no init, plain else block) becomes "if !(c) { B } else { A }"
//	locals  every local variable gets a new name
//	params  every parameter and receiver gets a new name
//	wrap    every function body moves into a new helper that the function calls (extract method, wholesale)
//
// The variants are returned as overlays; nothing is written into /repo and nothing is executed.
package mut

import (
	"fmt"
	"go/ast"
	"go/token"
	"go/types"
	"os"
	"sort"
	"strings"

	"golang.org/x/tools/go/packages"
)

type edit struct {
	start, end int
	text       string
}

func apply(src string, eds []edit) (string, bool) {
	sort.Slice(eds, func(i, j int) bool { return eds[i].start > eds[j].start })
	last := len(src) + 1
	for _, e := range eds {
		if e.end > last { // overlapping edits: give up on this file
			return "", false
		}
		src = src[:e.start] + e.text + src[e.end:]
		last = e.start
	}
	return src, true
}

// Variant applies mutator kind to the given files (absolute names) of the loaded packages.
func Variant(fset *token.FileSet, pkgs []*packages.Package, files map[string]bool, kind string, base map[string][]byte) (map[string][]byte, int, error) {
	out := map[string][]byte{}
	total := 0
	for _, pk := range pkgs {
		if pk.TypesInfo == nil {
			continue
		}
		for _, f := range pk.Syntax {
			name := fset.File(f.Pos()).Name()
			if !files[name] {
				continue
			}
			b, ok := base[name]
			if !ok {
				var err error
				b, err = os.ReadFile(name)
				if err != nil {
					return nil, 0, err
				}
			}
			src := string(b)
			off := func(p token.Pos) int { return fset.Position(p).Offset }
			var eds []edit
			switch kind {
			case "else":
				ast.Inspect(f, func(x ast.Node) bool {
					is, ok := x.(*ast.IfStmt)
					if !ok || is.Init != nil {
						return true
					}
					eb, ok := is.Else.(*ast.BlockStmt)
					if !ok {
						return true
					}
					// nested candidates inside would overlap: only rewrite ifs whose arms contain no other candidate
					nested := false
					for _, arm := range []*ast.BlockStmt{is.Body, eb} {
						ast.Inspect(arm, func(y ast.Node) bool {
							if i2, ok := y.(*ast.IfStmt); ok && i2.Init == nil {
								if _, ok := i2.Else.(*ast.BlockStmt); ok {
									nested = true
								}
							}
							return true
						})
					}
					if nested {
						return true
					}
					cond := src[off(is.Cond.Pos()):off(is.Cond.End())]
					body := src[off(is.Body.Pos()):off(is.Body.End())]
					els := src[off(eb.Pos()):off(eb.End())]
					eds = append(eds, edit{off(is.Pos()), off(is.End()), "if !(" + cond + ") " + els + " else " + body})
					return true
				})
			case "locals", "params":
				used := map[string]bool{}
				ast.Inspect(f, func(x ast.Node) bool {
					if id, ok := x.(*ast.Ident); ok {
						used[id.Name] = true
					}
					return true
				})
				ren := map[types.Object]string{}
				consider := func(id *ast.Ident, isParam bool) {
					if id == nil || id.Name == "_" {
						return
					}
					obj, _ := pk.TypesInfo.Defs[id].(*types.Var)
					if obj == nil || obj.IsField() || obj.Parent() == pk.Types.Scope() {
						return
					}
					if (kind == "params") != isParam {
						return
					}
					nn := id.Name + "Zq"
					if used[nn] {
						return
					}
					ren[obj] = nn
				}
				for _, d := range f.Decls {
					fd, ok := d.(*ast.FuncDecl)
					if !ok || fd.Body == nil {
						continue
					}
					paramIdents := map[*ast.Ident]bool{}
					lists := []*ast.FieldList{fd.Recv, fd.Type.Params, fd.Type.Results}
					ast.Inspect(fd, func(x ast.Node) bool {
						if fl, ok := x.(*ast.FuncLit); ok {
							lists = append(lists, fl.Type.Params, fl.Type.Results)
						}
						return true
					})
					resultIdents := map[*ast.Ident]bool{}
					for li, l := range lists {
						if l == nil {
							continue
						}
						for _, fld := range l.List {
							for _, nm := range fld.Names {
								paramIdents[nm] = true
								if li == 2 {
									resultIdents[nm] = true
								}
							}
						}
					}
					ast.Inspect(fd, func(x ast.Node) bool {
						if id, ok := x.(*ast.Ident); ok {
							if _, isDef := pk.TypesInfo.Defs[id]; isDef {
								if resultIdents[id] {
									return true // named results keep their names
								}
								// only parameters of the declared function itself count as "params" (closures' are locals of the body)
								isTop := false
								for _, l := range []*ast.FieldList{fd.Recv, fd.Type.Params} {
									if l == nil {
										continue
									}
									for _, fld := range l.List {
										for _, nm := range fld.Names {
											if nm == id {
												isTop = true
											}
										}
									}
								}
								if paramIdents[id] && !isTop {
									return true
								}
								consider(id, isTop)
							}
						}
						return true
					})
				}
				// type-switch symbolic variables have implicit objects per clause: leave them alone
				skip := map[types.Object]bool{}
				for _, o := range pk.TypesInfo.Implicits {
					skip[o] = true
				}
				ast.Inspect(f, func(x ast.Node) bool {
					id, ok := x.(*ast.Ident)
					if !ok {
						return true
					}
					var obj types.Object = pk.TypesInfo.Defs[id]
					if obj == nil {
						obj = pk.TypesInfo.Uses[id]
					}
					if nn, ok := ren[obj]; ok && obj != nil && !skip[obj] {
						eds = append(eds, edit{off(id.Pos()), off(id.End()), nn})
					}
					return true
				})
			case "wrap":
				for _, d := range f.Decls {
					fd, ok := d.(*ast.FuncDecl)
					if !ok || fd.Body == nil || fd.Type.TypeParams != nil || fd.Name.Name == "init" || fd.Name.Name == "main" {
						continue
					}
					if fd.Recv != nil {
						if len(fd.Recv.List) != 1 || len(fd.Recv.List[0].Names) != 1 || fd.Recv.List[0].Names[0].Name == "_" {
							continue
						}
						// receivers of generic types
						if strings.Contains(src[off(fd.Recv.Pos()):off(fd.Recv.End())], "[") {
							continue
						}
					}
					okNames := true
					var args []string
					for _, fld := range fd.Type.Params.List {
						if len(fld.Names) == 0 {
							okNames = false
						}
						for _, nm := range fld.Names {
							if nm.Name == "_" {
								okNames = false
							}
							a := nm.Name
							if _, isVar := fld.Type.(*ast.Ellipsis); isVar {
								a += "..."
							}
							args = append(args, a)
						}
					}
					named := false
					if fd.Type.Results != nil {
						for _, fld := range fd.Type.Results.List {
							if len(fld.Names) > 0 {
								named = true
							}
						}
					}
					hasDefer := false
					ast.Inspect(fd.Body, func(x ast.Node) bool {
						switch x.(type) {
						case *ast.FuncLit:
							return false
						case *ast.DeferStmt:
							hasDefer = true
						}
						return true
					})
					if !okNames || (named && hasDefer) {
						continue
					}
					impl := fd.Name.Name + "ZqImpl"
					sigEnd := off(fd.Body.Pos())
					header := src[off(fd.Pos()):sigEnd] // "func (r T) Name(params) results "
					nameOff := off(fd.Name.Pos()) - off(fd.Pos())
					implHeader := header[:nameOff] + impl + header[nameOff+len(fd.Name.Name):]
					callee := impl
					if fd.Recv != nil {
						callee = fd.Recv.List[0].Names[0].Name + "." + impl
					}
					call := callee + "(" + strings.Join(args, ", ") + ")"
					stub := "{\n\t" + call + "\n}"
					if fd.Type.Results != nil && len(fd.Type.Results.List) > 0 {
						stub = "{\n\treturn " + call + "\n}"
					}
					body := src[off(fd.Body.Pos()):off(fd.Body.End())]
					eds = append(eds, edit{off(fd.Body.Pos()), off(fd.Body.End()), stub + "\n\n" + implHeader + body})
				}
			default:
				return nil, 0, fmt.Errorf("unknown mutator %q", kind)
			}
			if len(eds) == 0 {
				continue
			}
			txt, ok := apply(src, eds)
			if !ok {
				continue
			}
			out[name] = []byte(txt)
			total += len(eds)
		}
	}
	return out, total, nil
}
