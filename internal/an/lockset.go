package an

import (
	"fmt"
	"go/token"
	"go/types"
	"sort"
	"strings"

	"golang.org/x/tools/go/ssa"
)

// LockSpec configures the lock discipline of one struct type.
type LockSpec struct {
	Type    *types.Named    // the struct type
	Mutex   string          // name of the mutex field ("" = any sync.Mutex/RWMutex field incl. embedded)
	Guarded map[string]bool // guarded field names
	// WriteOnly: only writes are checked (reads are not claimed).
	WriteOnly bool
	// MutatorMethods: method names which, invoked on (the address of / the value loaded from) a guarded
	// field, count as writes.
	MutatorMethods map[string]bool
	// ExemptFuncs: functions (FullName) that are documented to run before the object is shared,
	// each with a one-line reason.
	ExemptFuncs map[string]string
	// HeldBy: wrapper functions (FullName) that return with the lock of their i-th argument held for
	// writing until the caller's exit: name -> argument index.
	HeldBy map[string]int
	// FreshCtors: functions (FullName) whose result is a new, not yet shared object.
	FreshCtors map[string]bool
	// ElemHeldBy: wrapper functions (FullName) that return with the locks of ALL elements of their i-th argument
	// (a slice of objects) held for writing until the caller's exit (the unlock is the returned func, deferred).
	ElemHeldBy map[string]int
	// AltHeld: an alternative that makes an access safe although the object's own lock is not held (e.g. an
	// exclusive tree lock); decided by the rule that owns the spec.
	AltHeld func(fn *ssa.Function, instr ssa.Instruction) bool
	// SubGuard narrows a guarded field that is a struct to some of its components: it is asked for every
	// address &obj.guarded and says whether this use touches a component that is part of the discipline.
	SubGuard func(addr ssa.Value) bool
}

// ElemReq is added to a parameter index to express "the locks of all elements of this slice parameter".
const ElemReq = 1000

// elemOf: v is an element read from a slice (s[i], possibly of a re-sliced s[a:b]); returns the root slice.
func elemOf(v ssa.Value) (ssa.Value, bool) {
	v = resolveCell(Origin(v))
	ld, ok := v.(*ssa.UnOp)
	if !ok || ld.Op != token.MUL {
		return nil, false
	}
	ia, ok := ld.X.(*ssa.IndexAddr)
	if !ok {
		return nil, false
	}
	if _, isSlice := ia.X.Type().Underlying().(*types.Slice); !isSlice {
		return nil, false
	}
	return ia.X, true
}

func sliceRoot(v ssa.Value) ssa.Value {
	c := sliceChain(v)
	return c[len(c)-1]
}

// sliceChain: v and the slices it was cut from (v = w[a:b] ...), innermost first; a lock on the elements of any of
// them covers the elements of v.
func sliceChain(v ssa.Value) []ssa.Value {
	var out []ssa.Value
	for d := 0; d < 8; d++ {
		v = resolveCell(Origin(v))
		out = append(out, v)
		sl, ok := v.(*ssa.Slice)
		if !ok {
			break
		}
		v = sl.X
	}
	return out
}

// wholeSlice strips re-slicings without bounds (s[:]) only.
func wholeSlice(v ssa.Value) ssa.Value {
	for d := 0; d < 8; d++ {
		v = resolveCell(Origin(v))
		sl, ok := v.(*ssa.Slice)
		if !ok || sl.Low != nil || sl.High != nil || sl.Max != nil {
			return v
		}
		v = sl.X
	}
	return v
}

func elemsHeld(ls lockset, slice ssa.Value, m lockMode) bool {
	for _, s := range sliceChain(slice) {
		if ls["elems:"+BaseKey(s)] >= m {
			return true
		}
	}
	return false
}

type lockMode uint8

const (
	modeR lockMode = 1
	modeW lockMode = 2
)

type lockset map[string]lockMode // base key -> strongest mode held

func (l lockset) clone() lockset {
	o := make(lockset, len(l))
	for k, v := range l {
		o[k] = v
	}
	return o
}

func intersect(a, b lockset) lockset {
	o := lockset{}
	for k, v := range a {
		if w, ok := b[k]; ok {
			if w < v {
				v = w
			}
			o[k] = v
		}
	}
	return o
}

func equalLS(a, b lockset) bool {
	if len(a) != len(b) {
		return false
	}
	for k, v := range a {
		if b[k] != v {
			return false
		}
	}
	return true
}

// BaseKey identifies the object a lock or an access refers to. Values that are pure access
// paths over parameters are compared by path, everything else by SSA value identity.
func BaseKey(v ssa.Value) string {
	v = resolveCell(Origin(v))
	if purePath(v, 0) {
		return "path:" + Path(v)
	}
	// field selections from one SSA value (a call result, a range element, ...): the value's identity plus the
	// selected fields, so that two loads of x.f from the same x denote the same object (same caveat as for paths:
	// no store to the field in between).
	var sel []string
	root := v
walk:
	for d := 0; d < 8; d++ {
		switch x := root.(type) {
		case *ssa.UnOp:
			fa, ok := x.X.(*ssa.FieldAddr)
			if x.Op != token.MUL || !ok {
				break walk
			}
			sel = append(sel, fieldName(fa.X.Type(), fa.Field))
			root = resolveCell(Origin(fa.X))
		case *ssa.FieldAddr:
			sel = append(sel, "&"+fieldName(x.X.Type(), x.Field))
			root = resolveCell(Origin(x.X))
		case *ssa.Field:
			sel = append(sel, fieldName(x.X.Type(), x.Field))
			root = resolveCell(Origin(x.X))
		default:
			break walk
		}
	}
	if len(sel) > 0 {
		return fmt.Sprintf("val:%s@%p/%s", root.Name(), root, strings.Join(sel, "/"))
	}
	return fmt.Sprintf("val:%s@%p", v.Name(), v)
}

func purePath(v ssa.Value, d int) bool {
	if d > 8 {
		return false
	}
	switch x := v.(type) {
	case *ssa.Parameter, *ssa.FreeVar, *ssa.Global:
		return true
	case *ssa.UnOp:
		if x.Op != token.MUL {
			return false
		}
		switch a := x.X.(type) {
		case *ssa.FieldAddr:
			return purePath(a.X, d+1)
		case *ssa.Global:
			return true
		case *ssa.FreeVar:
			return true
		}
		return false
	case *ssa.FieldAddr:
		return purePath(x.X, d+1)
	case *ssa.Field:
		return purePath(x.X, d+1)
	case *ssa.ChangeType:
		return purePath(x.X, d+1)
	}
	return false
}

// LockAccess is one access to a guarded field.
type LockAccess struct {
	Fn     *ssa.Function
	Instr  ssa.Instruction
	Field  string
	Write  bool
	Base   ssa.Value
	Held   lockMode // mode held on Base at the access (0 = none)
	Status string   // "held", "fresh", "requires", "unlocked", "exempt"
}

// LockFinding is an unmet lock requirement at an entry point or an unlocked access.
type LockFinding struct {
	Fn     *ssa.Function
	Instr  ssa.Instruction // offending access or call site
	Field  string
	Write  bool
	Reason string
}

type lockReq struct {
	// parameter index (including receiver at 0; -1-k for free variable k) -> needed mode and witness
	mode    lockMode
	field   string
	witness ssa.Instruction
	via     string
}

// LockResult summarises the analysis of one LockSpec.
type LockResult struct {
	Accesses  []LockAccess
	Findings  []LockFinding
	FuncsSeen map[*ssa.Function]int // functions with direct accesses -> count
	// Requires: functions that need the lock on entry (on which parameter), after propagation.
	Requires map[*ssa.Function]map[int]lockMode
}

type lockAnalysis struct {
	spec      *LockSpec
	funcs     []*ssa.Function
	in        map[*ssa.Function][]lockset // lockset at block entry
	callers   map[*ssa.Function][]ssa.CallInstruction
	closure   map[*ssa.Function][]*ssa.MakeClosure
	addrTaken map[*ssa.Function]bool
	invokes   map[string][]ssa.CallInstruction
}

func isMutexType(t types.Type) bool {
	n := NamedOf(t)
	if n == nil || n.Obj().Pkg() == nil {
		return false
	}
	return n.Obj().Pkg().Path() == "sync" && (n.Obj().Name() == "Mutex" || n.Obj().Name() == "RWMutex")
}

// lockOp recognises x.M.Lock() etc. and returns the base value whose lock is operated.
func (la *lockAnalysis) lockOp(ci ssa.CallInstruction) (base ssa.Value, op string, ok bool) {
	cc := ci.Common()
	f := cc.StaticCallee()
	if f == nil || f.Pkg == nil || f.Pkg.Pkg.Path() != "sync" || f.Signature.Recv() == nil {
		return nil, "", false
	}
	switch f.Name() {
	case "Lock", "Unlock", "RLock", "RUnlock":
	default:
		return nil, "", false
	}
	if len(cc.Args) == 0 {
		return nil, "", false
	}
	fa, isFA := cc.Args[0].(*ssa.FieldAddr)
	if !isFA && la.spec.Type == nil {
		// a mutex held by pointer (lock *sync.RWMutex): x.lock.Lock() operates on the loaded field
		if ld, ok := cc.Args[0].(*ssa.UnOp); ok && ld.Op == token.MUL {
			if pfa, ok := ld.X.(*ssa.FieldAddr); ok {
				if pt, ok := pfa.Type().(*types.Pointer).Elem().(*types.Pointer); ok && isMutexType(pt.Elem()) {
					return pfa, f.Name(), true
				}
			}
		}
	}
	if !isFA {
		return nil, "", false
	}
	if !isMutexType(fa.Type().(*types.Pointer).Elem()) {
		return nil, "", false
	}
	if la.spec.Type == nil {
		// any mutex of any object: the key is the field address itself
		return fa, f.Name(), true
	}
	owner := NamedOf(fa.X.Type())
	if owner == nil || owner.Obj() != la.spec.Type.Obj() {
		return nil, "", false
	}
	if la.spec.Mutex != "" && fieldName(fa.X.Type(), fa.Field) != la.spec.Mutex {
		return nil, "", false
	}
	return fa.X, f.Name(), true
}

func (la *lockAnalysis) transfer(ls lockset, in ssa.Instruction) {
	ci, ok := in.(ssa.CallInstruction)
	if !ok {
		return
	}
	if _, isDefer := in.(*ssa.Defer); isDefer {
		// deferred unlocks keep the lock until exit; deferred wrapper-returned unlock funcs likewise
		return
	}
	if _, isGo := in.(*ssa.Go); isGo {
		return
	}
	if base, op, ok := la.lockOp(ci); ok {
		k := BaseKey(base)
		switch op {
		case "Lock":
			ls[k] = modeW
		case "RLock":
			if ls[k] < modeR {
				ls[k] = modeR
			}
		case "Unlock":
			delete(ls, k)
		case "RUnlock":
			if ls[k] == modeR {
				delete(ls, k)
			}
		}
		return
	}
	if la.spec.ElemHeldBy != nil {
		if f := ci.Common().StaticCallee(); f != nil {
			if idx, ok := la.spec.ElemHeldBy[FullName(f)]; ok && deferredResult(ci) {
				as := Args(ci.Common())
				if idx < len(as) {
					ls["elems:"+BaseKey(wholeSlice(as[idx]))] = modeW
				}
			}
		}
	}
	if la.spec.HeldBy != nil {
		if f := ci.Common().StaticCallee(); f != nil {
			if idx, ok := la.spec.HeldBy[FullName(f)]; ok {
				as := Args(ci.Common())
				if idx < len(as) {
					ls[BaseKey(as[idx])] = modeW
				}
			}
		}
	}
}

func (la *lockAnalysis) compute(fn *ssa.Function) []lockset {
	if r, ok := la.in[fn]; ok {
		return r
	}
	n := len(fn.Blocks)
	in := make([]lockset, n)
	out := make([]lockset, n)
	done := make([]bool, n)
	if n == 0 {
		la.in[fn] = in
		return in
	}
	in[0] = lockset{}
	work := []int{0}
	for len(work) > 0 {
		bi := work[0]
		work = work[1:]
		b := fn.Blocks[bi]
		ls := in[bi].clone()
		for _, instr := range b.Instrs {
			la.transfer(ls, instr)
		}
		if done[bi] && equalLS(out[bi], ls) {
			continue
		}
		done[bi] = true
		out[bi] = ls
		for _, s := range b.Succs {
			var nin lockset
			if in[s.Index] == nil {
				nin = ls.clone()
			} else {
				nin = intersect(in[s.Index], ls)
			}
			if in[s.Index] == nil || !equalLS(in[s.Index], nin) {
				in[s.Index] = nin
				work = append(work, s.Index)
			}
		}
	}
	la.in[fn] = in
	return in
}

// deferredResult: the func value returned by the call is invoked by a defer of the same function and by nothing else.
func deferredResult(ci ssa.CallInstruction) bool {
	v := ci.Value()
	if v == nil || v.Referrers() == nil {
		return false
	}
	n := 0
	for _, ref := range *v.Referrers() {
		d, ok := ref.(*ssa.Defer)
		if !ok || d.Call.Value != ssa.Value(v) {
			return false
		}
		n++
	}
	return n == 1
}

// heldAt returns the lockset just before instr.
func (la *lockAnalysis) heldAt(instr ssa.Instruction) lockset {
	fn := instr.Parent()
	in := la.compute(fn)
	b := instr.Block()
	ls := in[b.Index]
	if ls == nil {
		return lockset{} // unreachable block
	}
	ls = ls.clone()
	for _, x := range b.Instrs {
		if x == instr {
			break
		}
		la.transfer(ls, x)
	}
	return ls
}

// classify decides whether the use of a guarded field address is a write.
func (la *lockAnalysis) isWrite(fa ssa.Value, depth int) bool {
	if depth > 3 {
		return false
	}
	refs := fa.Referrers()
	if refs == nil {
		return false
	}
	for _, r := range *refs {
		switch x := r.(type) {
		case *ssa.Store:
			if x.Addr == fa {
				return true
			}
		case *ssa.MapUpdate:
			if x.Map == fa {
				return true
			}
		case *ssa.UnOp:
			if x.Op == token.MUL && x.X == fa {
				if la.isWrite(x, depth+1) {
					return true
				}
			}
		case *ssa.Lookup:
			if x.X == fa && la.isWrite(x, depth+1) {
				return true
			}
		case *ssa.Extract:
			if la.isWrite(x, depth+1) {
				return true
			}
		case *ssa.FieldAddr:
			if x.X == fa && la.isWrite(x, depth+1) {
				return true
			}
		case *ssa.IndexAddr:
			if x.X == fa && la.isWrite(x, depth+1) {
				return true
			}
		case ssa.CallInstruction:
			cc := x.Common()
			if bi, ok := cc.Value.(*ssa.Builtin); ok {
				if bi.Name() == "delete" && len(cc.Args) > 0 && cc.Args[0] == fa {
					return true
				}
				continue
			}
			if la.spec.MutatorMethods != nil {
				as := Args(cc)
				if len(as) > 0 && as[0] == fa && la.spec.MutatorMethods[ShortCallee(cc)] {
					return true
				}
			}
		}
	}
	return false
}

// AnalyzeLock runs the lockset discipline for spec over funcs.
func AnalyzeLock(spec *LockSpec, funcs []*ssa.Function) *LockResult {
	la := &lockAnalysis{spec: spec, funcs: funcs, in: map[*ssa.Function][]lockset{}, callers: map[*ssa.Function][]ssa.CallInstruction{}, closure: map[*ssa.Function][]*ssa.MakeClosure{}, addrTaken: map[*ssa.Function]bool{}, invokes: map[string][]ssa.CallInstruction{}}
	res := &LockResult{FuncsSeen: map[*ssa.Function]int{}, Requires: map[*ssa.Function]map[int]lockMode{}}
	// index call sites, closures and address-taken functions
	for _, fn := range funcs {
		for _, b := range fn.Blocks {
			for _, in := range b.Instrs {
				if ci, ok := in.(ssa.CallInstruction); ok {
					if f := ci.Common().StaticCallee(); f != nil {
						la.callers[f] = append(la.callers[f], ci)
					}
					if ci.Common().IsInvoke() {
						la.invokes[ci.Common().Method.Name()] = append(la.invokes[ci.Common().Method.Name()], ci)
					}
				}
				if mc, ok := in.(*ssa.MakeClosure); ok {
					if f, ok := mc.Fn.(*ssa.Function); ok {
						la.closure[f] = append(la.closure[f], mc)
					}
				}
				// function values used other than as callee
				for _, op := range in.Operands(nil) {
					if op == nil || *op == nil {
						continue
					}
					if f, ok := (*op).(*ssa.Function); ok {
						if ci, isCall := in.(ssa.CallInstruction); isCall && ci.Common().Value == f {
							continue
						}
						if _, isMC := in.(*ssa.MakeClosure); isMC {
							continue
						}
						la.addrTaken[f] = true
					}
				}
			}
		}
	}
	reqs := map[*ssa.Function]map[int]*lockReq{}
	addReq := func(fn *ssa.Function, idx int, m lockMode, field string, w ssa.Instruction, via string) bool {
		if reqs[fn] == nil {
			reqs[fn] = map[int]*lockReq{}
		}
		if old, ok := reqs[fn][idx]; ok && old.mode >= m {
			return false
		}
		reqs[fn][idx] = &lockReq{mode: m, field: field, witness: w, via: via}
		return true
	}
	paramIndex := func(fn *ssa.Function, v ssa.Value) (int, bool) {
		v = Origin(v)
		for i, p := range fn.Params {
			if ssa.Value(p) == v {
				return i, true
			}
		}
		for i, fv := range fn.FreeVars {
			if ssa.Value(fv) == v {
				return -1 - i, true
			}
		}
		// a parameter spilled into a local cell (captured by a closure): *cell, cell only ever holds the parameter
		if u, ok := v.(*ssa.UnOp); ok && u.Op == token.MUL {
			if a, ok := u.X.(*ssa.Alloc); ok {
				var only ssa.Value
				n := 0
				for _, ref := range *a.Referrers() {
					if st, ok := ref.(*ssa.Store); ok && st.Addr == a {
						only = st.Val
						n++
					}
				}
				if n == 1 {
					for i, p := range fn.Params {
						if ssa.Value(p) == only {
							return i, true
						}
					}
				}
			}
		}
		// a pointer-typed free variable cell holding the object: *fv
		if u, ok := v.(*ssa.UnOp); ok && u.Op == token.MUL {
			for i, fv := range fn.FreeVars {
				if u.X == ssa.Value(fv) {
					return -1 - i, true
				}
			}
		}
		return 0, false
	}
	isFresh := func(v ssa.Value) bool {
		v = Origin(v)
		switch x := v.(type) {
		case *ssa.Alloc:
			return true
		case *ssa.Call:
			if f := x.Call.StaticCallee(); f != nil && spec.FreshCtors[FullName(f)] {
				return true
			}
		case *ssa.UnOp:
			// load of a local cell that only ever holds fresh objects
			if a, ok := x.X.(*ssa.Alloc); ok && x.Op == token.MUL {
				fresh := false
				for _, ref := range *a.Referrers() {
					if st, ok := ref.(*ssa.Store); ok && st.Addr == a {
						if _, isAlloc := Origin(st.Val).(*ssa.Alloc); isAlloc {
							fresh = true
						} else {
							return false
						}
					}
				}
				return fresh
			}
		}
		return false
	}
	// need(fn, instr, base, mode): decide how the requirement "lock of base held in mode at instr" is met.
	var work []*ssa.Function
	need := func(fn *ssa.Function, instr ssa.Instruction, base ssa.Value, m lockMode, field, via string) string {
		if why, ok := spec.ExemptFuncs[FullName(fn)]; ok {
			_ = why
			return "exempt"
		}
		ls := la.heldAt(instr)
		if ls[BaseKey(base)] >= m {
			return "held"
		}
		if isFresh(base) {
			return "fresh"
		}
		if idx, ok := paramIndex(fn, base); ok {
			if addReq(fn, idx, m, field, instr, via) {
				work = append(work, fn)
			}
			return "requires"
		}
		if sl, ok := elemOf(base); ok {
			if elemsHeld(ls, sl, m) {
				return "held"
			}
			if idx, ok := paramIndex(fn, sliceRoot(sl)); ok && idx >= 0 {
				if addReq(fn, ElemReq+idx, m, field, instr, via) {
					work = append(work, fn)
				}
				return "requires"
			}
		}
		if spec.AltHeld != nil && spec.AltHeld(fn, instr) {
			return "held"
		}
		what := "read"
		if m == modeW {
			what = "write"
		}
		held := "no lock of this object is held"
		if ls[BaseKey(base)] == modeR {
			held = "only the read lock is held"
		}
		res.Findings = append(res.Findings, LockFinding{Fn: fn, Instr: instr, Field: field, Write: m == modeW,
			Reason: fmt.Sprintf("%s of %s.%s%s: %s (object %s is neither a parameter, nor freshly allocated)", what, spec.Type.Obj().Name(), field, via, held, Path(base))})
		return "unlocked"
	}
	// needElems: the locks of all elements of slice must be held at instr.
	needElems := func(fn *ssa.Function, instr ssa.Instruction, slice ssa.Value, m lockMode, field, via string) string {
		if _, ok := spec.ExemptFuncs[FullName(fn)]; ok {
			return "exempt"
		}
		sl := sliceRoot(slice)
		ls := la.heldAt(instr)
		if elemsHeld(ls, slice, m) {
			return "held"
		}
		if idx, ok := paramIndex(fn, sl); ok && idx >= 0 {
			if addReq(fn, ElemReq+idx, m, field, instr, via) {
				work = append(work, fn)
			}
			return "requires"
		}
		if spec.AltHeld != nil && spec.AltHeld(fn, instr) {
			return "held"
		}
		res.Findings = append(res.Findings, LockFinding{Fn: fn, Instr: instr, Field: field, Write: m == modeW,
			Reason: fmt.Sprintf("the locks of the elements of %s are not held%s", Path(sl), via)})
		return "unlocked"
	}
	// 1. direct accesses
	for _, fn := range funcs {
		for _, b := range fn.Blocks {
			for _, in := range b.Instrs {
				var base ssa.Value
				var fld string
				var addr ssa.Value
				switch x := in.(type) {
				case *ssa.FieldAddr:
					if n := NamedOf(x.X.Type()); n != nil && n.Obj() == spec.Type.Obj() {
						base, fld, addr = x.X, fieldName(x.X.Type(), x.Field), x
					}
				case *ssa.Field:
					if n := NamedOf(x.X.Type()); n != nil && n.Obj() == spec.Type.Obj() {
						base, fld, addr = x.X, fieldName(x.X.Type(), x.Field), x
					}
				}
				if base == nil || !spec.Guarded[fld] {
					continue
				}
				if spec.SubGuard != nil && !spec.SubGuard(addr) {
					continue
				}
				w := la.isWrite(addr, 0)
				if spec.WriteOnly && !w {
					continue
				}
				m := modeR
				if w {
					m = modeW
				}
				st := need(fn, in, base, m, fld, "")
				res.Accesses = append(res.Accesses, LockAccess{Fn: fn, Instr: in, Field: fld, Write: w, Base: base, Status: st})
				res.FuncsSeen[fn]++
			}
		}
	}
	// 2. propagate requirements to callers
	seenWork := 0
	for len(work) > 0 && seenWork < 100000 {
		seenWork++
		fn := work[0]
		work = work[1:]
		for idx, rq := range reqs[fn] {
			via := fmt.Sprintf(" (needed by %s for %s)", shortPkg(FullName(fn)), rq.field)
			if idx >= ElemReq {
				for _, cs := range la.callers[fn] {
					as := cs.Common().Args
					if idx-ElemReq >= len(as) {
						continue
					}
					if _, isGo := cs.(*ssa.Go); isGo {
						res.Findings = append(res.Findings, LockFinding{Fn: cs.Parent(), Instr: cs, Field: rq.field, Write: rq.mode == modeW,
							Reason: "goroutine started on " + shortPkg(FullName(fn)) + " which needs the locks of the elements of its argument on entry"})
						continue
					}
					needElems(cs.Parent(), cs, as[idx-ElemReq], rq.mode, rq.field, via)
				}
				continue
			}
			if idx >= 0 {
				// interface dispatch that may reach fn
				if recv := fn.Signature.Recv(); recv != nil {
					for _, cs := range la.invokes[fn.Name()] {
						it, ok := cs.Common().Value.Type().Underlying().(*types.Interface)
						if !ok || !types.Implements(recv.Type(), it) {
							continue
						}
						as := Args(cs.Common())
						if idx >= len(as) {
							continue
						}
						if _, isGo := cs.(*ssa.Go); isGo {
							res.Findings = append(res.Findings, LockFinding{Fn: cs.Parent(), Instr: cs, Field: rq.field, Write: rq.mode == modeW,
								Reason: "goroutine started (through an interface) on " + shortPkg(FullName(fn)) + " which needs the lock of its argument on entry"})
							continue
						}
						need(cs.Parent(), cs, as[idx], rq.mode, rq.field, via+" via interface")
					}
				}
				for _, cs := range la.callers[fn] {
					as := cs.Common().Args
					if idx >= len(as) {
						continue
					}
					caller := cs.Parent()
					if _, isGo := cs.(*ssa.Go); isGo {
						if _, ok := spec.ExemptFuncs[FullName(caller)]; !ok && !isFresh(as[idx]) {
							res.Findings = append(res.Findings, LockFinding{Fn: caller, Instr: cs, Field: rq.field, Write: rq.mode == modeW,
								Reason: "goroutine started on " + shortPkg(FullName(fn)) + " which needs the lock of its argument on entry"})
						}
						continue
					}
					need(caller, cs, as[idx], rq.mode, rq.field, via)
				}
			} else {
				// free variable of a closure: the binding at MakeClosure time
				k := -1 - idx
				for _, mc := range la.closure[fn] {
					if k >= len(mc.Bindings) {
						continue
					}
					bind := mc.Bindings[k]
					// a captured variable cell: the object is *cell
					caller := mc.Parent()
					asyncUse := false
					for _, ref := range *mc.Referrers() {
						if _, isGo := ref.(*ssa.Go); isGo {
							asyncUse = true
						}
					}
					if asyncUse {
						if _, ok := spec.ExemptFuncs[FullName(caller)]; !ok {
							res.Findings = append(res.Findings, LockFinding{Fn: caller, Instr: mc, Field: rq.field, Write: rq.mode == modeW,
								Reason: "closure run as a goroutine accesses the guarded field without taking the lock itself"})
						}
						continue
					}
					base := bind
					if a, ok := bind.(*ssa.Alloc); ok {
						// captured cell: find what the cell holds — use the cell itself as key
						base = a
						_ = a
						// try stores into the cell
						var vals []ssa.Value
						for _, ref := range *a.Referrers() {
							if st, ok := ref.(*ssa.Store); ok && st.Addr == a {
								vals = append(vals, st.Val)
							}
						}
						if len(vals) == 1 {
							base = vals[0]
						}
					}
					need(caller, mc, base, rq.mode, rq.field, via)
				}
			}
		}
	}
	// 3. entry points: a function that still requires a lock and may be called from code we do
	// cannot see statically (interface dispatch, function value) is a finding.
	for fn, m := range reqs {
		res.Requires[fn] = map[int]lockMode{}
		for idx, rq := range m {
			res.Requires[fn][idx] = rq.mode
			if _, ok := spec.ExemptFuncs[FullName(fn)]; ok {
				continue
			}
			if la.addrTaken[fn] {
				res.Findings = append(res.Findings, LockFinding{Fn: fn, Instr: rq.witness, Field: rq.field, Write: rq.mode == modeW,
					Reason: "function needs the lock on entry but is used as a function value (callers unknown)"})
			}
		}
	}
	sort.SliceStable(res.Findings, func(i, j int) bool {
		a, b := res.Findings[i], res.Findings[j]
		if FullName(a.Fn) != FullName(b.Fn) {
			return FullName(a.Fn) < FullName(b.Fn)
		}
		return a.Instr.Pos() < b.Instr.Pos()
	})
	return res
}

// DescribeRequires renders the propagated requirements for evidence.
func (r *LockResult) DescribeRequires() []string {
	var out []string
	for fn, m := range r.Requires {
		for idx, mode := range m {
			w := "R"
			if mode == modeW {
				w = "W"
			}
			out = append(out, fmt.Sprintf("%s needs %s-lock of arg#%d on entry", shortPkg(FullName(fn)), w, idx))
		}
	}
	sort.Strings(out)
	return out
}

var _ = strings.Join

// AnyLocks computes, for one function, the mutexes (of any object) that are held on every path
// at an instruction. Keys are access paths of the mutex field ("&e.mu").
type AnyLocks struct{ la *lockAnalysis }

func NewAnyLocks() *AnyLocks {
	return &AnyLocks{la: &lockAnalysis{spec: &LockSpec{}, in: map[*ssa.Function][]lockset{}}}
}

// HeldAt returns key -> true for write-held, false for read-held.
func (a *AnyLocks) HeldAt(instr ssa.Instruction) map[string]bool {
	out := map[string]bool{}
	for k, m := range a.la.heldAt(instr) {
		out[k] = m == modeW
	}
	return out
}

// IsUnlockOf reports whether instr releases the mutex with the given key.
func (a *AnyLocks) IsUnlockOf(instr ssa.Instruction, key string) bool {
	ci, ok := instr.(ssa.CallInstruction)
	if !ok {
		return false
	}
	if _, isDefer := instr.(*ssa.Defer); isDefer {
		return false
	}
	base, op, ok := a.la.lockOp(ci)
	if !ok || (op != "Unlock" && op != "RUnlock") {
		return false
	}
	return BaseKey(base) == key
}

// resolveCell maps a load of a local cell that only ever holds one parameter / free variable
// (a parameter captured by a closure is spilled into such a cell) to that parameter.
func resolveCell(v ssa.Value) ssa.Value {
	u, ok := v.(*ssa.UnOp)
	if !ok || u.Op != token.MUL {
		return v
	}
	a, ok := u.X.(*ssa.Alloc)
	if !ok {
		return v
	}
	var only ssa.Value
	n := 0
	for _, ref := range *a.Referrers() {
		if st, ok := ref.(*ssa.Store); ok && st.Addr == a {
			only = st.Val
			n++
		}
	}
	if n != 1 {
		return v
	}
	switch only.(type) {
	case *ssa.Parameter, *ssa.FreeVar:
		return only
	}
	return v
}
