// Package an is the analysis toolkit shared by the rule instances: dominating guards,
// a conditional-constant explorer over the SSA control-flow graph, access paths,
// callee resolution, a must-lockset analysis and small AST helpers.
package an

import (
	"go/constant"
	"go/token"
	"go/types"

	"golang.org/x/tools/go/ssa"
)

// Abs is the abstract value used for booleans and nil-able values.
type Abs uint8

const (
	Bottom  Abs = iota // not yet computed / no executable definition
	True               // boolean true
	False              // boolean false
	Nil                // nil pointer/interface/map/slice/func
	NonNil             // definitely not nil
	Unknown            // anything
	Zero               // the integer 0 (only as an assumed fact, e.g. for a len(..) value)
)

func (a Abs) String() string {
	return [...]string{"bottom", "true", "false", "nil", "nonnil", "unknown", "zero"}[a]
}

func meet(a, b Abs) Abs {
	if a == Bottom {
		return b
	}
	if b == Bottom {
		return a
	}
	if a == b {
		return a
	}
	return Unknown
}

// Facts are assumptions about SSA values made by a rule ("this check failed").
type Facts map[ssa.Value]Abs

// Start is the first instruction executed (nil = function entry).
type Start struct {
	Block *ssa.BasicBlock
	Index int
}

// After returns the start point just behind instr.
func After(instr ssa.Instruction) *Start {
	b := instr.Block()
	for i, in := range b.Instrs {
		if in == instr {
			return &Start{Block: b, Index: i + 1}
		}
	}
	return nil
}

// Reach is the result of an exploration.
type Reach struct {
	fn      *ssa.Function
	facts   Facts
	barrier func(ssa.Instruction) bool
	// from[b] = lowest instruction index from which block b was entered (-1: not reached)
	from   []int
	edge   map[[2]int]bool
	memo   map[ssa.Value]Abs
	inprg  map[ssa.Value]bool
	inEdge map[ssa.Value]bool
	// EdgeFacts lets a rule assume a fact only along a given CFG edge (branch outcome).
}

// Explore computes the instructions reachable from start under the assumed facts.
// Branches whose condition evaluates to a constant (through boolean/nil constant
// propagation over executable edges only) are followed on the consistent edge only.
// barrier(instr)==true stops the exploration just before instr ("event seen").
// Calls that never return (panic, klog.Fatal*, os.Exit) end a path.
func Explore(fn *ssa.Function, start *Start, facts Facts, barrier func(ssa.Instruction) bool) *Reach {
	r := &Reach{fn: fn, facts: facts, barrier: barrier, from: make([]int, len(fn.Blocks)), edge: map[[2]int]bool{}}
	for i := range r.from {
		r.from[i] = -1
	}
	if len(fn.Blocks) == 0 {
		return r
	}
	if start == nil {
		start = &Start{Block: fn.Blocks[0], Index: 0}
	}
	r.from[start.Block.Index] = start.Index
	for changed := true; changed; {
		changed = false
		r.memo = map[ssa.Value]Abs{}
		r.inprg = map[ssa.Value]bool{}
		for _, b := range fn.Blocks {
			st := r.from[b.Index]
			if st < 0 {
				continue
			}
			stopped := false
			for i := st; i < len(b.Instrs); i++ {
				in := b.Instrs[i]
				if r.barrier != nil && r.barrier(in) {
					stopped = true
					break
				}
				if NeverReturns(in) {
					stopped = true
					break
				}
			}
			if stopped {
				continue
			}
			mark := func(s *ssa.BasicBlock) {
				k := [2]int{b.Index, s.Index}
				if !r.edge[k] {
					r.edge[k] = true
					changed = true
				}
				if r.from[s.Index] != 0 {
					r.from[s.Index] = 0
					changed = true
				}
			}
			switch t := b.Instrs[len(b.Instrs)-1].(type) {
			case *ssa.If:
				switch r.Eval(t.Cond) {
				case True:
					mark(b.Succs[0])
				case False:
					mark(b.Succs[1])
				default:
					mark(b.Succs[0])
					mark(b.Succs[1])
				}
			case *ssa.Jump:
				mark(b.Succs[0])
			default:
				// Return, Panic: no successors
				for _, s := range b.Succs {
					mark(s)
				}
			}
		}
	}
	r.memo = map[ssa.Value]Abs{}
	r.inprg = map[ssa.Value]bool{}
	return r
}

// Instrs returns every instruction reached (in block order), up to barriers.
func (r *Reach) Instrs() []ssa.Instruction {
	var out []ssa.Instruction
	for _, b := range r.fn.Blocks {
		st := r.from[b.Index]
		if st < 0 {
			continue
		}
		for i := st; i < len(b.Instrs); i++ {
			in := b.Instrs[i]
			if r.barrier != nil && r.barrier(in) {
				break
			}
			out = append(out, in)
			if NeverReturns(in) {
				break
			}
		}
	}
	return out
}

// Reached reports whether instr is executed on some explored path.
func (r *Reach) Reached(instr ssa.Instruction) bool {
	b := instr.Block()
	if b == nil || b.Parent() != r.fn {
		return false
	}
	st := r.from[b.Index]
	if st < 0 {
		return false
	}
	for i := st; i < len(b.Instrs); i++ {
		in := b.Instrs[i]
		if in == instr {
			// a barrier instruction itself counts as reached
			return true
		}
		if r.barrier != nil && r.barrier(in) {
			return false
		}
		if NeverReturns(in) {
			return false
		}
	}
	return false
}

// BlockReached reports whether any instruction of b was reached.
func (r *Reach) BlockReached(b *ssa.BasicBlock) bool { return r.from[b.Index] >= 0 }

// Returns lists the reached return instructions.
func (r *Reach) Returns() []*ssa.Return {
	var out []*ssa.Return
	for _, in := range r.Instrs() {
		if ret, ok := in.(*ssa.Return); ok {
			out = append(out, ret)
		}
	}
	return out
}

// Eval evaluates v under the facts and the executable edges.
func (r *Reach) Eval(v ssa.Value) Abs {
	if a, ok := r.facts[v]; ok {
		return a
	}
	if a, ok := r.memo[v]; ok {
		return a
	}
	if r.inprg[v] {
		return Bottom
	}
	r.inprg[v] = true
	a := r.eval(v)
	delete(r.inprg, v)
	if a == Bottom {
		// do not cache optimistic results of cycles
		return Bottom
	}
	r.memo[v] = a
	return a
}

func (r *Reach) eval(v ssa.Value) Abs {
	switch v := v.(type) {
	case *ssa.Const:
		if v.Value == nil {
			if isNilable(v.Type()) {
				return Nil
			}
			return Unknown
		}
		if v.Value.Kind() == constant.Bool {
			if constant.BoolVal(v.Value) {
				return True
			}
			return False
		}
		return Unknown
	case *ssa.UnOp:
		if v.Op == token.NOT {
			switch r.Eval(v.X) {
			case True:
				return False
			case False:
				return True
			case Bottom:
				return Bottom
			}
			return Unknown
		}
		if v.Op == token.MUL {
			if a, ok := v.X.(*ssa.Alloc); ok {
				return r.evalCell(a, v)
			}
		}
		return Unknown
	case *ssa.Phi:
		b := v.Block()
		res := Bottom
		for i, p := range b.Preds {
			if !r.edge[[2]int{p.Index, b.Index}] {
				continue
			}
			e := r.Eval(v.Edges[i])
			if (e == Unknown || e == Bottom) && !r.inEdge[v] {
				// what is known about the incoming value where it comes from: the branch outcomes of that arm
				if r.inEdge == nil {
					r.inEdge = map[ssa.Value]bool{}
				}
				r.inEdge[v] = true
				gs := blockGuards(p, 3)
				if pi, ok := p.Instrs[len(p.Instrs)-1].(*ssa.If); ok && len(p.Succs) == 2 && p.Succs[0] != p.Succs[1] {
					pc, neg := StripNot(pi.Cond)
					t := p.Succs[0] == b
					if neg {
						t = !t
					}
					gs = append(gs, Guard{Cond: pc, Truth: t, If: pi})
				}
				e = r.evalGuarded(v.Edges[i], gs)
				delete(r.inEdge, v)
			}
			res = meet(res, e)
			if res == Unknown {
				return Unknown
			}
		}
		return res
	case *ssa.BinOp:
		// integer comparisons of values that are constant on the explored paths (a loop counter on its first round)
		if a, ok := r.evalInt(v.X, 0); ok {
			if b, ok := r.evalInt(v.Y, 0); ok {
				res, known := false, true
				switch v.Op {
				case token.EQL:
					res = a == b
				case token.NEQ:
					res = a != b
				case token.LSS:
					res = a < b
				case token.LEQ:
					res = a <= b
				case token.GTR:
					res = a > b
				case token.GEQ:
					res = a >= b
				default:
					known = false
				}
				if known {
					if res {
						return True
					}
					return False
				}
			}
		}
		if v.Op != token.EQL && v.Op != token.NEQ {
			return Unknown
		}
		x, y := r.Eval(v.X), r.Eval(v.Y)
		if x == Bottom || y == Bottom {
			return Bottom
		}
		eq := Unknown
		switch {
		case x == Nil && y == Nil:
			eq = True
		case (x == Nil && y == NonNil) || (x == NonNil && y == Nil):
			eq = False
		case (x == True || x == False) && (y == True || y == False):
			if x == y {
				eq = True
			} else {
				eq = False
			}
		}
		if eq == Unknown {
			return Unknown
		}
		if v.Op == token.NEQ {
			if eq == True {
				return False
			}
			return True
		}
		return eq
	case *ssa.Alloc, *ssa.MakeInterface, *ssa.MakeMap, *ssa.MakeChan, *ssa.MakeClosure, *ssa.FieldAddr, *ssa.IndexAddr, *ssa.Function, *ssa.Global:
		return NonNil
	case *ssa.ChangeType:
		return r.nilnessOnly(r.Eval(v.X))
	case *ssa.ChangeInterface:
		return r.nilnessOnly(r.Eval(v.X))
	case *ssa.Call:
		if f := v.Call.StaticCallee(); f != nil && f.Pkg != nil && nonNilConstructors[f.Pkg.Pkg.Path()+"."+f.Name()] {
			return NonNil
		}
	}
	return Unknown
}

// evalInt: the integer v is the same constant on every explored path reaching it (merges look at executable edges only).
func (r *Reach) evalInt(v ssa.Value, depth int) (int64, bool) {
	if depth > 6 {
		return 0, false
	}
	if a, ok := r.facts[v]; ok && a == Zero {
		return 0, true
	}
	switch x := v.(type) {
	case *ssa.Const:
		if x.Value != nil && x.Value.Kind() == constant.Int {
			if b, ok := x.Type().Underlying().(*types.Basic); ok && b.Info()&types.IsInteger != 0 {
				return constant.Int64Val(x.Value)
			}
		}
	case *ssa.Phi:
		b := x.Block()
		var val int64
		n := 0
		for i, p := range b.Preds {
			if !r.edge[[2]int{p.Index, b.Index}] {
				continue
			}
			k, ok := r.evalInt(x.Edges[i], depth+1)
			if !ok || (n > 0 && k != val) {
				return 0, false
			}
			val = k
			n++
		}
		return val, n > 0
	case *ssa.BinOp:
		if x.Op != token.ADD && x.Op != token.SUB {
			return 0, false
		}
		a, ok := r.evalInt(x.X, depth+1)
		if !ok {
			return 0, false
		}
		b, ok := r.evalInt(x.Y, depth+1)
		if !ok {
			return 0, false
		}
		if x.Op == token.ADD {
			return a + b, true
		}
		return a - b, true
	}
	return 0, false
}

// nonNilConstructors never return nil.
var nonNilConstructors = map[string]bool{
	"errors.New": true, "fmt.Errorf": true,
	"k8s.io/kubernetes/pkg/scheduler/framework.NewStatus":     true,
	"k8s.io/kubernetes/pkg/scheduler/framework.AsStatus":      true,
	"k8s.io/kube-scheduler/framework.NewStatus":               true,
	"k8s.io/kube-scheduler/framework.AsStatus":                true,
	"k8s.io/apimachinery/pkg/util/errors.NewAggregate":        false,
	"k8s.io/apimachinery/pkg/api/errors.NewNotFound":          true,
	"k8s.io/apimachinery/pkg/api/errors.NewBadRequest":        true,
	"k8s.io/apimachinery/pkg/util/validation/field.Invalid":   true,
	"k8s.io/apimachinery/pkg/util/validation/field.Required":  true,
	"k8s.io/apimachinery/pkg/util/validation/field.Forbidden": true,
}

// EvalAt evaluates v at instruction at: in addition to Eval it uses the branch outcomes that
// dominate the instruction (v == nil / v != nil / v / !v tests of the same SSA value).
func (r *Reach) EvalAt(v ssa.Value, at ssa.Instruction) Abs {
	return r.evalGuarded(v, Guards(at))
}

func (r *Reach) evalGuarded(v ssa.Value, guards []Guard) Abs {
	a := r.Eval(v)
	if a != Unknown && a != Bottom {
		return a
	}
	for _, g := range guards {
		if g.Cond == v {
			if g.Truth {
				return True
			}
			return False
		}
		if b, ok := g.Cond.(*ssa.BinOp); ok && (b.Op == token.EQL || b.Op == token.NEQ) {
			var other ssa.Value
			if b.X == v {
				other = b.Y
			} else if b.Y == v {
				other = b.X
			} else {
				continue
			}
			if c, ok := other.(*ssa.Const); ok && c.Value == nil {
				isNil := (b.Op == token.EQL) == g.Truth
				if isNil {
					return Nil
				}
				return NonNil
			}
		}
	}
	if a == Bottom {
		return Unknown
	}
	return a
}

// evalCell evaluates a load of a non-escaping local cell (e.g. the result cell that go/ssa
// introduces in functions with defer): the nearest preceding store in the same block, else the
// meet of all stores.
func (r *Reach) evalCell(a *ssa.Alloc, load *ssa.UnOp) Abs {
	var stores []*ssa.Store
	for _, ref := range *a.Referrers() {
		switch x := ref.(type) {
		case *ssa.Store:
			if x.Addr != a {
				return Unknown
			}
			stores = append(stores, x)
		case *ssa.UnOp, *ssa.DebugRef:
		default:
			return Unknown // escapes (closure, call argument)
		}
	}
	b := load.Block()
	var last *ssa.Store
	for _, in := range b.Instrs {
		if in == ssa.Instruction(load) {
			break
		}
		if st, ok := in.(*ssa.Store); ok && st.Addr == a {
			last = st
		}
	}
	if last != nil {
		return r.Eval(last.Val)
	}
	res := Bottom
	for _, st := range stores {
		if !r.BlockReached(st.Block()) {
			continue
		}
		res = meet(res, r.Eval(st.Val))
	}
	if res == Bottom {
		return Unknown
	}
	return res
}

func (r *Reach) nilnessOnly(a Abs) Abs {
	if a == Nil || a == NonNil || a == Bottom {
		return a
	}
	return Unknown
}

func isNilable(t types.Type) bool {
	switch t.Underlying().(type) {
	case *types.Pointer, *types.Interface, *types.Map, *types.Slice, *types.Chan, *types.Signature:
		return true
	}
	if b, ok := t.Underlying().(*types.Basic); ok && b.Kind() == types.UntypedNil {
		return true
	}
	return false
}

// NeverReturns recognises the calls that end a path: panic, klog.Fatal*, os.Exit, log.Fatal*.
func NeverReturns(in ssa.Instruction) bool {
	switch in := in.(type) {
	case *ssa.Panic:
		return true
	case *ssa.Call:
		if f := in.Call.StaticCallee(); f != nil && f.Pkg != nil {
			p, n := f.Pkg.Pkg.Path(), f.Name()
			switch {
			case p == "os" && n == "Exit":
				return true
			case (p == "k8s.io/klog/v2" || p == "log") && len(n) >= 5 && n[:5] == "Fatal":
				return true
			}
		}
	}
	return false
}

// ---- dominating guards -------------------------------------------------------

// Guard is a branch outcome that every path to an instruction has taken.
type Guard struct {
	Cond  ssa.Value // condition with leading negations stripped
	Truth bool      // required truth value of Cond
	If    *ssa.If
}

// Guards returns the branch outcomes that dominate instr: for every If whose one
// outgoing edge is on all paths to instr.
func Guards(instr ssa.Instruction) []Guard {
	return BlockGuards(instr.Block())
}

func BlockGuards(b *ssa.BasicBlock) []Guard {
	return blockGuards(b, 0)
}

func blockGuards(b *ssa.BasicBlock, depth int) []Guard {
	var out []Guard
	for a := b.Idom(); a != nil; a = a.Idom() {
		ifi, ok := a.Instrs[len(a.Instrs)-1].(*ssa.If)
		if !ok || len(a.Succs) != 2 || a.Succs[0] == a.Succs[1] {
			continue
		}
		t := edgeDominates(a, a.Succs[0], b)
		f := edgeDominates(a, a.Succs[1], b)
		if t == f {
			continue
		}
		c, neg := StripNot(ifi.Cond)
		truth := t
		if neg {
			truth = !truth
		}
		out = append(out, Guard{Cond: c, Truth: truth, If: ifi})
		out = append(out, threadPhi(c, truth, ifi, depth)...)
	}
	return out
}

// threadPhi: a guard on a boolean phi (typically the result of a predicate whose body sits inline: "ok = false" in one
// arm, "ok = test(..)" in another) tells which arm was taken when all other arms carry the opposite constant. The
// outcome of that arm's value and the guards of that arm then hold as well.
func threadPhi(c ssa.Value, truth bool, ifi *ssa.If, depth int) []Guard {
	phi, ok := c.(*ssa.Phi)
	if !ok || depth > 4 {
		return nil
	}
	if bt, ok := phi.Type().Underlying().(*types.Basic); !ok || bt.Kind() != types.Bool {
		return nil
	}
	live := -1
	for i, e := range phi.Edges {
		if cst, ok := e.(*ssa.Const); ok && cst.Value != nil && cst.Value.Kind() == constant.Bool {
			if constant.BoolVal(cst.Value) != truth {
				continue // this arm cannot have been taken
			}
		}
		if live >= 0 {
			return nil // more than one possible arm
		}
		live = i
	}
	if live < 0 {
		return nil
	}
	var out []Guard
	v, neg := StripNot(phi.Edges[live])
	if _, isConst := v.(*ssa.Const); !isConst {
		t := truth
		if neg {
			t = !t
		}
		out = append(out, Guard{Cond: v, Truth: t, If: ifi})
		out = append(out, threadPhi(v, t, ifi, depth+1)...)
	}
	pred := phi.Block().Preds[live]
	out = append(out, blockGuards(pred, depth+1)...)
	// the edge pred -> phi block itself
	if pi, ok := pred.Instrs[len(pred.Instrs)-1].(*ssa.If); ok && len(pred.Succs) == 2 && pred.Succs[0] != pred.Succs[1] {
		pc, pneg := StripNot(pi.Cond)
		pt := pred.Succs[0] == phi.Block()
		if pneg {
			pt = !pt
		}
		out = append(out, Guard{Cond: pc, Truth: pt, If: pi})
		out = append(out, threadPhi(pc, pt, pi, depth+1)...)
	}
	return out
}

// edgeDominates: every path from entry to b uses edge a->s.
func edgeDominates(a, s, b *ssa.BasicBlock) bool {
	if !(s == b || s.Dominates(b)) {
		return false
	}
	for _, p := range s.Preds {
		if p == a {
			continue
		}
		if !(p == s || s.Dominates(p)) {
			return false
		}
	}
	return true
}

// StripNot removes leading boolean negations.
func StripNot(v ssa.Value) (ssa.Value, bool) {
	neg := false
	for {
		u, ok := v.(*ssa.UnOp)
		if !ok || u.Op != token.NOT {
			return v, neg
		}
		v = u.X
		neg = !neg
	}
}

// RetAlt is one way a function returns: the returned values with merges (phis) at the exit resolved to the value of
// one incoming arm, and the branch outcomes that hold on that arm. "if c { return a }; return b" and
// "var r = b; if c { r = a }; return r" yield the same alternatives.
type RetAlt struct {
	Ret     *ssa.Return
	Results []ssa.Value
	Guards  []Guard
	Block   *ssa.BasicBlock // the block the arm comes from (for positions)
}

// ReturnAlts enumerates the return alternatives of fn.
func ReturnAlts(fn *ssa.Function) []RetAlt {
	var out []RetAlt
	for _, b := range fn.Blocks {
		ret, ok := b.Instrs[len(b.Instrs)-1].(*ssa.Return)
		if !ok {
			continue
		}
		expandAlt(RetAlt{Ret: ret, Results: append([]ssa.Value{}, ret.Results...), Guards: BlockGuards(b), Block: b}, b, 0, &out)
	}
	return out
}

func expandAlt(a RetAlt, at *ssa.BasicBlock, depth int, out *[]RetAlt) {
	expandAltF(a, at, depth, out, nil)
}

// Alts enumerates the alternatives of one return that are possible on the explored paths (merges are followed through
// executable edges only).
func (r *Reach) Alts(ret *ssa.Return) []RetAlt {
	var out []RetAlt
	b := ret.Block()
	expandAltF(RetAlt{Ret: ret, Results: append([]ssa.Value{}, ret.Results...), Guards: BlockGuards(b), Block: b}, b, 0, &out,
		func(pred, blk *ssa.BasicBlock) bool { return r.edge[[2]int{pred.Index, blk.Index}] })
	return out
}

func expandAltF(a RetAlt, at *ssa.BasicBlock, depth int, out *[]RetAlt, edgeOK func(pred, blk *ssa.BasicBlock) bool) {
	// phis of block `at` among the results?
	has := false
	for _, r := range a.Results {
		if p, ok := r.(*ssa.Phi); ok && p.Block() == at {
			has = true
		}
	}
	// a pure merge block at the exit (only merges and the return itself, several ways in): what early returns look like
	// after a body was wrapped or inlined ("result = x; break" arms jumping to one "return result")
	pureMerge := false
	if !has && depth <= 3 && len(at.Preds) >= 2 && at == a.Ret.Block() {
		pureMerge = true
		for _, in := range at.Instrs {
			switch in.(type) {
			case *ssa.Phi, *ssa.Return, *ssa.DebugRef:
			default:
				pureMerge = false
			}
		}
	}
	if (!has && !pureMerge) || depth > 3 || len(at.Preds) == 0 {
		forkOnGuardPhi(a, depth, out)
		return
	}
	for i, pred := range at.Preds {
		if edgeOK != nil && !edgeOK(pred, at) {
			continue
		}
		n := RetAlt{Ret: a.Ret, Block: pred}
		for _, r := range a.Results {
			if p, ok := r.(*ssa.Phi); ok && p.Block() == at {
				n.Results = append(n.Results, p.Edges[i])
			} else {
				n.Results = append(n.Results, r)
			}
		}
		n.Guards = append(n.Guards, a.Guards...)
		n.Guards = append(n.Guards, BlockGuards(pred)...)
		if pi, ok := pred.Instrs[len(pred.Instrs)-1].(*ssa.If); ok && len(pred.Succs) == 2 && pred.Succs[0] != pred.Succs[1] {
			pc, neg := StripNot(pi.Cond)
			t := pred.Succs[0] == at
			if neg {
				t = !t
			}
			n.Guards = append(n.Guards, Guard{Cond: pc, Truth: t, If: pi})
			n.Guards = append(n.Guards, threadPhi(pc, t, pi, 1)...)
		}
		expandAltF(n, pred, depth+1, out, edgeOK)
	}
}

// forkOnGuardPhi: an alternative that is guarded by a merged boolean ("ok" of an inlined decoder with several failing
// arms) is split into one alternative per arm that can have produced the required value; each carries that arm's
// guards. With a single possible arm the guard threading of BlockGuards has done this already.
func forkOnGuardPhi(a RetAlt, depth int, out *[]RetAlt) {
	if depth > 3 {
		*out = append(*out, a)
		return
	}
	for gi, g := range a.Guards {
		phi, ok := g.Cond.(*ssa.Phi)
		if !ok {
			continue
		}
		if bt, ok := phi.Type().Underlying().(*types.Basic); !ok || bt.Kind() != types.Bool {
			continue
		}
		var live []int
		for i, e := range phi.Edges {
			if cst, ok := e.(*ssa.Const); ok && cst.Value != nil && cst.Value.Kind() == constant.Bool && constant.BoolVal(cst.Value) != g.Truth {
				continue
			}
			live = append(live, i)
		}
		if len(live) < 2 {
			continue
		}
		for _, i := range live {
			n := RetAlt{Ret: a.Ret, Results: a.Results, Block: phi.Block().Preds[i]}
			n.Guards = append(n.Guards, a.Guards[:gi]...)
			n.Guards = append(n.Guards, a.Guards[gi+1:]...)
			pred := phi.Block().Preds[i]
			n.Guards = append(n.Guards, BlockGuards(pred)...)
			v, neg := StripNot(phi.Edges[i])
			if _, isC := v.(*ssa.Const); !isC {
				t := g.Truth
				if neg {
					t = !t
				}
				n.Guards = append(n.Guards, Guard{Cond: v, Truth: t, If: g.If})
			}
			if pi, ok := pred.Instrs[len(pred.Instrs)-1].(*ssa.If); ok && len(pred.Succs) == 2 && pred.Succs[0] != pred.Succs[1] {
				pc, pneg := StripNot(pi.Cond)
				t := pred.Succs[0] == phi.Block()
				if pneg {
					t = !t
				}
				n.Guards = append(n.Guards, Guard{Cond: pc, Truth: t, If: pi})
			}
			forkOnGuardPhi(n, depth+1, out)
		}
		return
	}
	*out = append(*out, a)
}

// Values returns the values v can stand for on the explored paths: merges are resolved through the executable
// incoming edges only (so "r = a; if c { r = b }; return r" yields {a, b}, and just {b} when c is assumed true).
func (r *Reach) Values(v ssa.Value) []ssa.Value {
	seen := map[ssa.Value]bool{}
	var out []ssa.Value
	var walk func(v ssa.Value, d int)
	walk = func(v ssa.Value, d int) {
		if seen[v] {
			return
		}
		seen[v] = true
		if p, ok := v.(*ssa.Phi); ok && d < 8 {
			b := p.Block()
			any := false
			for i, pr := range b.Preds {
				if r.edge[[2]int{pr.Index, b.Index}] {
					any = true
					walk(p.Edges[i], d+1)
				}
			}
			if any {
				return
			}
		}
		out = append(out, v)
	}
	walk(v, 0)
	return out
}

// EvalAlt evaluates result k of a return alternative: the abstract value on the explored paths, refined by the branch
// outcomes of the arm the alternative comes from.
func (r *Reach) EvalAlt(a RetAlt, k int) Abs {
	return r.evalGuarded(a.Results[k], append(append([]Guard{}, a.Guards...), Guards(a.Ret)...))
}

// EvalInt: the integer v has one constant value on every explored path that reaches it.
func (r *Reach) EvalInt(v ssa.Value) (int64, bool) { return r.evalInt(v, 0) }
