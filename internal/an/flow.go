package an

import (
	"go/token"

	"golang.org/x/tools/go/ssa"
)

// ForwardReach computes the values that depend on src through def-use edges (operands of value
// instructions, arguments of calls -> call result, stores into local cells -> loads of the cell).
// Values for which stop returns true are not expanded (and not included).
func ForwardReach(src ssa.Value, stop func(ssa.Value) bool) map[ssa.Value]bool {
	seen := map[ssa.Value]bool{}
	var work []ssa.Value
	push := func(v ssa.Value) {
		if v == nil || seen[v] {
			return
		}
		if stop != nil && stop(v) {
			return
		}
		seen[v] = true
		work = append(work, v)
	}
	push(src)
	for len(work) > 0 {
		v := work[len(work)-1]
		work = work[:len(work)-1]
		refs := v.Referrers()
		if refs == nil {
			continue
		}
		for _, r := range *refs {
			switch x := r.(type) {
			case *ssa.Store:
				if x.Val == v {
					// value stored into a cell: loads of the cell depend on it
					switch a := x.Addr.(type) {
					case *ssa.Alloc:
						push(a)
					case *ssa.FieldAddr:
						// store into a field of a local struct: the struct cell depends on it
						if al, ok := a.X.(*ssa.Alloc); ok {
							push(al)
						}
					case *ssa.IndexAddr:
						if al, ok := a.X.(*ssa.Alloc); ok {
							push(al)
						}
						push(a.X)
					}
				}
			case ssa.Value:
				push(x)
			}
		}
	}
	return seen
}

// Sources returns the leaves of the backward slice of v: the walk goes through phis, conversions,
// loads of local cells (to the values stored), and through the instructions for which through
// returns true (expanding to all their operands). Every other value is a leaf.
func Sources(v ssa.Value, through func(ssa.Value) bool) []ssa.Value {
	seen := map[ssa.Value]bool{}
	var leaves []ssa.Value
	var walk func(v ssa.Value)
	walk = func(v ssa.Value) {
		if v == nil || seen[v] {
			return
		}
		seen[v] = true
		switch x := v.(type) {
		case *ssa.Phi:
			for _, e := range x.Edges {
				walk(e)
			}
			return
		case *ssa.ChangeType:
			walk(x.X)
			return
		case *ssa.Convert:
			walk(x.X)
			return
		case *ssa.ChangeInterface:
			walk(x.X)
			return
		case *ssa.MakeInterface:
			walk(x.X)
			return
		case *ssa.UnOp:
			if x.Op == token.MUL {
				if a, ok := x.X.(*ssa.Alloc); ok {
					n := 0
					for _, ref := range *a.Referrers() {
						if st, ok := ref.(*ssa.Store); ok && st.Addr == a {
							walk(st.Val)
							n++
						}
					}
					if n > 0 {
						return
					}
				}
			}
		}
		if a, ok := v.(*ssa.Alloc); ok {
			// address of a local cell: the values stored into it
			n := 0
			for _, ref := range *a.Referrers() {
				if st, ok := ref.(*ssa.Store); ok && st.Addr == a {
					walk(st.Val)
					n++
				}
			}
			if n > 0 {
				return
			}
		}
		if through != nil && through(v) {
			if call, ok := v.(*ssa.Call); ok {
				for _, a := range Args(&call.Call) {
					walk(a)
				}
				return
			}
			if in, ok := v.(ssa.Instruction); ok {
				for _, op := range in.Operands(nil) {
					if op != nil && *op != nil {
						walk(*op)
					}
				}
				return
			}
		}
		leaves = append(leaves, v)
	}
	walk(v)
	return leaves
}

// IsBuiltinCall reports whether v is a call of the named builtin.
func IsBuiltinCall(v ssa.Value, name string) bool {
	c, ok := v.(*ssa.Call)
	if !ok || c == nil {
		return false
	}
	b, ok := c.Call.Value.(*ssa.Builtin)
	return ok && b.Name() == name
}

// ForwardReachBlocks returns the blocks reachable from b (excluding b unless on a cycle).
func ForwardReachBlocks(b *ssa.BasicBlock) map[*ssa.BasicBlock]bool {
	seen := map[*ssa.BasicBlock]bool{}
	st := append([]*ssa.BasicBlock{}, b.Succs...)
	for len(st) > 0 {
		x := st[len(st)-1]
		st = st[:len(st)-1]
		if seen[x] {
			continue
		}
		seen[x] = true
		st = append(st, x.Succs...)
	}
	return seen
}

// InnermostLoopHeader returns the header of the innermost natural loop containing b (nil if none).
func InnermostLoopHeader(b *ssa.BasicBlock) *ssa.BasicBlock {
	var best *ssa.BasicBlock
	for h := b; h != nil; h = h.Idom() {
		isHeader := false
		for _, p := range h.Preds {
			if h.Dominates(p) && (p == b || ForwardReachBlocks(b)[p] || b == h) {
				isHeader = true
			}
		}
		if isHeader && (h == b || ForwardReachBlocks(b)[h]) {
			if best == nil {
				best = h
			}
		}
	}
	return best
}
