package an

import (
	"go/token"
	"sort"

	"golang.org/x/tools/go/ssa"
)

// Pol is the polarity of a value in one named input.
type Pol uint8

const (
	PolNone Pol = 0 // does not depend on the input
	PolUp   Pol = 1 // non-decreasing in the input
	PolDown Pol = 2 // non-increasing in the input
	PolTop  Pol = 3 // unknown / both
)

func (p Pol) String() string { return [...]string{"const", "up", "down", "unknown"}[p] }

func joinPol(a, b Pol) Pol { return a | b }

func negPol(a Pol) Pol {
	switch a {
	case PolUp:
		return PolDown
	case PolDown:
		return PolUp
	}
	return a
}

// PolMap maps input name -> polarity.
type PolMap map[string]Pol

func (m PolMap) join(o PolMap) PolMap {
	r := PolMap{}
	for k, v := range m {
		r[k] = v
	}
	for k, v := range o {
		r[k] = joinPol(r[k], v)
	}
	return r
}

func (m PolMap) neg() PolMap {
	r := PolMap{}
	for k, v := range m {
		r[k] = negPol(v)
	}
	return r
}

func (m PolMap) top() PolMap {
	r := PolMap{}
	for k, v := range m {
		if v != PolNone {
			r[k] = PolTop
		}
	}
	return r
}

func (m PolMap) String() string {
	var ks []string
	for k := range m {
		ks = append(ks, k)
	}
	sort.Strings(ks)
	s := ""
	for _, k := range ks {
		if m[k] == PolNone {
			continue
		}
		if s != "" {
			s += " "
		}
		s += k + ":" + m[k].String()
	}
	return s
}

// PolOps is the operator table: short callee name -> kind.
type PolOps struct {
	Join    map[string]bool // result monotone in all (quantity) arguments: Add, Max, Min…
	Sub     map[string]bool // result up in arg0, down in arg1
	Same    map[string]bool // unary projections / copies: Cpu, Memory, DeepCopy, Value…
	Scale   map[string]bool // arg0 scaled by a non-negative factor that must not depend on tracked inputs
	Const   map[string]bool // constructors of constants
	Ignored map[string]bool // calls without influence on values (logging, formatting)
}

// Polarity computes, for every value of fn, its polarity in the tracked parameters.
type Polarity struct {
	fn      *ssa.Function
	ops     *PolOps
	tracked map[ssa.Value]string
	memo    map[ssa.Value]PolMap
	busy    map[ssa.Value]bool
	// Unknown collects the constructs the table does not cover (they make the result unknown).
	Unknown []ssa.Value
	// map objects receive weak updates
	mapStores map[ssa.Value][]ssa.Value
}

func NewPolarity(fn *ssa.Function, ops *PolOps, tracked map[ssa.Value]string) *Polarity {
	p := &Polarity{fn: fn, ops: ops, tracked: tracked, memo: map[ssa.Value]PolMap{}, busy: map[ssa.Value]bool{}, mapStores: map[ssa.Value][]ssa.Value{}}
	for _, b := range fn.Blocks {
		for _, in := range b.Instrs {
			if mu, ok := in.(*ssa.MapUpdate); ok {
				p.mapStores[canonMap(mu.Map)] = append(p.mapStores[canonMap(mu.Map)], mu.Value)
			}
		}
	}
	return p
}

func (p *Polarity) Of(v ssa.Value) PolMap {
	if m, ok := p.memo[v]; ok {
		return m
	}
	if p.busy[v] {
		return PolMap{}
	}
	p.busy[v] = true
	m := p.compute(v)
	// weak updates of map objects
	for _, sv := range p.mapStores[canonMap(v)] {
		m = m.join(p.Of(sv))
	}
	delete(p.busy, v)
	p.memo[v] = m
	return m
}

func (p *Polarity) allTop() PolMap {
	r := PolMap{}
	for _, n := range p.tracked {
		r[n] = PolTop
	}
	return r
}

func (p *Polarity) compute(v ssa.Value) PolMap {
	if n, ok := p.tracked[v]; ok {
		return PolMap{n: PolUp}
	}
	switch x := v.(type) {
	case *ssa.Const, *ssa.Global, *ssa.Function, *ssa.Builtin:
		return PolMap{}
	case *ssa.Parameter, *ssa.FreeVar:
		return PolMap{} // untracked inputs
	case *ssa.Phi:
		r := PolMap{}
		for _, e := range x.Edges {
			r = r.join(p.Of(e))
		}
		return r
	case *ssa.UnOp:
		if x.Op == token.MUL {
			if a, ok := x.X.(*ssa.Alloc); ok {
				// only the stores that can be the reaching definition of this load (a store that
				// executes strictly after the load is not)
				r := PolMap{}
				for _, ref := range *a.Referrers() {
					st, ok := ref.(*ssa.Store)
					if !ok || st.Addr != a {
						continue
					}
					sb, lb := st.Block(), x.Block()
					reaches := false
					if sb == lb {
						for _, in := range sb.Instrs {
							if in == ssa.Instruction(st) {
								reaches = true
								break
							}
							if in == ssa.Instruction(x) {
								break
							}
						}
						if !reaches && ForwardReachBlocks(sb)[lb] {
							reaches = true // around a loop
						}
					} else {
						reaches = ForwardReachBlocks(sb)[lb]
					}
					if reaches {
						r = r.join(p.Of(st.Val))
					}
				}
				return r
			}
			return p.Of(x.X)
		}
		if x.Op == token.SUB {
			return p.Of(x.X).neg()
		}
		return p.Of(x.X).top()
	case *ssa.Alloc:
		r := PolMap{}
		for _, ref := range *x.Referrers() {
			if st, ok := ref.(*ssa.Store); ok && st.Addr == x {
				r = r.join(p.Of(st.Val))
			}
		}
		return r
	case *ssa.FieldAddr:
		return p.Of(x.X)
	case *ssa.Field:
		return p.Of(x.X)
	case *ssa.IndexAddr:
		return p.Of(x.X)
	case *ssa.Index:
		return p.Of(x.X)
	case *ssa.Lookup:
		return p.Of(x.X)
	case *ssa.Extract:
		return p.Of(x.Tuple)
	case *ssa.ChangeType:
		return p.Of(x.X)
	case *ssa.Convert:
		return p.Of(x.X)
	case *ssa.MakeInterface:
		return p.Of(x.X)
	case *ssa.ChangeInterface:
		return p.Of(x.X)
	case *ssa.Slice:
		return p.Of(x.X)
	case *ssa.MakeMap, *ssa.MakeSlice:
		return PolMap{}
	case *ssa.BinOp:
		a, b := p.Of(x.X), p.Of(x.Y)
		switch x.Op {
		case token.ADD:
			return a.join(b)
		case token.SUB:
			return a.join(b.neg())
		case token.MUL, token.QUO:
			// scaling by something independent of the inputs (assumed non-negative)
			if len(b.nonConst()) == 0 {
				return a
			}
			if len(a.nonConst()) == 0 && x.Op == token.MUL {
				return b
			}
			return a.join(b).top()
		}
		return a.join(b).top()
	case *ssa.Call:
		name := ShortCallee(&x.Call)
		args := Args(&x.Call)
		switch {
		case p.ops.Const[name]:
			return PolMap{}
		case p.ops.Join[name]:
			r := PolMap{}
			for _, a := range args {
				r = r.join(p.Of(a))
			}
			return r
		case p.ops.Sub[name] && len(args) >= 2:
			return p.Of(args[0]).join(p.Of(args[1]).neg())
		case p.ops.Same[name] && len(args) >= 1:
			return p.Of(args[0])
		case p.ops.Scale[name] && len(args) >= 2:
			f := p.Of(args[1])
			if len(f.nonConst()) != 0 {
				return p.Of(args[0]).join(f).top()
			}
			return p.Of(args[0])
		case p.ops.Ignored[name]:
			return PolMap{}
		}
		// unknown call: if no argument depends on a tracked input the result does not either
		r := PolMap{}
		dep := false
		for _, a := range args {
			m := p.Of(a)
			if len(m.nonConst()) > 0 {
				dep = true
			}
			r = r.join(m)
		}
		if !dep {
			return PolMap{}
		}
		p.Unknown = append(p.Unknown, v)
		return r.top()
	}
	return PolMap{}
}

func (m PolMap) nonConst() []string {
	var out []string
	for k, v := range m {
		if v != PolNone {
			out = append(out, k)
		}
	}
	sort.Strings(out)
	return out
}

// NonConst lists the inputs the value depends on.
func (m PolMap) NonConst() []string { return m.nonConst() }

// canonMap identifies a map object held in a local variable cell by the cell.
func canonMap(v ssa.Value) ssa.Value {
	if u, ok := v.(*ssa.UnOp); ok && u.Op == token.MUL {
		if a, ok := u.X.(*ssa.Alloc); ok {
			return a
		}
	}
	return v
}
