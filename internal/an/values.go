package an

import (
	"fmt"
	"go/token"
	"go/types"
	"sort"
	"strings"

	"golang.org/x/tools/go/ssa"
)

// CalleeName returns a resolved, package-qualified name of the callee of a call:
// "pkgpath.Func", "(pkgpath.T).Method" / "(*pkgpath.T).Method" for static calls,
// "(pkgpath.Iface).Method" for interface invocations, "" for dynamic calls of values.
func CalleeName(c *ssa.CallCommon) string {
	if c.IsInvoke() {
		recv := c.Value.Type()
		return fmt.Sprintf("(%s).%s", types.TypeString(recv, nil), c.Method.Name())
	}
	if f := c.StaticCallee(); f != nil {
		return FullName(f)
	}
	if b, ok := c.Value.(*ssa.Builtin); ok {
		return "builtin." + b.Name()
	}
	return ""
}

// FullName is the resolved name of an SSA function; instantiations are reported by origin.
func FullName(f *ssa.Function) string {
	if f == nil {
		return ""
	}
	if o := f.Origin(); o != nil {
		f = o
	}
	return f.String()
}

// ShortCallee returns only the function/method name of the callee.
func ShortCallee(c *ssa.CallCommon) string {
	if c.IsInvoke() {
		return c.Method.Name()
	}
	if f := c.StaticCallee(); f != nil {
		return f.Name()
	}
	if b, ok := c.Value.(*ssa.Builtin); ok {
		return b.Name()
	}
	return ""
}

// IsCallTo reports whether the call resolves to one of the given full names
// (as returned by CalleeName). A trailing "*" in a name matches by prefix.
func IsCallTo(c *ssa.CallCommon, names ...string) bool {
	n := CalleeName(c)
	if n == "" {
		return false
	}
	for _, w := range names {
		if strings.HasSuffix(w, "*") {
			if strings.HasPrefix(n, strings.TrimSuffix(w, "*")) {
				return true
			}
		} else if n == w {
			return true
		}
	}
	return false
}

// Calls lists the call instructions (call, go, defer) of fn in block order, optionally
// including anonymous functions declared inside it.
func Calls(fn *ssa.Function, withAnon bool) []ssa.CallInstruction {
	var out []ssa.CallInstruction
	for _, b := range fn.Blocks {
		for _, in := range b.Instrs {
			if ci, ok := in.(ssa.CallInstruction); ok {
				out = append(out, ci)
			}
		}
	}
	if withAnon {
		for _, a := range fn.AnonFuncs {
			out = append(out, Calls(a, true)...)
		}
	}
	return out
}

// CallsTo lists the calls in fn whose callee is one of names.
func CallsTo(fn *ssa.Function, withAnon bool, names ...string) []ssa.CallInstruction {
	var out []ssa.CallInstruction
	for _, c := range Calls(fn, withAnon) {
		if IsCallTo(c.Common(), names...) {
			out = append(out, c)
		}
	}
	return out
}

// Args returns the arguments of a call with the receiver first for method calls
// (both static and invoke mode).
func Args(c *ssa.CallCommon) []ssa.Value {
	if c.IsInvoke() {
		return append([]ssa.Value{c.Value}, c.Args...)
	}
	return c.Args
}

// Origin strips value-preserving wrappers: ChangeType, ChangeInterface, MakeInterface,
// Convert between identical underlying types, and single-value Extract of calls is kept.
func Origin(v ssa.Value) ssa.Value {
	for {
		switch x := v.(type) {
		case *ssa.ChangeType:
			v = x.X
		case *ssa.ChangeInterface:
			v = x.X
		case *ssa.MakeInterface:
			v = x.X
		default:
			return v
		}
	}
}

// ResultOfCall: if v is the i-th result of a call instruction, returns it.
func ResultOfCall(v ssa.Value) (*ssa.Call, int) {
	v = Origin(v)
	switch x := v.(type) {
	case *ssa.Call:
		return x, 0
	case *ssa.Extract:
		if c, ok := x.Tuple.(*ssa.Call); ok {
			return c, x.Index
		}
	}
	return nil, -1
}

// Path renders a value as an access path over parameters, receiver fields, constants and
// calls. Two values with the same path in one function denote the same object provided no
// store to a component of the path happens in between (rules that rely on it say so).
func Path(v ssa.Value) string {
	return path(v, 0)
}

// PathSubst renders like Path but prints the values in subst as the given placeholders.
func PathSubst(v ssa.Value, subst map[ssa.Value]string) string {
	old := pathSubst
	pathSubst = subst
	defer func() { pathSubst = old }()
	return path(v, 0)
}

var pathSubst map[ssa.Value]string

func path(v ssa.Value, depth int) string {
	if pathSubst != nil {
		if s, ok := pathSubst[v]; ok {
			return s
		}
	}
	if depth > 12 {
		return "…"
	}
	switch x := v.(type) {
	case nil:
		return "<nil>"
	case *ssa.Parameter:
		return x.Name()
	case *ssa.FreeVar:
		return x.Name()
	case *ssa.Const:
		if x.Value == nil {
			return "nil"
		}
		return x.Value.ExactString()
	case *ssa.Global:
		return x.Pkg.Pkg.Name() + "." + x.Name()
	case *ssa.Function:
		return "func:" + FullName(x)
	case *ssa.Builtin:
		return "builtin." + x.Name()
	case *ssa.UnOp:
		if x.Op == token.MUL {
			switch a := x.X.(type) {
			case *ssa.FieldAddr:
				return path(a.X, depth+1) + "." + fieldName(a.X.Type(), a.Field)
			case *ssa.IndexAddr:
				return path(a.X, depth+1) + "[" + path(a.Index, depth+1) + "]"
			case *ssa.Alloc:
				return "*" + allocName(a)
			case *ssa.Global:
				return a.Pkg.Pkg.Name() + "." + a.Name()
			case *ssa.FreeVar:
				return "*" + a.Name()
			}
			return "*(" + path(x.X, depth+1) + ")"
		}
		return x.Op.String() + path(x.X, depth+1)
	case *ssa.FieldAddr:
		return "&" + path(x.X, depth+1) + "." + fieldName(x.X.Type(), x.Field)
	case *ssa.Field:
		return path(x.X, depth+1) + "." + fieldName(x.X.Type(), x.Field)
	case *ssa.IndexAddr:
		return "&" + path(x.X, depth+1) + "[" + path(x.Index, depth+1) + "]"
	case *ssa.Index:
		return path(x.X, depth+1) + "[" + path(x.Index, depth+1) + "]"
	case *ssa.Lookup:
		return path(x.X, depth+1) + "[" + path(x.Index, depth+1) + "]"
	case *ssa.Extract:
		return path(x.Tuple, depth+1) + "#" + fmt.Sprint(x.Index)
	case *ssa.ChangeType:
		return path(x.X, depth+1)
	case *ssa.ChangeInterface:
		return path(x.X, depth+1)
	case *ssa.MakeInterface:
		return path(x.X, depth+1)
	case *ssa.Convert:
		return "conv(" + path(x.X, depth+1) + ")"
	case *ssa.Alloc:
		return "&" + allocName(x)
	case *ssa.BinOp:
		return "(" + path(x.X, depth+1) + " " + x.Op.String() + " " + path(x.Y, depth+1) + ")"
	case *ssa.Call:
		var as []string
		for _, a := range Args(&x.Call) {
			as = append(as, path(a, depth+1))
		}
		n := CalleeName(&x.Call)
		if n == "" {
			n = "dyn:" + path(x.Call.Value, depth+1)
		}
		return shortPkg(n) + "(" + strings.Join(as, ", ") + ")"
	case *ssa.Phi:
		var es []string
		for _, e := range x.Edges {
			if e == v {
				continue
			}
			if depth > 8 {
				es = append(es, "…")
				break
			}
			es = append(es, path(e, depth+2))
		}
		sort.Strings(es)
		return "φ(" + strings.Join(dedup(es), "|") + ")"
	case *ssa.Slice:
		return path(x.X, depth+1) + "[:]"
	case *ssa.TypeAssert:
		return path(x.X, depth+1) + ".(" + types.TypeString(x.AssertedType, shortQual) + ")"
	case *ssa.MakeClosure:
		return "closure:" + x.Fn.Name()
	case *ssa.MakeMap:
		return "make(map)"
	case *ssa.MakeSlice:
		return "make(slice)"
	case *ssa.Range:
		return "range(" + path(x.X, depth+1) + ")"
	case *ssa.Next:
		return "next(" + path(x.Iter, depth+1) + ")"
	}
	return fmt.Sprintf("%T:%s", v, v.Name())
}

func dedup(s []string) []string {
	var out []string
	for i, x := range s {
		if i == 0 || x != s[i-1] {
			out = append(out, x)
		}
	}
	return out
}

func shortQual(p *types.Package) string { return p.Name() }

func shortPkg(n string) string {
	// "(*github.com/a/b/pkg.T).M" -> "(*pkg.T).M"
	i := strings.LastIndex(n, "/")
	if i < 0 {
		return n
	}
	j := strings.IndexAny(n, "(*")
	pre := ""
	if j == 0 {
		k := 0
		for k < len(n) && (n[k] == '(' || n[k] == '*') {
			k++
		}
		pre = n[:k]
	}
	return pre + n[i+1:]
}

func allocName(a *ssa.Alloc) string {
	if a.Comment != "" {
		return "local:" + a.Comment
	}
	return "local:" + a.Name()
}

// FieldName returns the name of field i of the (pointer to) struct type t.
func fieldName(t types.Type, i int) string {
	if p, ok := t.Underlying().(*types.Pointer); ok {
		t = p.Elem()
	}
	if s, ok := t.Underlying().(*types.Struct); ok && i < s.NumFields() {
		return s.Field(i).Name()
	}
	return fmt.Sprintf("f%d", i)
}

// FieldOf returns the struct type name and field name addressed by a FieldAddr/Field.
func FieldOf(v ssa.Value) (owner string, field string, base ssa.Value, ok bool) {
	var t types.Type
	var idx int
	switch x := v.(type) {
	case *ssa.FieldAddr:
		t, idx, base = x.X.Type(), x.Field, x.X
	case *ssa.Field:
		t, idx, base = x.X.Type(), x.Field, x.X
	default:
		return "", "", nil, false
	}
	if p, isP := t.Underlying().(*types.Pointer); isP {
		t = p.Elem()
	}
	name := ""
	if n, isN := t.(*types.Named); isN {
		name = n.Obj().Name()
		if n.Obj().Pkg() != nil {
			name = n.Obj().Pkg().Path() + "." + name
		}
	}
	s, isS := t.Underlying().(*types.Struct)
	if !isS || idx >= s.NumFields() {
		return "", "", nil, false
	}
	return name, s.Field(idx).Name(), base, true
}

// ErrNilGuard reports whether guards contain "the error result of a call matching isCall is nil".
func GuardErrNil(gs []Guard, isCall func(*ssa.CallCommon) bool) bool {
	for _, g := range gs {
		b, ok := g.Cond.(*ssa.BinOp)
		if !ok || (b.Op != token.EQL && b.Op != token.NEQ) {
			continue
		}
		var other ssa.Value
		if isNilConst(b.Y) {
			other = b.X
		} else if isNilConst(b.X) {
			other = b.Y
		} else {
			continue
		}
		c, _ := ResultOfCall(other)
		if c == nil || !isCall(&c.Call) {
			continue
		}
		// cond (x == nil) true  or (x != nil) false
		if (b.Op == token.EQL) == g.Truth {
			return true
		}
	}
	return false
}

// GuardCall reports whether guards contain "call matching isCall returned truth" (boolean result,
// possibly one component of a tuple).
func GuardCall(gs []Guard, truth bool, isCall func(*ssa.CallCommon) bool) bool {
	for _, g := range gs {
		c, _ := ResultOfCall(g.Cond)
		if c != nil && isCall(&c.Call) && g.Truth == truth {
			return true
		}
	}
	return false
}

func isNilConst(v ssa.Value) bool {
	c, ok := v.(*ssa.Const)
	return ok && c.Value == nil
}

func IsNilConst(v ssa.Value) bool { return isNilConst(v) }

// DescribeGuards renders guards for reports.
func DescribeGuards(gs []Guard) string {
	var s []string
	for _, g := range gs {
		s = append(s, fmt.Sprintf("%s==%v", Path(g.Cond), g.Truth))
	}
	sort.Strings(s)
	return strings.Join(s, " ∧ ")
}

// Rel is a branch outcome written as a relation "X Op Y" that HOLDS (the truth value is folded into the operator).
type Rel struct {
	X, Y ssa.Value
	Op   token.Token
}

func negRel(op token.Token) token.Token {
	switch op {
	case token.EQL:
		return token.NEQ
	case token.NEQ:
		return token.EQL
	case token.LSS:
		return token.GEQ
	case token.GEQ:
		return token.LSS
	case token.GTR:
		return token.LEQ
	case token.LEQ:
		return token.GTR
	}
	return token.ILLEGAL
}

func swapRel(op token.Token) token.Token {
	switch op {
	case token.LSS:
		return token.GTR
	case token.GTR:
		return token.LSS
	case token.LEQ:
		return token.GEQ
	case token.GEQ:
		return token.LEQ
	}
	return op
}

// RelOf normalises a guard whose condition is a comparison (possibly negated) into the relation that holds.
func RelOf(g Guard) (Rel, bool) {
	v, neg := StripNot(g.Cond)
	bo, ok := v.(*ssa.BinOp)
	if !ok {
		return Rel{}, false
	}
	op := bo.Op
	switch op {
	case token.EQL, token.NEQ, token.LSS, token.LEQ, token.GTR, token.GEQ:
	default:
		return Rel{}, false
	}
	if g.Truth == neg { // condition false (or negated condition true)
		op = negRel(op)
	}
	return Rel{bo.X, bo.Y, op}, true
}

// Holds reports whether some guard implies "x op y", where same decides operand identity. Recognised implications:
// the relation itself, its mirrored form (y op' x) and, against the integer constants 0/1, x > 0 <=> x >= 1.
func Holds(gs []Guard, op token.Token, isX, isY func(ssa.Value) bool) bool {
	for _, g := range gs {
		r, ok := RelOf(g)
		if !ok {
			continue
		}
		if r.Op == op && isX(r.X) && isY(r.Y) {
			return true
		}
		if swapRel(r.Op) == op && isX(r.Y) && isY(r.X) {
			return true
		}
	}
	return false
}

// ImpliesPositive reports whether some guard implies v > 0 (v >= 1, 0 < v, !(v <= 0), and v != 0 for unsigned v).
func ImpliesPositive(gs []Guard, isV func(ssa.Value) bool) bool {
	for _, g := range gs {
		r, ok := RelOf(g)
		if !ok {
			continue
		}
		x, y, op := r.X, r.Y, r.Op
		if !isV(x) && isV(y) {
			x, y, op = y, x, swapRel(op)
		}
		if !isV(x) {
			continue
		}
		k, isC := constInt(y)
		if !isC {
			continue
		}
		switch {
		case op == token.GTR && k >= 0, op == token.GEQ && k >= 1:
			return true
		case op == token.NEQ && k == 0:
			if b, ok := x.Type().Underlying().(*types.Basic); ok && b.Info()&types.IsUnsigned != 0 {
				return true
			}
		}
	}
	return false
}
