package an

import (
	"go/constant"
	"go/token"
	"go/types"

	"golang.org/x/tools/go/ssa"
)

// DivSite is one integer division or remainder.
type DivSite struct {
	Instr   *ssa.BinOp
	Divisor ssa.Value
	Proof   string // non-empty when the divisor is proven non-zero
}

// IntDivisions lists the integer / and % of fn with the proof status of each divisor.
func IntDivisions(fn *ssa.Function) []DivSite {
	var out []DivSite
	for _, b := range fn.Blocks {
		for _, in := range b.Instrs {
			bo, ok := in.(*ssa.BinOp)
			if !ok || (bo.Op != token.QUO && bo.Op != token.REM) {
				continue
			}
			bt, ok := bo.Type().Underlying().(*types.Basic)
			if !ok || bt.Info()&types.IsInteger == 0 {
				continue
			}
			out = append(out, DivSite{Instr: bo, Divisor: bo.Y, Proof: nonZeroProof(bo.Y, bo)})
		}
	}
	return out
}

func stripConv(v ssa.Value) ssa.Value {
	for {
		switch x := v.(type) {
		case *ssa.Convert:
			v = x.X
		case *ssa.ChangeType:
			v = x.X
		default:
			return v
		}
	}
}

func constInt(v ssa.Value) (int64, bool) {
	c, ok := stripConv(v).(*ssa.Const)
	if !ok || c.Value == nil || c.Value.Kind() != constant.Int {
		return 0, false
	}
	i, ok := constant.Int64Val(c.Value)
	return i, ok
}

// sameQuantity: a and b denote the same runtime integer (same SSA value after conversions,
// or len() of the same access path).
func sameQuantity(a, b ssa.Value) bool {
	a, b = stripConv(a), stripConv(b)
	if a == b {
		return true
	}
	if ba, ok := a.(*ssa.BinOp); ok {
		if bb, ok := b.(*ssa.BinOp); ok && ba.Op == bb.Op {
			if sameQuantity(ba.X, bb.X) && sameQuantity(ba.Y, bb.Y) {
				return true
			}
			if (ba.Op == token.ADD || ba.Op == token.MUL) && sameQuantity(ba.X, bb.Y) && sameQuantity(ba.Y, bb.X) {
				return true
			}
		}
		return false
	}
	la, oka := lenArg(a)
	lb, okb := lenArg(b)
	if oka && okb {
		if la == lb {
			return true
		}
		pa, pb := Path(la), Path(lb)
		if pa != pb {
			return false
		}
		if purePathOrLocal(la) {
			return true
		}
		// two loads of the same local cell that is not re-assigned after the guard
		if ua, ok := la.(*ssa.UnOp); ok {
			if ub, ok := lb.(*ssa.UnOp); ok && ua.X == ub.X {
				if in, ok := b.(ssa.Instruction); ok {
					_ = in
				}
				return stableCell(la, ua.Block()) && stableCell(lb, ub.Block())
			}
		}
		return false
	}
	return false
}

func purePathOrLocal(v ssa.Value) bool {
	switch v.(type) {
	case *ssa.Phi, *ssa.Call, *ssa.Extract, *ssa.MakeSlice, *ssa.Slice:
		return false // identity only
	}
	return purePath(v, 0)
}

func lenArg(v ssa.Value) (ssa.Value, bool) {
	c, ok := v.(*ssa.Call)
	if !ok {
		return nil, false
	}
	b, ok := c.Call.Value.(*ssa.Builtin)
	if !ok || b.Name() != "len" || len(c.Call.Args) != 1 {
		return nil, false
	}
	return c.Call.Args[0], true
}

// nonZeroProof returns a textual justification that d != 0 at instruction at, or "".
func nonZeroProof(d ssa.Value, at ssa.Instruction) string {
	if c, ok := constInt(d); ok {
		if c != 0 {
			return "non-zero constant"
		}
		return ""
	}
	dd := stripConv(d)
	// d = x + c / x * c patterns are not handled; a positive-constant max is.
	if call, ok := dd.(*ssa.Call); ok {
		if b, ok := call.Call.Value.(*ssa.Builtin); ok && b.Name() == "max" {
			for _, a := range call.Call.Args {
				if c, ok := constInt(a); ok && c > 0 {
					return "max(…, positive constant)"
				}
			}
		}
	}
	for _, g := range Guards(at) {
		b, ok := g.Cond.(*ssa.BinOp)
		if !ok {
			continue
		}
		if p := impliesNonZero(b, g.Truth, dd); p != "" {
			return p
		}
	}
	return ""
}

// impliesNonZero: does (b == truth) imply d != 0 ?
func impliesNonZero(b *ssa.BinOp, truth bool, d ssa.Value) string {
	op := b.Op
	x, y := b.X, b.Y
	// normalise so that the quantity is on the left
	if !sameQuantity(x, d) {
		if !sameQuantity(y, d) {
			// i < len(x) with i >= 0 is handled below
			if la, ok := lenArg(stripConv(d)); ok {
				_ = la
				if op == token.LSS && truth && sameQuantity(y, d) {
					return ""
				}
			}
			return ""
		}
		x, y = y, x
		switch op {
		case token.LSS:
			op = token.GTR
		case token.GTR:
			op = token.LSS
		case token.LEQ:
			op = token.GEQ
		case token.GEQ:
			op = token.LEQ
		}
	}
	if !truth {
		switch op {
		case token.EQL:
			op = token.NEQ
		case token.NEQ:
			op = token.EQL
		case token.LSS:
			op = token.GEQ
		case token.GEQ:
			op = token.LSS
		case token.GTR:
			op = token.LEQ
		case token.LEQ:
			op = token.GTR
		}
	}
	c, ok := constInt(y)
	if !ok {
		// len(x) > i where i is a non-negative loop index
		if op == token.GTR && nonNegative(y, 0) {
			return "dominated by index < len(x) with a non-negative index"
		}
		return ""
	}
	switch op {
	case token.NEQ:
		if c == 0 {
			return "dominated by d != 0"
		}
	case token.GTR:
		if c >= 0 {
			return "dominated by d > c, c >= 0"
		}
	case token.GEQ:
		if c >= 1 {
			return "dominated by d >= c, c >= 1"
		}
	case token.LSS:
		if c <= 0 {
			return "dominated by d < c, c <= 0"
		}
	case token.EQL:
		if c != 0 {
			return "dominated by d == non-zero constant"
		}
	}
	return ""
}

// nonNegative: v is a non-negative integer (constant >= 0, len(), remainder of a non-negative
// value, sum of non-negative values, or a phi of such; cycles through phis are assumed inductively).
func nonNegative(v ssa.Value, depth int) bool {
	return nonNeg(v, map[ssa.Value]bool{}, depth)
}

func nonNeg(v ssa.Value, assume map[ssa.Value]bool, depth int) bool {
	if depth > 8 {
		return false
	}
	v = stripConv(v)
	if assume[v] {
		return true
	}
	if c, ok := constInt(v); ok {
		return c >= 0
	}
	if _, ok := lenArg(v); ok {
		return true
	}
	switch x := v.(type) {
	case *ssa.Phi:
		assume[v] = true
		for _, e := range x.Edges {
			if !nonNeg(e, assume, depth+1) {
				delete(assume, v)
				return false
			}
		}
		return true
	case *ssa.BinOp:
		switch x.Op {
		case token.ADD, token.MUL:
			return nonNeg(x.X, assume, depth+1) && nonNeg(x.Y, assume, depth+1)
		case token.REM:
			return nonNeg(x.X, assume, depth+1)
		case token.QUO:
			return nonNeg(x.X, assume, depth+1) && nonNeg(x.Y, assume, depth+1)
		}
	}
	return false
}

// stableCell: v is a load of a local variable cell whose every store dominates block at and cannot
// be re-executed after it, and no closure capturing the cell writes it.
func stableCell(v ssa.Value, at *ssa.BasicBlock) bool {
	u, ok := v.(*ssa.UnOp)
	if !ok || u.Op != token.MUL {
		return false
	}
	a, ok := u.X.(*ssa.Alloc)
	if !ok {
		return false
	}
	for _, ref := range *a.Referrers() {
		switch r := ref.(type) {
		case *ssa.Store:
			if r.Addr != a {
				return false // the address itself escapes into memory
			}
			sb := r.Block()
			if sb == at || blockReaches(at, sb) {
				return false // the cell may be re-assigned after the point of interest
			}
		case *ssa.UnOp:
			// loads are fine
		case *ssa.MakeClosure:
			fn, _ := r.Fn.(*ssa.Function)
			if fn == nil {
				return false
			}
			for i, bnd := range r.Bindings {
				if bnd != ssa.Value(a) {
					continue
				}
				fv := fn.FreeVars[i]
				for _, fr := range *fv.Referrers() {
					if st, ok := fr.(*ssa.Store); ok && st.Addr == ssa.Value(fv) {
						return false
					}
					if _, ok := fr.(*ssa.UnOp); !ok {
						if _, isSt := fr.(*ssa.Store); !isSt {
							return false
						}
					}
				}
			}
		case *ssa.DebugRef:
		default:
			return false
		}
	}
	return true
}

func blockReaches(from, to *ssa.BasicBlock) bool {
	seen := map[*ssa.BasicBlock]bool{}
	var st []*ssa.BasicBlock
	st = append(st, from.Succs...)
	for len(st) > 0 {
		b := st[len(st)-1]
		st = st[:len(st)-1]
		if seen[b] {
			continue
		}
		seen[b] = true
		if b == to {
			return true
		}
		st = append(st, b.Succs...)
	}
	return false
}
