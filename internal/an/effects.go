package an

import (
	"fmt"
	"go/token"
	"go/types"
	"sort"
	"strings"

	"golang.org/x/tools/go/ssa"
)

// Chain is an access path from a root value (parameter, receiver, free variable, global)
// through fields and element accesses; element indices are elided ("[]").
type Chain struct {
	Root  ssa.Value
	Elems []string
}

func (c Chain) String() string {
	r := "?"
	switch x := c.Root.(type) {
	case *ssa.Parameter:
		r = x.Name()
	case *ssa.FreeVar:
		r = x.Name()
	case *ssa.Global:
		r = x.Name()
	case *ssa.Alloc:
		r = allocName(x)
	case *ssa.Call:
		r = "ret:" + ShortCallee(&x.Call)
	case nil:
		r = "?"
	default:
		r = fmt.Sprintf("%T", c.Root)
	}
	return r + c.Suffix()
}

// Suffix is the chain without its root: ".a[].b".
func (c Chain) Suffix() string {
	var sb strings.Builder
	for _, e := range c.Elems {
		if e == "[]" {
			sb.WriteString("[]")
		} else {
			sb.WriteString("." + e)
		}
	}
	return sb.String()
}

// First returns the first field of the chain ("" if none).
func (c Chain) First() string {
	for _, e := range c.Elems {
		if e != "[]" {
			return e
		}
	}
	return ""
}

// Chains resolves v to the access paths it may denote (several for phis). Values produced by
// allocation or calls end a chain with that instruction as root.
func Chains(v ssa.Value) []Chain {
	seen := map[ssa.Value]bool{}
	return chains(v, seen, 0)
}

func chains(v ssa.Value, seen map[ssa.Value]bool, depth int) []Chain {
	if v == nil || depth > 40 {
		return nil
	}
	if seen[v] {
		return nil
	}
	ext := func(x ssa.Value, elem string) []Chain {
		var cs []Chain
		if a, ok := x.(*ssa.Alloc); ok {
			// address of a local variable cell: continue from the values stored into it
			for _, ref := range *a.Referrers() {
				if st, ok := ref.(*ssa.Store); ok && st.Addr == a && !seen[st.Val] {
					cs = append(cs, chains(st.Val, seen, depth+1)...)
				}
			}
			if len(cs) == 0 {
				cs = []Chain{{Root: a}}
			}
		} else {
			cs = chains(x, seen, depth+1)
		}
		out := make([]Chain, 0, len(cs))
		for _, c := range cs {
			e := append(append([]string{}, c.Elems...), elem)
			out = append(out, Chain{Root: c.Root, Elems: e})
		}
		return out
	}
	switch x := v.(type) {
	case *ssa.Parameter, *ssa.FreeVar, *ssa.Global:
		return []Chain{{Root: v}}
	case *ssa.FieldAddr:
		return ext(x.X, fieldName(x.X.Type(), x.Field))
	case *ssa.Field:
		return ext(x.X, fieldName(x.X.Type(), x.Field))
	case *ssa.IndexAddr:
		return ext(x.X, "[]")
	case *ssa.Index:
		return ext(x.X, "[]")
	case *ssa.Lookup:
		return ext(x.X, "[]")
	case *ssa.UnOp:
		if x.Op == token.MUL {
			// load through a local variable cell: follow the stores into it
			if a, ok := x.X.(*ssa.Alloc); ok {
				seen[v] = true
				var out []Chain
				for _, ref := range *a.Referrers() {
					if st, ok := ref.(*ssa.Store); ok && st.Addr == a {
						out = append(out, chains(st.Val, seen, depth+1)...)
					}
				}
				if len(out) == 0 {
					return []Chain{{Root: a}}
				}
				return out
			}
			return chains(x.X, seen, depth+1)
		}
		return nil
	case *ssa.Extract:
		if _, ok := x.Tuple.(*ssa.Lookup); ok && x.Index == 0 {
			return chains(x.Tuple, seen, depth+1)
		}
		if n, ok := x.Tuple.(*ssa.Next); ok && x.Index >= 1 {
			// range over map/slice: element (index 2) or key (index 1) of the ranged value
			if rg, ok := n.Iter.(*ssa.Range); ok && x.Index == 2 {
				return ext(rg.X, "[]")
			}
			return nil
		}
		if c, ok := x.Tuple.(*ssa.Call); ok {
			return []Chain{{Root: c}}
		}
		return nil
	case *ssa.Phi:
		seen[v] = true
		var out []Chain
		for _, e := range x.Edges {
			out = append(out, chains(e, seen, depth+1)...)
		}
		return out
	case *ssa.ChangeType:
		return chains(x.X, seen, depth+1)
	case *ssa.ChangeInterface:
		return chains(x.X, seen, depth+1)
	case *ssa.MakeInterface:
		return chains(x.X, seen, depth+1)
	case *ssa.Slice:
		return chains(x.X, seen, depth+1)
	case *ssa.Alloc:
		return []Chain{{Root: x}}
	case *ssa.Call:
		return []Chain{{Root: x}}
	case *ssa.MakeMap, *ssa.MakeSlice:
		return nil
	}
	return nil
}

// Effect is one mutation of state reachable from a root (usually the receiver).
type Effect struct {
	Chain Chain
	Op    string // mapstore | mapdelete | store | call:<Method>
	Val   string // summary of the stored value / call arguments
	Instr ssa.Instruction
}

func (e Effect) String() string {
	s := e.Chain.String() + " " + e.Op
	if e.Val != "" {
		s += " " + e.Val
	}
	return s
}

// Effects lists the mutations in fn of state rooted at root (a parameter, typically the
// receiver). mutators names the methods that count as mutation when invoked on a value
// rooted at root (e.g. Insert, Delete, Add, Sub).
func Effects(fn *ssa.Function, root ssa.Value, mutators map[string]bool) []Effect {
	var out []Effect
	add := func(cs []Chain, op, val string, in ssa.Instruction) {
		for _, c := range cs {
			if c.Root == root && len(c.Elems) > 0 {
				out = append(out, Effect{Chain: c, Op: op, Val: val, Instr: in})
			}
		}
	}
	for _, b := range fn.Blocks {
		for _, in := range b.Instrs {
			switch x := in.(type) {
			case *ssa.MapUpdate:
				cs := Chains(x.Map)
				for i := range cs {
					cs[i].Elems = append(append([]string{}, cs[i].Elems...), "[]")
				}
				add(cs, "mapstore", ValueSummary(x.Value), in)
			case *ssa.Store:
				switch x.Addr.(type) {
				case *ssa.FieldAddr, *ssa.IndexAddr:
					add(Chains(x.Addr), "store", ValueSummary(x.Val), in)
				}
			case ssa.CallInstruction:
				cc := x.Common()
				if bi, ok := cc.Value.(*ssa.Builtin); ok && bi.Name() == "delete" && len(cc.Args) == 2 {
					cs := Chains(cc.Args[0])
					for i := range cs {
						cs[i].Elems = append(append([]string{}, cs[i].Elems...), "[]")
					}
					add(cs, "mapdelete", "", in)
					continue
				}
				// library functions and builtins that write through an argument
				if idxs := externWrites(cc); len(idxs) > 0 {
					for _, i := range idxs {
						if i >= len(cc.Args) {
							continue
						}
						cs := Chains(cc.Args[i])
						for k := range cs {
							cs[k].Elems = append(append([]string{}, cs[k].Elems...), "[]")
						}
						add(cs, "call:"+externName(cc), "", in)
					}
					continue
				}
				name := ShortCallee(cc)
				if name == "" || !mutators[name] {
					continue
				}
				if !cc.IsInvoke() {
					if f := cc.StaticCallee(); f == nil || f.Signature.Recv() == nil {
						continue
					}
				}
				as := Args(cc)
				if len(as) == 0 {
					continue
				}
				var av []string
				for _, a := range as[1:] {
					av = append(av, argSummary(a))
				}
				add(Chains(as[0]), "call:"+name, strings.Join(av, ","), in)
			}
		}
	}
	return out
}

// ValueSummary names the top-level operator that produced a stored value and the access-path
// suffixes of its operands, e.g. "Add(.Resources,.NUMANodeResources[].Resources)" or
// "{RefCount:+1}" for a struct assembled in a local variable.
func ValueSummary(v ssa.Value) string {
	v = Origin(v)
	switch x := v.(type) {
	case *ssa.Call:
		var av []string
		for _, a := range Args(&x.Call) {
			av = append(av, argSummary(a))
		}
		return ShortCallee(&x.Call) + "(" + strings.Join(av, ",") + ")"
	case *ssa.BinOp:
		return "(" + argSummary(x.X) + x.Op.String() + argSummary(x.Y) + ")"
	case *ssa.UnOp:
		if x.Op == token.MUL {
			if a, ok := x.X.(*ssa.Alloc); ok {
				// struct assembled in a local: summarise the field stores
				var fs []string
				for _, ref := range *a.Referrers() {
					fa, ok := ref.(*ssa.FieldAddr)
					if !ok {
						continue
					}
					for _, r2 := range *fa.Referrers() {
						if st, ok := r2.(*ssa.Store); ok && st.Addr == fa {
							fs = append(fs, fieldName(fa.X.Type(), fa.Field)+":"+ValueSummary(st.Val))
						}
					}
				}
				sort.Strings(fs)
				return "{" + strings.Join(fs, ",") + "}"
			}
		}
		return argSummary(v)
	case *ssa.Const:
		return argSummary(v)
	case *ssa.Alloc:
		return "new"
	}
	return argSummary(v)
}

func argSummary(v ssa.Value) string {
	v = Origin(v)
	if c, ok := v.(*ssa.Const); ok {
		if c.Value == nil {
			return "nil"
		}
		return c.Value.ExactString()
	}
	cs := Chains(v)
	if len(cs) == 0 {
		if call, ok := v.(*ssa.Call); ok {
			return ShortCallee(&call.Call) + "(…)"
		}
		return "_"
	}
	var ss []string
	for _, c := range cs {
		switch c.Root.(type) {
		case *ssa.Parameter, *ssa.FreeVar, *ssa.Global:
			ss = append(ss, c.Suffix())
		case *ssa.Call:
			ss = append(ss, "ret:"+ShortCallee(&c.Root.(*ssa.Call).Call)+c.Suffix())
		default:
			ss = append(ss, "local"+c.Suffix())
		}
	}
	sort.Strings(ss)
	return strings.Join(dedup(ss), "|")
}

// RootFields returns the sorted set of first fields touched by the effects.
func RootFields(es []Effect) []string {
	m := map[string]bool{}
	for _, e := range es {
		m[e.Chain.First()] = true
	}
	var out []string
	for k := range m {
		out = append(out, k)
	}
	sort.Strings(out)
	return out
}

// Receiver returns the receiver parameter of a method (nil for functions).
func Receiver(fn *ssa.Function) *ssa.Parameter {
	if fn.Signature.Recv() == nil || len(fn.Params) == 0 {
		return nil
	}
	return fn.Params[0]
}

// NamedOf returns the named type behind pointers.
func NamedOf(t types.Type) *types.Named {
	for {
		switch x := t.(type) {
		case *types.Pointer:
			t = x.Elem()
		case *types.Named:
			return x
		case *types.Alias:
			t = types.Unalias(x)
		default:
			return nil
		}
	}
}

// DeepEffects lists the mutations of state reachable from root performed by fn or, through arguments that derive
// from root, by its static callees (to the given depth). Dynamic callees are not followed.
func DeepEffects(fn *ssa.Function, root ssa.Value, mutators map[string]bool, depth int) []Effect {
	type key struct {
		fn   *ssa.Function
		root ssa.Value
	}
	seen := map[key]bool{}
	var out []Effect
	var walk func(fn *ssa.Function, root ssa.Value, d int)
	walk = func(fn *ssa.Function, root ssa.Value, d int) {
		if seen[key{fn, root}] || d > depth {
			return
		}
		seen[key{fn, root}] = true
		out = append(out, Effects(fn, root, mutators)...)
		for _, cl := range Calls(fn, true) {
			callee := cl.Common().StaticCallee()
			if callee == nil || len(callee.Blocks) == 0 {
				continue
			}
			args := cl.Common().Args
			for i, a := range args {
				if i >= len(callee.Params) {
					break
				}
				derived := false
				for _, ch := range Chains(a) {
					if ch.Root == root {
						derived = true
					}
				}
				if derived {
					walk(callee, callee.Params[i], d+1)
				}
			}
		}
	}
	walk(fn, root, 0)
	return out
}

// externName: "pkgpath.Name" of a statically called function (the generic origin for instantiations), or the builtin's name.
func externName(cc *ssa.CallCommon) string {
	if bi, ok := cc.Value.(*ssa.Builtin); ok {
		return bi.Name()
	}
	f := cc.StaticCallee()
	if f == nil {
		return ""
	}
	if o := f.Origin(); o != nil {
		f = o
	}
	if obj := f.Object(); obj != nil && obj.Pkg() != nil {
		return obj.Pkg().Path() + "." + obj.Name()
	}
	return f.Name()
}

// writesArg: library functions (no body in the analysed program) and builtins that write into the object one of their
// arguments refers to: name -> argument indices.
var writesArg = map[string][]int{
	"copy":      {0},
	"clear":     {0},
	"maps.Copy": {0}, "maps.DeleteFunc": {0}, "maps.Insert": {0},
	"golang.org/x/exp/maps.Copy": {0}, "golang.org/x/exp/maps.DeleteFunc": {0}, "golang.org/x/exp/maps.Clear": {0},
	"slices.Sort": {0}, "slices.SortFunc": {0}, "slices.SortStableFunc": {0}, "slices.Reverse": {0},
	"sort.Slice": {0}, "sort.SliceStable": {0}, "sort.Sort": {0}, "sort.Stable": {0}, "sort.Strings": {0}, "sort.Ints": {0}, "sort.Float64s": {0},
	"encoding/json.Unmarshal":    {1},
	"sigs.k8s.io/yaml.Unmarshal": {1},
}

func externWrites(cc *ssa.CallCommon) []int {
	if cc.IsInvoke() {
		return nil
	}
	if f := cc.StaticCallee(); f != nil && len(f.Blocks) > 0 && f.Origin() == nil {
		return nil // analysed through its body
	}
	return writesArg[externName(cc)]
}
