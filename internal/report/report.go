// Package report collects obligations, matches violations against the committed
// known-findings file, writes the evidence file and prints the verdict lines.
package report

import (
	"encoding/json"
	"fmt"
	"os"
	"path/filepath"
	"sort"
	"strings"
	"time"
)

type Status string

const (
	Discharged Status = "discharged"
	Violated   Status = "violated"
	Undecided  Status = "undecided"
)

type Obligation struct {
	Key    string `json:"key"`  // RULE:construct — never a line number
	Rule   string `json:"rule"` // rule family / clause id
	Status Status `json:"status"`
	Pos    string `json:"pos,omitempty"`
	Detail string `json:"detail,omitempty"`
	Known  string `json:"known_finding,omitempty"` // set when the violation is the one listed in known_findings.json
}

type Run struct {
	Property    string
	Tier        string
	Seed        int
	Start       time.Time
	Obls        []Obligation
	Rules       []string // rule texts applied
	Decided     []string // clauses decided
	NotDecided  []string // clauses not decided
	Assumptions []string
	Stats       map[string]int
	funcs       map[string]bool
	keys        map[string]bool
}

func NewRun(prop, tier string, seed int) *Run {
	return &Run{Property: prop, Tier: tier, Seed: seed, Start: time.Now(), Stats: map[string]int{}, funcs: map[string]bool{}, keys: map[string]bool{}}
}

func (r *Run) add(o Obligation) {
	if r.keys[o.Key] {
		// keep keys unique: append an ordinal
		for i := 2; ; i++ {
			k := fmt.Sprintf("%s#%d", o.Key, i)
			if !r.keys[k] {
				o.Key = k
				break
			}
		}
	}
	r.keys[o.Key] = true
	r.Obls = append(r.Obls, o)
}

func (r *Run) OK(rule, key, pos, detail string) {
	r.add(Obligation{Key: rule + ":" + key, Rule: rule, Status: Discharged, Pos: pos, Detail: detail})
}
func (r *Run) Fail(rule, key, pos, detail string) {
	r.add(Obligation{Key: rule + ":" + key, Rule: rule, Status: Violated, Pos: pos, Detail: detail})
}
func (r *Run) Unknown(rule, key, pos, detail string) {
	r.add(Obligation{Key: rule + ":" + key, Rule: rule, Status: Undecided, Pos: pos, Detail: detail})
}

// Check records discharged/violated by a boolean.
func (r *Run) Check(ok bool, rule, key, pos, okDetail, failDetail string) bool {
	if ok {
		r.OK(rule, key, pos, okDetail)
	} else {
		r.Fail(rule, key, pos, failDetail)
	}
	return ok
}

// Floor fails (undecided) when a rule matched fewer sites than were confirmed by hand.
func (r *Run) Floor(rule, what string, got, want int) {
	key := "floor:" + what
	if got < want {
		r.Unknown(rule, key, "", fmt.Sprintf("matched %d sites, %d were confirmed by hand on the reference tree; the rule would pass vacuously", got, want))
	} else {
		r.OK(rule, key, "", fmt.Sprintf("matched %d sites (floor %d)", got, want))
	}
}

func (r *Run) Rule(text string)    { r.Rules = append(r.Rules, text) }
func (r *Run) Decides(text string) { r.Decided = append(r.Decided, text) }
func (r *Run) Declines(text string) {
	r.NotDecided = append(r.NotDecided, text)
}
func (r *Run) Assume(text string) { r.Assumptions = append(r.Assumptions, text) }
func (r *Run) Func(name string)   { r.funcs[name] = true }
func (r *Run) Count(what string, n int) {
	r.Stats[what] += n
}

type KnownFinding struct {
	Property string `json:"property"`
	Key      string `json:"key"`
	What     string `json:"what"`
}

type KnownFile struct {
	Comment  string         `json:"comment,omitempty"`
	Findings []KnownFinding `json:"findings"`
	Fixed    []string       `json:"fixed"`
}

func LoadKnown(path string) (*KnownFile, error) {
	b, err := os.ReadFile(path)
	if err != nil {
		if os.IsNotExist(err) {
			return &KnownFile{}, nil
		}
		return nil, err
	}
	var k KnownFile
	if err := json.Unmarshal(b, &k); err != nil {
		return nil, fmt.Errorf("%s: %w", path, err)
	}
	return &k, nil
}

// Finish prints the verdict, writes the evidence and returns the exit code.
func (r *Run) Finish(home string, extra map[string]any) int {
	sort.SliceStable(r.Obls, func(i, j int) bool { return r.Obls[i].Key < r.Obls[j].Key })
	known, kerr := LoadKnown(filepath.Join(home, "known_findings.json"))
	if kerr != nil {
		fmt.Printf("ERROR: cannot read known findings: %v\n", kerr)
		known = &KnownFile{}
	}
	knownBy := map[string]KnownFinding{}
	for _, k := range known.Findings {
		if k.Property == r.Property {
			knownBy[k.Key] = k
		}
	}
	var nDis, nViol, nUnd, nKnown int
	distinct := map[string]bool{}
	var violLines []string
	for i, o := range r.Obls {
		switch o.Status {
		case Discharged:
			nDis++
			if !strings.Contains(o.Key, ":floor:") {
				distinct[o.Key] = true
			}
		case Violated:
			if k, ok := knownBy[o.Key]; ok {
				nKnown++
				r.Obls[i].Known = k.What
				fmt.Printf("KNOWN-FINDING: property=%s %s [%s at %s]\n", r.Property, k.What, o.Key, o.Pos)
				continue
			}
			nViol++
			violLines = append(violLines, fmt.Sprintf("  violated  %s\n            at %s\n            %s", o.Key, o.Pos, o.Detail))
		case Undecided:
			nUnd++
			violLines = append(violLines, fmt.Sprintf("  undecided %s\n            at %s\n            %s", o.Key, o.Pos, o.Detail))
		}
	}
	if kerr != nil {
		nUnd++
	}
	evPath := filepath.Join(home, "evidence", r.Property+".json")
	// experiments against a patched tree (seeded/benign controls run by the tools) keep their evidence out of /verif/evidence
	if d := os.Getenv("VERIF_EVIDENCE_DIR"); d != "" {
		os.MkdirAll(d, 0o755)
		evPath = filepath.Join(d, r.Property+".json")
	}
	wall := time.Since(r.Start).Seconds()

	// samples: a few obligations written out, preferring one per rule
	var samples []any
	seenRule := map[string]int{}
	for _, o := range r.Obls {
		if seenRule[o.Rule] < 2 && len(samples) < 24 {
			seenRule[o.Rule]++
			samples = append(samples, o)
		}
	}
	funcs := make([]string, 0, len(r.funcs))
	for f := range r.funcs {
		funcs = append(funcs, f)
	}
	sort.Strings(funcs)
	expl := "Static analysis of /repo's current source (type-checked AST + go/ssa + dominator/CFG path rules); nothing is executed. " +
		"DECIDED (structural necessary conditions of the property): " + strings.Join(r.Decided, " | ") +
		" NOT DECIDED (runtime quantities, outside the reach of this technique): " + strings.Join(r.NotDecided, " | ")
	cov := map[string]any{
		"explanation":         expl,
		"obligations":         len(r.Obls),
		"discharged":          nDis,
		"known_findings":      nKnown,
		"undecided":           nUnd,
		"evaluations":         len(r.Obls),
		"distinct_nontrivial": len(distinct),
		"rule":                "one obligation per (rule, construct) instance resolved in the type-checked program; distinct = distinct obligation keys that were discharged, floors excluded. Rules: " + strings.Join(r.Rules, " || "),
		"samples":             samples,
		"functions_analysed":  funcs,
		"checker_cmd":         fmt.Sprintf("./check %s --tier %s", r.Property, r.Tier),
		"trusted_base":        []string{"go/types, go/ssa, go/packages of golang.org/x/tools v0.50.0", "go1.26.8 go list (linux/amd64, cgo on, no extra tags, test files excluded)", "the rule tables in /verif/internal/rules (which function is the gate, which fields form the ledger)"},
		"all_obligations":     r.Obls,
		"stats":               r.Stats,
	}
	for k, v := range extra {
		cov[k] = v
	}
	if r.Assumptions == nil {
		r.Assumptions = []string{}
	}
	r.Assumptions = append(r.Assumptions, "go/types, go/ssa and go/packages (x/tools v0.50.0) model the program that the real build compiles (linux/amd64, cgo on, no extra build tags, test files excluded)", "code reached only through reflection or unsafe is invisible to the analysis")
	ev := map[string]any{
		"property_id": r.Property,
		"tier":        r.Tier,
		"seed":        r.Seed,
		"level":       "other",
		"coverage":    cov,
		"assumptions": r.Assumptions,
		"wall_s":      wall,
		"violations":  nViol + nUnd,
	}
	b, _ := json.MarshalIndent(ev, "", " ")
	_ = os.MkdirAll(filepath.Dir(evPath), 0o755)
	if err := os.WriteFile(evPath, append(b, '\n'), 0o644); err != nil {
		fmt.Printf("ERROR: cannot write evidence: %v\n", err)
		return 2
	}
	fmt.Printf("%s tier=%s: %d obligations, %d discharged, %d known findings, %d violated, %d undecided; %d functions; %.1fs\n",
		r.Property, r.Tier, len(r.Obls), nDis, nKnown, nViol, nUnd, len(funcs), wall)
	if nViol+nUnd > 0 {
		for _, l := range violLines {
			fmt.Println(l)
		}
		fmt.Printf("VIOLATION property=%s replay=%s\n", r.Property, evPath)
		return 1
	}
	return 0
}
