package rules

import (
	"golang.org/x/tools/go/ssa"

	"kverif/internal/an"
)

// c13wholeCPUs: the amount tested for being a whole number of CPUs is the pod's full request.
func c13wholeCPUs(c *Ctx) {
	r := c.R
	r.Rule("FLOW(request source): in validateResources the quantity whose Value()*1000 is compared with its MilliValue() is taken from util.GetPodRequest(pod) (containers, init containers and overhead - the amount the CPU binding is sized by)")
	fn := c.Fn("pkg/webhook/pod/validating", "", "validateResources")
	if fn == nil {
		return
	}
	n, ok := 0, true
	for _, cl := range an.Calls(fn, false) {
		if an.ShortCallee(cl.Common()) != "MilliValue" {
			continue
		}
		n++
		from := false
		for x := range backwardAll(cl.Common().Args[0]) {
			if call, isC := x.(*ssa.Call); isC && an.ShortCallee(&call.Call) == "GetPodRequest" && an.CalleeName(&call.Call) == "github.com/koordinator-sh/koordinator/pkg/util.GetPodRequest" {
				from = true
			}
		}
		if !from {
			ok = false
		}
	}
	r.Check(ok && n >= 1, "FLOW", fkey(fn)+"/request-source", c.Pos(fn.Pos()), "the whole-CPU test looks at util.GetPodRequest(pod)", "the whole-CPU test looks at another total than util.GetPodRequest(pod): an addend (pod overhead) is left out and an LSR/LSE pod whose full request is fractional is admitted")
}
