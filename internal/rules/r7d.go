package rules

import (
	"strings"

	"golang.org/x/tools/go/ssa"

	"kverif/internal/an"
)

// c02failurePaths: every dimension is divided; a rebuilt root calculator is primed.
func c02failurePaths(c *Ctx) {
	r := c.R
	r.Rule("LOOP(no skip): in RuntimeQuotaCalculator.calculateRuntimeNoLock every iteration over the resource keys reaches redistribution (a dimension that is missing from the total is divided with a total of zero - every sibling still gets min(request, min) - not left with a stale or empty runtime)")
	if fn := c.Fn(quotaCorePkg, "RuntimeQuotaCalculator", "calculateRuntimeNoLock"); fn != nil {
		n, ok := 0, true
		for _, cl := range an.Calls(fn, false) {
			if an.ShortCallee(cl.Common()) != "redistribution" {
				continue
			}
			n++
			// from the body of the loop the header (next iteration) is not reachable without the call
			for _, h := range fn.Blocks {
				isHeader := false
				for _, p := range h.Preds {
					if h.Dominates(p) {
						isHeader = true
					}
				}
				if !isHeader || len(h.Succs) != 2 || !h.Dominates(cl.Block()) {
					continue
				}
				for _, body := range h.Succs {
					if !an.ForwardReachBlocks(body)[h] && body != h {
						continue
					}
					reach := an.Explore(fn, &an.Start{Block: body, Index: 0}, nil, func(x ssa.Instruction) bool { return x == ssa.Instruction(cl) })
					if reach.BlockReached(h) || len(reach.Returns()) > 0 {
						ok = false
					}
				}
			}
		}
		r.Check(ok && n >= 1, "LOOP", fkey(fn)+"/every-dimension-divided", c.Pos(fn.Pos()), "no resource key is skipped", "a resource dimension can be skipped by the division: its siblings keep a runtime of zero (or the previous one) instead of at least min(request, min)")
	}
	r.Rule("PATH(rebuilt root is primed): in rebuildAllGroupQuotaNoLock no return is reachable without a direct setClusterTotalResource call on the new root calculator (a change-detecting helper sees an unchanged total and pushes nothing: the new calculator divides an empty total)")
	if fn := c.Fn(quotaCorePkg, "GroupQuotaManager", "rebuildAllGroupQuotaNoLock"); fn != nil {
		reach := an.Explore(fn, nil, nil, func(in ssa.Instruction) bool {
			cl, ok := in.(ssa.CallInstruction)
			return ok && an.ShortCallee(cl.Common()) == "setClusterTotalResource"
		})
		r.Check(len(reach.Returns()) == 0, "PATH", fkey(fn)+"/root-calculator-primed", c.Pos(fn.Pos()), "the new root calculator receives the cluster total", "the root calculator created by a rebuild is not given the cluster total unconditionally: until the total next changes every top-level quota gets only its min")
	}
}

// c03assignFromPresent: whether an unassigned pod is charged depends on its present state only.
func c03assignFromPresent(c *Ctx) {
	r := c.R
	r.Rule("STATE(assignment from the present): in GroupQuotaManager.OnPodUpdate no condition in front of updatePodIsAssignedNoLock(.., newPod, true) looks at the old version of the pod (a pod that is on a node, alive and not yet counted is charged by ANY update - the recovery path after a bind whose roll-back came late - not only by the update that carries the node name for the first time)")
	fn := c.Fn(quotaCorePkg, "GroupQuotaManager", "OnPodUpdate")
	if fn == nil || len(fn.Params) < 5 {
		return
	}
	oldPod := ssa.Value(fn.Params[4])
	n := 0
	for _, cl := range an.Calls(fn, false) {
		if an.ShortCallee(cl.Common()) != "updatePodIsAssignedNoLock" {
			continue
		}
		a := an.Args(cl.Common())
		if !isTrueConst(a[len(a)-1]) {
			continue
		}
		n++
		bad := ""
		for _, g := range an.Guards(cl) {
			if backwardAll(g.Cond)[oldPod] {
				bad = strings.TrimSpace(an.Path(g.Cond))
			}
		}
		r.Check(bad == "", "STATE", sprintf("%s/assign#%d", fkey(fn), n), c.InstrPos(cl), "decided from the new version only", "the assignment of a not yet counted pod depends on its old version ("+bad+"): a running pod whose first bind event was rolled back stays outside 'used' for the rest of its life")
	}
	r.Floor("STATE", "assignments in OnPodUpdate", n, 2)
}
