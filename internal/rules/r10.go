package rules

import (
	"golang.org/x/tools/go/ssa"

	"kverif/internal/an"
)

// Round 10 (Go-language pitfalls: shadowed variables, aliased maps, lost write-backs, rounded readings).

// c16handlerReportsOutward: a handler literal handed to forEachAvailableMigrationJobs can only tell
// its caller what it found by writing a variable it captured. A literal that writes no captured
// variable at all (the flag re-declared with := inside the literal shadows the outer one) finds the
// job and forgets it: the enclosing function keeps answering "no live job".
func c16handlerReportsOutward(c *Ctx) {
	r := c.R
	r.Rule("CAPTURE(result leaves the literal): every function literal passed to filter.forEachAvailableMigrationJobs from existingPodMigrationJob (or from an in-package helper it calls) stores into a variable it captured")
	fn := c.Fn(arbitratorPkg, "filter", "existingPodMigrationJob")
	if fn == nil {
		return
	}
	key := fkey(fn) + "/handler-writes-a-captured-variable"
	hosts := []*ssa.Function{fn}
	for _, cl := range an.Calls(fn, true) {
		if callee := cl.Common().StaticCallee(); callee != nil && callee.Pkg == fn.Pkg && callee != fn && callee.Name() != "forEachAvailableMigrationJobs" {
			hosts = append(hosts, callee)
		}
	}
	n, bad := 0, ""
	seen := map[ssa.Instruction]bool{}
	for _, h := range hosts {
		for _, cl := range an.Calls(h, false) {
			if an.ShortCallee(cl.Common()) != "forEachAvailableMigrationJobs" || seen[cl] {
				continue
			}
			seen[cl] = true
			for _, a := range cl.Common().Args {
				mc, ok := a.(*ssa.MakeClosure)
				var lit *ssa.Function
				if ok {
					lit, _ = mc.Fn.(*ssa.Function)
				} else if f, isFn := a.(*ssa.Function); isFn && f.Parent() != nil {
					lit = f
				}
				if lit == nil {
					continue
				}
				n++
				writes := false
				for _, f := range closuresOf(lit) {
					for _, b := range f.Blocks {
						for _, in := range b.Instrs {
							if st, isSt := in.(*ssa.Store); isSt {
								if _, isFree := st.Addr.(*ssa.FreeVar); isFree {
									writes = true
								}
							}
						}
					}
				}
				if !writes {
					bad = c.InstrPos(cl)
				}
			}
		}
	}
	if n == 0 {
		r.Unknown("CAPTURE", key, c.Pos(fn.Pos()), "no handler literal passed to forEachAvailableMigrationJobs found")
		return
	}
	r.Check(bad == "", "CAPTURE", key, c.Pos(fn.Pos()), sprintf("%d handler literal(s), each writing a captured variable", n),
		"a handler literal passed to forEachAvailableMigrationJobs at "+bad+" writes no captured variable (its result variable is declared inside the literal and shadows the outer one): the live job it finds is forgotten, the pod gets a second job and is not counted against the per-node cap")
}

// c15listErrorRejects: ValidDeleteQuota must not admit the delete when the pods of the quota could
// not be listed. Decided with the explorer: assuming the client's List call returns a non-nil error
// (every time it is evaluated), no return of a nil error is reachable from behind it. An error kept
// in a variable that shadows the one tested afterwards (`if err := List(..); err == nil {break}` in
// a retry loop) fails this: the outer err stays nil and the quota with running pods is deleted.
func c15listErrorRejects(c *Ctx) {
	r := c.R
	r.Rule("ERR(list failure rejects): in quotaTopology.ValidDeleteQuota, once client.List returned a non-nil error, no nil return is reachable (pods that cannot be listed are not 'no pods')")
	fn := c.Fn(quotaWebhookPkg, "quotaTopology", "ValidDeleteQuota")
	if fn == nil {
		return
	}
	key := fkey(fn) + "/list-error=>rejected"
	var lists []ssa.CallInstruction
	for _, cl := range an.Calls(fn, false) {
		if cl.Common().IsInvoke() && cl.Common().Method.Name() == "List" {
			lists = append(lists, cl)
		}
	}
	if len(lists) == 0 {
		r.Unknown("ERR", key, c.Pos(fn.Pos()), "expected a client.List call in ValidDeleteQuota")
		return
	}
	bad := ""
	for _, l := range lists {
		v := l.Value()
		if v == nil {
			continue
		}
		reach := an.Explore(fn, an.After(l), an.Facts{v: an.NonNil}, nil)
		for _, ret := range reach.Returns() {
			for _, alt := range reach.Alts(ret) {
				if reach.EvalAlt(alt, 0) != an.NonNil {
					bad = c.InstrPos(ret)
				}
			}
		}
	}
	r.Check(bad == "", "ERR", key, c.InstrPos(lists[0]), sprintf("%d List call(s): a failure always ends in an error", len(lists)),
		"ValidDeleteQuota can return nil at "+bad+" although listing the quota's pods failed: the error is kept in a variable other than the one tested afterwards, and a quota that still has pods is deleted")
}

// numaReleaseWritesBack: NodeAllocation.release works on a COPY of the per-CPU record (the map holds
// values). After the reference count was decremented the iteration must either delete the entry or
// store the copy back; otherwise a decrement that does not reach zero is lost and the CPU stays
// referenced for ever. Decided: from behind the store of the decremented count, the next iteration
// / the return is not reachable without a map update or a delete on the record's map.
func numaReleaseWritesBack(c *Ctx) {
	r := c.R
	r.Rule("WRITE-BACK: in NodeAllocation.release, from behind the decrement of a CPU's RefCount (made on a copy of the map element) neither the next iteration nor a return is reachable without delete(allocatedCPUs, id) or allocatedCPUs[id] = copy")
	fn := c.Fn(numaPkg, "NodeAllocation", "release")
	if fn == nil {
		return
	}
	key := fkey(fn) + "/refcount-decrement-written-back"
	var decs []*ssa.Store
	for _, b := range fn.Blocks {
		for _, in := range b.Instrs {
			st, ok := in.(*ssa.Store)
			if !ok {
				continue
			}
			fa, ok := st.Addr.(*ssa.FieldAddr)
			if !ok || fieldNameOf(fa) != "RefCount" {
				continue
			}
			if bo, isBO := st.Val.(*ssa.BinOp); isBO && bo.Op.String() == "-" {
				decs = append(decs, st)
			}
		}
	}
	if len(decs) == 0 {
		r.Unknown("WRITE-BACK", key, c.Pos(fn.Pos()), "expected a RefCount decrement in NodeAllocation.release")
		return
	}
	isWB := func(in ssa.Instruction) bool {
		switch x := in.(type) {
		case *ssa.MapUpdate:
			return lastField(x.Map) == "allocatedCPUs"
		case ssa.CallInstruction:
			if isBuiltinDelete(x) && len(x.Common().Args) == 2 {
				return lastField(x.Common().Args[0]) == "allocatedCPUs"
			}
		}
		return false
	}
	bad := ""
	for _, d := range decs {
		hdr := naturalLoopHeader(d.Block())
		reach := an.Explore(fn, an.After(d), nil, isWB)
		if len(reach.Returns()) > 0 {
			bad = c.InstrPos(d) + " (a return is reached)"
		}
		if hdr != nil && reach.BlockReached(hdr) {
			bad = c.InstrPos(d) + " (the next CPU is reached)"
		}
	}
	r.Check(bad == "", "WRITE-BACK", key, c.InstrPos(decs[0]), sprintf("%d decrement(s), each followed by delete or store-back on every path", len(decs)),
		"the decremented reference count is not written back on some path from "+bad+": the map holds values, the decrement happens on a copy, and a CPU shared by two owners stays referenced after both are gone (the live ledger drifts from what a restart rebuilds)")
}
