package rules

import (
	"go/token"
	"go/types"
	"strings"

	"golang.org/x/tools/go/ssa"

	"kverif/internal/an"
)

// c06take: takeCPUs never takes more CPUs than are still needed; ids of one kind are not used as ids of another.
func c06take(c *Ctx) {
	r := c.R
	r.Decides("every acc.take(..) in takeCPUs takes a number of CPUs that is known not to exceed what is still needed: exactly numCPUsNeeded of a group, or k CPUs under needs(k) evaluated since the previous take; a NUMA node id is never used where a socket id or core id is expected")
	r.Rule("TAKE(never more than needed): in takeCPUs every call acc.take(S...) has S = X[:acc.numCPUsNeeded] (exactly the rest), or takes k CPUs (S = X[i:i+k], S = X with k = len(X), or k single ids) and is unreachable - from the function entry and from behind every take - when every acc.needs(k) is assumed to say no")
	fn := c.Fn(numaPkg, "", "takeCPUs")
	if fn != nil {
		var takes []ssa.CallInstruction
		var needs []*ssa.Call
		for _, cl := range an.Calls(fn, false) {
			switch an.ShortCallee(cl.Common()) {
			case "take":
				takes = append(takes, cl)
			case "needs":
				if call, ok := cl.(*ssa.Call); ok {
					needs = append(needs, call)
				}
			}
		}
		// same count: identical value, equal constants, len() of the same slice, or loads of the same field path
		sameCount := func(a, b ssa.Value) bool {
			if a == b || sameSource(a, b) {
				return true
			}
			if ka, ok := constIntOf(a); ok {
				if kb, ok2 := constIntOf(b); ok2 && ka == kb {
					return true
				}
			}
			ca, okA := a.(*ssa.Call)
			cb, okB := b.(*ssa.Call)
			if okA && okB && an.IsBuiltinCall(ca, "len") && an.IsBuiltinCall(cb, "len") && sameSource(ca.Call.Args[0], cb.Call.Args[0]) {
				return true
			}
			return false
		}
		for i, t := range takes {
			args := an.Args(t.Common())
			va := args[len(args)-1]
			key := sprintf("%s/take#%d", fkey(fn), i+1)
			var count ssa.Value
			constCount := int64(-1)
			exact := false
			why := ""
			if sl, isSl := va.(*ssa.Slice); isSl {
				if _, isAlloc := sl.X.(*ssa.Alloc); isAlloc {
					// explicit elements: take(c), take(a, b)
					if k := len(variadicElems(va)); k > 0 {
						constCount = int64(k)
					}
				} else if sl.High != nil && sl.Low == nil && strings.HasSuffix(an.Path(sl.High), ".numCPUsNeeded") {
					exact = true
				} else if sl.High != nil && sl.Low != nil {
					if bo, isB := sl.High.(*ssa.BinOp); isB && bo.Op == token.ADD && (bo.X == sl.Low || bo.Y == sl.Low) {
						count = bo.Y
						if bo.Y == sl.Low {
							count = bo.X
						}
					}
				}
			} else {
				// a whole slice handed over: k = len(slice)
				for _, nd := range needs {
					if lc, isC := nd.Call.Args[len(nd.Call.Args)-1].(*ssa.Call); isC && an.IsBuiltinCall(lc, "len") && sameSource(lc.Call.Args[0], va) {
						count = lc
					}
				}
			}
			if exact {
				r.OK("TAKE", key, c.InstrPos(t), "takes exactly what is still needed")
				continue
			}
			if count == nil && constCount < 0 {
				r.Fail("TAKE", key, c.InstrPos(t), "the number of CPUs taken here is neither exactly numCPUsNeeded nor a count k tested by acc.needs(k): the accumulator can take more CPUs than were asked for and still report success")
				continue
			}
			facts := an.Facts{}
			nN := 0
			for _, nd := range needs {
				na := nd.Call.Args[len(nd.Call.Args)-1]
				kc, isK := constIntOf(na)
				if (count != nil && sameCount(na, count)) || (constCount >= 0 && isK && kc == constCount) {
					facts[nd] = an.False
					nN++
				}
			}
			if nN == 0 {
				why = "no acc.needs(k) for this count"
			}
			starts := []*an.Start{nil}
			for _, t2 := range takes {
				starts = append(starts, an.After(t2))
			}
			for _, st := range starts {
				if why != "" {
					break
				}
				if reach := an.Explore(fn, st, facts, nil); reach.Reached(t) {
					why = "reachable although every needs(k) said no"
				}
			}
			r.Check(why == "", "TAKE", key, c.InstrPos(t), "k CPUs are taken only under needs(k)", "this take is not covered by a needs() test on the number of CPUs it takes ("+why+"): more CPUs than requested can be handed out")
		}
		r.Floor("TAKE", "take sites in takeCPUs", len(takes), 6)
	}

	r.Rule("ID-SPACE: in package nodenumaresource the argument of CPUDetails.CPUsInNUMANodes / CoresInNUMANodes does not derive from a socket or core id field, the argument of CPUsInSockets / NUMANodesInSockets / CoresInSockets not from a NUMA node or core id field, the argument of CPUsInCores not from a node or socket id field (fields: Node, NodeID, NUMANodeID = NUMA; SocketID = socket; CoreID = core)")
	class := func(field string) string {
		switch field {
		case "Node", "NodeID", "NUMANodeID":
			return "numa"
		case "SocketID":
			return "socket"
		case "CoreID":
			return "core"
		}
		return ""
	}
	want := map[string]string{"CPUsInNUMANodes": "numa", "CoresInNUMANodes": "numa", "CPUsInSockets": "socket", "NUMANodesInSockets": "socket", "CoresInSockets": "socket", "CPUsInCores": "core"}
	n := 0
	for _, f := range c.PkgFuncs(numaPkg) {
		k := 0
		for _, cl := range an.Calls(f, true) {
			w, ok := want[an.ShortCallee(cl.Common())]
			if !ok {
				continue
			}
			n++
			k++
			bad := ""
			args := an.Args(cl.Common())
			for _, a := range args[1:] {
				for _, e := range append(variadicElems(a), a) {
					for x := range backwardAll(e) {
						if fa, isFA := x.(*ssa.FieldAddr); isFA {
							if cls := class(fieldNameOf(fa)); cls != "" && cls != w {
								bad = fieldNameOf(fa)
							}
						}
						if fv, isF := x.(*ssa.Field); isF {
							if name := fieldOfStruct(fv); class(name) != "" && class(name) != w {
								bad = name
							}
						}
					}
				}
			}
			r.Check(bad == "", "ID-SPACE", sprintf("%s/%s#%d", fkey(f), an.ShortCallee(cl.Common()), k), c.InstrPos(cl), "ids of the expected kind", "a "+bad+" value is used as a "+w+" id: on machines where the two id spaces differ (more than one NUMA node per socket) the CPUs of another unit are looked at")
		}
	}
	r.Floor("ID-SPACE", "topology lookups by id in nodenumaresource", n, 4)
}

func fieldOfStruct(f *ssa.Field) string {
	if st, ok := f.X.Type().Underlying().(*types.Struct); ok && f.Field < st.NumFields() {
		return st.Field(f.Field).Name()
	}
	return ""
}
