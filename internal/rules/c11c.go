package rules

import (
	"go/token"
	"strings"

	"golang.org/x/tools/go/ssa"

	"kverif/internal/an"
)

// c11priority: the priority a victim is judged and sorted by is koordinator's priority with its class default.
func c11priority(c *Ctx) {
	r := c.R
	r.Rule("FLOW(priority source): in getPodEvictInfoAndSortByPriority of both evictors the value stored into PodEvictInfo.Priority (and compared with the threshold) is read through the pointer returned by GetPodPriorityValueWithDefault(pod) and through no other pointer (spec.priority is 0 for a pod without a Kubernetes PriorityClass although its koordinator class says 9500)")
	n := 0
	for _, pkgRel := range []string{memEvictPkg, cpuEvictPkg} {
		for _, fn := range c.PkgFuncs(pkgRel) {
			if fn.Name() != "getPodEvictInfoAndSortByPriority" {
				continue
			}
			for _, b := range fn.Blocks {
				for _, in := range b.Instrs {
					st, isS := in.(*ssa.Store)
					if !isS {
						continue
					}
					owner, field, _, isF := an.FieldOf(st.Addr)
					if !isF || field != "Priority" || !strings.HasSuffix(owner, "PodEvictInfo") {
						continue
					}
					n++
					ok := false
					if ld, isLd := st.Val.(*ssa.UnOp); isLd && ld.Op == token.MUL {
						ok = true
						srcs := cellSources(ld.X)
						if len(srcs) == 0 {
							ok = false
						}
						for _, s := range srcs {
							call, _ := an.ResultOfCall(s)
							if call == nil || an.ShortCallee(&call.Call) != "GetPodPriorityValueWithDefault" {
								ok = false
							}
						}
					}
					r.Check(ok, "FLOW", fkey(fn)+"/priority-source", c.InstrPos(st), "priority comes from GetPodPriorityValueWithDefault", "the priority a pod is filtered and sorted by can come from somewhere else than GetPodPriorityValueWithDefault: a high-class pod with spec.priority 0 passes the threshold and is sorted first")
				}
			}
		}
	}
	r.Floor("FLOW", "evictors storing a victim's priority", n, 2)
}
