package rules

import (
	"strings"

	"golang.org/x/tools/go/packages"
)

func init() { Registry["C06"] = c06 }

func c06(c *Ctx) {
	r := c.R
	r.Rule("SORT(a): in every sort.Slice/SliceStable comparator the position parameters i,j index only the slice being sorted")
	const numaPkg = "pkg/scheduler/plugins/nodenumaresource"
	sites := c.SortSites(func(pk *packages.Package) bool {
		return c.Thorough() || strings.HasSuffix(pk.PkgPath, numaPkg)
	})
	n := c.RunSortIndex("SORT", sites)
	if c.Thorough() {
		r.Floor("SORT", "repo-wide comparator sites", n, 100)
	} else {
		r.Floor("SORT", "nodenumaresource comparator sites", n, 5)
	}
}
