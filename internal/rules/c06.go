package rules

import (
	"go/token"
	"kverif/internal/load"
	"sort"
	"strings"

	"golang.org/x/tools/go/packages"
	"golang.org/x/tools/go/ssa"

	"kverif/internal/an"
)

func init() { Registry["C06"] = c06 }

const numaPkg = "pkg/scheduler/plugins/nodenumaresource"

func c06(c *Ctx) {
	numaReleaseWritesBack(c)
	r := c.R
	r.Rule("PATH(tombstone): the delete handler treats a cache.DeletedFinalStateUnknown (delivered by value) like the object inside it: both reach the release, and no assertion to the pointer type exists")
	c.Tombstone("PATH", numaPkg, "podEventHandler", "OnDelete", "deletePod")
	r.Decides("comparator positions in every sort site index only the sorted slice (NUMA hint ids are not slice positions)")
	r.Decides("addPodAllocation and release write the same five ledgers with dual operations on the same amounts")
	r.Decides("every access to the NodeAllocation ledgers happens under NodeAllocation.lock (write lock for writes)")
	r.Decides("allocateCPUSet returns a CPU set under a required bind policy only after satisfiedRequiredCPUBindPolicy returned nil; that verifier returns nil only if the policy predicate held")
	r.Decides("NodeAllocation.update is release+addPodAllocation unless a skip compares every field addPodAllocation uses for the ledgers; in takePreferredCPUs every CPU set offered to takeCPUs is derived from the free set by Intersection/Difference only, and the second offer excludes the first")
	r.Decides("a pod delete that arrives as a tombstone (by value) releases the allocation like a plain delete")
	r.Decides("getAvailableCPUs works on a clone of the CPU ledger (no write to shared state under the read lock) and returns the topology's CPUs minus those whose reference count reached the sharing limit (>=) minus the reserved CPUs")
	r.Decides("allocateRes hands out the request when the node has more and what the node has otherwise (never more than available); in the NUMA split the amount recorded for a node is that result for the SAME node id, is recorded under that id, and is subtracted from what is still to be placed in the same step")
	r.Declines("exact count of CPUs, disjointness of CPU ids, never-more-than-free (set arithmetic over topologies)")
	r.Declines("equality of the ledger with the sum of live pods' allocations over a history")

	// ---- SORT(a)
	r.Rule("SORT(a): in every sort.Slice/SliceStable comparator the position parameters i,j index only the slice being sorted")
	sites := c.SortSites(func(pk *packages.Package) bool {
		return c.Thorough() || strings.HasSuffix(pk.PkgPath, numaPkg)
	})
	n := c.RunSortIndex("SORT", sites)
	if c.Thorough() {
		r.Floor("SORT", "repo-wide comparator sites", n, 100)
	} else {
		r.Floor("SORT", "nodenumaresource comparator sites", n, 5)
	}

	c06frame(c)
	c06subset(c)
	c06available(c)
	c06numaSplit(c)
	c06entry(c)
	c06take(c)
	c06noSkip(c)

	// ---- MIRROR
	r.Rule("MIRROR: the effect sets of addPodAllocation and release over the receiver's fields have the same roots and dual operations (mapstore<->mapdelete, Insert<->delete, Add<->Subtract*, RefCount+1<->RefCount-1) on the same amount operand")
	add := c.Fn(numaPkg, "NodeAllocation", "addPodAllocation")
	rel := c.Fn(numaPkg, "NodeAllocation", "release")
	if add != nil && rel != nil {
		muts := map[string]bool{"Insert": true, "Delete": true}
		ea := an.Effects(add, an.Receiver(add), muts)
		er := an.Effects(rel, an.Receiver(rel), muts)
		ra, rr := an.RootFields(ea), an.RootFields(er)
		r.Check(strings.Join(ra, ",") == strings.Join(rr, ","), "MIRROR", "NodeAllocation.addPodAllocation~release/write-set", c.Pos(add.Pos()),
			"both write {"+strings.Join(ra, ",")+"}", "ledger sets differ: add writes {"+strings.Join(ra, ",")+"}, release writes {"+strings.Join(rr, ",")+"}")
		r.Floor("MIRROR", "NodeAllocation ledgers written by add", len(ra), 5)
		// per-ledger duality
		has := func(es []an.Effect, root, op string, valContains ...string) bool {
			for _, e := range es {
				if e.Chain.First() != root || e.Op != op {
					continue
				}
				ok := true
				for _, v := range valContains {
					if !strings.Contains(e.Val, v) {
						ok = false
					}
				}
				if ok {
					return true
				}
			}
			return false
		}
		type dual struct {
			root, addOp, relOp string
			addVal, relVal     []string
		}
		for _, d := range []dual{
			{"allocatedPods", "mapstore", "mapdelete", nil, nil},
			{"allocatedCPUs", "mapstore", "mapstore", []string{"RefCount:", "RefCount+1)"}, []string{"RefCount:", "RefCount-1)"}},
			{"allocatedCPUs", "mapstore", "mapdelete", nil, nil},
			{"sharedNode", "call:Insert", "mapdelete", nil, nil},
			{"singleNUMANode", "call:Insert", "mapdelete", nil, nil},
			{"allocatedResources", "store", "store", []string{"Add(.allocatedResources[].Resources", ".NUMANodeResources[].Resources)"}, []string{"SubtractWithNonNegativeResult(.allocatedResources[].Resources", ".NUMANodeResources[].Resources)"}},
		} {
			okA := has(ea, d.root, d.addOp, d.addVal...)
			okR := has(er, d.root, d.relOp, d.relVal...)
			r.Check(okA && okR, "MIRROR", "NodeAllocation.addPodAllocation~release/"+d.root+"/"+d.addOp+"~"+d.relOp, c.Pos(rel.Pos()),
				"dual operations present on both sides", sprintf("expected %s %v in addPodAllocation (found=%v) and its dual %s %v in release (found=%v); add effects: %v; release effects: %v", d.addOp, d.addVal, okA, d.relOp, d.relVal, okR, effStrings(ea), effStrings(er)))
		}
	}

	// ---- LOCK
	r.Rule("LOCK: fields {allocatedPods,allocatedCPUs,allocatedResources,sharedNode,singleNUMANode} of NodeAllocation are read under lock (R or W) and written under lock (W); requirements of helper methods are discharged at every call site")
	c.RunLock("LOCK", LockCfg{Pkg: numaPkg, Type: "NodeAllocation", Mutex: "lock",
		Guarded:  []string{"allocatedPods", "allocatedCPUs", "allocatedResources", "sharedNode", "singleNUMANode"},
		Mutators: []string{"Insert", "Delete"}, MinFuncs: 8})

	// ---- PATH: required bind policy verified before success
	r.Rule("PATH: in (*resourceManager).allocateCPUSet every return with a nil error is unreachable when options.requiredCPUBindPolicy is true and satisfiedRequiredCPUBindPolicy returned a non-nil error; satisfiedRequiredCPUBindPolicy returns nil only if the policy's predicate returned true")
	if fn := c.Fn(numaPkg, "resourceManager", "allocateCPUSet"); fn != nil {
		c06policy(c, fn)
	}
	if fn := c.Fn(numaPkg, "", "satisfiedRequiredCPUBindPolicy"); fn != nil {
		c06verifier(c, fn)
	}
	if fn := c.Fn(numaPkg, "", "takeCPUs"); fn != nil {
		c06accumulator(c, fn)
	}
}

// c06accumulator: no CPUs are taken once every "still needs n" test says no.
func c06accumulator(c *Ctx, fn *ssa.Function) {
	r := c.R
	r.Rule("PATH(accumulator): in takeCPUs, from behind every acc.take(...), assuming every later acc.needs(n) returns false, no further acc.take is reachable except the exact form take(cpus[:acc.numCPUsNeeded]...) (which takes what is still needed and nothing more); otherwise more CPUs than requested can be returned")
	var takes []ssa.CallInstruction
	facts := an.Facts{}
	for _, cl := range an.Calls(fn, false) {
		switch an.ShortCallee(cl.Common()) {
		case "take":
			takes = append(takes, cl)
		case "needs":
			if cl.Value() != nil {
				facts[cl.Value()] = an.False
			}
		}
	}
	exact := func(t ssa.CallInstruction) bool {
		// variadic argument is a slice expression cpus[:acc.numCPUsNeeded]
		for x := range backwardAll(t.Common().Args[len(t.Common().Args)-1]) {
			if sl, ok := x.(*ssa.Slice); ok && sl.High != nil && strings.HasSuffix(an.Path(sl.High), ".numCPUsNeeded") && sl.Low == nil {
				return true
			}
		}
		return false
	}
	n := 0
	for _, t := range takes {
		n++
		key := sprintf("%s/take#%d", fkey(fn), n)
		reach := an.Explore(fn, an.After(t), facts, nil)
		var bad []string
		for _, t2 := range takes {
			if reach.Reached(t2) && !exact(t2) {
				bad = append(bad, c.InstrPos(t2))
			}
		}
		r.Check(len(bad) == 0, "PATH", key, c.InstrPos(t), "after this take nothing is taken unless a needs() test allows it",
			"after this take a further take at "+strings.Join(bad, ",")+" is reachable although every needs() test says nothing more is needed: a whole extra core is taken and more CPUs than requested are returned")
	}
	r.Floor("PATH", "take sites in takeCPUs", n, 7)
}

func effStrings(es []an.Effect) []string {
	var out []string
	for _, e := range es {
		out = append(out, e.String())
	}
	return out
}

// c06policy: assume the flag is set and the verifier failed; no successful return may be reachable.
func c06policy(c *Ctx, fn *ssa.Function) {
	const verifier = "github.com/koordinator-sh/koordinator/" + numaPkg + ".satisfiedRequiredCPUBindPolicy"
	calls := an.CallsTo(fn, false, verifier)
	key := fkey(fn) + "/requiredCPUBindPolicy=>verified"
	if len(calls) == 0 {
		c.R.Fail("PATH", key, c.Pos(fn.Pos()), "allocateCPUSet no longer calls satisfiedRequiredCPUBindPolicy: a required policy is reported satisfied without being verified")
		return
	}
	facts := an.Facts{}
	for _, cl := range calls {
		if v := cl.Value(); v != nil {
			facts[v] = an.NonNil // the verifier returned an error
		}
	}
	// the flag options.requiredCPUBindPolicy is true wherever it is read
	nflag := 0
	for _, b := range fn.Blocks {
		for _, in := range b.Instrs {
			if u, ok := in.(*ssa.UnOp); ok {
				if fa, ok := u.X.(*ssa.FieldAddr); ok {
					if _, f, _, ok := an.FieldOf(fa); ok && f == "requiredCPUBindPolicy" {
						facts[u] = an.True
						nflag++
					}
				}
			}
		}
	}
	if nflag == 0 {
		c.R.Unknown("PATH", key, c.Pos(fn.Pos()), "the flag options.requiredCPUBindPolicy is not read in allocateCPUSet: unknown idiom")
		return
	}
	reach := an.Explore(fn, nil, facts, nil)
	var bad []string
	nret := 0
	for _, ret := range reach.Returns() {
		for _, alt := range reach.Alts(ret) {
			nret++
			if len(ret.Results) != 2 {
				continue
			}
			e := reach.EvalAlt(alt, 1)
			if e == an.NonNil {
				continue // error return
			}
			// a return of the verifier's own error value is an error return
			if e != an.Nil {
				// could be a variable holding an error from an earlier call: accept only if it is provably non-nil
				if isErrFromFailedCall(alt.Results[1]) {
					continue
				}
			}
			bad = append(bad, c.InstrPos(ret))
		}
	}
	if len(bad) > 0 {
		c.R.Fail("PATH", key, c.Pos(fn.Pos()), "with the required policy set and the verifier failing, a return with a possibly nil error is reachable at "+strings.Join(bad, ", "))
		return
	}
	c.R.OK("PATH", key, c.InstrPos(calls[0]), sprintf("under {requiredCPUBindPolicy=true, verifier error!=nil} all %d reachable returns carry a non-nil error", nret))
}

// isErrFromFailedCall: v is the error result of a call and the return is dominated by "v != nil".
func isErrFromFailedCall(v ssa.Value) bool {
	return false
}

// c06verifier: nil is returned only when satisfied==true, and satisfied flows from the two predicates.
func c06verifier(c *Ctx, fn *ssa.Function) {
	key := fkey(fn) + "/nil=>predicate"
	const p = "github.com/koordinator-sh/koordinator/" + numaPkg + "."
	full := an.CallsTo(fn, false, p+"determineFullPCPUs")
	spread := an.CallsTo(fn, false, p+"determineSpreadByPCPUs")
	if len(full) != 1 || len(spread) != 1 {
		c.R.Fail("PATH", key, c.Pos(fn.Pos()), sprintf("expected exactly one call to each policy predicate, found determineFullPCPUs=%d determineSpreadByPCPUs=%d", len(full), len(spread)))
		return
	}
	for _, cl := range []ssa.CallInstruction{full[0], spread[0]} {
		// assume this predicate returned false: no nil return may be reachable from behind it
		facts := an.Facts{cl.Value(): an.False}
		reach := an.Explore(fn, an.After(cl), facts, nil)
		var bad []string
		for _, ret := range reach.Returns() {
			for _, alt := range reach.Alts(ret) {
				if reach.Eval(alt.Results[0]) != an.NonNil {
					bad = append(bad, c.InstrPos(ret))
				}
			}
		}
		k := key + "/" + an.ShortCallee(cl.Common())
		c.R.Check(len(bad) == 0, "PATH", k, c.InstrPos(cl), "after the predicate returned false only error returns are reachable",
			"after the predicate returned false a nil return is reachable at "+strings.Join(bad, ", "))
	}
	// each predicate is guarded by the matching policy constant
	want := map[string]string{"determineFullPCPUs": "FullPCPUs", "determineSpreadByPCPUs": "SpreadByPCPUs"}
	for _, cl := range []ssa.CallInstruction{full[0], spread[0]} {
		name := an.ShortCallee(cl.Common())
		ok := false
		for _, g := range an.Guards(cl) {
			if strings.Contains(an.Path(g.Cond), `"`+want[name]+`"`) && g.Truth {
				ok = true
			}
		}
		c.R.Check(ok, "PATH", key+"/"+name+"/policy-constant", c.InstrPos(cl), "predicate evaluated under policy == "+want[name],
			"predicate is not guarded by policy == "+want[name]+": guards are "+an.DescribeGuards(an.Guards(cl)))
	}
}

// c06frame: NodeAllocation.update re-books the pod completely.
func c06frame(c *Ctx) {
	r := c.R
	r.Rule("FRAME(update): NodeAllocation.update either always performs release(uid) followed by addPodAllocation(new), or every path that skips them is guarded by comparisons that mention every PodAllocation field addPodAllocation reads individually (UID, CPUSet, CPUExclusivePolicy, NUMANodeResources, ...)")
	up := c.Fn(numaPkg, "NodeAllocation", "update")
	add := c.Fn(numaPkg, "NodeAllocation", "addPodAllocation")
	if up == nil || add == nil {
		return
	}
	key := fkey(up)
	reads := map[string]bool{}
	for _, b := range add.Blocks {
		for _, in := range b.Instrs {
			if fa, ok := in.(*ssa.FieldAddr); ok && len(add.Params) > 1 && fa.X == ssa.Value(add.Params[1]) {
				reads[fieldNameOf(fa)] = true
			}
		}
	}
	r.Floor("FRAME", "PodAllocation fields read by addPodAllocation", len(reads), 4)
	var seq []string
	for _, cl := range an.Calls(up, false) {
		switch an.ShortCallee(cl.Common()) {
		case "release", "addPodAllocation":
			seq = append(seq, an.ShortCallee(cl.Common()))
		}
	}
	r.Check(strings.Join(seq, ";") == "release;addPodAllocation", "FRAME", key+"/pair", c.Pos(up.Pos()), "release then addPodAllocation", "update does not consist of release followed by addPodAllocation: "+strings.Join(seq, ";"))
	reach := an.Explore(up, nil, nil, func(in ssa.Instruction) bool {
		cl, ok := in.(ssa.CallInstruction)
		return ok && (an.ShortCallee(cl.Common()) == "release" || an.ShortCallee(cl.Common()) == "addPodAllocation")
	})
	skips := reach.Returns()
	if len(skips) == 0 {
		r.OK("FRAME", key+"/no-skip", c.Pos(up.Pos()), "every path performs the release/add pair")
		return
	}
	compared := map[string]bool{}
	for _, b := range up.Blocks {
		ifi, ok := b.Instrs[len(b.Instrs)-1].(*ssa.If)
		if !ok {
			continue
		}
		for x := range backwardAll(ifi.Cond) {
			if fa, ok := x.(*ssa.FieldAddr); ok && fa.X == ssa.Value(up.Params[1]) {
				compared[fieldNameOf(fa)] = true
			}
		}
	}
	var missing []string
	for f := range reads {
		if !compared[f] {
			missing = append(missing, f)
		}
	}
	sort.Strings(missing)
	r.Check(len(missing) == 0, "FRAME", key+"/no-skip", c.InstrPos(skips[0]), "the skip path compares every field addPodAllocation uses", "update can return without release/addPodAllocation although these PodAllocation fields, which addPodAllocation books into the ledgers, are not compared: "+strings.Join(missing, ", ")+" (the ledger no longer equals the sum of the recorded allocations)")
}

// c06subset: CPUs are only ever picked from the free set.
func c06subset(c *Ctx) {
	r := c.R
	r.Rule("FLOW(subset): in takePreferredCPUs the CPU set offered to each takeCPUs call derives from the availableCPUs parameter through Intersection (either operand) / Difference (first operand) / merges only; where both calls can run, the second offer is Difference(available, <first offer>)")
	fn := c.Fn(numaPkg, "", "takePreferredCPUs")
	if fn == nil {
		return
	}
	var avail *ssa.Parameter
	for _, p := range fn.Params {
		if p.Name() == "availableCPUs" {
			avail = p
		}
	}
	if avail == nil {
		r.Unknown("FLOW", fkey(fn)+"/subset", c.Pos(fn.Pos()), "parameter availableCPUs not found")
		return
	}
	var subset func(v ssa.Value, seen map[ssa.Value]bool) bool
	subset = func(v ssa.Value, seen map[ssa.Value]bool) bool {
		if v == ssa.Value(avail) {
			return true
		}
		if seen[v] {
			return true
		}
		seen[v] = true
		switch x := v.(type) {
		case *ssa.Phi:
			for _, e := range x.Edges {
				if !subset(e, seen) {
					return false
				}
			}
			return true
		case *ssa.Call:
			switch an.CalleeName(&x.Call) {
			case "(" + load.Module + "/pkg/util/cpuset.CPUSet).Intersection":
				return subset(x.Call.Args[0], seen) || subset(x.Call.Args[1], seen)
			case "(" + load.Module + "/pkg/util/cpuset.CPUSet).Difference", "(" + load.Module + "/pkg/util/cpuset.CPUSet).Clone":
				return subset(x.Call.Args[0], seen)
			}
		}
		return false
	}
	var takes []*ssa.Call
	for _, cl := range an.Calls(fn, false) {
		if an.ShortCallee(cl.Common()) == "takeCPUs" {
			if call, ok := cl.(*ssa.Call); ok {
				takes = append(takes, call)
			}
		}
	}
	r.Floor("FLOW", "takeCPUs calls in takePreferredCPUs", len(takes), 2)
	for i, t := range takes {
		offer := t.Call.Args[2]
		r.Check(subset(offer, map[ssa.Value]bool{}), "FLOW", sprintf("%s/offer#%d/within-free", fkey(fn), i+1), c.InstrPos(t), "the offered CPUs are a subset of the free CPUs", "the CPU set offered to takeCPUs ("+an.Path(offer)+") is not derived from availableCPUs by Intersection/Difference: CPUs that are not free for this pod (held by others, node-reserved) can be handed out")
	}
	if len(takes) == 2 {
		first, second := takes[0], takes[1]
		reach := an.Explore(fn, an.After(first), nil, nil)
		if reach.Reached(second) {
			ok := false
			if phi, isPhi := second.Call.Args[2].(*ssa.Phi); isPhi {
				ok = true
				for k, e := range phi.Edges {
					pred := phi.Block().Preds[k]
					// edges that come from behind the first call must exclude its offer
					if first.Block() == pred || first.Block().Dominates(pred) {
						d, isCall := e.(*ssa.Call)
						if !isCall || !strings.HasSuffix(an.CalleeName(&d.Call), "CPUSet).Difference") || d.Call.Args[1] != first.Call.Args[2] {
							ok = false
						}
					}
				}
			}
			r.Check(ok, "FLOW", fkey(fn)+"/offers-disjoint", c.InstrPos(second), "the second offer excludes the first", "after the first takeCPUs the second one is not offered Difference(available, <first offer>): a CPU can be taken twice and the result is smaller than requested")
		}
	}
}

// c06available: the free set honours the sharing limit and the reserved CPUs.
func c06available(c *Ctx) {
	r := c.R
	r.Rule("EFFECT+FLOW(free set): NodeAllocation.getAvailableCPUs writes nothing reachable from the receiver (it edits a Clone of allocatedCPUs); the set it returns is CPUDetails.CPUs() with, along a chain of Difference calls, both the reservedCPUs parameter and a Filter result removed, and that filter keeps a CPU exactly when its RefCount >= maxRefCount")
	fn := c.Fn(numaPkg, "NodeAllocation", "getAvailableCPUs")
	if fn == nil {
		return
	}
	key := fkey(fn)
	es := an.DeepEffects(fn, an.Receiver(fn), nil, 3)
	r.Check(len(es) == 0, "EFFECT", key+"/no-shared-write", c.Pos(fn.Pos()), "the ledger is cloned before it is edited", "getAvailableCPUs writes state reachable from the NodeAllocation ("+strings.Join(effStrings(es), "; ")+"): it runs under the read lock, and trial releases of preferred CPUs would change the real ledger")
	// the returned set
	var reserved *ssa.Parameter
	for _, p := range fn.Params {
		if p.Name() == "reservedCPUs" {
			reserved = p
		}
	}
	var result ssa.Value
	for _, b := range fn.Blocks {
		if ret, ok := b.Instrs[len(b.Instrs)-1].(*ssa.Return); ok && len(ret.Results) == 2 {
			result = ret.Results[0]
		}
	}
	// named results are cells: take the stored value
	if u, ok := result.(*ssa.UnOp); ok {
		if a, ok := u.X.(*ssa.Alloc); ok {
			for _, ref := range *a.Referrers() {
				if st, ok := ref.(*ssa.Store); ok && st.Addr == ssa.Value(a) {
					if _, isCall := st.Val.(*ssa.Call); isCall {
						result = st.Val
					}
				}
			}
		}
	}
	var excluded []ssa.Value
	base := result
	for {
		call, ok := base.(*ssa.Call)
		if !ok || !strings.HasSuffix(an.CalleeName(&call.Call), "CPUSet).Difference") {
			break
		}
		excluded = append(excluded, call.Call.Args[1])
		base = call.Call.Args[0]
	}
	fromTopo := false
	if call, ok := base.(*ssa.Call); ok && an.ShortCallee(&call.Call) == "CPUs" && strings.Contains(an.Path(call.Call.Args[0]), "cpuTopology") {
		fromTopo = true
	}
	hasReserved, hasFilter := false, false
	var filterFn *ssa.Function
	for _, e := range excluded {
		if reserved != nil && e == ssa.Value(reserved) {
			hasReserved = true
		}
		if call, ok := e.(*ssa.Call); ok && an.ShortCallee(&call.Call) == "Filter" {
			hasFilter = true
			if mc, ok := call.Call.Args[len(call.Call.Args)-1].(*ssa.MakeClosure); ok {
				filterFn, _ = mc.Fn.(*ssa.Function)
			}
		}
	}
	r.Check(fromTopo && hasReserved && hasFilter, "FLOW", key+"/free=all-minus-full-minus-reserved", c.Pos(fn.Pos()), "topology CPUs minus saturated minus reserved", sprintf("the returned free set is not cpuTopology.CPUDetails.CPUs() with the saturated CPUs and the reserved CPUs removed (from topology: %v, reserved removed: %v, saturated removed: %v)", fromTopo, hasReserved, hasFilter))
	okCmp := false
	if filterFn != nil {
		for _, b := range filterFn.Blocks {
			if ret, ok := b.Instrs[len(b.Instrs)-1].(*ssa.Return); ok {
				if bo, ok := ret.Results[0].(*ssa.BinOp); ok && bo.Op == token.GEQ && strings.HasSuffix(an.Path(bo.X), ".RefCount") && strings.Contains(an.Path(bo.Y), "maxRefCount") {
					okCmp = true
				}
			}
		}
	}
	r.Check(okCmp, "FLOW", key+"/saturated=refcount>=limit", c.Pos(fn.Pos()), "a CPU is saturated when RefCount >= maxRefCount", "the saturation filter is not 'RefCount >= maxRefCount': with '>' a CPU is handed to one more pod than the sharing limit allows")
}

// c06numaSplit: never more from a NUMA node than it had free; what is recorded is what is subtracted.
func c06numaSplit(c *Ctx) {
	r := c.R
	r.Rule("PATH/FLOW(NUMA split): allocateRes returns as 'allocated' a copy of the request on arms where available >= request and a copy of available on arms where available <= request (the arm is read from the comparisons on Cmp that guard it); in tryBestToDistributeEvenly the quantity stored for a NUMA node is the 'allocated' result of allocateRes(totalAvailable[id][res], ..) for the same id under which it is stored (record key and Node field), and in the same block it is subtracted from the remaining quantity; the remaining quantity is written back to requests after the node loop; a non-zero remainder of a NUMA-level resource always appends a reason and the reasons are returned; allocateResourcesByHint never returns success when reasons are non-empty")
	derives := func(v ssa.Value, p *ssa.Parameter) bool {
		for x := range backwardAll(v) {
			if x == ssa.Value(p) {
				return true
			}
			// parameters whose address is taken are spilled: the cell of the parameter
			if a, ok := x.(*ssa.Alloc); ok && a.Comment == p.Name() {
				return true
			}
		}
		return false
	}
	if fn := c.Fn(numaPkg, "", "allocateRes"); fn != nil && len(fn.Params) == 2 {
		avail, req := fn.Params[0], fn.Params[1]
		okAll, n := true, 0
		var why []string
		for _, alt := range an.ReturnAlts(fn) {
			if len(alt.Results) != 3 {
				continue
			}
			n++
			// possible values of available.Cmp(request) on this arm
			poss := map[int64]bool{-1: true, 0: true, 1: true}
			for _, g := range alt.Guards {
				rel, ok := an.RelOf(g)
				if !ok {
					continue
				}
				call, _ := an.ResultOfCall(rel.X)
				k, isC := constIntOf(rel.Y)
				if call == nil || !isC || an.ShortCallee(&call.Call) != "Cmp" || len(call.Call.Args) != 2 {
					continue
				}
				sign := int64(0)
				switch {
				case derives(call.Call.Args[0], avail) && !derives(call.Call.Args[0], req) && derives(call.Call.Args[1], req):
					sign = 1
				case derives(call.Call.Args[0], req) && !derives(call.Call.Args[0], avail) && derives(call.Call.Args[1], avail):
					sign = -1
				}
				if sign == 0 {
					continue
				}
				for v := range poss {
					x := v * sign // value of the Cmp call when available.Cmp(request) == v
					holds := false
					switch rel.Op {
					case token.EQL:
						holds = x == k
					case token.NEQ:
						holds = x != k
					case token.LSS:
						holds = x < k
					case token.LEQ:
						holds = x <= k
					case token.GTR:
						holds = x > k
					case token.GEQ:
						holds = x >= k
					}
					if !holds {
						delete(poss, v)
					}
				}
			}
			al := alt.Results[2]
			fromReq, fromAvail := derives(al, req), derives(al, avail)
			good := false
			// the copy is handed out as made: if it lives in a local, nothing but reads is done to that local
			touched := false
			if ld, ok := an.Origin(al).(*ssa.UnOp); ok && ld.Op == token.MUL {
				if a, ok := ld.X.(*ssa.Alloc); ok && a.Referrers() != nil {
					for _, ref := range *a.Referrers() {
						if cl, ok := ref.(ssa.CallInstruction); ok {
							switch an.ShortCallee(cl.Common()) {
							case "IsZero", "Cmp", "DeepCopy", "Value", "MilliValue", "String", "Sign":
							default:
								touched = true
							}
						}
					}
				}
			}
			if touched {
				fromReq, fromAvail = true, true
			}
			if !poss[-1] && fromReq && !fromAvail { // available >= request: the request
				good = true
			}
			if !poss[1] && fromAvail && !fromReq { // available <= request: what is there
				good = true
			}
			if !good {
				okAll = false
				why = append(why, sprintf("%s: possible Cmp=%v fromRequest=%v fromAvailable=%v", c.InstrPos(alt.Ret), keysInt(poss), fromReq, fromAvail))
			}
		}
		r.Check(okAll && n >= 2, "PATH", fkey(fn)+"/allocated=min(available,request)", c.Pos(fn.Pos()), sprintf("allocated is the request when there is at least as much, else what is available (%d arms)", n), sprintf("allocateRes does not return min(available, request) as the allocated amount on every arm (%d arms examined; %s): more than a NUMA node has free could be handed out", n, strings.Join(why, "; ")))
	}
	if fn := c.Fn(numaPkg, "", "tryBestToDistributeEvenly"); fn != nil && len(fn.Params) == 3 {
		n := 0
		totalAvail := fn.Params[1]
		for _, b := range fn.Blocks {
			for _, in := range b.Instrs {
				mu, ok := in.(*ssa.MapUpdate)
				if !ok || !strings.HasSuffix(an.Path(mu.Map), "Resources") || !strings.HasSuffix(mu.Map.Type().String(), "ResourceList") {
					continue
				}
				n++
				key := fkey(fn) + "/record"
				// the stored quantity: third result of allocateRes (directly or through the local it was put in)
				var call *ssa.Call
				isAlloc := true
				for _, src := range cellSources(mu.Value) {
					cl, idx := an.ResultOfCall(src)
					if cl == nil || an.ShortCallee(&cl.Call) != "allocateRes" || idx != 2 || (call != nil && call != cl) {
						isAlloc = false
						break
					}
					call = cl
				}
				isAlloc = isAlloc && call != nil
				sameID, subbed := false, false
				if isAlloc {
					// first argument: totalAvailable[id][res]; the record is allocatedNUMANodeResources[id]
					var id, res ssa.Value
					if outer, ok := an.Origin(call.Call.Args[0]).(*ssa.Lookup); ok {
						if inner, ok := an.Origin(outer.X).(*ssa.Lookup); ok && derives(inner.X, totalAvail) {
							id, res = inner.Index, outer.Index
						}
					}
					if id != nil {
						okKey, okNode, okRes := false, true, res == mu.Key
						for x := range backwardAll(mu.Map) {
							if lk, ok := x.(*ssa.Lookup); ok && strings.HasSuffix(lk.X.Type().String(), "NUMANodeResource") {
								okKey = lk.Index == id
							}
						}
						for _, b2 := range fn.Blocks {
							for _, in2 := range b2.Instrs {
								switch y := in2.(type) {
								case *ssa.MapUpdate:
									if strings.HasSuffix(y.Map.Type().String(), "NUMANodeResource") && y.Key != id {
										okKey = false
									}
								case *ssa.Store:
									if _, f, _, ok := an.FieldOf(y.Addr); ok && f == "Node" && y.Val != id {
										okNode = false
									}
								}
							}
						}
						sameID = okKey && okNode && okRes
					}
					for _, in2 := range b.Instrs {
						if cl, ok := in2.(*ssa.Call); ok && an.ShortCallee(&cl.Call) == "Sub" && len(cl.Call.Args) == 2 {
							all := true
							for _, src := range cellSources(cl.Call.Args[1]) {
								if c3, i3 := an.ResultOfCall(src); c3 != call || i3 != 2 {
									all = false
								}
							}
							if all {
								subbed = true
							}
						}
					}
				}
				r.Check(isAlloc && sameID && subbed, "FLOW", key, c.InstrPos(mu), "recorded = allocated of the same node and resource, subtracted in the same step", sprintf("the amount recorded for a NUMA node: is allocateRes' allocated result=%v, computed from and stored under the same node id and resource=%v, subtracted from the remainder in the same step=%v", isAlloc, sameID, subbed))
			}
		}
		r.Floor("FLOW", "per-node records in tryBestToDistributeEvenly", n, 1)

		// a non-zero remainder is reported: behind IsZero()==false on a quantity ranged from requests, under Has()==true, an append into the returned reasons is unavoidable
		nz := 0
		for _, cl := range an.Calls(fn, false) {
			call, ok := cl.(*ssa.Call)
			if !ok || an.ShortCallee(&call.Call) != "IsZero" {
				continue
			}
			// only the reporting loop: the receiver is a quantity ranged from requests (not an allocateRes result)
			fromAlloc := false
			for x := range backwardAll(call.Call.Args[0]) {
				if c2, _ := an.ResultOfCall(x); c2 != nil && an.ShortCallee(&c2.Call) == "allocateRes" {
					fromAlloc = true
				}
			}
			if fromAlloc || !derives(call.Call.Args[0], fn.Params[0]) {
				continue
			}
			nz++
			facts := an.Facts{call: an.False}
			for _, g := range an.Guards(call) {
				if c2, _ := an.ResultOfCall(g.Cond); c2 != nil && an.ShortCallee(&c2.Call) == "Has" && !g.Truth {
					facts = nil // reported only for resources NOT in the NUMA set: wrong polarity
				}
			}
			var app *ssa.Call
			reach := an.Explore(fn, an.After(call), facts, func(in ssa.Instruction) bool {
				if a, ok := in.(*ssa.Call); ok && an.IsBuiltinCall(a, "append") && strings.HasSuffix(a.Type().String(), "[]string") {
					app = a
					return true
				}
				return false
			})
			escaped := facts == nil
			for _, ret := range reach.Returns() {
				_ = ret
				escaped = true
			}
			// the loop header is reachable only through the append: any return reached without it means the reason was skipped
			retOK := false
			if app != nil {
				for _, alt := range an.ReturnAlts(fn) {
					ret := alt.Ret
					if len(ret.Results) == 2 {
						for x := range backwardAll(ret.Results[1]) {
							if x == ssa.Value(app) {
								retOK = true
							}
						}
					}
				}
			}
			r.Check(!escaped && app != nil && retOK, "PATH", fkey(fn)+"/remainder-reported", c.InstrPos(call), "a non-zero remainder of a NUMA-level resource always adds a reason that is returned", sprintf("with a non-zero remainder the function can return without having appended a reason (escaped=%v append found=%v returned=%v)", escaped, app != nil, retOK))
		}
		r.Floor("PATH", "remainder tests in tryBestToDistributeEvenly", nz, 1)

		// the remainder is written back: after the node loop requests[res] = *quantity where quantity is the cell Sub() worked on
		wb := false
		for _, b := range fn.Blocks {
			for _, in := range b.Instrs {
				mu, ok := in.(*ssa.MapUpdate)
				if !ok || !derives(mu.Map, fn.Params[0]) {
					continue
				}
				ld, ok := mu.Value.(*ssa.UnOp)
				if !ok || ld.Op != token.MUL {
					continue
				}
				for _, b2 := range fn.Blocks {
					for _, in2 := range b2.Instrs {
						if cl, ok := in2.(*ssa.Call); ok && an.ShortCallee(&cl.Call) == "Sub" && len(cl.Call.Args) == 2 && cl.Call.Args[0] == ld.X {
							wb = true
						}
					}
				}
			}
		}
		r.Check(wb, "FLOW", fkey(fn)+"/remainder-written-back", c.Pos(fn.Pos()), "requests[res] receives the quantity the per-node amounts were subtracted from", "the remaining quantity (after subtracting what each node gave) is not written back to requests: an unsatisfied request would look satisfied")
	}
	if fn := c.Fn(numaPkg, "resourceManager", "allocateResourcesByHint"); fn != nil {
		calls := an.CallsTo(fn, false, load.Module+"/"+numaPkg+".tryBestToDistributeEvenly")
		if len(calls) != 1 {
			r.Unknown("PATH", fkey(fn)+"/reasons=>failure", c.Pos(fn.Pos()), sprintf("expected one call to tryBestToDistributeEvenly, found %d", len(calls)))
			return
		}
		call := calls[0].(*ssa.Call)
		facts := an.Facts{}
		nl := 0
		for _, b := range fn.Blocks {
			for _, in := range b.Instrs {
				bo, ok := in.(*ssa.BinOp)
				if !ok {
					continue
				}
				ln, isCall := bo.X.(*ssa.Call)
				k, isC := constIntOf(bo.Y)
				if !isCall || !isC || k != 0 || !an.IsBuiltinCall(ln, "len") {
					continue
				}
				isReasons := false
				for _, src := range cellSources(ln.Call.Args[0]) {
					if c2, i2 := an.ResultOfCall(src); c2 == call && i2 == 1 {
						isReasons = true
					}
				}
				if !isReasons {
					continue
				}
				switch bo.Op {
				case token.GTR, token.NEQ:
					facts[bo] = an.True
					nl++
				case token.EQL, token.LEQ:
					facts[bo] = an.False
					nl++
				}
			}
		}
		reach := an.Explore(fn, an.After(call), facts, nil)
		var bad []string
		for _, ret := range reach.Returns() {
			for _, alt := range reach.Alts(ret) {
				if len(alt.Results) == 2 && reach.EvalAlt(alt, 1) != an.NonNil {
					bad = append(bad, c.InstrPos(ret))
				}
			}
		}
		r.Check(nl > 0 && len(bad) == 0, "PATH", fkey(fn)+"/reasons=>failure", c.InstrPos(call), "with reasons reported by the split every return carries a non-nil status", sprintf("with a non-empty reasons list from the split a return without a failure status is reachable (%s; %d tests on len(reasons) found)", strings.Join(bad, ", "), nl))
	}
}

// cellSources: the values a value can come from when it is a load of a local cell (recursively; a cell captured by a
// closure is followed to the enclosing function, provided no closure writes it), else the value itself.
func cellSources(v ssa.Value) []ssa.Value {
	seen := map[ssa.Value]bool{}
	var out []ssa.Value
	var walk func(v ssa.Value)
	storesOf := func(a *ssa.Alloc) (vals []ssa.Value, ok bool) {
		if a.Referrers() == nil {
			return nil, false
		}
		for _, ref := range *a.Referrers() {
			switch x := ref.(type) {
			case *ssa.Store:
				if x.Addr == ssa.Value(a) {
					vals = append(vals, x.Val)
				}
			case *ssa.MakeClosure:
				// the closure must not assign the captured variable
				f, _ := x.Fn.(*ssa.Function)
				for k, b := range x.Bindings {
					if b != ssa.Value(a) || f == nil || k >= len(f.FreeVars) {
						continue
					}
					if refs := f.FreeVars[k].Referrers(); refs != nil {
						for _, r2 := range *refs {
							if st, isSt := r2.(*ssa.Store); isSt && st.Addr == ssa.Value(f.FreeVars[k]) {
								return nil, false
							}
							if _, isMC := r2.(*ssa.MakeClosure); isMC {
								return nil, false
							}
						}
					}
				}
			}
		}
		return vals, len(vals) > 0
	}
	walk = func(v ssa.Value) {
		v = an.Origin(v)
		if seen[v] {
			return
		}
		seen[v] = true
		if ld, ok := v.(*ssa.UnOp); ok && ld.Op == token.MUL {
			var cell *ssa.Alloc
			switch x := ld.X.(type) {
			case *ssa.Alloc:
				cell = x
			case *ssa.FreeVar:
				// the variable of the enclosing function this closure captured
				fn := x.Parent()
				if par := fn.Parent(); par != nil {
					for k, fv := range fn.FreeVars {
						if fv != x {
							continue
						}
						for _, b := range par.Blocks {
							for _, in := range b.Instrs {
								if mc, isMC := in.(*ssa.MakeClosure); isMC && mc.Fn == ssa.Value(fn) && k < len(mc.Bindings) {
									if a, isA := mc.Bindings[k].(*ssa.Alloc); isA {
										cell = a
									}
								}
							}
						}
					}
				}
			}
			if cell != nil {
				if vals, ok := storesOf(cell); ok {
					for _, s := range vals {
						walk(s)
					}
					return
				}
			}
		}
		if phi, ok := v.(*ssa.Phi); ok {
			for _, e := range phi.Edges {
				walk(e)
			}
			return
		}
		out = append(out, v)
	}
	walk(v)
	return out
}

func keysInt(m map[int64]bool) []int64 {
	var out []int64
	for k := range m {
		out = append(out, k)
	}
	sort.Slice(out, func(i, j int) bool { return out[i] < out[j] })
	return out
}

// c06entry: the manager's entry points always reach the ledger.
func c06entry(c *Ctx) {
	r := c.R
	r.Decides("resourceManager.Update reaches NodeAllocation.update with the caller's allocation whenever the node's CPU topology is valid (no shortcut in front of the ledger: a pod's NUMA resources can change while its CPU set stays the same), and resourceManager.Release reaches NodeAllocation.release with the caller's UID")
	r.Rule("PATH(entry): in resourceManager.Update, with CPUTopology.IsValid()==true, no return is reachable without NodeAllocation.update(<allocation parameter>, ..) under the node's write lock; in resourceManager.Release no return is reachable without NodeAllocation.release(<uid parameter>)")
	if fn := c.Fn(numaPkg, "resourceManager", "Update"); fn != nil {
		f := an.Facts{}
		for _, cl := range an.Calls(fn, false) {
			if an.ShortCallee(cl.Common()) == "IsValid" && cl.Value() != nil {
				f[cl.Value()] = an.True
			}
		}
		var upd ssa.CallInstruction
		reach := an.Explore(fn, nil, f, func(in ssa.Instruction) bool {
			if cl, ok := in.(ssa.CallInstruction); ok && an.CalleeName(cl.Common()) == "(*"+load.Module+"/"+numaPkg+".NodeAllocation).update" {
				upd = cl
				return true
			}
			return false
		})
		arg := upd != nil && isParamOf(fn, upd.Common().Args[1], 1)
		held := false
		if upd != nil {
			for k, w := range an.NewAnyLocks().HeldAt(upd) {
				if w && strings.Contains(k, "lock") {
					held = true
				}
			}
		}
		r.Check(len(f) > 0 && upd != nil && len(reach.Returns()) == 0 && arg && held, "PATH", fkey(fn)+"=>NodeAllocation.update", c.Pos(fn.Pos()), "every update reaches the ledger",
			sprintf("an update of a pod's allocation can finish without NodeAllocation.update (validity test found=%v, call found=%v, with the caller's allocation=%v, under the write lock=%v): the ledgers keep the previous version of the allocation", len(f) > 0, upd != nil, arg, held))
	}
	if fn := c.Fn(numaPkg, "resourceManager", "Release"); fn != nil {
		var rel ssa.CallInstruction
		reach := an.Explore(fn, nil, nil, func(in ssa.Instruction) bool {
			if cl, ok := in.(ssa.CallInstruction); ok && an.CalleeName(cl.Common()) == "(*"+load.Module+"/"+numaPkg+".NodeAllocation).release" {
				rel = cl
				return true
			}
			return false
		})
		arg := rel != nil && isParamOf(fn, rel.Common().Args[1], 1)
		r.Check(rel != nil && len(reach.Returns()) == 0 && arg, "PATH", fkey(fn)+"=>NodeAllocation.release", c.Pos(fn.Pos()), "every release reaches the ledger", sprintf("a release can finish without NodeAllocation.release of the caller's UID (call found=%v, caller's UID=%v)", rel != nil, arg))
	}
}
