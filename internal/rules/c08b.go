package rules

import (
	"go/token"
	"strings"

	"golang.org/x/tools/go/ssa"

	"kverif/internal/an"
	"kverif/internal/load"
)

// c08handlers: every scheduler / informer event reaches the cache with the right node and pod.
func c08handlers(c *Ctx) {
	r := c.R
	r.Decides("Reserve/Unreserve hand exactly their node and pod to assign/unAssign; the pod update handler releases the pod from its old node when the node changed, (re)assigns a pod that is not cached or whose spec or conditions changed, and releases a terminated one; assign reaches the node's AddOrUpdatePod with this pod and the estimate of this pod unless one of its three stated exemptions holds; unAssign reaches DeletePod with this pod's UID; the incoming pod's estimate is added to the very vector that is then compared with the thresholds; the estimator takes max(request, limit), caps by the limit in the unit it computed in, and files the result under the untranslated name")
	const cp = "(*" + load.Module + "/" + loadawarePkg + ".podAssignCache)."

	// ---- Reserve / Unreserve
	r.Rule("PATH(reserve): Plugin.Reserve calls podAssignCache.assign(nodeName, pod) and Plugin.Unreserve calls unAssign(nodeName, pod) with their own parameters on every path to the exit")
	for _, e := range [][2]string{{"Reserve", "assign"}, {"Unreserve", "unAssign"}} {
		fn := c.Fn(loadawarePkg, "Plugin", e[0])
		if fn == nil {
			continue
		}
		calls := an.CallsTo(fn, false, cp+e[1])
		ok := len(calls) == 1
		why := sprintf("%d calls to %s", len(calls), e[1])
		if ok {
			cl := calls[0]
			a := cl.Common().Args
			// parameters: (recv, ctx, state, pod, nodeName)
			argsOK := isParamOf(fn, a[1], 3) && isParamOf(fn, a[2], 2)
			reach := an.Explore(fn, nil, nil, func(in ssa.Instruction) bool { return in == ssa.Instruction(cl) })
			through := len(reach.Returns()) == 0
			ok = argsOK && through
			why = sprintf("arguments are (nodeName, pod) of the hook=%v, not skippable=%v", argsOK, through)
		}
		r.Check(ok, "PATH", fkey(fn)+"=>"+e[1], c.Pos(fn.Pos()), e[1]+"(nodeName, pod) on every path", "the scheduler hook does not hand its node and pod to the cache: "+why+" — the assumed pod is missing from (or never leaves) the node's estimate")
	}

	// ---- OnUpdate
	r.Rule("PATH(pod update): in podAssignCache.OnUpdate, for a non-nil new pod: when the old pod had another non-empty node, unAssign(old node) is reached; when the pod is not cached assign is reached; when it is cached and terminated unAssign is reached; when it is cached, alive and either reflect.DeepEqual comparison (spec, conditions — both must exist) says 'changed', assign is reached")
	if fn := c.Fn(loadawarePkg, "podAssignCache", "OnUpdate"); fn != nil {
		key := fkey(fn)
		oldObj, newObj := fn.Params[1], fn.Params[2]
		base := an.Facts{}
		var oldPod ssa.Value
		for _, b := range fn.Blocks {
			for _, in := range b.Instrs {
				ta, ok := in.(*ssa.TypeAssert)
				if !ok {
					continue
				}
				if ta.X != ssa.Value(oldObj) && ta.X != ssa.Value(newObj) {
					continue
				}
				if ta.CommaOk {
					if e := extract(ta, 1); e != nil {
						base[e] = an.True
					}
					if e := extract(ta, 0); e != nil {
						base[e] = an.NonNil
						if ta.X == ssa.Value(oldObj) {
							oldPod = e
						}
					}
				} else {
					base[ta] = an.NonNil
					if ta.X == ssa.Value(oldObj) {
						oldPod = ta
					}
				}
			}
		}
		with := func(extra an.Facts) an.Facts {
			f := an.Facts{}
			for k, v := range base {
				f[k] = v
			}
			for k, v := range extra {
				f[k] = v
			}
			return f
		}
		var cached, term ssa.Value
		var deq []*ssa.Call
		for _, cl := range an.Calls(fn, false) {
			call, isCall := cl.(*ssa.Call)
			if !isCall {
				continue
			}
			switch an.ShortCallee(&call.Call) {
			case "getPodAssignInfo":
				cached = call
			case "IsPodTerminated":
				term = call
			case "DeepEqual":
				deq = append(deq, call)
			}
		}
		fromOld := func(v ssa.Value) bool {
			for x := range backwardAll(v) {
				if x == oldPod || x == ssa.Value(oldObj) {
					return true
				}
			}
			return false
		}
		isCallTo := func(name string, old bool) func(ssa.Instruction) bool {
			return func(in ssa.Instruction) bool {
				cl, ok := in.(ssa.CallInstruction)
				if !ok || an.CalleeName(cl.Common()) != cp+name {
					return false
				}
				return fromOld(cl.Common().Args[1]) == old
			}
		}
		if cached == nil || oldPod == nil {
			r.Unknown("PATH", key+"/shape", c.Pos(fn.Pos()), sprintf("unknown idiom: cached lookup=%v, old pod assertion=%v", cached != nil, oldPod != nil))
		} else if term == nil {
			r.Fail("PATH", key+"/terminated=>unAssign", c.Pos(fn.Pos()), "the update handler no longer asks whether the pod has terminated: a cached pod that terminated keeps its estimate on the node until the delete event")
		} else {
			// node changed: the comparisons on the old pod's node name hold
			f := with(nil)
			nCmp := 0
			for _, b := range fn.Blocks {
				for _, in := range b.Instrs {
					bo, ok := in.(*ssa.BinOp)
					if !ok || (bo.Op != token.NEQ && bo.Op != token.EQL) {
						continue
					}
					// the old pod's node name: read directly, or through a local that holds it (or "" when there is no
					// old pod - then both comparisons are false anyway)
					isOldName := func(v ssa.Value) bool {
						if !fromOld(v) {
							return false
						}
						name := false
						for _, s := range cellSources(v) {
							if _, isK := constString(s); isK {
								continue
							}
							if !strings.HasSuffix(an.Path(s), ".Spec.NodeName") {
								return false
							}
							name = true
						}
						return name
					}
					if !isOldName(bo.X) && !isOldName(bo.Y) {
						continue
					}
					nCmp++
					if bo.Op == token.NEQ {
						f[bo] = an.True
					} else {
						f[bo] = an.False
					}
				}
			}
			reach := an.Explore(fn, nil, f, isCallTo("unAssign", true))
			r.Check(nCmp >= 2 && len(reach.Returns()) == 0, "PATH", key+"/node-changed=>unAssign(old)", c.Pos(fn.Pos()), "the pod is released from the node it was on",
				sprintf("with the old pod on another, non-empty node the handler can finish without unAssign(old node) (%d comparisons on the old node name found): the old node keeps the pod's estimate for ever", nCmp))

			scen := func(name, sink string, extra an.Facts, detail string) {
				reach := an.Explore(fn, nil, with(extra), isCallTo(sink, false))
				r.Check(len(reach.Returns()) == 0, "PATH", key+"/"+name+"=>"+sink, c.Pos(fn.Pos()), sink+" is reached", "the handler can finish without "+sink+" although "+detail)
			}
			scen("not-cached", "assign", an.Facts{cached: an.Nil}, "the pod is not in the cache (a pod bound by another scheduler or seen first through an update is never counted)")
			scen("terminated", "unAssign", an.Facts{cached: an.NonNil, term: an.True}, "the cached pod has terminated (its estimate stays on the node)")
			hasSpec, hasCond := false, false
			for i, d := range deq {
				p := an.Path(d.Call.Args[0]) + " " + an.Path(d.Call.Args[1])
				what := sprintf("comparison #%d", i+1)
				if strings.Contains(p, ".Status.Conditions") {
					hasCond = true
					what = "conditions"
				} else if strings.Contains(p, ".Spec") {
					hasSpec = true
					what = "spec"
				}
				extra := an.Facts{cached: an.NonNil, term: an.False}
				for _, o := range deq {
					if o == d {
						extra[o] = an.False
					} else {
						extra[o] = an.True
					}
				}
				scen(what+"-changed", "assign", extra, "the pod's "+what+" changed (requests, priority or the PodScheduled/Initialized times the estimate window depends on are stale)")
			}
			r.Check(hasSpec && hasCond, "PATH", key+"/compares-spec-and-conditions", c.Pos(fn.Pos()), "both the spec and the conditions are compared with the cached pod", sprintf("the update handler compares spec=%v, conditions=%v with the cached pod: assign reads both (requests/limits, PodScheduled and Initialized times)", hasSpec, hasCond))
		}
	}

	// ---- assign
	r.Rule("PATH/FLOW(assign): in podAssignCache.assign, with a node name, a pod that is neither terminated nor a reserve pod, nodeInfo.AddOrUpdatePod is reached; the podAssignInfo handed over carries the parameter pod, and its estimate derives from estimator.EstimatePod of that same pod through vectorizer.ToFactorVec")
	if fn := c.Fn(loadawarePkg, "podAssignCache", "assign"); fn != nil {
		key := fkey(fn)
		f := an.Facts{}
		nEx := 0
		for _, b := range fn.Blocks {
			for _, in := range b.Instrs {
				switch x := in.(type) {
				case *ssa.BinOp:
					if s, isC := constString(x.Y); isC && s == "" && isParamOf(fn, x.X, 0) {
						if x.Op == token.EQL {
							f[x] = an.False
						} else if x.Op == token.NEQ {
							f[x] = an.True
						}
						nEx++
					}
				case *ssa.Call:
					switch an.ShortCallee(&x.Call) {
					case "IsPodTerminated", "IsReservePod":
						if len(x.Call.Args) == 1 && isParamOf(fn, x.Call.Args[0], 1) {
							f[x] = an.False
							nEx++
						}
					}
				}
			}
		}
		var sink ssa.CallInstruction
		isSink := func(in ssa.Instruction) bool {
			cl, ok := in.(ssa.CallInstruction)
			if ok && an.ShortCallee(cl.Common()) == "AddOrUpdatePod" {
				sink = cl
				return true
			}
			return false
		}
		reach := an.Explore(fn, nil, f, isSink)
		r.Check(nEx == 3 && sink != nil && len(reach.Returns()) == 0, "PATH", key+"=>AddOrUpdatePod", c.Pos(fn.Pos()), "reached unless node name empty, pod terminated or reserve pod",
			sprintf("assign can finish without AddOrUpdatePod although the node name is set and the pod is neither terminated nor a reserve pod (%d of the 3 stated exemptions recognised, sink found=%v): the pod is not counted on its node", nEx, sink != nil))
		if sink != nil {
			// the record handed over
			rec := sink.Common().Args[1]
			var podOK, estOK bool
			var estWhy string
			for x := range backwardAll(rec) {
				a, ok := x.(*ssa.Alloc)
				if !ok || a.Referrers() == nil {
					continue
				}
				for _, ref := range *a.Referrers() {
					fa, ok := ref.(*ssa.FieldAddr)
					if !ok {
						continue
					}
					_, fname, _, _ := an.FieldOf(fa)
					for _, r2 := range *fa.Referrers() {
						st, ok := r2.(*ssa.Store)
						if !ok || st.Addr != ssa.Value(fa) {
							continue
						}
						switch fname {
						case "pod":
							podOK = isParamOf(fn, st.Val, 1)
						case "estimated":
							viaVec, fromEst, samePod := false, false, false
							for y := range backwardAll(st.Val) {
								if cl, ok := y.(*ssa.Call); ok {
									switch an.ShortCallee(&cl.Call) {
									case "ToFactorVec":
										viaVec = true
									case "EstimatePod":
										fromEst = true
										as := an.Args(&cl.Call)
										samePod = len(as) == 2 && isParamOf(fn, as[1], 1)
									}
								}
							}
							estOK = viaVec && fromEst && samePod
							estWhy = sprintf("through ToFactorVec=%v, from EstimatePod=%v of the same pod=%v", viaVec, fromEst, samePod)
						}
					}
				}
			}
			r.Check(podOK && estOK, "FLOW", key+"/record", c.InstrPos(sink), "the record carries this pod and this pod's estimate", sprintf("the record handed to AddOrUpdatePod is wrong: pod is the parameter=%v, estimate %s", podOK, estWhy))
		}
	}

	// ---- unAssign
	r.Rule("PATH(unAssign): in podAssignCache.unAssign, with a node name and the node known, nodeInfo.DeletePod is reached with the UID of the parameter pod")
	if fn := c.Fn(loadawarePkg, "podAssignCache", "unAssign"); fn != nil {
		key := fkey(fn)
		f := an.Facts{}
		n := 0
		for _, b := range fn.Blocks {
			for _, in := range b.Instrs {
				switch x := in.(type) {
				case *ssa.BinOp:
					if s, isC := constString(x.Y); isC && s == "" && isParamOf(fn, x.X, 0) {
						if x.Op == token.EQL {
							f[x] = an.False
						} else if x.Op == token.NEQ {
							f[x] = an.True
						}
						n++
					}
				case *ssa.Call:
					if an.ShortCallee(&x.Call) == "getNodeInfo" {
						if e := extract(x, 1); e != nil {
							f[e] = an.True
							n++
						}
						if e := extract(x, 0); e != nil {
							f[e] = an.NonNil
						}
					}
				}
			}
		}
		var sink ssa.CallInstruction
		reach := an.Explore(fn, nil, f, func(in ssa.Instruction) bool {
			cl, ok := in.(ssa.CallInstruction)
			if ok && an.ShortCallee(cl.Common()) == "DeletePod" {
				sink = cl
				return true
			}
			return false
		})
		uid := false
		if sink != nil {
			a := sink.Common().Args
			p := an.Path(a[2])
			uid = strings.HasSuffix(p, ".UID") && func() bool {
				for x := range backwardAll(a[2]) {
					if isParamOf(fn, x, 1) {
						return true
					}
				}
				return false
			}()
		}
		r.Check(n == 2 && sink != nil && len(reach.Returns()) == 0 && uid, "PATH", key+"=>DeletePod", c.Pos(fn.Pos()), "DeletePod(node, pod.UID) reached for a known node",
			sprintf("unAssign can finish without DeletePod for a known node, or deletes another UID (conditions recognised=%d/2, sink=%v, UID of the parameter pod=%v)", n, sink != nil, uid))
	}

	// ---- the incoming pod's estimate lands in the vector that is compared
	r.Rule("FLOW(incoming): in Plugin.Filter the vector handed to filterNodeUsage as estimatedUsed is the one returned by GetNodeMetricAndEstimatedOfExisting and handed to addEstimatedOfIncoming before; addEstimatedOfIncoming returns nil only after estimated.Add(x) with x from the cycle state or from ToFactorVec(EstimatePod(pod)) of its pod parameter, and returns the estimator's error")
	if fn := c.Fn(loadawarePkg, "Plugin", "Filter"); fn != nil {
		const pp = "(*" + load.Module + "/" + loadawarePkg + ".Plugin)."
		adds := an.CallsTo(fn, false, pp+"addEstimatedOfIncoming")
		flt := an.CallsTo(fn, false, pp+"filterNodeUsage")
		ok := len(adds) == 1 && len(flt) == 1
		why := sprintf("addEstimatedOfIncoming calls=%d, filterNodeUsage calls=%d", len(adds), len(flt))
		if ok {
			av, fv := adds[0].Common().Args[1], flt[0].Common().Args[4]
			same := sameSource(av, fv)
			fromCache := false
			for _, s := range cellSources(av) {
				if cl, i := an.ResultOfCall(s); cl != nil && an.ShortCallee(&cl.Call) == "GetNodeMetricAndEstimatedOfExisting" && i == 1 {
					fromCache = true
				}
			}
			before := mustPass(adds[0], flt[0])
			podOK := isParamOf(fn, adds[0].Common().Args[3], 2) && isParamOf(fn, flt[0].Common().Args[2], 2)
			ok = same && fromCache && before && podOK
			why = sprintf("same vector=%v, it is the cache's estimate of the existing pods=%v, incoming added before the comparison=%v, for the pod being filtered=%v", same, fromCache, before, podOK)
		}
		r.Check(ok, "FLOW", fkey(fn)+"/incoming-added-before-compare", c.Pos(fn.Pos()), "existing + incoming is what is compared", "the threshold comparison does not see the node's estimate plus the incoming pod: "+why)
	}
	if fn := c.Fn(loadawarePkg, "Plugin", "addEstimatedOfIncoming"); fn != nil {
		key := fkey(fn)
		var add *ssa.Call
		var est *ssa.Call
		for _, cl := range an.Calls(fn, false) {
			call, isCall := cl.(*ssa.Call)
			if !isCall {
				continue
			}
			switch an.ShortCallee(&call.Call) {
			case "Add":
				if isParamOf(fn, call.Call.Args[0], 0) {
					add = call
				}
			case "EstimatePod":
				est = call
			}
		}
		ok := add != nil && est != nil
		why := sprintf("estimated.Add found=%v, EstimatePod found=%v", add != nil, est != nil)
		if ok {
			// nil is returned only behind the Add
			nilBehind := true
			for _, alt := range an.ReturnAlts(fn) {
				if an.IsNilConst(alt.Results[0]) && !mustPassBlock(add, alt) {
					nilBehind = false
				}
			}
			// what is added
			srcOK := true
			nSrc := 0
			for _, s := range cellSources(add.Call.Args[1]) {
				nSrc++
				switch x := s.(type) {
				case *ssa.Call:
					if an.ShortCallee(&x.Call) != "ToFactorVec" {
						srcOK = false
					} else if cl, _ := an.ResultOfCall(x.Call.Args[len(x.Call.Args)-1]); cl != est {
						srcOK = false
					}
				case *ssa.Extract, *ssa.TypeAssert:
					// the vector cached in the cycle state
					fromState := false
					for y := range backwardAll(s) {
						if cl, ok := y.(*ssa.Call); ok && cl.Call.IsInvoke() && cl.Call.Method.Name() == "Read" {
							fromState = true
						}
					}
					if !fromState {
						srcOK = false
					}
				default:
					if !an.IsNilConst(s) {
						srcOK = false
					}
				}
			}
			as := an.Args(&est.Call)
			samePod := len(as) == 2 && isParamOf(fn, as[1], 2)
			// the estimator's error is returned
			errRet := false
			if e := extract(est, 1); e != nil {
				reach := an.Explore(fn, an.After(est), an.Facts{e: an.NonNil}, nil)
				errRet = true
				for _, ret := range reach.Returns() {
					for _, alt := range reach.Alts(ret) {
						if reach.EvalAlt(alt, 0) != an.NonNil {
							errRet = false
						}
					}
				}
			}
			ok = nilBehind && srcOK && nSrc >= 2 && samePod && errRet
			why = sprintf("nil returned only behind estimated.Add=%v, added vector is the cached one or ToFactorVec(EstimatePod(..))=%v (%d sources), of the pod parameter=%v, estimator error returned=%v", nilBehind, srcOK, nSrc, samePod, errRet)
		}
		r.Check(ok, "FLOW", key+"/adds-incoming", c.Pos(fn.Pos()), "success means the incoming pod's estimate was added", "addEstimatedOfIncoming is broken: "+why)
	}

	// ---- the estimator
	r.Rule("PATH/UNIT(estimator): in estimatedUsedByResource the quantity scaled is the limit on the arm where limit.Cmp(request) > 0 and the request otherwise; on every arm of the resource switch the accessor used for the product (MilliValue / Value) is the accessor used for the limit it is capped by, and the cap assigns the limit only under estimate > limit && limit > 0; estimatedPodUsed files the result under the name it iterates (not the translated one) and looks requests up under the translated one")
	estPkg := loadawarePkg + "/estimator"
	if fn := c.Fn(estPkg, "", "estimatedUsedByResource"); fn != nil {
		key := fkey(fn)
		// max(request, limit)
		// the locals are found by what they hold, not by name: the limit is looked up in the second parameter, the
		// request in the first, the scaled quantity is the local assigned from those two
		lookupOf := func(v ssa.Value, idx int) bool {
			var srcs []ssa.Value
			if a, ok := v.(*ssa.Alloc); ok && a.Referrers() != nil {
				for _, ref := range *a.Referrers() {
					if st, ok := ref.(*ssa.Store); ok && st.Addr == ssa.Value(a) {
						srcs = append(srcs, cellSources(st.Val)...)
					}
				}
			} else {
				srcs = cellSources(v)
			}
			for _, s := range srcs {
				lk, ok := s.(*ssa.Lookup)
				if !ok || !isParamOf(fn, lk.X, idx) {
					return false
				}
			}
			return len(srcs) > 0
		}
		lim := func(v ssa.Value) bool { return lookupOf(v, 1) }
		req := func(v ssa.Value) bool { return lookupOf(v, 0) }
		var qcell *ssa.Alloc
		for _, b := range fn.Blocks {
			for _, in := range b.Instrs {
				if st, ok := in.(*ssa.Store); ok && (lim(st.Val) || req(st.Val)) {
					if a, ok := st.Addr.(*ssa.Alloc); ok && !lim(a) && !req(a) {
						qcell = a
					}
				}
			}
		}
		cellIs := func(v ssa.Value, cell *ssa.Alloc) bool {
			if cell == nil {
				return false
			}
			if ld, ok := v.(*ssa.UnOp); ok && ld.Op == token.MUL {
				v = ld.X
			}
			return v == ssa.Value(cell)
		}
		maxOK, nSt := qcell != nil, 0
		var why []string
		if qcell != nil {
			for _, ref := range *qcell.Referrers() {
				st, ok := ref.(*ssa.Store)
				if !ok || st.Addr != ssa.Value(qcell) {
					continue
				}
				nSt++
				poss := cmpPossible(an.Guards(st), lim, req)
				switch {
				case lim(st.Val):
					if poss == nil || poss[-1] {
						maxOK = false
						why = append(why, sprintf("%s: the limit is taken although limit.Cmp(request) may be %v", c.InstrPos(st), keysInt(poss)))
					}
				case req(st.Val):
					if poss == nil || poss[1] {
						maxOK = false
						why = append(why, sprintf("%s: the request is taken although limit.Cmp(request) may be %v", c.InstrPos(st), keysInt(poss)))
					}
				default:
					maxOK = false
					why = append(why, c.InstrPos(st)+": neither the limit nor the request")
				}
			}
		}
		r.Check(maxOK && nSt == 2, "PATH", key+"/max(request,limit)", c.Pos(fn.Pos()), "the larger of request and limit is scaled", sprintf("the estimator does not scale max(request, limit) (%d assignments of quantity; %s)", nSt, strings.Join(why, "; ")))

		// units and cap. The limit and the product may be written once per arm of the resource switch, or once behind a
		// selection of (value, limit) per arm: both are read as alternatives keyed by the arm they come from.
		type accAlt struct {
			from *ssa.BasicBlock // nil: not selected by a merge
			acc  string
		}
		accessorAlts := func(v ssa.Value, is func(ssa.Value) bool) []accAlt {
			v = firstSource(v)
			if cl, ok := v.(*ssa.Call); ok && len(cl.Call.Args) == 1 && is(cl.Call.Args[0]) {
				return []accAlt{{nil, an.ShortCallee(&cl.Call)}}
			}
			if phi, ok := v.(*ssa.Phi); ok {
				var out []accAlt
				for k, e := range phi.Edges {
					cl, ok := firstSource(e).(*ssa.Call)
					if !ok || len(cl.Call.Args) != 1 || !is(cl.Call.Args[0]) {
						return nil
					}
					out = append(out, accAlt{phi.Block().Preds[k], an.ShortCallee(&cl.Call)})
				}
				return out
			}
			return nil
		}
		isQ := func(v ssa.Value) bool { return cellIs(v, qcell) }
		var productAlts func(v ssa.Value, d int) []accAlt
		productAlts = func(v ssa.Value, d int) []accAlt {
			if d > 10 {
				return nil
			}
			if a := accessorAlts(v, isQ); a != nil {
				return a
			}
			switch x := firstSource(v).(type) {
			case *ssa.Convert:
				return productAlts(x.X, d+1)
			case *ssa.BinOp:
				if a := productAlts(x.X, d+1); a != nil {
					return a
				}
				return productAlts(x.Y, d+1)
			case *ssa.Call:
				for _, arg := range x.Call.Args {
					if a := productAlts(arg, d+1); a != nil {
						return a
					}
				}
			}
			return nil
		}
		unitOK, nCap := true, 0
		var uwhy []string
		// the builtin form of the cap: min(product, limit) under limit > 0
		for _, cl := range an.Calls(fn, false) {
			call, isCall := cl.(*ssa.Call)
			if !isCall || !an.IsBuiltinCall(call, "min") || len(call.Call.Args) != 2 {
				continue
			}
			px, ly := call.Call.Args[0], call.Call.Args[1]
			la := accessorAlts(ly, lim)
			qa := productAlts(px, 0)
			if la == nil || qa == nil {
				px, ly = ly, px
				la = accessorAlts(ly, lim)
				qa = productAlts(px, 0)
			}
			if la == nil || qa == nil {
				continue
			}
			nCap += len(la)
			agree := len(la) == len(qa)
			if agree {
				for k := range la {
					found := false
					for m := range qa {
						if qa[m].from == la[k].from && qa[m].acc == la[k].acc {
							found = true
						}
					}
					if !found {
						agree = false
					}
				}
			}
			if !agree {
				unitOK = false
				uwhy = append(uwhy, sprintf("%s: product in %v, cap in %v", c.InstrPos(call), qa, la))
			}
			lv := firstSource(ly)
			pos := false
			for _, g := range an.Guards(call) {
				if rel, ok := an.RelOf(g); ok && firstSource(rel.X) == lv {
					if k, isC := constIntOf(rel.Y); isC && ((rel.Op == token.GTR && k == 0) || (rel.Op == token.GEQ && k == 1) || (rel.Op == token.NEQ && k == 0)) {
						pos = true
					}
				}
			}
			if !pos {
				unitOK = false
				uwhy = append(uwhy, sprintf("%s: min(estimate, limit) is not under limit > 0", c.InstrPos(call)))
			}
		}
		for _, b := range fn.Blocks {
			for _, in := range b.Instrs {
				bo, ok := in.(*ssa.BinOp)
				if !ok || bo.Op != token.GTR {
					continue
				}
				la := accessorAlts(bo.Y, lim)
				qa := productAlts(bo.X, 0)
				if la == nil || qa == nil {
					continue
				}
				nCap += len(la)
				agree := len(la) == len(qa)
				if agree {
					for k := range la {
						found := false
						for m := range qa {
							if qa[m].from == la[k].from && qa[m].acc == la[k].acc {
								found = true
							}
						}
						if !found {
							agree = false
						}
					}
				}
				if !agree {
					unitOK = false
					uwhy = append(uwhy, sprintf("%s: product in %v, cap in %v", c.InstrPos(bo), qa, la))
				}
				// the limit becomes the result only under this comparison and limit > 0
				lv := firstSource(bo.Y)
				guardsOK := func(gs []an.Guard) bool {
					gt, pos := false, false
					for _, g := range gs {
						if g.Cond == ssa.Value(bo) && g.Truth {
							gt = true
						}
						if rel, ok := an.RelOf(g); ok && firstSource(rel.X) == lv {
							if k, isC := constIntOf(rel.Y); isC && ((rel.Op == token.GTR && k == 0) || (rel.Op == token.GEQ && k == 1) || (rel.Op == token.NEQ && k == 0)) {
								pos = true
							}
						}
					}
					return gt && pos
				}
				capped, loose := false, false
				for _, b2 := range fn.Blocks {
					for _, in2 := range b2.Instrs {
						switch x := in2.(type) {
						case *ssa.Store:
							if firstSource(x.Val) == lv {
								if guardsOK(an.Guards(x)) {
									capped = true
								} else {
									loose = true
								}
							}
						case *ssa.Return:
							for _, res := range x.Results {
								if firstSource(res) == lv {
									if guardsOK(an.Guards(x)) {
										capped = true
									} else {
										loose = true
									}
								}
							}
						case *ssa.Phi:
							if ssa.Value(x) == lv {
								continue
							}
							for k, e := range x.Edges {
								if firstSource(e) != lv {
									continue
								}
								gs := an.BlockGuards(b2.Preds[k])
								if pi, ok := b2.Preds[k].Instrs[len(b2.Preds[k].Instrs)-1].(*ssa.If); ok && len(b2.Preds[k].Succs) == 2 {
									pc, neg := an.StripNot(pi.Cond)
									t := b2.Preds[k].Succs[0] == b2
									if neg {
										t = !t
									}
									gs = append(gs, an.Guard{Cond: pc, Truth: t, If: pi})
								}
								if guardsOK(gs) {
									capped = true
								} else {
									loose = true
								}
							}
						}
					}
				}
				if !capped || loose {
					unitOK = false
					uwhy = append(uwhy, sprintf("%s: the limit becomes the estimate under estimate > limit && limit > 0=%v, elsewhere too=%v", c.InstrPos(bo), capped, loose))
				}
			}
		}
		r.Check(unitOK && nCap >= 2, "UNIT", key+"/cap-in-same-unit", c.Pos(fn.Pos()), sprintf("%d arms: product and cap use the same accessor, cap only when limit > 0 and exceeded", nCap), sprintf("the estimate is capped wrongly (%d arms; %s): milli-units compared with units give an estimate 1000 times off", nCap, strings.Join(uwhy, "; ")))
	}
	if fn := c.Fn(estPkg, "", "estimatedPodUsed"); fn != nil {
		key := fkey(fn)
		ok, n := true, 0
		why := ""
		for _, b := range fn.Blocks {
			for _, in := range b.Instrs {
				mu, isMU := in.(*ssa.MapUpdate)
				if !isMU {
					continue
				}
				cl, _ := an.ResultOfCall(mu.Value)
				if cl == nil || an.ShortCallee(&cl.Call) != "estimatedUsedByResource" {
					continue
				}
				n++
				tr, _ := an.ResultOfCall(cl.Call.Args[2])
				translated := tr != nil && an.ShortCallee(&tr.Call) == "TranslateResourceNameByPriorityClass"
				sameName := translated && tr.Call.Args[1] == mu.Key
				// requests and limits in this order, of the pod parameter
				rq, _ := an.ResultOfCall(firstSource(cl.Call.Args[0]))
				lm, _ := an.ResultOfCall(firstSource(cl.Call.Args[1]))
				order := rq != nil && lm != nil && an.ShortCallee(&rq.Call) == "PodRequests" && an.ShortCallee(&lm.Call) == "PodLimits" && isParamOf(fn, rq.Call.Args[0], 0) && isParamOf(fn, lm.Call.Args[0], 0)
				_, isExt := mu.Key.(*ssa.Extract)
				if !(translated && sameName && order && isExt) {
					ok = false
					why = sprintf("lookup under the translated name=%v, of the name the result is filed under=%v, (requests, limits) of the pod in this order=%v", translated, sameName, order)
				}
			}
		}
		r.Check(ok && n == 1, "PATH", key+"/names", c.Pos(fn.Pos()), "estimate[name] = f(requests, limits, translated(name))", "estimatedPodUsed is wired wrongly: "+why)
	}
}

// mustPassBlock: the return alternative cannot be taken without executing call first.
func mustPassBlock(call ssa.Instruction, alt an.RetAlt) bool {
	fn := call.Parent()
	reach := an.Explore(fn, nil, nil, func(in ssa.Instruction) bool { return in == call })
	if !reach.Reached(alt.Ret) {
		return true
	}
	// the return is reachable without the call; the alternative may still not be (merged exits)
	for _, a := range reach.Alts(alt.Ret) {
		same := len(a.Results) == len(alt.Results)
		for i := range a.Results {
			if same && a.Results[i] != alt.Results[i] {
				same = false
			}
		}
		if same && a.Block == alt.Block {
			return false
		}
	}
	return true
}

func firstSource(v ssa.Value) ssa.Value {
	s := cellSources(v)
	if len(s) == 1 {
		return s[0]
	}
	return v
}

// c08recheck: the 'deleted' mark of a nodeInfo is looked at again once its lock is held.
func c08recheck(c *Ctx) {
	r := c.R
	r.Decides("every nodeInfo entry point that takes the node's lock itself reads the 'deleted' mark again behind the Lock() before it touches the node's state (check - lock - re-check: between the first look and the lock another goroutine can have emptied and dropped the nodeInfo; a write into the orphan is reported as success and lost)")
	r.Rule("ATOMIC(re-check under the lock): in nodeInfo.AddOrUpdatePod / DeletePod / AddOrUpdateNodeMetric / DeleteNodeMetric, from behind every Lock() of the node no store, map update, delete or in-package call is reachable without a load of n.deleted first")
	n := 0
	for _, name := range []string{"AddOrUpdatePod", "DeletePod", "AddOrUpdateNodeMetric", "DeleteNodeMetric"} {
		fn := c.Fn(loadawarePkg, "nodeInfo", name)
		if fn == nil {
			continue
		}
		recv := fn.Params[0]
		for _, cl := range an.Calls(fn, false) {
			call, ok := cl.(*ssa.Call)
			if !ok || an.ShortCallee(&call.Call) != "Lock" {
				continue
			}
			// the node's own lock
			own := false
			for x := range backwardAll(call.Call.Args[0]) {
				if x == ssa.Value(recv) {
					own = true
				}
			}
			if !own {
				continue
			}
			n++
			touched := ""
			an.Explore(fn, an.After(call), nil, func(in ssa.Instruction) bool {
				switch x := in.(type) {
				case *ssa.UnOp:
					if x.Op == token.MUL {
						if _, f, _, ok := an.FieldOf(x.X); ok && f == "deleted" {
							return true // re-checked: stop this path
						}
					}
				case *ssa.Store:
					if _, _, _, ok := an.FieldOf(x.Addr); ok && touched == "" {
						touched = c.InstrPos(x)
					}
				case *ssa.MapUpdate:
					if touched == "" {
						touched = c.InstrPos(x)
					}
				case *ssa.Call:
					if cal := x.Call.StaticCallee(); cal != nil && cal.Pkg == fn.Pkg && len(cal.Blocks) > 0 && touched == "" {
						touched = c.InstrPos(x)
					}
					if an.IsBuiltinCall(x, "delete") && touched == "" {
						touched = c.InstrPos(x)
					}
				}
				return false
			})
			r.Check(touched == "", "ATOMIC", fkey(fn)+"/deleted-rechecked-under-lock", c.InstrPos(call), "deleted is read again behind the Lock()", "the node's state is touched at "+touched+" behind Lock() without looking at n.deleted again: a pod (or metric) written into a nodeInfo that another goroutine has just dropped from the cache is reported as stored and is lost")
		}
	}
	r.Floor("ATOMIC", "Lock() sites in the nodeInfo entry points", n, 4)
}

// c08estimateNode: the node estimate cannot fail (its callers let a node pass on an error).
func c08estimateNode(c *Ctx) {
	r := c.R
	r.Decides("the default estimator's EstimateNode never reports an error - a malformed raw-allocatable annotation falls back to the node's allocatable - because Plugin.Filter and Score answer an estimation error with 'no opinion' (the node passes unevaluated)")
	r.Rule("ERR(no failure to skip on): every return of DefaultEstimator.EstimateNode carries a nil error and a list that derives from node.Status.Allocatable or from the parsed raw allocatable; Plugin.Filter returns nil after an EstimateNode error (the pairing that makes the first part necessary)")
	fn := c.Fn(loadawarePkg+"/estimator", "DefaultEstimator", "EstimateNode")
	if fn == nil {
		return
	}
	ok, n := true, 0
	for _, alt := range an.ReturnAlts(fn) {
		n++
		if !an.IsNilConst(alt.Results[1]) {
			ok = false
		}
		if an.IsNilConst(alt.Results[0]) {
			ok = false
		}
	}
	r.Check(ok && n >= 2, "ERR", fkey(fn)+"/never-fails", c.Pos(fn.Pos()), "every return has a list and a nil error", "EstimateNode can return an error (or no list): Plugin.Filter lets a node pass unevaluated on an estimation error, so a node with a malformed raw-allocatable annotation is never load-checked")
}
