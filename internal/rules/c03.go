package rules

import (
	"go/token"
	"strings"

	"golang.org/x/tools/go/ssa"

	"kverif/internal/an"
	"kverif/internal/load"
)

func init() { Registry["C03"] = c03 }

const quotaPluginPkg = "pkg/scheduler/plugins/elasticquota"

func isLessEq(cl ssa.CallInstruction) bool {
	return an.CalleeName(cl.Common()) == "k8s.io/apiserver/pkg/quota/v1.LessThanOrEqual"
}

func extract(v ssa.Value, idx int) ssa.Value {
	if v == nil || v.Referrers() == nil {
		return nil
	}
	for _, ref := range *v.Referrers() {
		if e, ok := ref.(*ssa.Extract); ok && e.Index == idx {
			return e
		}
	}
	return nil
}

// statusKind classifies a returned *Status value: "success", "recursive", "other".
func statusKind(v ssa.Value) string {
	call, _ := an.ResultOfCall(v)
	if call == nil {
		return "other"
	}
	switch an.ShortCallee(&call.Call) {
	case "checkQuotaRecursive":
		return "recursive"
	case "NewStatus":
		if len(call.Call.Args) > 0 {
			if cst, ok := call.Call.Args[0].(*ssa.Const); ok && cst.Value != nil && cst.Value.ExactString() == "0" {
				return "success"
			}
		}
	}
	return "other"
}

func c03(c *Ctx) {
	c03assignFromPresent(c)
	r := c.R
	r.Decides("PreFilter cannot return Success (or defer to the ancestor check) unless used+request <= limit held, masked to the declared dimensions, against the snapshot's limit; for non-preemptible pods additionally nonPreemptibleUsed+request <= min; with parent checking on, the result is that of the ancestor walk")
	r.Decides("the ancestor walk succeeds only at the root, compares every ancestor against the same limit selector, and recurses only after the comparison passed")
	r.Decides("the limit selector returns the runtime quota exactly when runtime quota is enabled, else max; the admission snapshot takes its limit from that selector")
	r.Decides("Reserve/Unreserve always reach the accounting entry points (non-skip paths); those entry points check-and-update under the hierarchy write lock; a pod's used/non-preemptible-used delta is applied unless both are zero")
	r.Decides("the accounting steps of the pod-event entry points come in matching pairs (an assigned pod's used amount is always released before it leaves a quota; nothing is released twice), and a pod moved between quotas of one manager keeps its assigned state")
	r.Declines("the closed-loop invariant used <= max over histories (needs C01's arithmetic) and completeness of rejections")

	quotaPairing(c)
	quotaHandover(c)
	c03move(c)
	if fn := c.Fn(quotaPluginPkg, "Plugin", "PreFilter"); fn != nil {
		c03prefilter(c, fn)
	}
	if fn := c.Fn(quotaPluginPkg, "Plugin", "checkQuotaRecursive"); fn != nil {
		c03recursive(c, fn)
	}
	// limit selector
	r.Rule("SIBLING: getQuotaInfoUsedLimit returns GetRuntime() exactly under pluginArgs.EnableRuntimeQuota==true and GetMax() otherwise; snapshotPostFilterState fills usedLimit from getQuotaInfoUsedLimit, used from GetUsed, nonPreemptibleUsed from GetNonPreemptibleUsed")
	if fn := c.Fn(quotaPluginPkg, "Plugin", "getQuotaInfoUsedLimit"); fn != nil {
		okR, okM := false, false
		for _, alt := range an.ReturnAlts(fn) {
			ret := alt.Ret
			_ = ret
			call, _ := an.ResultOfCall(alt.Results[0])
			if call == nil {
				continue
			}
			flagTrue, flagFalse := false, false
			for _, g := range alt.Guards {
				if strings.HasSuffix(an.Path(g.Cond), ".EnableRuntimeQuota") {
					flagTrue, flagFalse = g.Truth, !g.Truth
				}
			}
			switch an.ShortCallee(&call.Call) {
			case "GetRuntime":
				okR = flagTrue
			case "GetMax":
				okM = flagFalse
			}
		}
		r.Check(okR && okM, "SIBLING", fkey(fn)+"/runtime-iff-enabled", c.Pos(fn.Pos()), "runtime under the switch, max otherwise",
			sprintf("limit selection is wrong: GetRuntime under EnableRuntimeQuota==true: %v, GetMax otherwise: %v", okR, okM))
	}
	if fn := c.Fn(quotaPluginPkg, "Plugin", "snapshotPostFilterState"); fn != nil {
		want := map[string]string{"usedLimit": "getQuotaInfoUsedLimit", "used": "GetUsed", "nonPreemptibleUsed": "GetNonPreemptibleUsed"}
		got := map[string]string{}
		for _, b := range fn.Blocks {
			for _, in := range b.Instrs {
				if st, ok := in.(*ssa.Store); ok {
					if owner, f, _, ok := an.FieldOf(st.Addr); ok && strings.HasSuffix(owner, ".PostFilterState") {
						if call, _ := an.ResultOfCall(st.Val); call != nil {
							got[f] = an.ShortCallee(&call.Call)
						}
					}
				}
			}
		}
		for f, w := range want {
			r.Check(got[f] == w, "FLOW", fkey(fn)+"/"+f, c.Pos(fn.Pos()), f+" <- "+w+"()", "snapshot field "+f+" is filled from '"+got[f]+"' instead of "+w+"()")
		}
	}

	// Reserve / Unreserve reach the accounting
	r.Rule("CALL/PATH: in Plugin.Reserve (Unreserve), with a non-empty quota name and a manager found, no return is reachable without calling ReservePod (UnreservePod)")
	for _, x := range [][2]string{{"Reserve", "ReservePod"}, {"Unreserve", "UnreservePod"}} {
		fn := c.Fn(quotaPluginPkg, "Plugin", x[0])
		if fn == nil {
			continue
		}
		calls := an.CallsTo(fn, false, "(*"+load.Module+"/"+quotaCorePkg+".GroupQuotaManager)."+x[1])
		if len(calls) != 1 {
			r.Fail("CALL", fkey(fn)+"/reaches-"+x[1], c.Pos(fn.Pos()), sprintf("expected one call of %s, found %d", x[1], len(calls)))
			continue
		}
		facts := an.Facts{}
		for _, b := range fn.Blocks {
			for _, in := range b.Instrs {
				if bo, ok := in.(*ssa.BinOp); ok {
					p := an.Path(bo)
					if strings.Contains(p, `== ""`) || strings.Contains(p, "== nil") {
						facts[bo] = an.False
					}
				}
			}
		}
		reach := an.Explore(fn, nil, facts, func(in ssa.Instruction) bool { return in == ssa.Instruction(calls[0]) })
		r.Check(len(reach.Returns()) == 0 && len(facts) == 2, "CALL", fkey(fn)+"/reaches-"+x[1], c.InstrPos(calls[0]), "every non-skip path reaches the accounting entry point",
			sprintf("a non-skip path returns without calling %s (skip conditions found: %d)", x[1], len(facts)))
	}

	// write lock in ReservePod / UnreservePod
	r.Rule("ATOMIC: in GroupQuotaManager.ReservePod/UnreservePod the assigned test (CheckPodIsAssigned) and the updates are executed with hierarchyUpdateLock held for writing (they race with informer handlers that only take the read lock)")
	locks := an.NewAnyLocks()
	for _, name := range []string{"ReservePod", "UnreservePod"} {
		fn := c.Fn(quotaCorePkg, "GroupQuotaManager", name)
		if fn == nil {
			continue
		}
		n := 0
		okAll := true
		for _, cl := range an.Calls(fn, false) {
			switch an.ShortCallee(cl.Common()) {
			case "CheckPodIsAssigned", "updatePodUsedNoLock", "updatePodIsAssignedNoLock", "IsPodExist":
				n++
				held := locks.HeldAt(cl)
				w := false
				for k, isW := range held {
					if strings.HasSuffix(k, ".hierarchyUpdateLock") && isW {
						w = true
					}
				}
				if !w {
					okAll = false
				}
			}
		}
		r.Check(okAll && n >= 3, "ATOMIC", fkey(fn)+"/write-lock", c.Pos(fn.Pos()), "check and update under the write lock",
			"the assigned test / the updates are not all under hierarchyUpdateLock held for writing: a concurrent pod delete can run between the test and the subtraction, and the usage is subtracted twice")
	}

	// both deltas
	r.Rule("PATH: in updatePodUsedNoLock/updatePodRequestNoLock a return that is taken because a delta is zero requires both deltas (total and non-preemptible) to be zero")
	for _, name := range []string{"updatePodUsedNoLock", "updatePodRequestNoLock"} {
		fn := c.Fn(quotaCorePkg, "GroupQuotaManager", name)
		if fn == nil {
			continue
		}
		var sink ssa.CallInstruction
		for _, cl := range an.Calls(fn, false) {
			if strings.HasPrefix(an.ShortCallee(cl.Common()), "updateGroupDelta") {
				sink = cl
			}
		}
		if sink == nil {
			r.Fail("PATH", fkey(fn)+"/both-deltas", c.Pos(fn.Pos()), "the delta is no longer propagated (updateGroupDelta* call not found)")
			continue
		}
		d1, d2 := sink.Common().Args[2], sink.Common().Args[3]
		bad := ""
		nz := 0
		for _, alt := range an.ReturnAlts(fn) {
			ret := alt.Ret
			_ = ret
			z1, z2 := false, false
			for _, g := range alt.Guards {
				call, _ := an.ResultOfCall(g.Cond)
				if call == nil || an.ShortCallee(&call.Call) != "IsZero" || !g.Truth {
					continue
				}
				if call.Call.Args[0] == d1 {
					z1 = true
				}
				if call.Call.Args[0] == d2 {
					z2 = true
				}
			}
			if z1 || z2 {
				nz++
				if !(z1 && z2) {
					bad = c.InstrPos(ret)
				}
			}
		}
		r.Check(bad == "" && nz >= 1, "PATH", fkey(fn)+"/both-deltas", c.InstrPos(sink), "the update is skipped only when both deltas are zero",
			"an early return at "+bad+" is taken when only one of the two deltas is zero: a change of the other one (e.g. the non-preemptible flag of an assigned pod) is never applied")
	}
}

func c03prefilter(c *Ctx, fn *ssa.Function) {
	r := c.R
	r.Rule("PATH/FLOW: in PreFilter, (a) before the comparison LessThanOrEqual(Add(Mask(PodRequests(pod), names(Max)), state.used), state.usedLimit) no success return is reachable; (b) after it returned false none is reachable; (c) for IsPodNonPreemptible(pod)==true the same holds for LessThanOrEqual(Add(request, state.nonPreemptibleUsed), Min); (d) with EnableCheckParentQuota the plain Success return is unreachable")
	key := fkey(fn)
	var le1, le2 ssa.CallInstruction
	for _, cl := range an.Calls(fn, false) {
		if !isLessEq(cl) {
			continue
		}
		b := an.Path(cl.Common().Args[1])
		switch {
		case strings.HasSuffix(b, ".usedLimit"):
			le1 = cl
		case strings.HasSuffix(b, ".Min"):
			le2 = cl
		}
	}
	if le1 == nil || le2 == nil {
		r.Fail("PATH", key+"/comparisons", c.Pos(fn.Pos()), sprintf("admission comparisons not found (against usedLimit: %v, against Min: %v): the limit operand changed", le1 != nil, le2 != nil))
		return
	}
	success := func(reach *an.Reach) []string {
		var out []string
		for _, ret := range reach.Returns() {
			for _, v := range reach.Values(ret.Results[1]) {
				if k := statusKind(v); k != "other" {
					out = append(out, k+"@"+c.InstrPos(ret))
				}
			}
		}
		return out
	}
	// operands
	a1 := an.Path(le1.Common().Args[0])
	okA := strings.Contains(a1, "Add(") && strings.Contains(a1, "Mask(") && strings.Contains(a1, "PodRequests(pod)") && strings.Contains(a1, ".Max") && strings.Contains(a1, ".used")
	r.Check(okA, "FLOW", key+"/main-comparison/operands", c.InstrPos(le1), "compares Add(Mask(PodRequests(pod), names(Max)), state.used) with state.usedLimit",
		"the admission comparison no longer adds the pod's masked request to the snapshot's used: left operand is "+a1)
	a2 := an.Path(le2.Common().Args[0])
	okB := strings.Contains(a2, "Add(") && strings.Contains(a2, "PodRequests(pod)") && strings.Contains(a2, ".nonPreemptibleUsed")
	r.Check(okB, "FLOW", key+"/min-comparison/operands", c.InstrPos(le2), "compares Add(request, state.nonPreemptibleUsed) with Min",
		"the non-preemptible comparison does not add the pod's request to nonPreemptibleUsed: left operand is "+a2)

	// (a)
	reach := an.Explore(fn, nil, nil, func(in ssa.Instruction) bool { return in == ssa.Instruction(le1) })
	bad := success(reach)
	r.Check(len(bad) == 0, "PATH", key+"/main-comparison/always-evaluated", c.InstrPos(le1), "only Skip/Error exits before the comparison", "a success exit is reachable without evaluating the comparison: "+strings.Join(bad, ","))
	// (b)
	reach = an.Explore(fn, an.After(le1), an.Facts{extract(le1.Value(), 0): an.False}, nil)
	bad = success(reach)
	r.Check(len(bad) == 0, "PATH", key+"/main-comparison/false=>reject", c.InstrPos(le1), "exceeding the limit always rejects", "although used+request exceeds the limit a success exit is reachable: "+strings.Join(bad, ","))
	// (c)
	var np ssa.CallInstruction
	for _, cl := range an.Calls(fn, false) {
		if an.ShortCallee(cl.Common()) == "IsPodNonPreemptible" {
			np = cl
		}
	}
	if np == nil {
		r.Fail("PATH", key+"/min-comparison/gate", c.Pos(fn.Pos()), "IsPodNonPreemptible(pod) is no longer consulted")
	} else {
		// from behind the main comparison (passed): whatever comes first, a non-preemptible pod cannot leave with a
		// success or with the ancestor walk's verdict before the min comparison
		reach = an.Explore(fn, an.After(le1), an.Facts{np.Value(): an.True, extract(le1.Value(), 0): an.True}, func(in ssa.Instruction) bool { return in == ssa.Instruction(le2) })
		bad = success(reach)
		r.Check(len(bad) == 0, "PATH", key+"/min-comparison/always-evaluated", c.InstrPos(np), "a non-preemptible pod is always compared against min", "for a non-preemptible pod a success exit is reachable without the min comparison: "+strings.Join(bad, ","))
		reach = an.Explore(fn, an.After(le2), an.Facts{extract(le2.Value(), 0): an.False}, nil)
		bad = success(reach)
		r.Check(len(bad) == 0, "PATH", key+"/min-comparison/false=>reject", c.InstrPos(le2), "exceeding min always rejects", "although nonPreemptibleUsed+request exceeds min a success exit is reachable: "+strings.Join(bad, ","))
	}
	// (d)
	facts := an.Facts{}
	for _, b := range fn.Blocks {
		for _, in := range b.Instrs {
			if u, ok := in.(*ssa.UnOp); ok && strings.HasSuffix(an.Path(u), ".EnableCheckParentQuota") {
				facts[u] = an.True
			}
		}
	}
	reach = an.Explore(fn, an.After(le1), facts, nil)
	plain := false
	rec := false
	for _, ret := range reach.Returns() {
		for _, v := range reach.Values(ret.Results[1]) {
			switch statusKind(v) {
			case "success":
				plain = true
			case "recursive":
				rec = true
			}
		}
	}
	r.Check(len(facts) > 0 && !plain && rec, "PATH", key+"/parent-check", c.Pos(fn.Pos()), "with parent checking on the result is that of the ancestor walk",
		sprintf("with EnableCheckParentQuota (reads found: %d): plain Success reachable=%v, ancestor walk reachable=%v", len(facts), plain, rec))
	// the walk starts at the parent with the masked request
	for _, cl := range an.Calls(fn, false) {
		if an.ShortCallee(cl.Common()) == "checkQuotaRecursive" {
			a := cl.Common().Args
			ok := strings.HasSuffix(an.Path(a[2]), ".ParentName") && a[4] == le1.Common().Args[0].(*ssa.Call).Call.Args[0]
			r.Check(ok, "FLOW", key+"/parent-check/arguments", c.InstrPos(cl), "walk starts at the parent with the masked request", "the ancestor walk does not start at quotaInfo.ParentName with the masked pod request")
		}
	}
}

func c03recursive(c *Ctx, fn *ssa.Function) {
	r := c.R
	r.Rule("PATH: in checkQuotaRecursive a Success status is returned only under curQuotaName == root; after LessThanOrEqual(Mask(Add(request, GetUsed())), getQuotaInfoUsedLimit(quotaInfo)) returned false neither Success nor the recursion is reachable; the recursion continues with quotaInfo.ParentName")
	key := fkey(fn)
	var le ssa.CallInstruction
	for _, cl := range an.Calls(fn, false) {
		if isLessEq(cl) {
			le = cl
		}
	}
	if le == nil {
		r.Fail("PATH", key+"/comparison", c.Pos(fn.Pos()), "ancestor comparison not found")
		return
	}
	a0, a1 := an.Path(le.Common().Args[0]), an.Path(le.Common().Args[1])
	r.Check(strings.Contains(a0, "Add(podRequest") && strings.Contains(a0, "GetUsed") && strings.Contains(a1, "getQuotaInfoUsedLimit"), "FLOW", key+"/comparison/operands", c.InstrPos(le),
		"compares request+used with the selected limit", "ancestor comparison operands changed: "+a0+" <= "+a1)
	for _, alt := range an.ReturnAlts(fn) {
		ret := alt.Ret
		_ = ret
		if statusKind(alt.Results[0]) == "success" {
			okRoot := false
			for _, g := range alt.Guards {
				// "<the current quota name> == root" holds (written as == taken, != not taken; the name being the
				// parameter or, in the loop form of the walk, the loop variable that starts as the parameter)
				rel, isRel := an.RelOf(g)
				if !isRel || rel.Op != token.EQL {
					continue
				}
				name, cst := rel.X, rel.Y
				if _, isK := constString(name); isK {
					name, cst = cst, name
				}
				k, isK := constString(cst)
				if !isK || !strings.Contains(k, "root") {
					continue
				}
				for _, src := range cellSources(name) {
					if p, isP := src.(*ssa.Parameter); isP && len(fn.Params) > 2 && p == fn.Params[2] {
						okRoot = true
					}
				}
			}
			r.Check(okRoot, "PATH", key+"/success-only-at-root", c.InstrPos(ret), "Success only when the walk reached the root", "a Success status is returned before the walk reached the root")
		}
	}
	reach := an.Explore(fn, an.After(le), an.Facts{extract(le.Value(), 0): an.False}, nil)
	var bad []string
	for _, ret := range reach.Returns() {
		for _, v := range reach.Values(ret.Results[0]) {
			if k := statusKind(v); k != "other" {
				bad = append(bad, k+"@"+c.InstrPos(ret))
			}
		}
	}
	r.Check(len(bad) == 0, "PATH", key+"/false=>reject", c.InstrPos(le), "an exceeded ancestor always rejects", "although an ancestor's limit is exceeded the walk continues or succeeds: "+strings.Join(bad, ","))
	nRec := 0
	for _, cl := range an.Calls(fn, false) {
		if an.ShortCallee(cl.Common()) == "checkQuotaRecursive" {
			nRec++
			r.Check(strings.HasSuffix(an.Path(cl.Common().Args[2]), ".ParentName"), "FLOW", key+"/recursion-to-parent", c.InstrPos(cl), "recursion continues with the parent", "the recursion does not continue with quotaInfo.ParentName")
		}
	}
	if nRec == 0 && len(fn.Params) > 2 {
		// the loop form of the walk: the current name is the parameter first and a ParentName afterwards
		ok := false
		for _, b := range fn.Blocks {
			for _, in := range b.Instrs {
				phi, isPhi := in.(*ssa.Phi)
				if !isPhi {
					continue
				}
				fromParam, fromParent, other := false, false, false
				for _, e := range phi.Edges {
					switch {
					case e == ssa.Value(fn.Params[2]):
						fromParam = true
					case strings.HasSuffix(an.Path(e), ".ParentName"):
						fromParent = true
					default:
						other = true
					}
				}
				if fromParam && fromParent && !other {
					ok = true
				}
			}
		}
		r.Check(ok, "FLOW", key+"/recursion-to-parent", c.Pos(fn.Pos()), "the walk continues with the parent", "the ancestor walk neither calls itself nor steps from the current quota to quotaInfo.ParentName")
	}
}

// c03move: a pod that moves between quotas of ONE manager must go through MigratePod/OnPodUpdate (which carry the
// assigned state over); the delete+add pair is only for managers that are known to differ.
func c03move(c *Ctx) {
	r := c.R
	r.Rule("PATH(move): in package elasticquota, wherever GroupQuotaManager.OnPodDelete(q, p) can be followed by GroupQuotaManager.OnPodAdd(q', p') in one function, the pair is dominated by a test that tells the two managers apart (a comparison of tree ids / GetTreeID()); otherwise a reserved-but-unbound pod would lose its used amount in the move (OnPodAdd re-derives it from spec.nodeName only)")
	n := 0
	for _, fn := range c.PkgFuncs(quotaPluginPkg) {
		var dels, adds []ssa.CallInstruction
		for _, cl := range an.Calls(fn, false) {
			f := cl.Common().StaticCallee()
			if f == nil || f.Signature.Recv() == nil || !isNamedType(f.Signature.Recv().Type(), "GroupQuotaManager") {
				continue
			}
			switch f.Name() {
			case "OnPodDelete":
				dels = append(dels, cl)
			case "OnPodAdd":
				adds = append(adds, cl)
			}
		}
		for i, d := range dels {
			reach := an.Explore(fn, an.After(d), nil, nil)
			for j, a := range adds {
				if !reach.Reached(a) {
					continue
				}
				n++
				treeTest := false
				gs := append(an.Guards(d), an.Guards(a)...)
				isTreeID := func(v ssa.Value) bool {
					if call, ok := v.(*ssa.Call); ok && an.ShortCallee(&call.Call) == "GetTreeID" {
						return true
					}
					if e, ok := v.(*ssa.Extract); ok && e.Index == 1 {
						if call, ok := e.Tuple.(*ssa.Call); ok && an.ShortCallee(&call.Call) == "getPodAssociateQuotaNameAndTreeID" {
							return true
						}
					}
					return false
				}
				for _, g := range gs {
					if bo, ok := g.Cond.(*ssa.BinOp); ok && (bo.Op == token.EQL || bo.Op == token.NEQ) && (isTreeID(bo.X) || isTreeID(bo.Y)) {
						// the pair must sit on the "differ" side of the comparison
						if (bo.Op == token.NEQ) == g.Truth {
							treeTest = true
						}
					}
				}
				sameMgr := d.Common().Args[0] == a.Common().Args[0]
				r.Check(treeTest && !sameMgr, "PATH", sprintf("%s/delete#%d-add#%d/distinct-managers", fkey(fn), i+1, j+1), c.InstrPos(a), "the delete+add pair is used only across different trees",
					sprintf("OnPodDelete followed by OnPodAdd for a moved pod without a dominating tree-id test (same manager value: %v): within one manager this drops the assigned state of a reserved, not yet bound pod - its used amount vanishes and the quota over-admits; MigratePod/OnPodUpdate must be used there", sameMgr))
			}
		}
	}
	r.Floor("PATH", "delete+add move sites", n, 2)
}
