package rules

import (
	"go/constant"
	"go/types"
	"reflect"
	"sort"
	"strings"

	"golang.org/x/tools/go/ssa"

	"kverif/internal/an"
)

// CodecUse is one json.Marshal / json.Unmarshal of an annotation value.
type CodecUse struct {
	Fn    *ssa.Function
	Call  ssa.CallInstruction
	Key   string // annotation key constant ("" when unresolved)
	Type  types.Type
	Write bool
}

func derefNamed(t types.Type) types.Type {
	for {
		p, ok := t.Underlying().(*types.Pointer)
		if !ok || t != types.Type(p) && false {
			break
		}
		if pp, ok := t.(*types.Pointer); ok {
			t = pp.Elem()
			continue
		}
		break
	}
	return t
}

func constString(v ssa.Value) (string, bool) {
	if cv, ok := v.(*ssa.Convert); ok {
		v = cv.X
	}
	cst, ok := v.(*ssa.Const)
	if !ok || cst.Value == nil || cst.Value.Kind() != constant.String {
		return "", false
	}
	return constant.StringVal(cst.Value), true
}

// CodecUses finds, in the functions of a package, the annotation keys written from json.Marshal results and
// read into json.Unmarshal targets.
func (c *Ctx) CodecUses(rel string) []CodecUse {
	var out []CodecUse
	for _, fn := range c.PkgFuncs(rel) {
		for _, cl := range an.Calls(fn, false) {
			switch an.CalleeName(cl.Common()) {
			case "encoding/json.Marshal":
				arg := cl.Common().Args[0]
				if mi, ok := arg.(*ssa.MakeInterface); ok {
					arg = mi.X
				}
				u := CodecUse{Fn: fn, Call: cl, Type: derefNamed(arg.Type()), Write: true}
				data := extract(cl.Value(), 0)
				if data != nil {
					reach := an.ForwardReach(data, nil)
					for _, b := range fn.Blocks {
						for _, in := range b.Instrs {
							if mu, ok := in.(*ssa.MapUpdate); ok && reach[mu.Value] {
								if k, ok := constString(mu.Key); ok {
									u.Key = k
								}
							}
						}
					}
				}
				out = append(out, u)
			case "encoding/json.Unmarshal":
				a := cl.Common().Args
				tgt := a[1]
				if mi, ok := tgt.(*ssa.MakeInterface); ok {
					tgt = mi.X
				}
				u := CodecUse{Fn: fn, Call: cl, Type: derefNamed(tgt.Type())}
				for x := range backwardAll(a[0]) {
					if lk, ok := x.(*ssa.Lookup); ok {
						if k, ok := constString(lk.Index); ok {
							u.Key = k
						}
					}
				}
				out = append(out, u)
			}
		}
	}
	return out
}

var codecAllow = map[string]string{
	"k8s.io/apimachinery/pkg/api/resource.Quantity":      "canonical string form, round-trips by design",
	"k8s.io/apimachinery/pkg/apis/meta/v1.Time":          "RFC3339, second precision (values written by the scheduler are second-granular)",
	"k8s.io/apimachinery/pkg/apis/meta/v1.Duration":      "duration string",
	"k8s.io/apimachinery/pkg/apis/meta/v1.MicroTime":     "RFC3339Micro",
	"k8s.io/apimachinery/pkg/util/intstr.IntOrString":    "int or string",
	"k8s.io/apimachinery/pkg/apis/meta/v1.LabelSelector": "plain struct",
	"k8s.io/apimachinery/pkg/apis/meta/v1.FieldsV1":      "raw json",
	"k8s.io/apimachinery/pkg/runtime.RawExtension":       "raw json",
	"k8s.io/apimachinery/pkg/util/sets.String":           "map[string]struct{}",
}

// RoundTripProblems lists why values of t may not survive Marshal+Unmarshal unchanged (empty = safe).
func RoundTripProblems(t types.Type) []string {
	var out []string
	seen := map[types.Type]bool{}
	var walk func(t types.Type, path string)
	walk = func(t types.Type, path string) {
		if seen[t] {
			return
		}
		seen[t] = true
		if n, ok := t.(*types.Named); ok {
			q := ""
			if n.Obj().Pkg() != nil {
				q = n.Obj().Pkg().Path() + "." + n.Obj().Name()
			}
			if _, ok := codecAllow[q]; ok {
				return
			}
			// custom marshalers must come in pairs
			hasM, hasU := hasMethod(n, "MarshalJSON"), hasMethod(n, "UnmarshalJSON")
			hasTM, hasTU := hasMethod(n, "MarshalText"), hasMethod(n, "UnmarshalText")
			if hasM != hasU || hasTM != hasTU {
				out = append(out, path+": "+q+" has a custom marshaler without the matching unmarshaler (or vice versa)")
				return
			}
			if hasM || hasTM {
				return // a matched custom pair is trusted
			}
		}
		switch u := t.Underlying().(type) {
		case *types.Basic:
			switch u.Kind() {
			case types.Complex64, types.Complex128, types.UnsafePointer, types.Uintptr:
				out = append(out, path+": "+u.String()+" is not JSON-serialisable")
			}
		case *types.Pointer:
			walk(u.Elem(), path)
		case *types.Slice:
			walk(u.Elem(), path+"[]")
		case *types.Array:
			walk(u.Elem(), path+"[]")
		case *types.Map:
			kb, ok := u.Key().Underlying().(*types.Basic)
			if !ok || kb.Info()&(types.IsString|types.IsInteger) == 0 {
				if n, isN := u.Key().(*types.Named); !isN || !hasMethod(n, "MarshalText") {
					out = append(out, path+": map key type "+u.Key().String()+" is not a string/integer/TextMarshaler")
				}
			}
			walk(u.Elem(), path+"[k]")
		case *types.Struct:
			names := map[string]string{}
			for i := 0; i < u.NumFields(); i++ {
				f := u.Field(i)
				tag := reflect.StructTag(u.Tag(i)).Get("json")
				name, _, _ := strings.Cut(tag, ",")
				fp := path + "." + f.Name()
				if tag == "-" {
					out = append(out, fp+": excluded from JSON (json:\"-\"): the value is lost on a restart")
					continue
				}
				if !f.Exported() {
					out = append(out, fp+": unexported field is not serialised: the value is lost on a restart")
					continue
				}
				if f.Embedded() && name == "" {
					walk(f.Type(), fp)
					continue
				}
				if name == "" {
					name = f.Name()
				}
				low := strings.ToLower(name)
				if prev, dup := names[low]; dup {
					out = append(out, fp+": JSON name "+name+" collides with field "+prev)
				}
				names[low] = f.Name()
				walk(f.Type(), fp)
			}
		case *types.Interface:
			out = append(out, path+": interface-typed value cannot be decoded back to its concrete type")
		case *types.Signature, *types.Chan:
			out = append(out, path+": "+t.String()+" is not JSON-serialisable")
		}
	}
	walk(t, typeShort(t))
	sort.Strings(out)
	return out
}

func hasMethod(n *types.Named, name string) bool {
	for _, t := range []types.Type{n, types.NewPointer(n)} {
		ms := types.NewMethodSet(t)
		for i := 0; i < ms.Len(); i++ {
			if ms.At(i).Obj().Name() == name {
				return true
			}
		}
	}
	return false
}

func typeShort(t types.Type) string {
	return types.TypeString(t, func(p *types.Package) string { return p.Name() })
}

// RunCodec checks the pairs for the given keys (all keys when nil).
func (c *Ctx) RunCodec(rule, rel string, keys map[string]bool) int {
	uses := c.CodecUses(rel)
	byKey := map[string][]CodecUse{}
	for _, u := range uses {
		if u.Key == "" {
			continue
		}
		byKey[u.Key] = append(byKey[u.Key], u)
	}
	var ks []string
	for k := range byKey {
		if keys == nil || keys[k] {
			ks = append(ks, k)
		}
	}
	sort.Strings(ks)
	n := 0
	for _, k := range ks {
		var w, rd []string
		var wt, rt types.Type
		for _, u := range byKey[k] {
			if u.Write {
				w = append(w, typeShort(u.Type))
				wt = u.Type
			} else {
				rd = append(rd, typeShort(u.Type))
				rt = u.Type
			}
		}
		if len(w) == 0 || len(rd) == 0 {
			if keys != nil {
				c.R.Fail(rule, "key:"+k+"/pair", "", sprintf("annotation %s has writers %v and readers %v in %s: one side of the codec is missing", k, w, rd, rel))
			}
			continue
		}
		n++
		same := true
		for _, x := range append(append([]string{}, w...), rd...) {
			if x != w[0] {
				same = false
			}
		}
		c.R.Check(same && types.Identical(wt, rt), rule, "key:"+k+"/same-type", c.InstrPos(byKey[k][0].Call), "written and read as "+w[0],
			sprintf("annotation %s is written as %v but read as %v: the value read back is not the value written", k, w, rd))
		probs := RoundTripProblems(wt)
		c.R.Check(len(probs) == 0, rule, "key:"+k+"/round-trip-safe", c.InstrPos(byKey[k][0].Call), typeShort(wt)+" survives Marshal+Unmarshal by structural induction",
			"type "+typeShort(wt)+" does not round-trip: "+strings.Join(probs, "; "))
	}
	if keys != nil {
		for k := range keys {
			if len(byKey[k]) == 0 {
				c.R.Unknown(rule, "key:"+k+"/pair", "", "no Marshal/Unmarshal site found for annotation "+k+" in "+rel)
			}
		}
	}
	return n
}

// Reaches reports whether target (short name) is called, transitively through static calls and closures, from fn.
func Reaches(fn *ssa.Function, target string, depth int) bool {
	seen := map[*ssa.Function]bool{}
	var walk func(f *ssa.Function, d int) bool
	walk = func(f *ssa.Function, d int) bool {
		if f == nil || seen[f] || d > depth {
			return false
		}
		seen[f] = true
		for _, cl := range an.Calls(f, true) {
			if an.ShortCallee(cl.Common()) == target {
				return true
			}
			if callee := cl.Common().StaticCallee(); callee != nil && len(callee.Blocks) > 0 {
				if walk(callee, d+1) {
					return true
				}
			}
		}
		return false
	}
	return walk(fn, 0)
}
