package rules

import (
	"go/ast"
	"go/constant"
	"go/token"
	"go/types"
	"sort"
	"strings"

	"golang.org/x/tools/go/packages"
	"golang.org/x/tools/go/ssa"

	"kverif/internal/an"
)

func init() { Registry["C11"] = c11 }

const (
	evictUtilPkg = "pkg/koordlet/qosmanager/plugins/util"
	memEvictPkg  = "pkg/koordlet/qosmanager/plugins/memoryevict"
	cpuEvictPkg  = "pkg/koordlet/qosmanager/plugins/cpuevict"
)

func c11(c *Ctx) {
	c11everyTaskRegisters(c)
	r := c.R
	c11recorded(c)
	r.Decides("an eviction call is dominated by: pod not yet handled in this round, pod not already evicted, task target not yet met")
	r.Decides("after a successful eviction and after counting an already-evicted pod, the pod is marked handled, its release is credited to every target, and the target-met test is evaluated before any further eviction; a met target leaves the victim loop")
	r.Decides("the eviction call is control-dependent on a test that involves the victim's own release for this task and the task's remaining shortage (no victim that frees nothing of what is short)")
	r.Decides("every candidate appended by the memory and CPU victim builders passed the eligibility filters (active, eviction policy allowed, priority <= threshold, eviction enabled; BE builders: QoS BE, policy allowed); memory and CPU builders apply the same filters")
	r.Decides("the victim order compares eviction priority, then priority, then label priority (ascending), then the usage/request sub-order, identically in both evictors; the eviction-priority annotation is parsed with the bit size it is narrowed to")
	r.Decides("the policy name tested against a pod's opt-out annotation is, through every builder, the name of the feature the task is built for (string(feature)), never a fixed name")
	r.Declines("minimality in amounts: how much each victim frees versus how much is short; the target computation itself")

	if fn := c.Fn(evictUtilPkg, "", "KillAndEvictPods"); fn != nil {
		c11loop(c, fn)
	}
	c11builders(c)
	c11order(c)
	c11parse(c)
	c11policyName(c)
	c11priority(c)
}

func c11loop(c *Ctx, fn *ssa.Function) {
	r := c.R
	r.Rule("PATH: in KillAndEvictPods the call evictionExecutor.Evict is dominated by evictedPodsMp[key]==false, IsPodEvicted(pod)==false and len(subReleaseListNoNegative(task.ToReleaseResource, released))==0 being false")
	var evicts, isEvicted []ssa.CallInstruction
	var subRel []ssa.CallInstruction
	for _, cl := range an.Calls(fn, false) {
		cc := cl.Common()
		switch {
		case cc.IsInvoke() && cc.Method.Name() == "Evict":
			evicts = append(evicts, cl)
		case cc.IsInvoke() && cc.Method.Name() == "IsPodEvicted":
			isEvicted = append(isEvicted, cl)
		case an.ShortCallee(cc) == "subReleaseListNoNegative":
			subRel = append(subRel, cl)
		}
	}
	key := fkey(fn)
	if len(evicts) != 1 || len(isEvicted) != 1 || len(subRel) < 3 {
		r.Fail("PATH", key+"/shape", c.Pos(fn.Pos()), sprintf("expected one Evict call, one IsPodEvicted call and >=3 target-met tests, found %d, %d, %d", len(evicts), len(isEvicted), len(subRel)))
		return
	}
	ev := evicts[0]
	gs := an.Guards(ev)
	var notHandled, notEvicted, notMet bool
	for _, g := range gs {
		if lk, ok := g.Cond.(*ssa.Lookup); ok && !g.Truth && strings.Contains(an.Path(lk.X), "make(map)") {
			notHandled = true
		}
		if call, _ := an.ResultOfCall(g.Cond); call != nil && call == isEvicted[0].Value() && !g.Truth {
			notEvicted = true
		}
		if b, ok := g.Cond.(*ssa.BinOp); ok && b.Op == token.EQL && !g.Truth {
			if lc, ok := b.X.(*ssa.Call); ok && an.IsBuiltinCall(lc, "len") {
				if sc, _ := an.ResultOfCall(lc.Call.Args[0]); sc != nil && an.ShortCallee(&sc.Call) == "subReleaseListNoNegative" {
					notMet = true
				}
			}
		}
	}
	r.Check(notHandled, "PATH", key+"/evict<=not-handled", c.InstrPos(ev), "no pod is evicted twice in a round", "Evict is not dominated by evictedPodsMp[key]==false; guards: "+an.DescribeGuards(gs))
	r.Check(notEvicted, "PATH", key+"/evict<=not-already-evicted", c.InstrPos(ev), "already evicted pods are not evicted again", "Evict is not dominated by IsPodEvicted()==false; guards: "+an.DescribeGuards(gs))
	r.Check(notMet, "PATH", key+"/evict<=target-not-met", c.InstrPos(ev), "a task whose target is met evicts nothing", "Evict is not dominated by the task's not-met test; guards: "+an.DescribeGuards(gs))

	// after success / already evicted: mark, credit, test
	r.Rule("PATH: from behind a successful Evict (and from behind IsPodEvicted()==true) the next Evict is unreachable without passing evictedPodsMp[key]=true, addResource(releasedAll, aggregateReleaseFunc(info)) and a target-met test; when that test says met, no Evict is reachable before the next task's own test")
	isSub := map[ssa.Instruction]bool{}
	for _, s := range subRel {
		isSub[s] = true
	}
	type ev2 struct {
		name  string
		start ssa.CallInstruction
		facts an.Facts
	}
	for _, e := range []ev2{
		{"after-evict-success", ev, an.Facts{ev.Value(): an.True}},
		{"after-already-evicted", isEvicted[0], an.Facts{isEvicted[0].Value(): an.True}},
	} {
		for _, what := range []string{"mark-handled", "credit-release", "target-met-test"} {
			barrier := func(in ssa.Instruction) bool {
				switch what {
				case "mark-handled":
					mu, ok := in.(*ssa.MapUpdate)
					return ok && strings.Contains(an.Path(mu.Map), "make(map)") && isTrueConst(mu.Value)
				case "credit-release":
					cl, ok := in.(ssa.CallInstruction)
					if !ok || an.ShortCallee(cl.Common()) != "addResource" {
						return false
					}
					// all targets: the credited list must come from the aggregate function of the pod
					return isAggregateRelease(cl.Common().Args[1], 0)
				default:
					return isSub[in]
				}
			}
			// within the same iteration: the end of the iteration (loop header), a further eviction or a return
			// must not be reachable without the event
			reach := an.Explore(fn, an.After(e.start), e.facts, barrier)
			hdr := an.InnermostLoopHeader(e.start.Block())
			bad := reach.Reached(ev) || (hdr != nil && reach.BlockReached(hdr)) || len(reach.Returns()) > 0
			r.Check(!bad, "PATH", key+"/"+e.name+"/"+what, c.InstrPos(e.start), "done before the iteration ends",
				"the iteration can end (or a further Evict is reachable) without "+what+" for the pod just handled")
		}
	}
	// met => leave the loop
	for i, s := range subRel {
		// find the len(...)==0 comparison fed by this call
		var cmp *ssa.BinOp
		for v := range an.ForwardReach(s.Value(), nil) {
			if b, ok := v.(*ssa.BinOp); ok && b.Op == token.EQL {
				cmp = b
			}
		}
		if cmp == nil {
			r.Unknown("PATH", sprintf("%s/met=>stop#%d", key, i+1), c.InstrPos(s), "cannot find the len(...)==0 comparison of this target-met test")
			continue
		}
		others := func(in ssa.Instruction) bool { return isSub[in] && in != ssa.Instruction(s) }
		reach := an.Explore(fn, an.After(s), an.Facts{cmp: an.True}, others)
		r.Check(!reach.Reached(ev), "PATH", sprintf("%s/met=>stop#%d", key, i+1), c.InstrPos(s), "once the target is met no eviction happens before the next task's own test",
			"although the target-met test succeeded, Evict is reachable without a new test")
	}

	// contribution gate
	r.Rule("FLOW(contribution gate): some branch outcome dominating the Evict call depends on (a) the release list of the same victim for this task (a call of task.GetPodResourceFunc / the aggregate function applied to the loop element whose Pod is evicted) and (b) the remaining shortage (subReleaseListNoNegative over the task's target)")
	podArg := ev.Common().Args[0] // info.Pod
	var victim ssa.Value
	for x := range backwardAll(podArg) {
		if fa, ok := x.(*ssa.FieldAddr); ok {
			if _, f, base, ok := an.FieldOf(fa); ok && f == "Pod" {
				victim = base
			}
		}
	}
	gate := false
	for _, g := range gs {
		back := backwardAll(g.Cond)
		var hasOwn, hasShort bool
		for x := range back {
			call, ok := x.(*ssa.Call)
			if !ok {
				continue
			}
			if an.ShortCallee(&call.Call) == "subReleaseListNoNegative" {
				hasShort = true
			}
			// dynamic call of a func value (GetPodResourceFunc) or of the aggregate closure with the victim
			isDyn := call.Call.StaticCallee() == nil && !call.Call.IsInvoke()
			isAgg := call.Call.StaticCallee() != nil && strings.Contains(call.Call.StaticCallee().Name(), "KillAndEvictPods$")
			if (isDyn || isAgg) && victim != nil {
				for _, a := range call.Call.Args {
					if a == victim {
						hasOwn = true
					}
				}
			}
		}
		if hasOwn && hasShort {
			gate = true
		}
	}
	r.Check(gate, "FLOW", key+"/contribution-gate", c.InstrPos(ev), "the eviction depends on the victim's own contribution to the remaining shortage",
		"no condition in front of Evict looks at what this victim would release for the task: a pod whose release list for the short resource is empty (e.g. a batch pod while only mid-memory is over its threshold) is evicted although it frees nothing of what is short")
}

func isTrueConst(v ssa.Value) bool {
	cst, ok := v.(*ssa.Const)
	return ok && cst.Value != nil && cst.Value.String() == "true"
}

// guardAtoms for the victim builders.
func builderAtoms(gs []an.Guard) []string {
	var atoms []string
	for _, g := range gs {
		t := "F"
		if g.Truth {
			t = "T"
		}
		if call, _ := an.ResultOfCall(g.Cond); call != nil {
			switch n := an.ShortCallee(&call.Call); n {
			case "IsPodInactive", "IsEvictionPolicyAllowed", "PodEvictEnabled":
				atoms = append(atoms, n+"="+t)
				continue
			}
		}
		p := an.Path(g.Cond)
		switch {
		case strings.Contains(p, "GetPodPriorityValueWithDefault") && strings.Contains(p, "== nil"):
			atoms = append(atoms, "priority==nil="+t)
		case strings.Contains(p, "GetPodPriorityValueWithDefault") && strings.Contains(p, " > "):
			atoms = append(atoms, "priority>threshold="+t)
		case strings.Contains(p, "GetPodQoSClassRaw") && strings.Contains(p, `"BE"`):
			atoms = append(atoms, "qos"+binop(g.Cond)+"BE="+t)
		case strings.Contains(p, " != nil") && (strings.Contains(p, "BuildQueryMeta") || strings.Contains(p, "CollectPodMetricLast")):
			atoms = append(atoms, "metric-error="+t)
		case isRangeOk(g.Cond), strings.Contains(p, "builtin.len("):
		case isFlagMerge(g.Cond):
			// the 'go on' flag of an extracted iteration body: a merge of boolean constants, decided by the
			// conditions in front of it (which are atoms of their own)
		default:
			atoms = append(atoms, "other["+p+"]="+t)
		}
	}
	sort.Strings(atoms)
	return atoms
}

func c11builders(c *Ctx) {
	r := c.R
	r.Rule("PATH+SIBLING: the append of a candidate in getPodEvictInfoAndSortByPriority (memory, CPU) is dominated by IsPodInactive=F, IsEvictionPolicyAllowed=T, priority==nil=F, priority>threshold=F, PodEvictEnabled=T; in the BE builders by qos==BE and IsEvictionPolicyAllowed=T; the memory and CPU builders have the same guard vector")
	type b struct{ pkg, recv, name, kind string }
	vec := map[string]string{}
	for _, x := range []b{
		{memEvictPkg, "memoryEvictor", "getPodEvictInfoAndSortByPriority", "prio"},
		{cpuEvictPkg, "cpuEvictor", "getPodEvictInfoAndSortByPriority", "prio"},
		{memEvictPkg, "memoryEvictor", "getSortedBEPodInfos", "be"},
		{cpuEvictPkg, "cpuEvictor", "getBEPodEvictInfoAndSort", "be"},
	} {
		fn := c.Fn(x.pkg, x.recv, x.name)
		if fn == nil {
			continue
		}
		// the append whose result is the returned / sorted list
		var appends []*ssa.Call
		for _, cl := range an.Calls(fn, false) {
			if call, ok := cl.(*ssa.Call); ok && an.IsBuiltinCall(call, "append") {
				appends = append(appends, call)
			}
		}
		if len(appends) != 1 {
			r.Fail("PATH", fkey(fn)+"/candidate-append", c.Pos(fn.Pos()), sprintf("expected exactly one candidate append, found %d", len(appends)))
			continue
		}
		atoms := builderAtoms(an.Guards(appends[0]))
		have := map[string]bool{}
		for _, a := range atoms {
			have[a] = true
		}
		var want []string
		if x.kind == "prio" {
			want = []string{"IsPodInactive=F", "IsEvictionPolicyAllowed=T", "priority==nil=F", "priority>threshold=F", "PodEvictEnabled=T"}
		} else {
			want = []string{"IsEvictionPolicyAllowed=T"}
			if !have["qos!=BE=F"] && !have["qos==BE=T"] {
				want = append(want, "qos==BE=T")
			}
		}
		var missing []string
		for _, w := range want {
			if !have[w] {
				missing = append(missing, w)
			}
		}
		r.Check(len(missing) == 0, "PATH", fkey(fn)+"/candidate-append", c.InstrPos(appends[0]), "candidate passed: "+strings.Join(atoms, ","),
			"a pod becomes an eviction candidate without the filter(s) "+strings.Join(missing, ", ")+"; dominating guards: "+strings.Join(atoms, ","))
		vec[x.kind+":"+x.pkg] = strings.Join(atoms, ",")
	}
	a, b2 := vec["prio:"+memEvictPkg], vec["prio:"+cpuEvictPkg]
	r.Check(a == b2 && a != "", "SIBLING", "memoryevict~cpuevict/getPodEvictInfoAndSortByPriority/guards", "", "same eligibility filters in both evictors",
		"memory evictor filters {"+a+"} but CPU evictor filters {"+b2+"}")
}

// comparatorKeys extracts the lexicographic key chain of a comparator literal:
// if s[i].K != s[j].K { return s[i].K < s[j].K } ... ; tail = final return expression.
func comparatorKeys(info *types.Info, lit *ast.FuncLit) (keys []string, tail string) {
	for _, st := range lit.Body.List {
		switch s := st.(type) {
		case *ast.IfStmt:
			be, ok := s.Cond.(*ast.BinaryExpr)
			if !ok || be.Op != token.NEQ {
				keys = append(keys, "?")
				continue
			}
			kx, ky := selName(be.X), selName(be.Y)
			if kx == "" || kx != ky || len(s.Body.List) != 1 {
				keys = append(keys, "?")
				continue
			}
			ret, ok := s.Body.List[0].(*ast.ReturnStmt)
			if !ok || len(ret.Results) != 1 {
				keys = append(keys, "?")
				continue
			}
			rb, ok := ret.Results[0].(*ast.BinaryExpr)
			if !ok || selName(rb.X) != kx || selName(rb.Y) != kx {
				keys = append(keys, "?")
				continue
			}
			// direction: compare positions of i and j
			dir := rb.Op.String()
			if types.ExprString(rb.X) != types.ExprString(be.X) {
				dir = "swapped" + dir
			}
			keys = append(keys, kx+dir)
		case *ast.ReturnStmt:
			if len(s.Results) == 1 {
				if call, ok := s.Results[0].(*ast.CallExpr); ok {
					tail = types.ExprString(call.Fun)
				} else {
					tail = types.ExprString(s.Results[0])
				}
			}
		}
	}
	return
}

func selName(e ast.Expr) string {
	if s, ok := ast.Unparen(e).(*ast.SelectorExpr); ok {
		return s.Sel.Name
	}
	return ""
}

func c11order(c *Ctx) {
	r := c.R
	r.Rule("SORT(b): the comparator of getPodEvictInfoAndSortByPriority is the chain EvictionPriority<, Priority<, LabelPriority<, then subSortFun, in both evictors")
	const want = "EvictionPriority<,Priority<,LabelPriority<|subSortFun"
	for _, pkgRel := range []string{memEvictPkg, cpuEvictPkg} {
		sites := c.SortSites(func(pk *packages.Package) bool { return strings.HasSuffix(pk.PkgPath, pkgRel) })
		found := false
		for _, s := range sites {
			if !strings.HasSuffix(s.Encl, ".getPodEvictInfoAndSortByPriority") {
				continue
			}
			found = true
			keys, tail, okSSA := c.ComparatorChain(s.Lit)
			if !okSSA {
				keys, tail = comparatorKeys(s.Pkg.TypesInfo, s.Lit)
			}
			got := strings.Join(keys, ",") + "|" + tail
			r.Check(got == want, "SORT", s.Encl+"/key-order", c.Pos(s.Call.Pos()), "victim order is "+got,
				"victim order is "+got+" but the published order is "+want)
		}
		if !found {
			r.Unknown("SORT", pkgRel+".getPodEvictInfoAndSortByPriority/key-order", "", "comparator site not found")
		}
	}
}

// c11parse: the eviction priority is parsed with the bit size it is narrowed to.
func c11parse(c *Ctx) {
	r := c.R
	r.Rule("CONV: in extension.GetPodEvictionPriority the value converted to int32 comes from strconv.ParseInt with bitSize 32 (an out-of-range annotation is rejected, not wrapped)")
	fn := c.Fn("apis/extension", "", "GetPodEvictionPriority")
	if fn == nil {
		return
	}
	n := 0
	for _, b := range fn.Blocks {
		for _, in := range b.Instrs {
			cv, ok := in.(*ssa.Convert)
			if !ok {
				continue
			}
			bt, ok := cv.Type().Underlying().(*types.Basic)
			if !ok || bt.Kind() != types.Int32 {
				continue
			}
			n++
			okSrc := false
			src := "?"
			if call, _ := an.ResultOfCall(cv.X); call != nil {
				src = an.CalleeName(&call.Call)
				if src == "strconv.ParseInt" && len(call.Call.Args) == 3 {
					if bits, ok := call.Call.Args[2].(*ssa.Const); ok && bits.Value != nil && bits.Value.String() == "32" {
						okSrc = true
					}
				}
			}
			r.Check(okSrc, "CONV", fkey(fn)+"/int32-from-ParseInt32", c.InstrPos(cv), "narrowing matches the parsed bit size",
				"the value narrowed to int32 comes from "+src+" without a 32-bit range check: an annotation value in [2^31,2^32) wraps to a negative priority and jumps the victim queue")
		}
	}
	if n == 0 {
		r.Unknown("CONV", fkey(fn)+"/int32-from-ParseInt32", c.Pos(fn.Pos()), "no int32 conversion found: unknown idiom")
	}
	r.Rule("PATH(default on error): every way GetPodEvictionPriority can return a non-nil error returns the priority 0 with it (the sorters only log the error and sort by the returned value; ParseInt hands back the clamped extreme on a range error)")
	bad := ""
	ne := 0
	for _, alt := range an.ReturnAlts(fn) {
		if len(alt.Results) != 2 {
			continue
		}
		e := alt.Results[1]
		if an.IsNilConst(e) {
			continue
		}
		nilByGuard := false
		for _, g := range alt.Guards {
			if rel, ok := an.RelOf(g); ok && rel.Op == token.EQL && ((rel.X == e && an.IsNilConst(rel.Y)) || (rel.Y == e && an.IsNilConst(rel.X))) {
				nilByGuard = true
			}
		}
		if nilByGuard {
			continue
		}
		ne++
		if k, isC := constIntOf(alt.Results[0]); !isC || k != 0 {
			bad = c.InstrPos(alt.Ret)
		}
	}
	r.Check(bad == "" && ne >= 1, "PATH", fkey(fn)+"/error=>zero", c.Pos(fn.Pos()), "an error comes with priority 0", "a return at "+bad+" can carry an error together with a non-zero priority: an out-of-range annotation makes the pod the very first (or last) victim")
}

// c11policyName: the opt-out annotation is tested against the policy the task is built for.
func c11policyName(c *Ctx) {
	r := c.R
	r.Rule("FLOW(policy name): in memoryevict and cpuevict the policy argument of every IsEvictionPolicyAllowed call is a parameter of its function; every caller passes its own parameter on, and the chain ends in buildEvictTask with string(feature) of the feature parameter (also at the call through the selected builder function value)")
	for _, rel := range []string{memEvictPkg, cpuEvictPkg} {
		type slot struct {
			fn  *ssa.Function
			idx int
		}
		work := []slot{}
		inSet := map[slot]bool{}
		fns := c.PkgFuncs(rel)
		paramIdx := func(fn *ssa.Function, v ssa.Value) int {
			for i, p := range fn.Params {
				if ssa.Value(p) == v {
					return i
				}
			}
			return -1
		}
		isFeatureConv := func(fn *ssa.Function, v ssa.Value) bool {
			cv, ok := v.(*ssa.Convert)
			if !ok {
				if ct, ok2 := v.(*ssa.ChangeType); ok2 {
					return paramIdx(fn, ct.X) >= 0 && strings.HasSuffix(ct.X.Type().String(), "featuregate.Feature")
				}
				return false
			}
			return paramIdx(fn, cv.X) >= 0 && strings.HasSuffix(cv.X.Type().String(), "featuregate.Feature")
		}
		nSeeds, nTerm := 0, 0
		for _, fn := range fns {
			for _, cl := range an.Calls(fn, false) {
				if an.ShortCallee(cl.Common()) != "IsEvictionPolicyAllowed" {
					continue
				}
				nSeeds++
				i := paramIdx(fn, cl.Common().Args[0])
				r.Check(i >= 0, "FLOW", fkey(fn)+"/policy-is-parameter", c.InstrPos(cl), "the tested policy is the builder's parameter", "IsEvictionPolicyAllowed is called with "+an.Path(cl.Common().Args[0])+" instead of the policy name handed to the builder")
				if i >= 0 && !inSet[slot{fn, i}] {
					inSet[slot{fn, i}] = true
					work = append(work, slot{fn, i})
				}
			}
		}
		for len(work) > 0 {
			cur := work[0]
			work = work[1:]
			for _, g := range fns {
				for _, cl := range an.Calls(g, false) {
					if cl.Common().StaticCallee() != cur.fn {
						continue
					}
					a := cl.Common().Args[cur.idx]
					if i := paramIdx(g, a); i >= 0 {
						if !inSet[slot{g, i}] {
							inSet[slot{g, i}] = true
							work = append(work, slot{g, i})
						}
						continue
					}
					if isFeatureConv(g, a) {
						nTerm++
						continue
					}
					r.Fail("FLOW", fkey(g)+"=>"+cur.fn.Name()+"/policy-threaded", c.InstrPos(cl), "the policy name passed to "+cur.fn.Name()+" is "+an.Path(a)+", neither the caller's own policy parameter nor string(feature)")
				}
			}
		}
		// the dynamic call through the selected builder in buildEvictTask / its memory counterpart
		for _, g := range fns {
			for _, cl := range an.Calls(g, false) {
				cc := cl.Common()
				if cc.StaticCallee() != nil || cc.IsInvoke() || len(cc.Args) != 3 {
					continue
				}
				if b, ok := cc.Args[0].Type().Underlying().(*types.Basic); !ok || b.Kind() != types.String {
					continue
				}
				if !strings.HasSuffix(cc.Args[1].Type().String(), "ResourceThresholdStrategy") {
					continue
				}
				ok := isFeatureConv(g, cc.Args[0])
				if ok {
					nTerm++
				}
				r.Check(ok, "FLOW", fkey(g)+"/builder-call/policy=string(feature)", c.InstrPos(cl), "the selected builder is called with string(feature)", "the victim builder is called with "+an.Path(cc.Args[0])+" instead of string(feature): pods opted out of THIS policy are taken, pods opted out of another one are spared")
			}
		}
		r.Floor("FLOW", "IsEvictionPolicyAllowed calls in "+rel, nSeeds, 2)
		r.Floor("FLOW", "string(feature) terminals in "+rel, nTerm, 1)
	}
}

// c11recorded: a pod is remembered as evicted only after the eviction call succeeded.
func c11recorded(c *Ctx) {
	r := c.R
	r.Decides("the evictor's 'already evicted' record of a pod is written only behind a successful eviction call (a failed call - e.g. refused by a disruption budget - must leave the pod eligible: KillAndEvictPods counts a recorded pod's usage as already released and skips it)")
	r.Rule("PATH(recorded after success): in Evictor.EvictPodIfNotEvicted every write into podsEvicted (Set/SetDefault/Add) is preceded on every path by the evictPod call and is unreachable when that call returned false")
	fn := c.Fn(evictUtilPkg, "Evictor", "EvictPodIfNotEvicted")
	if fn == nil {
		return
	}
	var ev *ssa.Call
	var sets []ssa.CallInstruction
	for _, cl := range an.Calls(fn, false) {
		sn := an.ShortCallee(cl.Common())
		if call, ok := cl.(*ssa.Call); ok && sn == "evictPod" {
			ev = call
		}
		if (sn == "SetDefault" || sn == "Set" || sn == "Add") && strings.Contains(an.Path(an.Args(cl.Common())[0]), "podsEvicted") {
			sets = append(sets, cl)
		}
	}
	key := fkey(fn) + "/recorded-after-success"
	if ev == nil || len(sets) == 0 {
		r.Fail("PATH", key, c.Pos(fn.Pos()), sprintf("eviction call found=%v, writes of the record found=%d", ev != nil, len(sets)))
		return
	}
	reach := an.Explore(fn, an.After(ev), an.Facts{ev: an.False}, nil)
	ok := true
	for _, s := range sets {
		if !mustPass(ev, s) || reach.Reached(s) {
			ok = false
		}
	}
	r.Check(ok, "PATH", key, c.InstrPos(ev), "recorded only behind a successful eviction", "the pod is recorded as evicted before (or although) the eviction call failed: in the next rounds its usage counts as released and it is never retried, so eviction stops although nothing was freed")
}

// isAggregateRelease: v is the per-target sum over ALL collected release functions applied to one pod - a map built in
// a function (the closure of KillAndEvictPods, a named helper, or inline) whose entries are filled from a call of a
// function value taken out of a slice (an element of the collection), as opposed to the function of one task (a field
// of the task).
func isAggregateRelease(v ssa.Value, depth int) bool {
	if depth > 3 {
		return false
	}
	srcs := cellSources(v)
	if len(srcs) == 0 {
		return false
	}
	for _, src := range srcs {
		switch x := src.(type) {
		case *ssa.Call:
			callee := x.Call.StaticCallee()
			if callee == nil || len(callee.Blocks) == 0 {
				return false
			}
			alts := an.ReturnAlts(callee)
			if len(alts) == 0 {
				return false
			}
			for _, alt := range alts {
				if len(alt.Results) != 1 || !isAggregateRelease(alt.Results[0], depth+1) {
					return false
				}
			}
		case *ssa.MakeMap:
			filled := false
			fn := x.Parent()
			for _, b := range fn.Blocks {
				for _, in := range b.Instrs {
					mu, ok := in.(*ssa.MapUpdate)
					if !ok {
						continue
					}
					same := false
					for _, m := range cellSources(mu.Map) {
						if m == ssa.Value(x) {
							same = true
						}
					}
					if !same {
						continue
					}
					for y := range backwardAll(mu.Value) {
						call, isCall := y.(*ssa.Call)
						if !isCall || call.Call.IsInvoke() || call.Call.StaticCallee() != nil {
							continue
						}
						for _, cs := range cellSources(call.Call.Value) {
							if ld, isLd := cs.(*ssa.UnOp); isLd && ld.Op == token.MUL {
								if _, isIA := ld.X.(*ssa.IndexAddr); isIA {
									filled = true
								}
							}
						}
					}
				}
			}
			if !filled {
				return false
			}
		default:
			return false
		}
	}
	return true
}

// isFlagMerge: v is a merge of boolean constants only (possibly through local cells).
func isFlagMerge(v ssa.Value) bool {
	srcs := cellSources(v)
	if len(srcs) < 2 {
		return false
	}
	for _, s := range srcs {
		c, ok := s.(*ssa.Const)
		if !ok || c.Value == nil || c.Value.Kind() != constant.Bool {
			return false
		}
	}
	return true
}
