package rules

import (
	"go/token"
	"strings"

	"golang.org/x/tools/go/ssa"

	"kverif/internal/an"
)

// eqUnsound returns why a home-grown equality helper may report two different values equal ("" = no reason found).
// Rule: every range over (part of) one parameter must be matched by a length comparison with the other side or by a
// second range over the other side; in-package callees that receive parts of both sides are checked the same way.
func eqUnsound(fn *ssa.Function, depth int) string {
	if depth > 3 || len(fn.Params) < 2 {
		return ""
	}
	rooted := func(v ssa.Value, p *ssa.Parameter) bool {
		for x := range backwardAll(v) {
			if x == ssa.Value(p) {
				return true
			}
		}
		return false
	}
	a, b := fn.Params[len(fn.Params)-2], fn.Params[len(fn.Params)-1]
	ranges := map[*ssa.Parameter]int{}
	lenCmp := false
	for _, blk := range fn.Blocks {
		for _, in := range blk.Instrs {
			switch x := in.(type) {
			case *ssa.Range:
				if rooted(x.X, a) && !rooted(x.X, b) {
					ranges[a]++
				} else if rooted(x.X, b) && !rooted(x.X, a) {
					ranges[b]++
				}
			case *ssa.BinOp:
				if x.Op == token.EQL || x.Op == token.NEQ {
					lx, okx := x.X.(*ssa.Call)
					ly, oky := x.Y.(*ssa.Call)
					if okx && oky && an.IsBuiltinCall(lx, "len") && an.IsBuiltinCall(ly, "len") {
						if (rooted(lx.Call.Args[0], a) && rooted(ly.Call.Args[0], b)) || (rooted(lx.Call.Args[0], b) && rooted(ly.Call.Args[0], a)) {
							lenCmp = true
						}
					}
				}
			case *ssa.Call:
				callee := x.Call.StaticCallee()
				if callee != nil && callee.Pkg == fn.Pkg && len(callee.Blocks) > 0 && len(x.Call.Args) >= 2 {
					n := len(x.Call.Args)
					if (rooted(x.Call.Args[n-2], a) && rooted(x.Call.Args[n-1], b)) || (rooted(x.Call.Args[n-2], b) && rooted(x.Call.Args[n-1], a)) {
						if why := eqUnsound(callee, depth+1); why != "" {
							return why
						}
					}
				}
			}
		}
	}
	if (ranges[a] > 0) != (ranges[b] > 0) && !lenCmp {
		return fn.Name() + " walks only one of its two operands and does not compare their lengths: an operand with extra entries compares equal"
	}
	return ""
}

// summaryAnnotation: the per-container summary annotation follows the final spec (shared by C13 and C14).
func summaryAnnotation(c *Ctx) {
	r := c.R
	r.Rule("PATH/EQ(summary annotation): extension.SetExtendedResourceSpec returns nil for a pod only after writing (or deleting) the annotation; in mutateByExtendedResources, after the stored annotation was read without error, no return is reachable without SetExtendedResourceSpec(pod, <computed spec>) unless the equality test of computed and stored spec held; that test is reflect.DeepEqual / Semantic.DeepEqual or an in-package helper that cannot report equal for operands of different size; getContainerExtendedResourcesRequirement copies Requests from Requests and Limits from Limits under the same resource name")
	fn := c.Fn(podMutPkg, "PodMutatingHandler", "mutateByExtendedResources")
	if fn == nil {
		return
	}
	key := fkey(fn)
	var get, set, eq *ssa.Call
	for _, cl := range an.Calls(fn, false) {
		call, ok := cl.(*ssa.Call)
		if !ok {
			continue
		}
		switch an.ShortCallee(cl.Common()) {
		case "GetExtendedResourceSpec":
			get = call
		case "SetExtendedResourceSpec":
			set = call
		}
	}
	if get == nil || set == nil {
		r.Fail("PATH", key+"/refresh", c.Pos(fn.Pos()), sprintf("read of the stored annotation found: %v, write found: %v", get != nil, set != nil))
		return
	}
	stored, gerr := extract(get, 0), extract(get, 1)
	computed := set.Call.Args[1]
	// the equality test: a call taking both computed and stored
	for _, cl := range an.Calls(fn, false) {
		call, ok := cl.(*ssa.Call)
		if !ok || call == get || call == set {
			continue
		}
		hasS, hasC := false, false
		for _, a := range call.Call.Args {
			for x := range backwardAll(a) {
				if x == stored {
					hasS = true
				}
				if x == computed {
					hasC = true
				}
			}
		}
		if hasS && hasC {
			eq = call
		}
	}
	if eq == nil {
		r.Fail("EQ", key+"/equality", c.Pos(fn.Pos()), "no comparison of the computed with the stored spec found")
		return
	}
	name := an.CalleeName(&eq.Call)
	switch {
	case name == "reflect.DeepEqual" || strings.HasSuffix(name, "Equalities).DeepEqual"):
		r.OK("EQ", key+"/equality", c.InstrPos(eq), "compared with "+name)
	default:
		why := "not a known equality and not an analysable in-package helper: " + name
		if callee := eq.Call.StaticCallee(); callee != nil && len(callee.Blocks) > 0 && callee.Pkg == fn.Pkg {
			why = eqUnsound(callee, 0)
		}
		r.Check(why == "", "EQ", key+"/equality", c.InstrPos(eq), "compared with a size-aware helper", "the annotation is kept when the comparison says 'unchanged', but "+why+" - a stored annotation that still declares a limit the pod no longer has is kept, and the node agent keeps enforcing it")
	}
	f := an.Facts{eq: an.False}
	if gerr != nil {
		f[gerr] = an.Nil
	}
	reach := an.Explore(fn, an.After(get), f, func(in ssa.Instruction) bool { return in == ssa.Instruction(set) })
	r.Check(len(reach.Returns()) == 0, "PATH", key+"/refresh", c.InstrPos(set), "a differing annotation is always rewritten", "with a stored annotation that differs from the computed one a return is reachable without SetExtendedResourceSpec")
	// and the stored annotation is always looked at: a pod that declares nothing may still carry a (copied, forged or
	// outdated) annotation, which the node agent would enforce
	r.Rule("PATH(summary annotation always compared): in mutateByExtendedResources no return is reachable before the stored annotation was read (whatever the containers declare - also nothing - the stored annotation is compared with the computed spec)")
	r0 := an.Explore(fn, nil, nil, func(in ssa.Instruction) bool { return in == ssa.Instruction(get) })
	r.Check(len(r0.Returns()) == 0, "PATH", key+"/always-compared", c.InstrPos(get), "the stored annotation is read on every path", "the function can return without looking at the stored annotation: a pod whose containers declare no batch resources keeps an annotation that claims some, and the node agent applies it")

	if st := c.Fn("apis/extension", "", "SetExtendedResourceSpec"); st != nil {
		// with a pod at hand, success means the annotation now says what the spec says (also an empty spec: it is how a
		// stale annotation is overwritten)
		f := an.Facts{}
		for _, b := range st.Blocks {
			for _, in := range b.Instrs {
				if bo, ok := in.(*ssa.BinOp); ok && (bo.Op == token.EQL || bo.Op == token.NEQ) && bo.X == ssa.Value(st.Params[0]) && an.IsNilConst(bo.Y) {
					if bo.Op == token.EQL {
						f[bo] = an.False
					} else {
						f[bo] = an.True
					}
				}
			}
		}
		reach := an.Explore(st, nil, f, func(in ssa.Instruction) bool {
			switch x := in.(type) {
			case *ssa.MapUpdate:
				return strings.HasSuffix(an.Path(x.Map), ".Annotations")
			case ssa.CallInstruction:
				return an.IsBuiltinCall(x.Value(), "delete") && strings.HasSuffix(an.Path(x.Common().Args[0]), ".Annotations")
			}
			return false
		})
		bad := ""
		for _, ret := range reach.Returns() {
			for _, alt := range reach.Alts(ret) {
				if reach.EvalAlt(alt, 0) != an.NonNil {
					bad = c.InstrPos(ret)
				}
			}
		}
		r.Check(len(f) >= 1 && bad == "", "PATH", fkey(st)+"/success=>annotation-written", c.Pos(st.Pos()), "a successful call has written (or removed) the annotation", "SetExtendedResourceSpec can return nil for a pod (at "+bad+") without touching the annotation: an empty summary no longer overwrites a stale one, while the webhook reports the pod as mutated")
	}
	if g := c.Fn(podMutPkg, "", "getContainerExtendedResourcesRequirement"); g != nil {
		n := 0
		okAll := true
		for _, b := range g.Blocks {
			for _, in := range b.Instrs {
				mu, ok := in.(*ssa.MapUpdate)
				if !ok {
					continue
				}
				dst := an.Path(mu.Map)
				var side string
				switch {
				case strings.HasSuffix(dst, ".Requests"):
					side = "Requests"
				case strings.HasSuffix(dst, ".Limits"):
					side = "Limits"
				default:
					continue
				}
				n++
				from := false
				for x := range backwardAll(mu.Value) {
					if lk, ok := x.(*ssa.Lookup); ok && strings.HasSuffix(an.Path(lk.X), "Resources."+side) && lk.Index == mu.Key {
						from = true
					}
				}
				if !from {
					okAll = false
				}
			}
		}
		r.Check(okAll && n == 2, "FLOW", fkey(g)+"/same-side-same-name", c.Pos(g.Pos()), "Requests<-Requests and Limits<-Limits under the same name", sprintf("the summary does not copy container.Resources.Requests[name] to Requests[name] and Limits[name] to Limits[name] (%d copies recognised)", n))
	}
}
