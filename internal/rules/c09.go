package rules

import (
	"go/constant"
	"go/token"
	"sort"
	"strings"

	"golang.org/x/tools/go/ssa"

	"kverif/internal/an"
	"kverif/internal/load"
)

func init() { Registry["C09"] = c09 }

const (
	batchPkg   = "pkg/slo-controller/noderesource/plugins/batchresource"
	midPkg     = "pkg/slo-controller/noderesource/plugins/midresource"
	resutilPkg = "pkg/slo-controller/noderesource/plugins/util"
)

// family is an accumulator: the values linked by adder calls (acc' = add(acc, delta)) and phis.
type family struct {
	members map[ssa.Value]bool
	incs    []*ssa.Call // the adder calls
}

func accFamily(v ssa.Value, adders map[string]bool) *family {
	f := &family{members: map[ssa.Value]bool{}}
	var walk func(v ssa.Value)
	walk = func(v ssa.Value) {
		if v == nil || f.members[v] {
			return
		}
		f.members[v] = true
		switch x := v.(type) {
		case *ssa.Phi:
			for _, e := range x.Edges {
				walk(e)
			}
		case *ssa.Call:
			if adders[an.ShortCallee(&x.Call)] && len(x.Call.Args) >= 2 {
				f.incs = append(f.incs, x)
				walk(x.Call.Args[0])
			}
		}
	}
	walk(v)
	return f
}

// loopHeaderOf returns the block of the family phi that carries inc around a loop (nil if inc is not in a loop).
func (f *family) loopHeaderOf(inc *ssa.Call) *ssa.BasicBlock {
	for m := range f.members {
		phi, ok := m.(*ssa.Phi)
		if !ok {
			continue
		}
		hb := phi.Block()
		if !(hb == inc.Block() || hb.Dominates(inc.Block())) {
			continue
		}
		// is there a back edge into hb from a block dominated by hb ?
		for _, p := range hb.Preds {
			if hb.Dominates(p) {
				// innermost: prefer the closest header
				return innermost(f, inc)
			}
		}
	}
	return nil
}

func innermost(f *family, inc *ssa.Call) *ssa.BasicBlock {
	var best *ssa.BasicBlock
	for m := range f.members {
		phi, ok := m.(*ssa.Phi)
		if !ok {
			continue
		}
		hb := phi.Block()
		if !(hb == inc.Block() || hb.Dominates(inc.Block())) {
			continue
		}
		isLoop := false
		for _, p := range hb.Preds {
			if hb.Dominates(p) {
				isLoop = true
			}
		}
		if !isLoop {
			continue
		}
		if best == nil || best.Dominates(hb) {
			best = hb
		}
	}
	return best
}

// coCharge checks: whenever family U is increased, family M is increased in the same iteration
// (or, outside loops, before the sink).
func coCharge(c *Ctx, fn *ssa.Function, U, M *family, sink ssa.Instruction, what string) int {
	isM := map[ssa.Instruction]bool{}
	for _, m := range M.incs {
		isM[m] = true
	}
	n := 0
	for i, u := range sortCalls(U.incs) {
		n++
		key := sprintf("%s/%s/charge#%d", fkey(fn), what, i+1)
		hdr := U.loopHeaderOf(u)
		// (b) an M increment earlier in the same iteration
		pre := false
		for _, m := range M.incs {
			mb := m.Block()
			if (mb == u.Block() && instrIndex(m) < instrIndex(u)) || (mb != u.Block() && mb.Dominates(u.Block())) {
				if hdr == nil || hdr.Dominates(mb) {
					pre = true
				}
			}
		}
		if pre {
			c.R.OK("PATH", key, c.InstrPos(u), "the paired accumulator is charged earlier on every path of the same iteration")
			continue
		}
		reach := an.Explore(fn, an.After(u), nil, func(in ssa.Instruction) bool { return isM[in] })
		bad := false
		where := ""
		if hdr != nil {
			if reach.BlockReached(hdr) {
				bad, where = true, "the next loop iteration"
			}
		}
		if sink != nil && reach.Reached(sink) {
			bad, where = true, "the call of CalculateBatchResourceByPolicy"
		}
		c.R.Check(!bad, "PATH", key, c.InstrPos(u),
			"every path from this charge passes a charge of the paired accumulator before the iteration ends",
			sprintf("the %s accumulator is charged here, but %s is reachable without charging the paired accumulator: this pod/term is not charged under the max(usage,request) policy", what, where))
	}
	return n
}

func instrIndex(in ssa.Instruction) int {
	for i, x := range in.Block().Instrs {
		if x == in {
			return i
		}
	}
	return -1
}

func sortCalls(cs []*ssa.Call) []*ssa.Call {
	out := append([]*ssa.Call{}, cs...)
	sort.SliceStable(out, func(i, j int) bool { return out[i].Pos() < out[j].Pos() })
	return out
}

// armAtoms maps the dominating guards of an increment to a normalised atom set.
func armAtoms(gs []an.Guard) string {
	var atoms []string
	for _, g := range gs {
		p := an.Path(g.Cond)
		t := "F"
		if g.Truth {
			t = "T"
		}
		switch {
		case isCommaOk(g.Cond):
			atoms = append(atoms, "hasMetric="+t)
		case strings.Contains(p, `"LSE"`):
			atoms = append(atoms, "qos==LSE:"+binop(g.Cond)+"="+t)
		case strings.Contains(p, `"koord-batch"`):
			atoms = append(atoms, "prio~batch:"+binop(g.Cond)+"="+t)
		case strings.Contains(p, `"koord-free"`):
			atoms = append(atoms, "prio~free:"+binop(g.Cond)+"="+t)
		case strings.Contains(p, `"Running"`):
			atoms = append(atoms, "phase~Running:"+binop(g.Cond)+"="+t)
		case strings.Contains(p, `"Pending"`):
			atoms = append(atoms, "phase~Pending:"+binop(g.Cond)+"="+t)
		case strings.Contains(p, "builtin.len(") && strings.Contains(p, "<"):
			// loop bound
		case isRangeOk(g.Cond):
			// range loop continuation
		case isFlagMerge(g.Cond):
			// the 'counts' flag of an extracted per-pod decision: decided by the conditions in front of it
		default:
			atoms = append(atoms, "other["+p+"]="+t)
		}
	}
	sort.Strings(atoms)
	return strings.Join(atoms, ",")
}

func binop(v ssa.Value) string {
	if b, ok := v.(*ssa.BinOp); ok {
		return b.Op.String()
	}
	return "?"
}

func isCommaOk(v ssa.Value) bool {
	e, ok := v.(*ssa.Extract)
	if !ok || e.Index != 1 {
		return false
	}
	l, ok := e.Tuple.(*ssa.Lookup)
	return ok && l.CommaOk
}

func isRangeOk(v ssa.Value) bool {
	e, ok := v.(*ssa.Extract)
	if !ok || e.Index != 0 {
		return false
	}
	_, ok = e.Tuple.(*ssa.Next)
	return ok
}

func c09(c *Ctx) {
	r := c.R
	r.Decides("every pod path that charges the high-priority 'used' accumulator also charges the 'max(used,request)' accumulator, at node level and at NUMA level")
	r.Decides("node-level and NUMA-level pod loops charge request/used/maxUsedReq under the same arm conditions (metric present, LSE, low-priority skip, phase skip)")
	r.Decides("CalculateBatchResourceByPolicy is non-increasing in every consumption input for every policy branch; branch conditions depend on the strategy only; every returned entry derives from a value clamped at zero (and from capacity x percentage when a threshold is configured)")
	r.Decides("Calculate reaches the computation only when isDegradeNeeded is false; the degraded result marks every resource item Reset")
	r.Declines("the numeric bound itself, mid-tier arithmetic, NUMA division arithmetic")
	r.Assume("configured percentages (thresholds, reclaim ratios) are non-negative")

	adders := map[string]bool{"Add": true, "AddZoneResourceList": true}
	const policyFn = load.Module + "/" + resutilPkg + ".CalculateBatchResourceByPolicy"

	type armVec map[string][]string // family -> sorted arm atoms
	vecs := map[string]armVec{}
	for _, name := range []string{"calculateOnNode", "calculateOnNUMALevel"} {
		fn := c.Fn(batchPkg, "Plugin", name)
		if fn == nil {
			continue
		}
		sinks := an.CallsTo(fn, false, policyFn)
		if len(sinks) != 1 {
			r.Fail("PATH", fkey(fn)+"/sink", c.Pos(fn.Pos()), sprintf("expected one call of CalculateBatchResourceByPolicy, found %d", len(sinks)))
			continue
		}
		args := sinks[0].Common().Args
		// arguments may be element loads acc[i] at NUMA level: take the slice/list being indexed
		accOf := func(v ssa.Value) ssa.Value {
			if u, ok := v.(*ssa.UnOp); ok {
				if ia, ok := u.X.(*ssa.IndexAddr); ok {
					return ia.X
				}
			}
			return v
		}
		req := accFamily(accOf(args[5]), adders)
		used := accFamily(accOf(args[6]), adders)
		maxur := accFamily(accOf(args[7]), adders)
		r.Rule("PATH(co-charge) in " + name + ": for each increase of the accumulator passed as podHPUsed, every path to the end of the iteration (or to the formula call) increases the accumulator passed as podHPMaxUsedReq")
		n := coCharge(c, fn, used, maxur, sinks[0], "used=>maxUsedReq")
		v := armVec{}
		for fam, f := range map[string]*family{"request": req, "used": used, "maxUsedReq": maxur} {
			for _, inc := range f.incs {
				hdr := f.loopHeaderOf(inc)
				if hdr == nil {
					v[fam] = append(v[fam], "after-the-pod-loop")
					continue
				}
				// only the conditions evaluated inside the iteration
				var gs []an.Guard
				for _, g := range an.Guards(inc) {
					if gb := g.If.Block(); gb != hdr && hdr.Dominates(gb) {
						gs = append(gs, g)
					}
				}
				v[fam] = append(v[fam], "in-loop:"+armAtoms(gs))
			}
			sort.Strings(v[fam])
		}
		// the other form of the same decision: the amount is chosen in the arms and charged once. When no charge of
		// this function stands under the metric test, the arms of the charged VALUE are the arms of the charge.
		direct := false
		for _, arms := range v {
			for _, a := range arms {
				if strings.Contains(a, "hasMetric") {
					direct = true
				}
			}
		}
		if !direct {
			v2 := armVec{}
			for fam, f := range map[string]*family{"request": req, "used": used, "maxUsedReq": maxur} {
				for _, inc := range f.incs {
					hdr := f.loopHeaderOf(inc)
					if hdr == nil {
						v2[fam] = append(v2[fam], "after-the-pod-loop")
						continue
					}
					alts := valueArms(inc.Call.Args[1], hdr, 0)
					if len(alts) > 6 {
						alts = [][]an.Guard{nil}
					}
					for _, alt := range alts {
						var gs []an.Guard
						seen := map[*ssa.If]bool{}
						for _, g := range append(append([]an.Guard{}, an.Guards(inc)...), alt...) {
							if gb := g.If.Block(); gb != hdr && hdr.Dominates(gb) && !seen[g.If] {
								seen[g.If] = true
								gs = append(gs, g)
							}
						}
						v2[fam] = append(v2[fam], "in-loop:"+armAtoms(gs))
					}
				}
				sort.Strings(v2[fam])
			}
			v = v2
		}
		if len(v["used"]) > n {
			n = len(v["used"]) // the amount chosen in arms and charged once: the arms are what is counted
		}
		r.Floor("PATH", name+" charges of the used accumulator", n, 4)
		vecs[name] = v
	}
	// SIBLING
	if a, b := vecs["calculateOnNode"], vecs["calculateOnNUMALevel"]; a != nil && b != nil {
		r.Rule("SIBLING: for each accumulator (request, used, maxUsedReq) the multiset of arm conditions under which it is charged is the same in calculateOnNode and calculateOnNUMALevel")
		for _, fam := range []string{"request", "used", "maxUsedReq"} {
			sa, sb := strings.Join(a[fam], " | "), strings.Join(b[fam], " | ")
			r.Check(sa == sb, "SIBLING", "batchresource.calculateOnNode~calculateOnNUMALevel/"+fam, "", "charged under the same arms: "+sa,
				"node level charges under {"+sa+"} but NUMA level under {"+sb+"}")
		}
	}

	if fn := c.Fn(resutilPkg, "", "CalculateBatchResourceByPolicy"); fn != nil {
		c09mono(c, fn)
	}
	c09labels(c)
	c09inputs(c)
	c09values(c)
	c09noPartialApply(c)
	if fn := c.Fn(batchPkg, "Plugin", "Calculate"); fn != nil {
		c09degrade(c, fn, batchPkg)
		if mf := c.Fn(midPkg, "Plugin", "Calculate"); mf != nil {
			c09degrade(c, mf, midPkg)
		}
	}
	if fn := c.Fn(resutilPkg, "", "GetPodNUMARequestAndUsage"); fn != nil {
		c09zones(c, fn)
	}
	c09validate(c)
	c09hostapps(c)
	if fn := c.Fn(resutilPkg, "", "CalculateMidResourceByPolicy"); fn != nil {
		c09mid(c, fn, true)
	}
	if fn := c.Fn(resutilPkg, "", "CalculateMidResourceByStaticMode"); fn != nil {
		c09mid(c, fn, false)
	}
}

// c09mid: mid-tier amounts: min(reclaimable, unused) floored at zero, plus the unallocated share, capped by capacity x threshold.
func c09mid(c *Ctx, fn *ssa.Function, policy bool) {
	r := c.R
	r.Rule("PATH(mid tier): in CalculateMidResourceByPolicy, for CPU and memory: the reclaimable amount is replaced by the node's unused amount under '>' and by 0 under '< 0' before it is used; the unallocated share is added with Quantity.Add; the capacity x threshold cap (comparison Value() > int64(max) replacing the quantity by NewQuantity(int64(max))) comes after that Add and decides the returned quantity")
	rets := []*ssa.Return{}
	for _, b := range fn.Blocks {
		if ret, ok := b.Instrs[len(b.Instrs)-1].(*ssa.Return); ok {
			rets = append(rets, ret)
		}
	}
	if len(rets) != 1 {
		r.Unknown("PATH", fkey(fn)+"/mid", c.Pos(fn.Pos()), "expected a single return")
		return
	}
	for i, name := range []string{"cpu", "memory"} {
		key := fkey(fn) + "/mid/" + name
		res := rets[0].Results[i]
		phi, ok := res.(*ssa.Phi)
		if !ok {
			r.Fail("PATH", key+"/capped", c.InstrPos(rets[0]), "the returned "+name+" quantity is not chosen between the computed amount and the capacity cap (no merge of two alternatives): the threshold cap is missing")
			continue
		}
		var capAlt, base ssa.Value
		for _, e := range phi.Edges {
			if call, ok := e.(*ssa.Call); ok && an.ShortCallee(&call.Call) == "NewQuantity" && strings.Contains(an.Path(call.Call.Args[0]), "nodeCapacity") {
				capAlt = e
			} else {
				base = e
			}
		}
		okCap := false
		var cmp *ssa.BinOp
		if capAlt != nil {
			for _, g := range an.Guards(capAlt.(*ssa.Call)) {
				if bo, ok := g.Cond.(*ssa.BinOp); ok && bo.Op == token.GTR && g.Truth && strings.Contains(an.Path(bo.Y), "nodeCapacity") {
					okCap = true
					cmp = bo
				}
			}
		}
		r.Check(okCap, "PATH", key+"/capped", c.InstrPos(rets[0]), name+" is capped by capacity x threshold", "the capacity x threshold cap of the mid "+name+" amount is missing or not selected under 'amount > cap'")
		if !policy {
			continue
		}
		// Add of the unallocated share precedes the cap comparison
		okAdd := false
		for _, cl := range an.Calls(fn, false) {
			if an.CalleeName(cl.Common()) == "(*k8s.io/apimachinery/pkg/api/resource.Quantity).Add" && base != nil && cl.Common().Args[0] == base {
				if cmp != nil && instrBefore(cl, cmp) && strings.Contains(an.Path(cl.Common().Args[1]), "unallocated") {
					okAdd = true
				}
			}
		}
		r.Check(okAdd, "PATH", key+"/cap-after-add", c.InstrPos(rets[0]), "the cap is applied after the unallocated share was added", "the unallocated share is added after (or independently of) the capacity cap: the published mid amount can exceed capacity x threshold")
		// the base quantity derives from the clamped reclaimable amount: min with unused and floor at zero
		var amount ssa.Value
		if bc, ok := base.(*ssa.Call); ok && an.ShortCallee(&bc.Call) == "NewQuantity" {
			amount = bc.Call.Args[0]
		}
		var minUnused, floor0 bool
		// the builtin forms: min(reclaimable, unused) and max(x, 0) somewhere behind the amount
		if amount != nil {
			var fromParamV func(v ssa.Value, d int) bool
			fromParamV = func(v ssa.Value, d int) bool {
				for _, l := range an.Sources(v, nil) {
					if pr, ok := l.(*ssa.Parameter); ok && strings.HasPrefix(pr.Name(), "allocatable") {
						return true
					}
					if call, ok := l.(*ssa.Call); ok && d < 4 && (an.IsBuiltinCall(call, "min") || an.IsBuiltinCall(call, "max")) {
						for _, a := range call.Call.Args {
							if fromParamV(a, d+1) {
								return true
							}
						}
					}
				}
				return false
			}
			for x := range backwardAll(amount) {
				call, ok := x.(*ssa.Call)
				if !ok || len(call.Call.Args) != 2 {
					continue
				}
				a0, a1 := call.Call.Args[0], call.Call.Args[1]
				if an.IsBuiltinCall(call, "min") {
					if (fromParamV(a0, 0) && strings.Contains(an.Path(a1), "nodeUnused")) || (fromParamV(a1, 0) && strings.Contains(an.Path(a0), "nodeUnused")) {
						minUnused = true
					}
				}
				if an.IsBuiltinCall(call, "max") {
					k0, c0 := constIntOf(a0)
					k1, c1 := constIntOf(a1)
					if (c0 && k0 == 0 && fromParamV(a1, 0)) || (c1 && k1 == 0 && fromParamV(a0, 0)) {
						floor0 = true
					}
				}
			}
		}
		if p2, ok := amount.(*ssa.Phi); ok {
			// phi(x, 0) under x < 0 ; x = phi(param, unused) under param > unused
			for _, b := range fn.Blocks {
				for _, in := range b.Instrs {
					bo, ok := in.(*ssa.BinOp)
					if !ok {
						continue
					}
					src := an.Sources(bo.X, nil)
					fromParam := false
					for _, l := range src {
						if pr, ok := l.(*ssa.Parameter); ok && strings.HasPrefix(pr.Name(), "allocatable") {
							fromParam = true
						}
						if call, ok := l.(*ssa.Call); ok && an.IsBuiltinCall(call, "min") {
							for _, a := range call.Call.Args {
								for _, l2 := range an.Sources(a, nil) {
									if pr, ok := l2.(*ssa.Parameter); ok && strings.HasPrefix(pr.Name(), "allocatable") {
										fromParam = true
									}
								}
							}
						}
					}
					if !fromParam {
						continue
					}
					inSlice := false
					for x := range backwardAll(p2) {
						if x == ssa.Value(bo.X) || x == bo.X {
							inSlice = true
						}
					}
					if !inSlice {
						continue
					}
					if bo.Op == token.GTR && strings.Contains(an.Path(bo.Y), "nodeUnused") {
						minUnused = true
					}
					if k, isC := constIntOf(bo.Y); bo.Op == token.LSS && isC && k == 0 {
						floor0 = true
					}
				}
			}
		}
		r.Check(minUnused && floor0, "PATH", key+"/min-unused-floor-zero", c.Pos(fn.Pos()), "reclaimable amount is limited by the unused amount and floored at zero", sprintf("the mid %s amount is not min(reclaimable, unused) floored at zero (limited by unused: %v, floored at zero: %v)", name, minUnused, floor0))
	}
}

// c09zones: the share per allocated zone divides by the number of allocated ids that are valid zone indices.
func c09zones(c *Ctx, fn *ssa.Function) {
	r := c.R
	r.Rule("PATH: in GetPodNUMARequestAndUsage the divisor of the per-zone share in the 'allocated zones' arm is a counter that is incremented only under id < numaNum and id >= 0 (so the shares handed to the zones in [0,numaNum) add up to the pod's whole charge)")
	key := fkey(fn) + "/zone-divisor"
	var divs []ssa.CallInstruction
	for _, cl := range an.Calls(fn, false) {
		if an.ShortCallee(cl.Common()) == "DivideResourceList" {
			// the arm where the zone was found in the allocated map
			for _, g := range an.Guards(cl) {
				if isCommaOk(g.Cond) && g.Truth {
					divs = append(divs, cl)
				}
			}
		}
	}
	if len(divs) == 0 {
		r.Unknown("PATH", key, c.Pos(fn.Pos()), "per-zone share computation not found")
		return
	}
	okAll := true
	why := ""
	for _, d := range divs {
		var ctr *ssa.Phi
		for _, l := range an.Sources(d.Common().Args[1], nil) {
			_ = l
		}
		v := d.Common().Args[1]
		if cv, ok := v.(*ssa.Convert); ok {
			v = cv.X
		}
		ctr, _ = v.(*ssa.Phi)
		if ctr == nil {
			okAll, why = false, "the divisor is "+an.Path(d.Common().Args[1])+", not a counter of valid zone ids"
			continue
		}
		// increments of the counter
		n := 0
		seen := map[ssa.Value]bool{}
		var walk func(v ssa.Value)
		walk = func(v ssa.Value) {
			if seen[v] {
				return
			}
			seen[v] = true
			switch x := v.(type) {
			case *ssa.Phi:
				for _, e := range x.Edges {
					walk(e)
				}
			case *ssa.BinOp:
				if x.Op == token.ADD {
					n++
					var lt, ge bool
					for _, g := range an.Guards(x) {
						bo, ok := g.Cond.(*ssa.BinOp)
						if !ok || !g.Truth {
							continue
						}
						p := an.Path(bo)
						if bo.Op == token.LSS && strings.Contains(p, "< numaNum") {
							lt = true
						}
						if bo.Op == token.GEQ && strings.Contains(p, ">= 0") {
							ge = true
						}
					}
					if !lt || !ge {
						okAll, why = false, sprintf("the counter is incremented without both range tests (id < numaNum: %v, id >= 0: %v)", lt, ge)
					}
					walk(x.X)
				}
			}
		}
		walk(ctr)
		if n == 0 {
			okAll, why = false, "the divisor phi has no guarded increment"
		}
	}
	r.Check(okAll, "PATH", key, c.InstrPos(divs[0]), "the divisor counts only valid zone ids", why+": with an out-of-range NUMA id in the pod's allocation part of its charge lands on no zone and the zone amounts exceed their bound")
}

func c09mono(c *Ctx, fn *ssa.Function) {
	r := c.R
	r.Rule("MONO: polarity abstract interpretation of CalculateBatchResourceByPolicy over {Add,Max,MinQuant: monotone; Subtract: antitone in arg 2; Cpu/Memory/index/deref: identity; MultiplyQuant/MultiplyMilliQuant: scaling by an input-independent factor}; result must be down/const in nodeSafetyMargin,nodeReserved,systemUsed,podHPReq,podHPUsed,podHPMaxUsedReq")
	ops := &an.PolOps{
		Join:    map[string]bool{"Add": true, "Max": true, "MinQuant": true},
		Sub:     map[string]bool{"Subtract": true, "SubtractWithNonNegativeResult": true},
		Same:    map[string]bool{"Cpu": true, "Memory": true, "DeepCopy": true},
		Scale:   map[string]bool{"MultiplyQuant": true, "MultiplyMilliQuant": true},
		Const:   map[string]bool{"NewZeroResourceList": true},
		Ignored: map[string]bool{"Sprintf": true, "MilliValue": true, "ScaledValue": true, "Value": true},
	}
	tracked := map[ssa.Value]string{}
	consumption := map[string]bool{}
	for i, p := range fn.Params {
		if i == 0 {
			continue // strategy
		}
		tracked[p] = p.Name()
		if i >= 2 {
			consumption[p.Name()] = true
		}
	}
	pol := an.NewPolarity(fn, ops, tracked)
	// branch conditions
	nb := 0
	for _, b := range fn.Blocks {
		if ifi, ok := b.Instrs[len(b.Instrs)-1].(*ssa.If); ok {
			nb++
			dep := pol.Of(ifi.Cond).NonConst()
			if len(dep) > 0 {
				r.Fail("MONO", fkey(fn)+"/branch-independent", c.InstrPos(ifi), "a branch condition depends on resource inputs "+strings.Join(dep, ",")+": the formula is no longer piecewise monotone by construction")
			}
		}
	}
	r.OK("MONO", fkey(fn)+"/branches", c.Pos(fn.Pos()), sprintf("%d branch conditions depend on the strategy only", nb))
	// result polarity
	var res an.PolMap
	for _, b := range fn.Blocks {
		for _, in := range b.Instrs {
			if ret, ok := in.(*ssa.Return); ok {
				m := pol.Of(ret.Results[0])
				if res == nil {
					res = m
				} else {
					for k, v := range m {
						res[k] |= v
					}
				}
			}
		}
	}
	var names []string
	for n := range consumption {
		names = append(names, n)
	}
	sort.Strings(names)
	for _, n := range names {
		p := res[n]
		r.Check(p == an.PolDown || p == an.PolNone, "MONO", fkey(fn)+"/input/"+n, c.Pos(fn.Pos()), "result is "+p.String()+" in "+n,
			"result is "+p.String()+" in "+n+": raising this consumption input may raise the published batch amount")
	}
	// at least the documented inputs are used at all
	for _, n := range []string{"podHPUsed", "podHPReq", "podHPMaxUsedReq", "systemUsed", "nodeReserved", "nodeSafetyMargin"} {
		if !consumption[n] {
			r.Unknown("MONO", fkey(fn)+"/input/"+n, c.Pos(fn.Pos()), "parameter "+n+" not found (signature changed)")
			continue
		}
		r.Check(res[n] != an.PolNone, "MONO", fkey(fn)+"/input-used/"+n, c.Pos(fn.Pos()), n+" lowers the result", n+" no longer influences the result at all")
	}
	// per candidate formula (each zero-clamped list): the reservation and the margin lower every candidate, and the
	// usage-based candidates are lowered by the system usage as well
	ncand := 0
	for _, b := range fn.Blocks {
		for _, in := range b.Instrs {
			call, ok := in.(*ssa.Call)
			if !ok || an.CalleeName(&call.Call) != "k8s.io/apiserver/pkg/quota/v1.Max" {
				continue
			}
			isClamp := false
			for _, a := range call.Call.Args {
				if ac, ok := a.(*ssa.Call); ok && an.ShortCallee(&ac.Call) == "NewZeroResourceList" {
					isClamp = true
				}
			}
			if !isClamp {
				continue
			}
			ncand++
			m := pol.Of(call)
			which := "?"
			for _, acc := range []string{"podHPUsed", "podHPReq", "podHPMaxUsedReq"} {
				if m[acc] != an.PolNone {
					which = acc
				}
			}
			need := []string{"nodeSafetyMargin", "nodeReserved"}
			if which == "podHPUsed" || which == "podHPMaxUsedReq" {
				need = append(need, "systemUsed")
			}
			var missing []string
			for _, n := range need {
				if m[n] != an.PolDown {
					missing = append(missing, n+":"+m[n].String())
				}
			}
			r.Check(len(missing) == 0 && which != "?", "MONO", fkey(fn)+"/candidate/"+which, c.InstrPos(call), "candidate by "+which+" is lowered by "+strings.Join(need, ","),
				"the candidate formula charged with "+which+" is not lowered by "+strings.Join(missing, ", ")+" (e.g. it subtracts the raw system usage instead of max(system usage, node reservation))")
		}
	}
	r.Floor("MONO", "candidate formulas (zero-clamped lists)", ncand, 3)
	for _, u := range pol.Unknown {
		r.Unknown("MONO", fkey(fn)+"/operator/"+an.Path(u), c.Pos(u.Pos()), "operator not in the polarity table")
	}

	// clamp: every stored / returned entry derives from Max(., zero) or capacity scaling
	r.Rule("FLOW(clamp): the returned list is defined by Max(., NewZeroResourceList()) and every entry stored into it derives, through MinQuant/Cpu/Memory/deref, only from such clamped lists or from capacity scaled by the threshold")
	isClampMax := func(v ssa.Value) bool {
		call, ok := v.(*ssa.Call)
		if !ok || an.CalleeName(&call.Call) != "k8s.io/apiserver/pkg/quota/v1.Max" {
			return false
		}
		for _, a := range call.Call.Args {
			if ac, ok := a.(*ssa.Call); ok && an.ShortCallee(&ac.Call) == "NewZeroResourceList" {
				return true
			}
		}
		return false
	}
	through := func(v ssa.Value) bool {
		if call, ok := v.(*ssa.Call); ok {
			switch an.ShortCallee(&call.Call) {
			case "MinQuant", "Cpu", "Memory":
				return true
			}
			return false
		}
		if u, ok := v.(*ssa.UnOp); ok {
			return u.Op.String() == "*"
		}
		return false
	}
	checkLeaves := func(v ssa.Value, key, pos string) {
		var bad []string
		n := 0
		for _, l := range an.Sources(v, func(x ssa.Value) bool { return !isClampMax(x) && through(x) }) {
			n++
			if isClampMax(l) {
				continue
			}
			if call, ok := l.(*ssa.Call); ok {
				sn := an.ShortCallee(&call.Call)
				if (sn == "MultiplyQuant" || sn == "MultiplyMilliQuant") && strings.HasPrefix(an.Path(call.Call.Args[0]), "*nodeCapacity") || strings.Contains(an.Path(call), "nodeCapacity") && (sn == "MultiplyQuant" || sn == "MultiplyMilliQuant") {
					continue
				}
			}
			bad = append(bad, an.Path(l))
		}
		r.Check(len(bad) == 0 && n > 0, "FLOW", key, pos, "derives only from zero-clamped lists / capacity x threshold", "entry derives from unclamped values: "+strings.Join(bad, "; "))
	}
	nst := 0
	for _, b := range fn.Blocks {
		for _, in := range b.Instrs {
			switch x := in.(type) {
			case *ssa.MapUpdate:
				nst++
				checkLeaves(x.Value, sprintf("%s/clamp/store#%d", fkey(fn), nst), c.InstrPos(x))
			case *ssa.Return:
				checkLeaves(x.Results[0], fkey(fn)+"/clamp/result", c.InstrPos(x))
			}
		}
	}
	r.Floor("FLOW", "stores into the batch result", nst, 6)
}

func c09degrade(c *Ctx, fn *ssa.Function, pkg string) {
	r := c.R
	r.Rule("PATH: in the batch and the mid plugin's (*Plugin).Calculate the call of calculate is unreachable when isDegradeNeeded returned true and unreachable without isDegradeNeeded having been evaluated at all (no mode or shortcut bypasses the staleness test: a stale metric must withdraw the resource whatever formula would be used); on the degraded path the result comes from Reset() (directly or through an in-package wrapper such as degradeCalculate whose every return is Reset()); Reset marks every item it produces Reset=true")
	p := "(*" + load.Module + "/" + pkg + ".Plugin)."
	deg := an.CallsTo(fn, false, p+"isDegradeNeeded")
	calc := an.CallsTo(fn, false, p+"calculate")
	key := fkey(fn) + "/degrade-gate"
	if len(deg) != 1 || len(calc) != 1 {
		r.Fail("PATH", key, c.Pos(fn.Pos()), sprintf("expected one isDegradeNeeded and one calculate call, found %d and %d", len(deg), len(calc)))
		return
	}
	reach := an.Explore(fn, nil, an.Facts{deg[0].Value(): an.True}, nil)
	okGate := !reach.Reached(calc[0]) && mustPass(deg[0], calc[0])
	// returns on that path must come from Reset(), directly or through an in-package wrapper that returns Reset()
	var viaReset func(v ssa.Value, depth int) bool
	viaReset = func(v ssa.Value, depth int) bool {
		call, _ := an.ResultOfCall(v)
		if call == nil || depth > 2 {
			return false
		}
		if an.CalleeName(&call.Call) == p+"Reset" {
			return true
		}
		callee := call.Call.StaticCallee()
		if callee == nil || len(callee.Blocks) == 0 || callee.Pkg != fn.Pkg {
			return false
		}
		alts := an.ReturnAlts(callee)
		for _, a := range alts {
			if !viaReset(a.Results[0], depth+1) {
				return false
			}
		}
		return len(alts) > 0
	}
	okRet := true
	for _, ret := range reach.Returns() {
		if reach.EvalAt(ret.Results[1], ret) == an.NonNil {
			continue // error return for missing arguments
		}
		for _, v := range reach.Values(ret.Results[0]) {
			if !viaReset(v, 0) && !an.IsNilConst(v) {
				okRet = false
			}
		}
	}
	r.Check(okGate && okRet, "PATH", key, c.InstrPos(deg[0]), "with stale metrics only the degraded result is returned", sprintf("with isDegradeNeeded()==true (or never evaluated): calculate reachable=%v, non-degraded return=%v", !okGate, !okRet))
	if rs := c.Fn(pkg, "Plugin", "Reset"); rs != nil {
		// every store to a ResourceItem's Reset field in Reset() writes true, and there is at least one (items[i].Reset = true,
		// or a composite literal {.., Reset: true} appended per resource name)
		ok := false
		allTrue := true
		for _, b := range rs.Blocks {
			for _, in := range b.Instrs {
				if st, ok2 := in.(*ssa.Store); ok2 {
					if _, f, _, ok3 := an.FieldOf(st.Addr); ok3 && f == "Reset" {
						if isTrueConst(st.Val) {
							ok = true
						} else {
							allTrue = false
						}
					}
				}
			}
		}
		ok = ok && allTrue
		r.Check(ok, "PATH", fkey(rs)+"/Reset=true", c.Pos(rs.Pos()), "every item is marked Reset=true", "Reset() no longer marks the items Reset=true: stale metrics freeze the old value")
	}
}

// negFacts assumes, for a pointer-to-integer value p: p != nil and *p < 0.
func negFacts(fn *ssa.Function, isP func(ssa.Value) bool, f an.Facts, depth int) int {
	n := 0
	for _, b := range fn.Blocks {
		for _, in := range b.Instrs {
			switch x := in.(type) {
			case *ssa.BinOp:
				if isP(x.X) && an.IsNilConst(x.Y) {
					if x.Op == token.EQL {
						f[x] = an.False
						n++
					} else if x.Op == token.NEQ {
						f[x] = an.True
						n++
					}
				}
				if ld, ok := x.X.(*ssa.UnOp); ok && ld.Op == token.MUL && isP(ld.X) {
					if k, isC := constIntOf(x.Y); isC {
						switch {
						case (x.Op == token.GEQ && k >= 0) || (x.Op == token.GTR && k >= -1):
							f[x] = an.False
							n++
						case (x.Op == token.LSS && k <= 0) || (x.Op == token.LEQ && k <= -1):
							f[x] = an.True
							n++
						}
					}
				}
			case *ssa.Call:
				callee := x.Call.StaticCallee()
				if callee == nil || len(callee.Blocks) == 0 || depth <= 0 || callee.Pkg != fn.Pkg {
					continue
				}
				for i, a := range x.Call.Args {
					if !isP(a) || i >= len(callee.Params) {
						continue
					}
					par := callee.Params[i]
					cf := an.Facts{}
					negFacts(callee, func(v ssa.Value) bool { return v == ssa.Value(par) }, cf, depth-1)
					reach := an.Explore(callee, nil, cf, nil)
					never := len(reach.Returns()) > 0
					for _, ret := range reach.Returns() {
						for _, alt := range reach.Alts(ret) {
							if len(ret.Results) != 1 || reach.EvalAlt(alt, 0) != an.False {
								never = false
							}
						}
					}
					if never {
						f[x] = an.False
						n++
					}
				}
			}
		}
	}
	return n
}

// c09validate: the configuration validation rejects negative percentages (the formulas rely on it).
func c09validate(c *Ctx) {
	r := c.R
	r.Rule("VALIDATE: sloconfig.IsColocationStrategyValid cannot return true for a strategy in which one of the percentage fields the batch/mid formulas multiply capacity with (Batch*ThresholdPercent, Mid*ThresholdPercent, MidUnallocatedPercent, *ReclaimThresholdPercent, MidStatic*ReservedPercent) is set and negative - decided per field by assuming 'field != nil' and '*field < 0' (also inside in-package helpers the field is passed to) and evaluating every return")
	fn := c.Fn("pkg/util/sloconfig", "", "IsColocationStrategyValid")
	if fn == nil {
		return
	}
	fields := []string{"BatchCPUThresholdPercent", "BatchMemoryThresholdPercent", "MidCPUThresholdPercent", "MidMemoryThresholdPercent", "MidUnallocatedPercent",
		"CPUReclaimThresholdPercent", "MemoryReclaimThresholdPercent", "MidStaticCPUReservedPercent", "MidStaticMemoryReservedPercent"}
	for _, fld := range fields {
		isP := func(v ssa.Value) bool {
			ld, ok := v.(*ssa.UnOp)
			if !ok || ld.Op != token.MUL {
				return false
			}
			fa, ok := ld.X.(*ssa.FieldAddr)
			return ok && fieldNameOf(fa) == fld
		}
		f := an.Facts{}
		n := negFacts(fn, isP, f, 2)
		reach := an.Explore(fn, nil, f, nil)
		bad := false
		for _, ret := range reach.Returns() {
			for _, alt := range reach.Alts(ret) {
				if reach.EvalAlt(alt, 0) != an.False {
					bad = true
				}
			}
		}
		r.Check(n > 0 && !bad, "VALIDATE", fkey(fn)+"/rejects-negative/"+fld, c.Pos(fn.Pos()), "a negative "+fld+" is rejected", sprintf("a strategy with a negative %s can be reported valid (%d tests of the field recognised): the formulas multiply capacity by it, publishing a negative (or cap-less) amount", fld, n))
	}
}

// c09hostapps: host applications above batch priority are charged as system usage, at node and at zone level.
func c09hostapps(c *Ctx) {
	r := c.R
	r.Rule("FLOW(host applications): at node level and at NUMA level the system-usage argument of CalculateBatchResourceByPolicy derives from GetHostAppHPUsed(..) (through Add and, per zone, DivideResourceList; for the per-zone slices: every value stored into the slice the argument is read from)")
	for _, name := range []string{"calculateOnNode", "calculateOnNUMALevel"} {
		fn := c.Fn(batchPkg, "Plugin", name)
		if fn == nil {
			continue
		}
		n := 0
		for _, cl := range an.Calls(fn, false) {
			if an.ShortCallee(cl.Common()) != "CalculateBatchResourceByPolicy" || len(cl.Common().Args) < 5 {
				continue
			}
			n++
			arg := cl.Common().Args[4]
			hasHost := func(v ssa.Value) bool {
				for x := range backwardAll(v) {
					if call, ok := x.(*ssa.Call); ok && an.ShortCallee(&call.Call) == "GetHostAppHPUsed" {
						return true
					}
				}
				return false
			}
			ok := hasHost(arg)
			if !ok {
				// read from a per-zone slice: look at what is stored into that slice
				if ld, isL := arg.(*ssa.UnOp); isL {
					if ia, isIA := ld.X.(*ssa.IndexAddr); isIA {
						stores, all := 0, true
						for _, b := range fn.Blocks {
							for _, in := range b.Instrs {
								st, isSt := in.(*ssa.Store)
								if !isSt {
									continue
								}
								if ia2, isIA2 := st.Addr.(*ssa.IndexAddr); isIA2 && ia2.X == ia.X {
									stores++
									if !hasHost(st.Val) {
										all = false
									}
								}
							}
						}
						ok = stores > 0 && all
					}
				}
			}
			r.Check(ok, "FLOW", fkey(fn)+"/system-usage-includes-host-apps", c.InstrPos(cl), "host applications are charged as system usage", "the system usage handed to the formula does not include the usage of host applications above batch priority ("+an.Path(arg)+"): raising that usage no longer lowers the published amount")
		}
		if n == 0 {
			r.Unknown("FLOW", fkey(fn)+"/system-usage-includes-host-apps", c.Pos(fn.Pos()), "formula call not found")
		}
	}
}

// c09labels: a node's ratio label is honoured for every non-negative value, zero included.
func c09labels(c *Ctx) {
	r := c.R
	r.Decides("a node ratio label that parses to a non-negative number - zero included - overrides the cluster value (a label of 0 means 'reclaim nothing'; dropping it publishes the cluster-wide amount on a node whose margin is its whole capacity)")
	r.Rule("PATH(label boundary): in sloconfig.getNodeReclaimPercent no nil return is guarded by a comparison of the parsed ratio with 0 that also holds at equality (<=, ==, >= 0 and their mirrored forms); the rejection test is strictly 'below zero'; with the label present, parsed and not below zero the result is non-nil")
	fn := c.Fn("pkg/util/sloconfig", "", "getNodeReclaimPercent")
	if fn == nil {
		return
	}
	var parse *ssa.Call
	for _, cl := range an.Calls(fn, false) {
		if call, ok := cl.(*ssa.Call); ok && an.ShortCallee(&call.Call) == "ParseFloat" {
			parse = call
		}
	}
	if parse == nil {
		r.Unknown("PATH", fkey(fn)+"/zero-honoured", c.Pos(fn.Pos()), "the label is not parsed with strconv.ParseFloat: unknown idiom")
		return
	}
	val := extract(parse, 0)
	isZero := func(v ssa.Value) bool {
		k, ok := v.(*ssa.Const)
		if !ok || k.Value == nil {
			return false
		}
		f, _ := constant.Float64Val(constant.ToFloat(k.Value))
		return f == 0 && (k.Value.Kind() == constant.Float || k.Value.Kind() == constant.Int)
	}
	nTests, bad := 0, ""
	facts := an.Facts{extract(parse, 1): an.Nil}
	for _, b := range fn.Blocks {
		for _, in := range b.Instrs {
			bo, ok := in.(*ssa.BinOp)
			if !ok {
				continue
			}
			op := bo.Op
			switch {
			case bo.X == val && isZero(bo.Y):
			case bo.Y == val && isZero(bo.X):
				switch op { // mirror: 0 OP v
				case token.LSS:
					op = token.GTR
				case token.LEQ:
					op = token.GEQ
				case token.GTR:
					op = token.LSS
				case token.GEQ:
					op = token.LEQ
				}
			default:
				continue
			}
			nTests++
			// the outcome of "v OP 0" for a v that is not below zero is known only for < and >=
			switch op {
			case token.LSS:
				facts[bo] = an.False
			case token.GEQ:
				facts[bo] = an.True
			default:
				bad = sprintf("%s: the parsed ratio is tested with '%s 0', which separates 0 from the positive values", c.InstrPos(bo), op)
			}
		}
	}
	for _, lk := range lookupsOf(fn, ".Labels") {
		facts[extract(lk, 1)] = an.True
	}
	for _, b := range fn.Blocks {
		for _, in := range b.Instrs {
			if bo, ok := in.(*ssa.BinOp); ok && an.IsNilConst(bo.Y) && strings.HasSuffix(an.Path(bo.X), ".Labels") {
				if bo.Op == token.EQL {
					facts[bo] = an.False
				} else if bo.Op == token.NEQ {
					facts[bo] = an.True
				}
			}
		}
	}
	reach := an.Explore(fn, nil, facts, nil)
	nonNil := true
	n := 0
	for _, ret := range reach.Returns() {
		for _, alt := range reach.Alts(ret) {
			n++
			if an.IsNilConst(alt.Results[0]) {
				nonNil = false
			}
		}
	}
	r.Check(nTests >= 1 && bad == "" && nonNil && n > 0, "PATH", fkey(fn)+"/zero-honoured", c.Pos(fn.Pos()), "only a ratio below zero is rejected", sprintf("a non-negative ratio label can be dropped (%d tests of the parsed value against 0; %s; nil reachable for a parsed, non-negative value=%v)", nTests, bad, !nonNil))
}

// c09inputs: the calculated result is not rewritten while it is published, and the node's ratio labels always apply.
func c09inputs(c *Ctx) {
	r := c.R
	r.Decides("publishing the zone amounts writes nothing into the calculated NodeResource (the retry loop applies the same result to a freshly read object after a conflict: an in-place amplification would be applied twice); the node's reclaim-ratio labels override the strategy on every path, also when the node's strategy annotation does not parse")
	r.Rule("EFFECT(published result is read-only): util.UpdateNRTZoneListIfNeeded performs no store, map update or delete on anything reachable from its *NodeResource parameter (directly or in in-package callees, two levels)")
	if fn := c.Fn(resutilPkg, "", "UpdateNRTZoneListIfNeeded"); fn != nil {
		var nr *ssa.Parameter
		for _, p := range fn.Params {
			if strings.HasSuffix(p.Type().String(), ".NodeResource") {
				nr = p
			}
		}
		if nr == nil {
			r.Unknown("EFFECT", fkey(fn)+"/result-read-only", c.Pos(fn.Pos()), "no *NodeResource parameter: unknown idiom")
		} else {
			es := an.DeepEffects(fn, nr, map[string]bool{"Add": true, "Sub": true, "Set": true, "Insert": true, "Delete": true}, 2)
			// writes through a map read from the result: zoneResource := nr.ZoneResources[z]; zoneResource[k] = v
			for _, b := range fn.Blocks {
				for _, in := range b.Instrs {
					if mu, ok := in.(*ssa.MapUpdate); ok {
						for x := range backwardAll(mu.Map) {
							if x == ssa.Value(nr) {
								es = append(es, an.Effect{Op: "mapstore", Instr: mu})
							}
						}
					}
				}
			}
			var ss []string
			for _, e := range es {
				ss = append(ss, c.InstrPos(e.Instr))
			}
			r.Check(len(es) == 0, "EFFECT", fkey(fn)+"/result-read-only", c.Pos(fn.Pos()), "nothing reachable from the calculated result is written", "the calculated NodeResource is modified while it is being published (at "+strings.Join(ss, ", ")+"): after a conflict the retry applies the already modified result again (e.g. zone batch-cpu amplified twice)")
		}
	}

	r.Rule("PATH(labels always apply): in sloconfig.UpdateColocationStrategyForNode each of the getNodeReclaimPercent(node, <label>) calls is reached on every path from the entry (the label overrides are independent of the node's strategy annotation; a parse error of the annotation must not skip them)")
	if fn := c.Fn("pkg/util/sloconfig", "", "UpdateColocationStrategyForNode"); fn != nil {
		n := 0
		for _, cl := range an.Calls(fn, false) {
			if an.ShortCallee(cl.Common()) != "getNodeReclaimPercent" {
				continue
			}
			n++
			target := cl
			label := "?"
			if s, ok := constString(cl.Common().Args[1]); ok {
				label = s[strings.LastIndex(s, "/")+1:]
			}
			reach := an.Explore(fn, nil, nil, func(in ssa.Instruction) bool { return in == ssa.Instruction(target) })
			r.Check(len(reach.Returns()) == 0, "PATH", fkey(fn)+"/label-applies/"+label, c.InstrPos(cl), "read on every path", "the node label "+label+" is not consulted on every path (e.g. skipped when the node's strategy annotation does not parse): a node that restricts reclaiming by label is calculated with the cluster-wide ratio")
		}
		r.Floor("PATH", "ratio labels consulted in UpdateColocationStrategyForNode", n, 4)
	}
}

// valueArms: the branch outcomes under which each alternative of a merged value was chosen (one empty arm for a value
// that is not a merge inside the loop).
func valueArms(v ssa.Value, hdr *ssa.BasicBlock, depth int) [][]an.Guard {
	phi, ok := v.(*ssa.Phi)
	if !ok || depth > 3 || phi.Block() == hdr || !hdr.Dominates(phi.Block()) {
		return [][]an.Guard{nil}
	}
	var out [][]an.Guard
	for k, e := range phi.Edges {
		pred := phi.Block().Preds[k]
		gs := an.BlockGuards(pred)
		if pi, ok := pred.Instrs[len(pred.Instrs)-1].(*ssa.If); ok && len(pred.Succs) == 2 && pred.Succs[0] != pred.Succs[1] {
			pc, neg := an.StripNot(pi.Cond)
			t := pred.Succs[0] == phi.Block()
			if neg {
				t = !t
			}
			gs = append(gs, an.Guard{Cond: pc, Truth: t, If: pi})
		}
		if an.IsNilConst(e) {
			continue // 'nothing to charge' exits of an extracted decision: not reached by the charge
		}
		for _, sub := range valueArms(e, hdr, depth+1) {
			out = append(out, append(append([]an.Guard{}, gs...), sub...))
		}
	}
	return out
}
