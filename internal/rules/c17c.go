package rules

import (
	"golang.org/x/tools/go/ssa"

	"kverif/internal/an"
)

// c17delete: a reservation that was found is deleted.
func c17delete(c *Ctx) {
	r := c.R
	r.Rule("PATH(found => deleted): in interpreterImpl.DeleteReservation, once GetReservation returned without error, no return is reachable without Client.Delete (no further condition - a reference by name only carries no UID to compare)")
	fn := c.Fn("pkg/descheduler/controllers/migration/reservation", "interpreterImpl", "DeleteReservation")
	if fn == nil {
		return
	}
	var get ssa.CallInstruction
	for _, cl := range an.Calls(fn, false) {
		if an.ShortCallee(cl.Common()) == "GetReservation" {
			get = cl
		}
	}
	if get == nil {
		r.Fail("PATH", fkey(fn)+"/found=>deleted", c.Pos(fn.Pos()), "GetReservation is not called")
		return
	}
	facts := an.Facts{}
	if e := extract(get.Value(), 1); e != nil {
		facts[e] = an.Nil
	}
	if e := extract(get.Value(), 0); e != nil {
		facts[e] = an.NonNil
	}
	reach := an.Explore(fn, an.After(get), facts, func(in ssa.Instruction) bool {
		cl, ok := in.(ssa.CallInstruction)
		return ok && cl.Common().IsInvoke() && cl.Common().Method.Name() == "Delete"
	})
	r.Check(len(facts) == 2 && len(reach.Returns()) == 0, "PATH", fkey(fn)+"/found=>deleted", c.InstrPos(get), "a found reservation is always deleted", "a reservation that was found can be left alone: a job that refers to its reservation by name only (no UID) times out while the reservation stays and keeps holding resources")
}
