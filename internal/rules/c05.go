package rules

import (
	"go/token"
	"sort"
	"strings"

	"golang.org/x/tools/go/ssa"

	"kverif/internal/an"
)

func init() { Registry["C05"] = c05 }

const (
	fwextPkg = "pkg/scheduler/frameworkext"
	resvPkg  = "pkg/scheduler/plugins/reservation"
)

func c05(c *Ctx) {
	c05updateIsRemoveThenAdd(c)
	c.R.Rule("FRESH(clone): ReservationInfo.Clone gives the clone its own AssignedPods map on every path, also for a reservation with no assigned pod yet")
	freshCloneField(c, c.Fn(fwextPkg, "ReservationInfo", "Clone"), "AssignedPods", "a pod added on either side appears on the other without its allocation, so allocated no longer equals the sum of the assigned pods and the real add is skipped as a repeat")
	r := c.R
	r.Rule("PATH(tombstone): the delete handler treats a cache.DeletedFinalStateUnknown (delivered by value) like the object inside it: both reach the release, and no assertion to the pointer type exists")
	c.Tombstone("PATH", resvPkg, "podEventHandler", "OnDelete", "deletePod")
	r.Decides("AddAssignedPod and RemoveAssignedPod update the same ledgers (Allocated, AssignedPods) with dual operations on the same masked amount, and recompute the derived figures; only the listed functions assign Allocated, the updaters only by masking it")
	r.Decides("deleting a reservation from the primary map deletes its uid from all three node indexes before returning; a uid enters the matchable index only for a matchable reservation and the allocated index only for a matchable reservation with assigned pods; the three refresh blocks agree")
	r.Decides("a restricted reservation is reported fitting only through fitsReservation returning no reason; in fitsReservation every reserved, requested, non-ignored dimension reaches the comparison, and the non-negative clamp of the used amount comes after the preemptible credit")
	r.Decides("IsMatchable is false for an allocate-once reservation that already has a pod; a pod is matched only if reservations are ignored for it or MatchOwners(pod) holds; default-mode pre-allocation requires MatchOwners")
	r.Decides("UpdateReservation/UpdatePod re-derive every object-derived field (owner matchers, parse error, resource names, ...) on every path, so nothing of the previous version of the object survives an update")
	r.Decides("whenever Allocatable, Allocated or Reserved of a ReservationInfo is assigned, the pre-calculated figures (Available, AllocatedResource, ...) are recomputed or copied before the function returns")
	r.Decides("a per-node entry of a two-level index is dropped only when its inner map is empty (never on a count taken before the uid was removed), so no live reservation disappears from the index")
	r.Decides("the cache maps are accessed only under cache.lock")
	r.Declines("the quantity comparison itself and the sums over histories")

	c05mirror(c)
	c05events(c)
	c05indexes(c)
	c05fit(c)
	c05match(c)
	c05refresh(c)
	c05derived(c)
	c05prune(c)
	c05owners(c)
	c05deleteByEvent(c)
	c05values(c)
	c05releaseFirst(c)

	r.Rule("LOCK: reservationCache.{reservationInfos,reservationsOnNode,matchableOnNode,allocatedOnNode,preAllocatablePodsOnNode} are read under lock and written under the write lock")
	c.RunLock("LOCK", LockCfg{Pkg: resvPkg, Type: "reservationCache", Mutex: "lock",
		Guarded: []string{"reservationInfos", "reservationsOnNode", "matchableOnNode", "allocatedOnNode", "preAllocatablePodsOnNode"}, MinFuncs: 15,
		Exempt: map[string]string{"pkg/scheduler/plugins/reservation.newReservationCache": "constructor: the object is not shared yet"}})
}

func c05mirror(c *Ctx) {
	r := c.R
	r.Rule("MIRROR: AddAssignedPod stores Allocated = Add(Allocated, Mask(requirement.Requests, ResourceNames)) and AssignedPods[uid]; RemoveAssignedPod stores Allocated = SubtractWithNonNegativeResult(Allocated, Mask(<stored requirement>.Requests, ResourceNames)) and deletes AssignedPods[uid]; both call RefreshPreCalculated after changing Allocated")
	add := c.Fn(fwextPkg, "ReservationInfo", "AddAssignedPod")
	rem := c.Fn(fwextPkg, "ReservationInfo", "RemoveAssignedPod")
	if add == nil || rem == nil {
		return
	}
	ea := an.Effects(add, an.Receiver(add), nil)
	er := an.Effects(rem, an.Receiver(rem), nil)
	find := func(es []an.Effect, root, op string) *an.Effect {
		for i := range es {
			if es[i].Chain.First() == root && es[i].Op == op {
				return &es[i]
			}
		}
		return nil
	}
	aAlloc, rAlloc := find(ea, "Allocated", "store"), find(er, "Allocated", "store")
	okA := aAlloc != nil && strings.HasPrefix(aAlloc.Val, "Add(.Allocated,") && strings.Contains(aAlloc.Val, "Mask")
	okR := rAlloc != nil && strings.HasPrefix(rAlloc.Val, "SubtractWithNonNegativeResult(.Allocated,") && strings.Contains(rAlloc.Val, "Mask")
	r.Check(okA && okR, "MIRROR", "ReservationInfo.AddAssignedPod~RemoveAssignedPod/Allocated", c.Pos(add.Pos()), "Allocated: Add(masked) <-> SubtractWithNonNegativeResult(masked)",
		sprintf("Allocated is not updated by dual operations: add=%v remove=%v", valOf(aAlloc), valOf(rAlloc)))
	// the masks: Mask(X.Requests, ri.ResourceNames) on both sides
	maskArgs := func(fn *ssa.Function) []string {
		var out []string
		for _, cl := range an.Calls(fn, false) {
			if an.ShortCallee(cl.Common()) == "Mask" {
				a := cl.Common().Args
				out = append(out, an.Path(a[0])+" | "+an.Path(a[1]))
			}
		}
		return out
	}
	ma, mr := maskArgs(add), maskArgs(rem)
	okM := len(ma) == 1 && len(mr) == 1 && strings.Contains(ma[0], ".Requests") && strings.HasSuffix(ma[0], ".ResourceNames") && strings.Contains(mr[0], ".Requests") && strings.HasSuffix(mr[0], ".ResourceNames") && strings.Contains(mr[0], "AssignedPods")
	r.Check(okM, "MIRROR", "ReservationInfo.AddAssignedPod~RemoveAssignedPod/masked-amount", c.Pos(rem.Pos()), "both sides mask the pod requirement's Requests by ResourceNames; removal uses the stored requirement",
		sprintf("the amounts differ: add masks %v, remove masks %v", ma, mr))
	r.Check(find(ea, "AssignedPods", "mapstore") != nil && find(er, "AssignedPods", "mapdelete") != nil, "MIRROR", "ReservationInfo.AddAssignedPod~RemoveAssignedPod/AssignedPods", c.Pos(add.Pos()), "AssignedPods: store <-> delete", "AssignedPods is not stored on add and deleted on remove")
	// stored requirement is what was added
	if e := find(ea, "AssignedPods", "mapstore"); e != nil {
		mu := e.Instr.(*ssa.MapUpdate)
		call, _ := an.ResultOfCall(mu.Value)
		r.Check(call != nil && an.ShortCallee(&call.Call) == "NewPodRequirement", "FLOW", "ReservationInfo.AddAssignedPod/stored-requirement", c.InstrPos(mu), "the stored requirement is the one whose Requests were added", "the requirement stored for the pod is not the one that was added to Allocated")
	}
	// refresh after Allocated store
	for _, x := range []struct {
		fn *ssa.Function
		e  *an.Effect
	}{{add, aAlloc}, {rem, rAlloc}} {
		if x.e == nil {
			continue
		}
		var refresh []ssa.Instruction
		for _, cl := range an.Calls(x.fn, false) {
			if an.ShortCallee(cl.Common()) == "RefreshPreCalculated" {
				refresh = append(refresh, cl)
			}
		}
		isRef := map[ssa.Instruction]bool{}
		for _, i := range refresh {
			isRef[i] = true
		}
		reach := an.Explore(x.fn, an.After(x.e.Instr), nil, func(in ssa.Instruction) bool { return isRef[in] })
		r.Check(len(reach.Returns()) == 0, "TYPESTATE", fkey(x.fn)+"/Allocated=>RefreshPreCalculated", c.InstrPos(x.e.Instr), "derived figures recomputed after every change of Allocated", "Allocated changes but a return is reachable without RefreshPreCalculated (Available would be stale)")
	}
	// who may assign Allocated
	r.Rule("WRITESET: within frameworkext only AddAssignedPod, RemoveAssignedPod, UpdateReservation, UpdatePod, Clone and the constructors store ReservationInfo.Allocated; UpdateReservation/UpdatePod store Mask(Allocated, names)")
	allowed := map[string]bool{"AddAssignedPod": true, "RemoveAssignedPod": true, "UpdateReservation": true, "UpdatePod": true, "Clone": true, "NewReservationInfo": true, "NewReservationInfoFromPod": true}
	n := 0
	for _, fn := range c.P.AllFuncs() {
		for _, b := range fn.Blocks {
			for _, in := range b.Instrs {
				st, ok := in.(*ssa.Store)
				if !ok {
					continue
				}
				owner, f, _, ok := an.FieldOf(st.Addr)
				if !ok || f != "Allocated" || !strings.HasSuffix(owner, "frameworkext.ReservationInfo") {
					continue
				}
				n++
				name := fn.Name()
				if fn.Parent() != nil {
					name = fn.Parent().Name()
				}
				key := fkey(fn) + "/stores-Allocated"
				if !allowed[name] {
					r.Fail("WRITESET", key, c.InstrPos(st), "ReservationInfo.Allocated is assigned outside the ledger functions")
					continue
				}
				if name == "UpdateReservation" || name == "UpdatePod" {
					call, _ := an.ResultOfCall(st.Val)
					okMask := call != nil && an.ShortCallee(&call.Call) == "Mask" && strings.HasSuffix(an.Path(call.Call.Args[0]), ".Allocated")
					r.Check(okMask, "WRITESET", key, c.InstrPos(st), "re-masks the existing Allocated", "an updater overwrites Allocated with something other than Mask(Allocated, names)")
				} else {
					r.OK("WRITESET", key, c.InstrPos(st), "ledger function")
				}
			}
		}
	}
	r.Floor("WRITESET", "stores of ReservationInfo.Allocated", n, 4)
}

// c05events: an update event of a pod that carries a reservation assignment always reaches cache.updatePod
// (remove-then-add of the pod's requirement), whatever the old object was.
func c05events(c *Ctx) {
	r := c.R
	r.Rule("PATH: in podEventHandler.updatePod, once the new pod's reservation assignment was read as non-nil, no return is reachable without calling cache.updatePod(oldUID, newUID, oldPod, newPod)")
	fn := c.Fn(resvPkg, "podEventHandler", "updatePod")
	if fn == nil {
		return
	}
	var call ssa.CallInstruction
	for _, cl := range an.Calls(fn, false) {
		if f := cl.Common().StaticCallee(); f != nil && f.Name() == "updatePod" && f.Signature.Recv() != nil && isNamedType(f.Signature.Recv().Type(), "reservationCache") {
			call = cl
		}
	}
	key := fkey(fn) + "/assigned=>cache.updatePod"
	if call == nil {
		r.Fail("PATH", key, c.Pos(fn.Pos()), "cache.updatePod is no longer called from the pod update handler")
		return
	}
	uidCall, _ := an.ResultOfCall(call.Common().Args[2])
	if uidCall == nil || len(uidCall.Call.Args) == 0 {
		r.Unknown("PATH", key, c.InstrPos(call), "the new reservation uid argument is not a GetUID() call: unknown idiom")
		return
	}
	newR := uidCall.Call.Args[0]
	phi, ok := newR.(*ssa.Phi)
	if !ok {
		r.Unknown("PATH", key, c.InstrPos(call), "the new reservation assignment is not a merged local (phi): unknown idiom")
		return
	}
	facts := an.Facts{}
	for _, ref := range *phi.Referrers() {
		if bo, ok := ref.(*ssa.BinOp); ok && an.IsNilConst(bo.Y) {
			if bo.Op == token.NEQ {
				facts[bo] = an.True
			} else if bo.Op == token.EQL {
				facts[bo] = an.False
			}
		}
	}
	reach := an.Explore(fn, &an.Start{Block: phi.Block(), Index: 0}, facts, func(in ssa.Instruction) bool { return in == ssa.Instruction(call) })
	var bad []string
	for _, ret := range reach.Returns() {
		bad = append(bad, c.InstrPos(ret))
	}
	r.Check(len(bad) == 0 && len(facts) > 0, "PATH", key, c.InstrPos(call), "every update of an assigned pod is replayed into the reservation ledger",
		"an update event of a pod assigned to a reservation can return at "+strings.Join(bad, ",")+" without cache.updatePod: a changed request (in-place resize) or a pod whose reservation arrived later is never accounted")
}

func valOf(e *an.Effect) string {
	if e == nil {
		return "<none>"
	}
	return e.Val
}

func c05indexes(c *Ctx) {
	r := c.R
	r.Rule("PATH(coupled delete): in every reservationCache function that deletes from reservationInfos, from behind that delete no return is reachable before the uid was deleted from reservationsOnNode (deleteReservationOnNode), matchableOnNode and allocatedOnNode (the inner-map deletes may be skipped only under the inner map being nil)")
	nDel := 0
	for _, fn := range c.PkgFuncs(resvPkg) {
		recv := an.Receiver(fn)
		if recv == nil || !isNamedType(recv.Type(), "reservationCache") {
			continue
		}
		effs := an.Effects(fn, recv, nil)
		for _, e := range effs {
			if e.Op != "mapdelete" || e.Chain.First() != "reservationInfos" {
				continue
			}
			nDel++
			for _, idx := range []string{"reservationsOnNode", "matchableOnNode", "allocatedOnNode"} {
				key := sprintf("%s/delete-primary=>delete:%s", fkey(fn), idx)
				isDel := map[ssa.Instruction]bool{}
				if idx == "reservationsOnNode" {
					for _, cl := range an.Calls(fn, false) {
						if an.ShortCallee(cl.Common()) == "deleteReservationOnNode" {
							isDel[cl] = true
						}
					}
				}
				for _, e2 := range effs {
					if e2.Op == "mapdelete" && e2.Chain.First() == idx && len(e2.Chain.Elems) == 3 {
						isDel[e2.Instr] = true
					}
				}
				// the inner map nil test allows skipping
				facts := an.Facts{}
				for _, b := range fn.Blocks {
					for _, in := range b.Instrs {
						if bo, ok := in.(*ssa.BinOp); ok && bo.Op == token.NEQ && an.IsNilConst(bo.Y) {
							if lk, ok := bo.X.(*ssa.Lookup); ok {
								for _, ch := range an.Chains(lk.X) {
									if ch.Root == ssa.Value(recv) && ch.First() == idx {
										facts[bo] = an.True
									}
								}
							}
						}
					}
				}
				reach := an.Explore(fn, an.After(e.Instr), facts, func(in ssa.Instruction) bool { return isDel[in] })
				r.Check(len(isDel) > 0 && len(reach.Returns()) == 0, "PATH", key, c.InstrPos(e.Instr), "index entry removed together with the primary entry",
					"the reservation is removed from reservationInfos but a return is reachable without removing its uid from "+idx+": the node index would reference a reservation that no longer exists")
			}
		}
	}
	r.Floor("PATH", "deletes from reservationInfos", nDel, 2)

	r.Rule("PATH(index admission): every store of a uid into matchableOnNode[node] is dominated by IsMatchable()==true; into allocatedOnNode[node] by IsMatchable()==true and GetAllocatedPods()>0; the reservation object used was looked up non-nil or inserted in reservationInfos")
	type vecT = map[string][]string
	vec := map[string]vecT{}
	nIns := 0
	for _, fn := range c.PkgFuncs(resvPkg) {
		recv := an.Receiver(fn)
		if recv == nil || !isNamedType(recv.Type(), "reservationCache") {
			continue
		}
		for _, e := range an.Effects(fn, recv, nil) {
			first := e.Chain.First()
			if first != "matchableOnNode" && first != "allocatedOnNode" {
				continue
			}
			if len(e.Chain.Elems) != 3 { // cache.idx[node][uid]
				continue
			}
			atoms := indexAtoms(an.Guards(e.Instr))
			if vec[fn.Name()] == nil {
				vec[fn.Name()] = vecT{}
			}
			vec[fn.Name()][first+":"+e.Op] = append(vec[fn.Name()][first+":"+e.Op], strings.Join(atoms, ","))
			if e.Op != "mapstore" {
				continue
			}
			nIns++
			have := map[string]bool{}
			for _, a := range atoms {
				have[a] = true
			}
			key := sprintf("%s/insert:%s", fkey(fn), first)
			ok := have["IsMatchable=T"]
			if first == "allocatedOnNode" {
				ok = ok && have["GetAllocatedPods>0"]
			}
			r.Check(ok, "PATH", key, c.InstrPos(e.Instr), "admitted under "+strings.Join(atoms, ","),
				"a uid is put into "+first+" without the required tests (IsMatchable, and for allocatedOnNode GetAllocatedPods()>0); guards: "+strings.Join(atoms, ","))
		}
	}
	r.Floor("PATH", "insertions into matchable/allocated indexes", nIns, 8)

	r.Rule("SIBLING: updateReservation, updateReservationIfExists and updateReservationOperatingPod perform the same index operations under the same IsMatchable / GetAllocatedPods conditions")
	canon := func(v vecT) string {
		var ks []string
		for k, l := range v {
			sort.Strings(l)
			ks = append(ks, k+"{"+strings.Join(l, "|")+"}")
		}
		sort.Strings(ks)
		return strings.Join(ks, " ")
	}
	ref := canon(vec["updateReservation"])
	for _, n := range []string{"updateReservationIfExists", "updateReservationOperatingPod"} {
		got := canon(vec[n])
		r.Check(got == ref && ref != "", "SIBLING", "reservationCache.updateReservation~"+n+"/index-refresh", "", "same refresh of the matchable/allocated indexes",
			"index refresh differs: updateReservation does {"+ref+"} but "+n+" does {"+got+"}")
	}
}

func indexAtoms(gs []an.Guard) []string {
	var atoms []string
	for _, g := range gs {
		t := "F"
		if g.Truth {
			t = "T"
		}
		if call, _ := an.ResultOfCall(g.Cond); call != nil && an.ShortCallee(&call.Call) == "IsMatchable" {
			atoms = append(atoms, "IsMatchable="+t)
			continue
		}
		if rel, ok := an.RelOf(g); ok {
			if call, _ := an.ResultOfCall(rel.X); call != nil && an.ShortCallee(&call.Call) == "GetAllocatedPods" {
				// canonical form: the relation that holds, with ">= 1" written "> 0" and "< 1" written "<= 0"
				op, y := rel.Op, an.Path(rel.Y)
				if k, isC := constIntOf(rel.Y); isC && k == 1 {
					if op == token.GEQ {
						op, y = token.GTR, "0"
					} else if op == token.LSS {
						op, y = token.LEQ, "0"
					}
				}
				atoms = append(atoms, "GetAllocatedPods"+op.String()+y)
				continue
			}
		}
	}
	sort.Strings(atoms)
	return atoms
}

func c05fit(c *Ctx) {
	r := c.R
	r.Rule("PATH: in fitsNodeAndReservation, with allocate policy == Restricted, a (nil,nil) return is unreachable unless len(fitsReservation(...)) <= 0; fitsReservation is called with the pod's requests, the reservation and the preemptible amount of that reservation")
	if fn := c.Fn(resvPkg, "", "fitsNodeAndReservation"); fn != nil {
		key := fkey(fn)
		calls := an.CallsTo(fn, false, "github.com/koordinator-sh/koordinator/"+resvPkg+".fitsReservation")
		if len(calls) != 1 {
			r.Fail("PATH", key+"/restricted", c.Pos(fn.Pos()), sprintf("expected one fitsReservation call, found %d", len(calls)))
		} else {
			// facts: policy compared equal to Restricted; not equal to Default/Aligned; len(result) <= 0 false
			facts := an.Facts{}
			nPol := 0
			for _, b := range fn.Blocks {
				for _, in := range b.Instrs {
					bo, ok := in.(*ssa.BinOp)
					if !ok {
						continue
					}
					p := an.Path(bo)
					switch {
					case bo.Op == token.EQL && strings.Contains(p, `"Restricted"`):
						facts[bo] = an.True
						nPol++
					case bo.Op == token.EQL && (strings.Contains(p, `"Aligned"`) || strings.Contains(p, `== ""`)):
						facts[bo] = an.False
					case strings.Contains(p, "fitsReservation("):
						// any test of "the list of reasons is empty": here it is not
						if _, emptyWhenTrue, ok := lenZeroTest(bo); ok {
							facts[bo] = an.False
							if !emptyWhenTrue {
								facts[bo] = an.True
							}
						}
					}
				}
			}
			reach := an.Explore(fn, nil, facts, nil)
			var bad []string
			for _, ret := range reach.Returns() {
				for _, alt := range reach.Alts(ret) {
					if an.IsNilConst(alt.Results[0]) && an.IsNilConst(alt.Results[1]) {
						bad = append(bad, c.InstrPos(ret))
					}
				}
			}
			r.Check(nPol == 1 && len(bad) == 0, "PATH", key+"/restricted", c.InstrPos(calls[0]), "a restricted reservation fits only if fitsReservation has no reason",
				sprintf("for a restricted reservation whose fitsReservation reported reasons, a 'fits' return is reachable at %v (policy comparisons found: %d)", bad, nPol))
			a := calls[0].Common().Args
			r.Check(an.Path(a[0]) == "podRequests" && an.Path(a[1]) == "rInfo" && an.Path(a[2]) == "preemptibleInRR", "FLOW", key+"/restricted/arguments", c.InstrPos(calls[0]), "fit check gets the pod's requests, the reservation and its preemptible amount",
				"fitsReservation is called with ("+an.Path(a[0])+", "+an.Path(a[1])+", "+an.Path(a[2])+")")
		}
	}
	r.Rule("PATH: in fitsReservation the loop over rInfo.ResourceNames reaches requested.Cmp(remained) for every name that is requested (found and non-zero) and not ignored; remained derives from Allocatable minus Reserved minus used, used from rInfo.Allocated minus the preemptible credit; no Sub on 'used' happens after the non-negative clamp test")
	if fn := c.Fn(resvPkg, "", "fitsReservation"); fn != nil {
		key := fkey(fn)
		var cmp, sign ssa.CallInstruction
		var subsUsed []ssa.CallInstruction
		// the clamped quantity is identified structurally: the receiver of the one Sign() call; its Sub calls are the credits
		nSign := 0
		for _, cl := range an.Calls(fn, false) {
			switch an.ShortCallee(cl.Common()) {
			case "Cmp":
				cmp = cl
			case "Sign":
				sign = cl
				nSign++
			}
		}
		if nSign != 1 {
			sign = nil
		}
		if sign != nil {
			usedObj := an.Path(sign.Common().Args[0])
			for _, cl := range an.Calls(fn, false) {
				if an.ShortCallee(cl.Common()) == "Sub" && an.Path(cl.Common().Args[0]) == usedObj {
					subsUsed = append(subsUsed, cl)
				}
			}
		}
		if cmp == nil || sign == nil {
			r.Fail("PATH", key+"/shape", c.Pos(fn.Pos()), "comparison requested.Cmp(remained) or the non-negative clamp of 'used' not found")
			return
		}
		// guards of the comparison: only skip conditions: ignored, not found, zero
		var extra []string
		for _, g := range an.Guards(cmp) {
			p := an.Path(g.Cond)
			switch {
			case strings.Contains(p, "isResourceIgnored") && !g.Truth:
			case strings.Contains(p, "IsZero") && !g.Truth:
			case isCommaOk(g.Cond) && g.Truth:
			case strings.Contains(p, "builtin.len(") || isRangeOk(g.Cond):
			default:
				extra = append(extra, p)
			}
		}
		r.Check(len(extra) == 0, "PATH", key+"/every-dimension-compared", c.InstrPos(cmp), "only ignored / unrequested dimensions skip the comparison", "the comparison is skipped under additional conditions: "+strings.Join(extra, "; "))
		// operands
		var fromAllocatable, fromAllocated, fromReserved bool
		for x := range an.ForwardReach(fn.Params[1], nil) {
			switch p := an.Path(x); {
			case strings.HasSuffix(p, "rInfo.Allocatable"):
				fromAllocatable = true
			case strings.HasSuffix(p, "rInfo.Allocated"):
				fromAllocated = true
			case strings.HasSuffix(p, "rInfo.Reserved"):
				fromReserved = true
			}
		}
		r.Check(fromAllocatable && fromAllocated && fromReserved, "FLOW", key+"/operands", c.InstrPos(cmp), "the fit check reads the reservation's Allocatable, Allocated and Reserved",
			sprintf("the fit check no longer reads Allocatable (%v) / Allocated (%v) / Reserved (%v) of the reservation", fromAllocatable, fromAllocated, fromReserved))
		// clamp after credit
		reach := an.Explore(fn, an.After(sign), nil, func(in ssa.Instruction) bool { return in == ssa.Instruction(cmp) })
		bad := ""
		for _, s := range subsUsed {
			if reach.Reached(s) {
				bad = c.InstrPos(s)
			}
		}
		r.Check(bad == "" && len(subsUsed) >= 1, "PATH", key+"/clamp-after-credit", c.InstrPos(sign), "the used amount is clamped at zero after the preemptible credit",
			"the preemptible amount is subtracted from 'used' at "+bad+" after the non-negative clamp: 'used' can go negative and the remaining amount exceeds what the reservation reserved")
	}
}

func c05match(c *Ctx) {
	r := c.R
	r.Rule("PATH: IsMatchable returns true only if !(IsAllocateOnce() && GetAllocatedPods() > 0); checkReservationMatchedOrIgnored returns true only under isReservationIgnored or MatchOwners(pod)==true; checkPreAllocatableMatched in Default mode returns true only under MatchOwners(candidate)==true")
	if fn := c.Fn(fwextPkg, "ReservationInfo", "IsMatchable"); fn != nil {
		facts := an.Facts{}
		for _, cl := range an.Calls(fn, false) {
			switch an.ShortCallee(cl.Common()) {
			case "IsAllocateOnce":
				facts[cl.Value()] = an.True
			case "GetAllocatedPods":
				for _, ref := range *cl.Value().Referrers() {
					if bo, ok := ref.(*ssa.BinOp); ok && bo.Op == token.GTR {
						facts[bo] = an.True
					}
				}
			}
		}
		reach := an.Explore(fn, nil, facts, nil)
		bad := false
		for _, ret := range reach.Returns() {
			for _, alt := range reach.Alts(ret) {
				if reach.EvalAlt(alt, 0) != an.False {
					bad = true
				}
			}
		}
		r.Check(len(facts) == 2 && !bad, "PATH", fkey(fn)+"/allocate-once", c.Pos(fn.Pos()), "an allocate-once reservation with a pod is not matchable", "IsMatchable can return true for an allocate-once reservation that already has an assigned pod")
	}
	if fn := c.Fn(resvPkg, "", "checkReservationMatchedOrIgnored"); fn != nil {
		facts := an.Facts{}
		for _, p := range fn.Params {
			if p.Name() == "isReservationIgnored" {
				facts[p] = an.False
			}
		}
		n := 0
		for _, cl := range an.Calls(fn, false) {
			if an.ShortCallee(cl.Common()) == "MatchOwners" {
				facts[cl.Value()] = an.False
				n++
			}
		}
		reach := an.Explore(fn, nil, facts, nil)
		bad := false
		for _, ret := range reach.Returns() {
			for _, alt := range reach.Alts(ret) {
				if reach.EvalAlt(alt, 0) != an.False {
					bad = true
				}
			}
		}
		r.Check(n >= 1 && !bad, "PATH", fkey(fn)+"/owner-check", c.Pos(fn.Pos()), "no match without owner match (unless reservations are ignored for the pod)", "a pod can be matched to a reservation whose owner specification it does not satisfy")
	}
	if fn := c.Fn(resvPkg, "", "checkPreAllocatableMatched"); fn != nil {
		facts := an.Facts{}
		n := 0
		for _, cl := range an.Calls(fn, false) {
			if an.ShortCallee(cl.Common()) == "MatchOwners" {
				facts[cl.Value()] = an.False
				n++
			}
		}
		for _, b := range fn.Blocks {
			for _, in := range b.Instrs {
				if bo, ok := in.(*ssa.BinOp); ok && bo.Op == token.EQL && bo.X == ssa.Value(fn.Params[0]) {
					facts[bo] = an.True // Default mode
				}
			}
		}
		reach := an.Explore(fn, nil, facts, nil)
		bad := false
		for _, ret := range reach.Returns() {
			for _, alt := range reach.Alts(ret) {
				if reach.EvalAlt(alt, 0) != an.False {
					bad = true
				}
			}
		}
		r.Check(n >= 1 && !bad, "PATH", fkey(fn)+"/owner-check", c.Pos(fn.Pos()), "default-mode pre-allocation requires the owner match", "a pre-allocatable pod can be matched in default mode without satisfying the owner specification")
	}
}

// c05refresh: an update of the reservation object replaces every derived field.
func c05refresh(c *Ctx) {
	r := c.R
	r.Rule("COMPLETE(refresh): in ReservationInfo.UpdateReservation and UpdatePod every receiver field the function assigns from the new object (all stored fields except self-derived ones such as Allocated = Mask(Allocated,..)) is assigned on every path to the return; OwnerMatchers and ParseError are among them")
	for _, name := range []string{"UpdateReservation", "UpdatePod"} {
		fn := c.Fn("pkg/scheduler/frameworkext", "ReservationInfo", name)
		if fn == nil {
			continue
		}
		recv := an.Receiver(fn)
		stored := map[string]bool{}
		selfDerived := map[string]bool{}
		for _, b := range fn.Blocks {
			for _, in := range b.Instrs {
				st, ok := in.(*ssa.Store)
				if !ok {
					continue
				}
				fa, ok := st.Addr.(*ssa.FieldAddr)
				if !ok || fa.X != ssa.Value(recv) {
					continue
				}
				f := fieldNameOf(fa)
				stored[f] = true
				for x := range backwardAll(st.Val) {
					if ld, ok := x.(*ssa.UnOp); ok {
						if fa2, ok := ld.X.(*ssa.FieldAddr); ok && fa2.X == ssa.Value(recv) && fa2.Field == fa.Field {
							selfDerived[f] = true
						}
					}
				}
			}
		}
		for _, must := range []string{"OwnerMatchers", "ParseError", "ResourceNames", "Allocatable"} {
			if !stored[must] {
				r.Fail("COMPLETE", fkey(fn)+"/assigns/"+must, c.Pos(fn.Pos()), must+" is never assigned: the value derived from the previous version of the object survives the update")
			}
		}
		for _, f := range keysOf(stored) {
			if selfDerived[f] {
				continue
			}
			reach := an.Explore(fn, nil, nil, func(in ssa.Instruction) bool {
				st, ok := in.(*ssa.Store)
				if !ok {
					return false
				}
				fa, ok := st.Addr.(*ssa.FieldAddr)
				return ok && fa.X == ssa.Value(recv) && fieldNameOf(fa) == f
			})
			r.Check(len(reach.Returns()) == 0, "COMPLETE", fkey(fn)+"/assigns/"+f, c.Pos(fn.Pos()), f+" is assigned on every path", "the update can return without assigning "+f+": the value derived from the previous version of the object stays in effect (for OwnerMatchers: pods keep matching a reservation that no longer declares them as owners)")
		}
	}
}

// c05derived: the pre-calculated figures follow their inputs.
func c05derived(c *Ctx) {
	r := c.R
	r.Rule("TYPESTATE(derived figures): in package frameworkext, after every store to ReservationInfo.{Allocatable,Allocated,Reserved} no return is reachable without RefreshPreCalculated() or an explicit store of Available on the same object; objects still under construction in the same function are exempt because a nil Available is computed on first use by GetAvailable (fitsReservation and the scoring read Available / AllocatedResource, not the inputs)")
	inputs := map[string]bool{"Allocatable": true, "Allocated": true, "Reserved": true}
	n := 0
	for _, fn := range c.PkgFuncs("pkg/scheduler/frameworkext") {
		var last *ssa.Store
		var base ssa.Value
		cnt := 0
		for _, b := range fn.Blocks {
			for _, in := range b.Instrs {
				st, ok := in.(*ssa.Store)
				if !ok {
					continue
				}
				owner, f, bs, ok := an.FieldOf(st.Addr)
				if !ok || !strings.HasSuffix(owner, "frameworkext.ReservationInfo") || !inputs[f] {
					continue
				}
				if al, isAlloc := bs.(*ssa.Alloc); isAlloc && al.Heap {
					continue // object under construction: Available is still nil and GetAvailable computes it on first use
				}
				cnt++
				last, base = st, bs
				target := st
				reach := an.Explore(fn, an.After(target), nil, func(x ssa.Instruction) bool {
					if cl, ok := x.(ssa.CallInstruction); ok && an.ShortCallee(cl.Common()) == "RefreshPreCalculated" {
						return true
					}
					if s2, ok := x.(*ssa.Store); ok {
						if o2, f2, b2, ok := an.FieldOf(s2.Addr); ok && o2 == owner && f2 == "Available" && an.Path(b2) == an.Path(bs) {
							return true
						}
					}
					return false
				})
				n++
				r.Check(len(reach.Returns()) == 0, "TYPESTATE", sprintf("%s/%s#%d=>refresh", fkey(fn), f, cnt), c.InstrPos(st), "derived figures are refreshed before returning", "after ReservationInfo."+f+" was assigned a return is reachable without RefreshPreCalculated (or a copy of Available): Available / AllocatedResource keep describing the previous amounts, so a reservation looks emptier or fuller than it is")
			}
		}
		_, _ = last, base
	}
	r.Floor("TYPESTATE", "stores to the inputs of the pre-calculated figures", n, 6)
}

// c05prune: dropping the per-node entry of a two-level index.
func c05prune(c *Ctx) {
	r := c.R
	r.Rule("PATH(prune): in package reservation every delete(cache.<index>, node) on a two-level index (reservationsOnNode, matchableOnNode, allocatedOnNode) is dominated by len(<index>[node]) == 0 (or <= 0) on the same inner map; a test such as len <= 1 taken before the uid was removed drops live entries when the uid was not in the map")
	idx := map[string]bool{"reservationsOnNode": true, "matchableOnNode": true, "allocatedOnNode": true}
	n := 0
	for _, fn := range c.PkgFuncs(resvPkg) {
		k := 0
		for _, cl := range an.Calls(fn, false) {
			call, ok := cl.(*ssa.Call)
			if !ok || !an.IsBuiltinCall(call, "delete") {
				continue
			}
			m := call.Call.Args[0]
			_, f, _, isF := an.FieldOf(mapField(m))
			if !isF || !idx[f] {
				continue
			}
			n++
			k++
			empty := false
			for _, g := range an.Guards(call) {
				rel, isRel := an.RelOf(g)
				if !isRel {
					continue
				}
				lc, isLen := rel.X.(*ssa.Call)
				kc, isC := constIntOf(rel.Y)
				if !isLen || !isC || !an.IsBuiltinCall(lc, "len") {
					continue
				}
				// the inner map of the same index (looked up from the same field, possibly into a local)
				inner := false
				for x := range backwardAll(lc.Call.Args[0]) {
					if lk, ok := x.(*ssa.Lookup); ok {
						if _, f2, _, ok := an.FieldOf(mapField(lk.X)); ok && f2 == f {
							inner = true
						}
					}
				}
				if inner && ((rel.Op == token.EQL && kc == 0) || (rel.Op == token.LEQ && kc == 0) || (rel.Op == token.LSS && kc == 1)) {
					empty = true
				}
			}
			r.Check(empty, "PATH", sprintf("%s/prune:%s#%d", fkey(fn), f, k), c.InstrPos(call), "the node entry is dropped only when its inner map is empty", "the per-node entry of "+f+" is dropped without a dominating test that its inner map is empty: reservations still listed under the node vanish from the index")
		}
	}
	r.Floor("PATH", "per-node entry drops", n, 10)
}

// lenZeroTest recognises a comparison of len(x) with a constant that is a test for emptiness: len(x) <= 0, == 0,
// < 1 (empty when true) and len(x) > 0, != 0, >= 1 (empty when false), in either operand order.
func lenZeroTest(bo *ssa.BinOp) (arg ssa.Value, emptyWhenTrue bool, ok bool) {
	x, y, op := bo.X, bo.Y, bo.Op
	if _, isC := constIntOf(x); isC {
		x, y = y, x
		switch op {
		case token.LSS:
			op = token.GTR
		case token.GTR:
			op = token.LSS
		case token.LEQ:
			op = token.GEQ
		case token.GEQ:
			op = token.LEQ
		}
	}
	call, isCall := x.(*ssa.Call)
	if !isCall || !an.IsBuiltinCall(call, "len") {
		return nil, false, false
	}
	k, isC := constIntOf(y)
	if !isC {
		return nil, false, false
	}
	switch {
	case k == 0 && (op == token.LEQ || op == token.EQL), k == 1 && op == token.LSS:
		return call.Call.Args[0], true, true
	case k == 0 && (op == token.GTR || op == token.NEQ), k == 1 && op == token.GEQ:
		return call.Call.Args[0], false, true
	}
	return nil, false, false
}
