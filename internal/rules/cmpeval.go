package rules

import (
	"go/ast"
	"go/token"
	"go/types"
)

// evalLess evaluates a less(a, b) comparator literal for ONE assumed ordering of its keys: rel maps a
// field name to -1 / 0 / +1, the relation of the a-side value of that field to the b-side value. The
// comparator may only touch the two elements through comparisons of the same field on both sides
// (directly, or through locals bound to one element each). Since the result then depends on nothing
// but the finite set of orderings, evaluating the body for all of them decides what order the
// comparator defines, whatever way it is written (which test comes first, == or !=, early returns,
// nested ifs, && / ||). ok is false when the body uses anything else; the caller then falls back to
// its syntactic reading.
func evalLess(info *types.Info, lit *ast.FuncLit, rel map[string]int) (result bool, ok bool) {
	var params []types.Object
	for _, f := range lit.Type.Params.List {
		for _, n := range f.Names {
			params = append(params, info.Defs[n])
		}
	}
	if len(params) != 2 {
		return false, false
	}
	side := map[types.Object]int{params[0]: 1, params[1]: 2}
	sideOf := func(e ast.Expr) int {
		s := 0
		ast.Inspect(e, func(n ast.Node) bool {
			if id, isID := n.(*ast.Ident); isID {
				if v, has := side[info.Uses[id]]; has {
					if s != 0 && s != v {
						s = -1
					} else if s == 0 {
						s = v
					}
				}
			}
			return true
		})
		return s
	}
	var evalExpr func(e ast.Expr) (bool, bool)
	evalExpr = func(e ast.Expr) (bool, bool) {
		switch x := ast.Unparen(e).(type) {
		case *ast.UnaryExpr:
			if x.Op == token.NOT {
				v, k := evalExpr(x.X)
				return !v, k
			}
		case *ast.BinaryExpr:
			switch x.Op {
			case token.LAND, token.LOR:
				l, k1 := evalExpr(x.X)
				if !k1 {
					return false, false
				}
				if (x.Op == token.LAND && !l) || (x.Op == token.LOR && l) {
					return l, true
				}
				return evalExpr(x.Y)
			case token.LSS, token.GTR, token.LEQ, token.GEQ, token.EQL, token.NEQ:
				f := selName(x.X)
				sx, sy := sideOf(x.X), sideOf(x.Y)
				r, has := rel[f]
				if f == "" || f != selName(x.Y) || !has || sx <= 0 || sy <= 0 || sx == sy {
					return false, false
				}
				if sx == 2 {
					r = -r
				}
				switch x.Op {
				case token.LSS:
					return r < 0, true
				case token.GTR:
					return r > 0, true
				case token.LEQ:
					return r <= 0, true
				case token.GEQ:
					return r >= 0, true
				case token.EQL:
					return r == 0, true
				default:
					return r != 0, true
				}
			}
		case *ast.Ident:
			if x.Name == "true" || x.Name == "false" {
				return x.Name == "true", true
			}
		}
		return false, false
	}
	// returns (value, returned, ok)
	var evalStmts func(list []ast.Stmt) (bool, bool, bool)
	evalStmts = func(list []ast.Stmt) (bool, bool, bool) {
		for _, st := range list {
			switch x := st.(type) {
			case *ast.ReturnStmt:
				if len(x.Results) != 1 {
					return false, false, false
				}
				v, k := evalExpr(x.Results[0])
				return v, true, k
			case *ast.AssignStmt:
				if x.Tok != token.DEFINE || len(x.Lhs) != len(x.Rhs) {
					return false, false, false
				}
				for i, l := range x.Lhs {
					id, isID := l.(*ast.Ident)
					s := sideOf(x.Rhs[i])
					if !isID || s <= 0 {
						return false, false, false
					}
					side[info.Defs[id]] = s
				}
			case *ast.IfStmt:
				if x.Init != nil {
					if v, ret, k := evalStmts([]ast.Stmt{x.Init}); !k || ret {
						return v, ret, false
					}
				}
				cnd, k := evalExpr(x.Cond)
				if !k {
					return false, false, false
				}
				var branch []ast.Stmt
				if cnd {
					branch = x.Body.List
				} else if x.Else != nil {
					switch e := x.Else.(type) {
					case *ast.BlockStmt:
						branch = e.List
					default:
						branch = []ast.Stmt{e}
					}
				}
				if v, ret, k2 := evalStmts(branch); !k2 || ret {
					return v, ret, k2
				}
			case *ast.BlockStmt:
				if v, ret, k := evalStmts(x.List); !k || ret {
					return v, ret, k
				}
			default:
				return false, false, false
			}
		}
		return false, false, true
	}
	v, ret, k := evalStmts(lit.Body.List)
	return v, k && ret
}

// lessIsLexicographic decides, by evaluating the comparator for all 3^n orderings of its keys, that
// less(a, b) is exactly the lexicographic order given by keys (field name, descending?). decided is
// false when the comparator is not of the comparison-only form.
func lessIsLexicographic(info *types.Info, lit *ast.FuncLit, keys []string, desc []bool) (holds, decided bool) {
	n := len(keys)
	total := 1
	for i := 0; i < n; i++ {
		total *= 3
	}
	for code := 0; code < total; code++ {
		rel := map[string]int{}
		c := code
		for i := 0; i < n; i++ {
			rel[keys[i]] = c%3 - 1
			c /= 3
		}
		want := false
		for i := 0; i < n; i++ {
			r := rel[keys[i]]
			if r == 0 {
				continue
			}
			want = (r < 0) != desc[i]
			break
		}
		got, ok := evalLess(info, lit, rel)
		if !ok {
			return false, false
		}
		if got != want {
			return false, true
		}
	}
	return true, true
}
