package rules

import (
	"go/token"
	"go/types"
	"sort"
	"strings"

	"golang.org/x/tools/go/ssa"

	"kverif/internal/an"
)

// c09values: the 'larger of both' accumulator gets the larger of both; the reclaim percentage is not rounded up.
func c09values(c *Ctx) {
	r := c.R
	r.Decides("what calculateOnNode charges to the accumulator handed over as podHPMaxUsedReq is, for a pod with a known request and a reported usage, quotav1.Max(request, usage); the percentage read from a node's reclaim-ratio label is the float product converted to an integer with no rounding function in between (rounding up makes the margin one percent of capacity too small)")
	r.Rule("CHARGE(larger of both): in calculateOnNode every quotav1.Add into the accumulator that reaches the last argument of CalculateBatchResourceByPolicy whose addend depends on a pod's request (GetPodRequest) AND on its reported usage (GetPodMetricUsage) takes the addend from quotav1.Max")
	if fn := c.Fn("pkg/slo-controller/noderesource/plugins/batchresource", "Plugin", "calculateOnNode"); fn != nil {
		var acc ssa.Value
		for _, cl := range an.Calls(fn, false) {
			if an.ShortCallee(cl.Common()) == "CalculateBatchResourceByPolicy" {
				a := cl.Common().Args
				acc = a[len(a)-1]
			}
		}
		n, nBoth := 0, 0
		if acc != nil {
			var adds []*ssa.Call
			for x := range backwardAll(acc) {
				if call, isC := x.(*ssa.Call); isC && strings.HasSuffix(an.CalleeName(&call.Call), "quota/v1.Add") && len(call.Call.Args) == 2 {
					adds = append(adds, call)
				}
			}
			sort.Slice(adds, func(i, j int) bool { return adds[i].Pos() < adds[j].Pos() })
			for _, call := range adds {
				n++
				addend := call.Call.Args[1]
				hasReq, hasUse, hasMax := false, false, false
				// the addend itself, not the accumulator chain behind it
				for y := range backwardAll(addend) {
					if c2, ok := y.(*ssa.Call); ok {
						switch {
						case an.ShortCallee(&c2.Call) == "GetPodRequest":
							hasReq = true
						case an.ShortCallee(&c2.Call) == "GetPodMetricUsage":
							hasUse = true
						case strings.HasSuffix(an.CalleeName(&c2.Call), "quota/v1.Max"):
							hasMax = true
						}
					}
				}
				if hasReq && hasUse {
					nBoth++
					r.Check(hasMax, "CHARGE", sprintf("%s/max-accumulator#%d", fkey(fn), nBoth), c.InstrPos(call), "charged with Max(request, usage)", "the 'larger of request and usage' accumulator is charged with a value that mixes request and usage without quotav1.Max: a pod whose request exceeds its usage (or the reverse) is under-charged under the maxUsageRequest policy")
				}
			}
		}
		r.Floor("CHARGE", "additions into the max accumulator", n, 3)
		r.Floor("CHARGE", "additions that know request and usage", nBoth, 1)
	}

	r.Rule("ROUND(reclaim percent): in getNodeReclaimPercent the returned integer is the conversion of a floating-point product; no math.Ceil / math.Round / math.Floor call feeds it")
	if fn := c.Fn("pkg/util/sloconfig", "", "getNodeReclaimPercent"); fn != nil {
		n, ok := 0, true
		for _, b := range fn.Blocks {
			for _, in := range b.Instrs {
				cv, isCv := in.(*ssa.Convert)
				if !isCv {
					continue
				}
				bt, isB := cv.Type().Underlying().(*types.Basic)
				ft, isF := cv.X.Type().Underlying().(*types.Basic)
				if !isB || !isF || bt.Info()&types.IsInteger == 0 || ft.Info()&types.IsFloat == 0 {
					continue
				}
				n++
				if bo, isBo := cv.X.(*ssa.BinOp); !isBo || bo.Op != token.MUL {
					ok = false
				}
			}
		}
		r.Check(ok && n >= 1, "ROUND", fkey(fn)+"/truncation", c.Pos(fn.Pos()), "float product converted directly", "the reclaim percentage is rounded by a function before the conversion: 0.07 becomes 8 percent and the batch amount exceeds capacity minus the safety margin")
	}
}
