package rules

import (
	"go/types"
	"sort"
	"strings"

	"golang.org/x/tools/go/ssa"

	"kverif/internal/an"
)

// c02changeDetectComplete: the needUpdateOneGroup* predicates of the runtime calculator decide
// whether a group's new figure has to be pushed into the per-resource trees. Each walks the
// resource dimensions and compares old with new. Decided: in the loop over the dimensions the
// old/new comparison is executed in EVERY iteration (its block dominates every back edge of the
// loop) - no dimension is skipped on a side condition. A skipped dimension whose figure changed is
// never propagated: the tree keeps the old value (e.g. a guarantee that fell back to min keeps its
// peak), the version is not bumped, and the siblings' runtime is computed from stale input.
func c02changeDetectComplete(c *Ctx) {
	r := c.R
	r.Rule("COMPLETE(change detection): in every RuntimeQuotaCalculator.needUpdateOneGroup* the Quantity comparison (Equal/Cmp) of old and new runs in every iteration of the loop over the resource dimensions (it dominates each back edge)")
	n := 0
	for _, fn := range c.PkgFuncs(quotaCorePkg) {
		if !strings.HasPrefix(fn.Name(), "needUpdateOneGroup") || fn.Signature.Recv() == nil {
			continue
		}
		key := fkey(fn) + "/compares-every-dimension"
		var cmps []ssa.CallInstruction
		for _, cl := range an.Calls(fn, false) {
			switch an.ShortCallee(cl.Common()) {
			case "Equal", "Cmp", "DeepEqual":
				if naturalLoopHeader(cl.Block()) != nil {
					cmps = append(cmps, cl)
				}
			}
		}
		if len(cmps) == 0 {
			continue // not the per-dimension form (decided elsewhere or not a loop)
		}
		n++
		bad := ""
		for _, cmp := range cmps {
			hdr := naturalLoopHeader(cmp.Block())
			loop := loopBlocks(hdr)
			for _, p := range hdr.Preds {
				if !loop[p] {
					continue
				}
				if p != cmp.Block() && !cmp.Block().Dominates(p) {
					bad = c.InstrPos(p.Instrs[len(p.Instrs)-1])
				}
			}
		}
		r.Check(bad == "", "COMPLETE", key, c.Pos(fn.Pos()), sprintf("%d comparison(s), none skippable within an iteration", len(cmps)),
			"a resource dimension can be skipped without comparing old and new (back edge at "+bad+"): a change in that dimension is never pushed into the runtime calculator, which keeps distributing from the stale figure")
	}
	r.Floor("COMPLETE", "needUpdateOneGroup* predicates with a per-dimension loop", n, 2)
}

// c11everyTaskRegisters: in the set-up loop of KillAndEvictPods a task's per-pod getter is
// registered whenever the task contributed a release target. The only state of earlier iterations
// the registration may depend on is the presence test made AFTER the task's own insertions. A
// presence test evaluated before them ("has an earlier task already registered this target?") drops
// the getter of the second task that shares a target: what that task's getter alone reports (the
// mid-tier request next to the batch one) is never credited, the target is never met, and every
// eligible pod is evicted.
func c11everyTaskRegisters(c *Ctx) {
	r := c.R
	r.Rule("REGISTER(every task): in KillAndEvictPods the append of a task's GetPodResourceFunc wrapper is guarded by no lookup of the release-type table that is evaluated before the task's own insertions into that table (no 'already registered by an earlier task' test)")
	fn := c.Fn(evictUtilPkg, "", "KillAndEvictPods")
	if fn == nil {
		return
	}
	key := fkey(fn) + "/getter-registered-per-task"
	isTypesMap := func(t types.Type) bool {
		m, ok := t.Underlying().(*types.Map)
		if !ok {
			return false
		}
		_, isSlice := m.Elem().Underlying().(*types.Slice)
		return isSlice && strings.Contains(m.Key().String(), "ReleaseTargetType")
	}
	var appends []ssa.Instruction
	for _, b := range fn.Blocks {
		for _, in := range b.Instrs {
			mc, ok := in.(*ssa.MakeClosure)
			if !ok {
				continue
			}
			lit, _ := mc.Fn.(*ssa.Function)
			if lit == nil || naturalLoopHeader(b) == nil {
				continue
			}
			// the wrapper: a literal that calls a captured func value and returns a ReleaseList
			res := lit.Signature.Results()
			if res.Len() == 1 && strings.HasSuffix(res.At(0).Type().String(), "ReleaseList") {
				appends = append(appends, mc)
			}
		}
	}
	if len(appends) == 0 {
		r.Unknown("REGISTER", key, c.Pos(fn.Pos()), "expected the per-task getter wrapper (a function literal returning ReleaseList) inside the set-up loop")
		return
	}
	var bad []string
	for _, ap := range appends {
		hdr := naturalLoopHeader(ap.Block())
		for _, g := range an.Guards(ap) {
			for x := range backwardAll(g.Cond) {
				lk, ok := x.(*ssa.Lookup)
				if !ok || !isTypesMap(lk.X.Type()) {
					continue
				}
				reach := an.Explore(fn, an.After(lk), nil, func(in ssa.Instruction) bool { return in.Block() == hdr })
				for _, in := range reach.Instrs() {
					if mu, ok := in.(*ssa.MapUpdate); ok && isTypesMap(mu.Map.Type()) {
						bad = append(bad, sprintf("%s: presence test at %s precedes the insertion at %s", c.InstrPos(ap), c.InstrPos(lk), c.InstrPos(mu)))
					}
				}
			}
		}
	}
	sort.Strings(bad)
	msg := ""
	if len(bad) > 0 {
		msg = bad[0]
	}
	r.Check(len(bad) == 0, "REGISTER", key, c.Pos(fn.Pos()), sprintf("%d getter registration(s), each depending only on the task's own contribution", len(appends)),
		"a task's getter is registered only if no earlier task registered the same release target ("+msg+"): what only the later task's getter reports is never credited, its target is never met and all eligible pods are evicted")
}

// c18likeWithLike: the headroom of the destination nodes adds a high threshold and subtracts a
// usage per node and resource. Both must be of the same class: prod threshold with prod usage, node
// threshold with node usage. Decided: over all Quantity.Add / Quantity.Sub calls of
// targetAvailableUsage, the classes the added thresholds can come from equal the classes the
// subtracted usages can come from, and an Add and a Sub in the same block agree.
func c18likeWithLike(c *Ctx) {
	r := c.R
	r.Rule("PAIR(like with like): in targetAvailableUsage the threshold that is added and the usage that is subtracted are of the same class (prodHighResourceThreshold with prodUsage, highResourceThreshold with usage), per block and over the whole function")
	fn := c.Fn(deschedLoadPkg, "", "targetAvailableUsage")
	if fn == nil {
		return
	}
	key := fkey(fn) + "/threshold-class=usage-class"
	classOf := func(v ssa.Value) map[string]bool {
		out := map[string]bool{}
		for x := range backwardAll(v) {
			name := ""
			switch y := x.(type) {
			case *ssa.FieldAddr:
				name = fieldNameOf(y)
			case *ssa.Field:
				_, name, _, _ = an.FieldOf(y)
			}
			switch name {
			case "prodHighResourceThreshold", "prodUsage":
				out["prod"] = true
			case "highResourceThreshold", "usage":
				out["node"] = true
			}
		}
		return out
	}
	str := func(m map[string]bool) string {
		var ks []string
		for k := range m {
			ks = append(ks, k)
		}
		sort.Strings(ks)
		return strings.Join(ks, "+")
	}
	type site struct {
		in  ssa.CallInstruction
		cls map[string]bool
	}
	var adds, subs []site
	for _, cl := range an.Calls(fn, false) {
		sn := an.ShortCallee(cl.Common())
		if (sn != "Add" && sn != "Sub") || len(cl.Common().Args) < 2 {
			continue
		}
		cls := classOf(cl.Common().Args[1])
		if len(cls) == 0 {
			continue
		}
		if sn == "Add" {
			adds = append(adds, site{cl, cls})
		} else {
			subs = append(subs, site{cl, cls})
		}
	}
	if len(adds) == 0 || len(subs) == 0 {
		r.Unknown("PAIR", key, c.Pos(fn.Pos()), sprintf("expected threshold Add (%d) and usage Sub (%d) calls", len(adds), len(subs)))
		return
	}
	bad := ""
	allA, allS := map[string]bool{}, map[string]bool{}
	for _, a := range adds {
		for k := range a.cls {
			allA[k] = true
		}
		for _, s := range subs {
			if s.in.Block() == a.in.Block() && str(a.cls) != str(s.cls) {
				bad = sprintf("%s adds a %s threshold, %s subtracts a %s usage", c.InstrPos(a.in), str(a.cls), c.InstrPos(s.in), str(s.cls))
			}
		}
	}
	for _, s := range subs {
		for k := range s.cls {
			allS[k] = true
		}
	}
	if bad == "" && str(allA) != str(allS) {
		bad = sprintf("thresholds added: %s; usages subtracted: %s", str(allA), str(allS))
	}
	r.Check(bad == "", "PAIR", key, c.Pos(fn.Pos()), sprintf("%d Add / %d Sub: classes agree", len(adds), len(subs)),
		"the headroom of the underused nodes mixes classes ("+bad+"): with prod thresholds configured the prod headroom is computed against the node-level threshold, is far too large, and eviction does not stop when the real prod headroom is used up")
}

// c20alwaysStored: syncConfig computes every section with a per-section fallback (a section that
// cannot be parsed keeps its previous merged value) and then hands the result to
// updateCacheIfChanged. Decided: every return alternative of syncConfig IS the result of an
// updateCacheIfChanged call - no path gives up on the whole ConfigMap because one section failed.
// A "do not roll out a partly valid ConfigMap" shortcut freezes every section for as long as one
// stays malformed: valid changes of the others are neither cached nor enqueued.
func c20alwaysStored(c *Ctx) {
	r := c.R
	r.Rule("PATH(always stored): every return alternative of SLOCfgHandlerForConfigMapEvent.syncConfig is the result of updateCacheIfChanged (a failing section never ends the synchronisation of the other sections)")
	fn := c.Fn(nodesloPkg, "SLOCfgHandlerForConfigMapEvent", "syncConfig")
	if fn == nil {
		return
	}
	key := fkey(fn) + "/every-return-through-updateCacheIfChanged"
	n, bad := 0, ""
	for _, alt := range an.ReturnAlts(fn) {
		if len(alt.Results) == 0 {
			continue
		}
		for _, src := range cellSources(alt.Results[0]) {
			n++
			call, ok := src.(*ssa.Call)
			if !ok || an.ShortCallee(&call.Call) != "updateCacheIfChanged" {
				bad = sprintf("%s returns %s", c.InstrPos(alt.Ret), an.Path(src))
			}
		}
	}
	if n == 0 {
		r.Unknown("PATH", key, c.Pos(fn.Pos()), "no return alternative found")
		return
	}
	r.Check(bad == "", "PATH", key, c.Pos(fn.Pos()), sprintf("%d return alternative(s), all through updateCacheIfChanged", n),
		"the synchronisation can end without storing the sections that were computed ("+bad+"): while one section stays malformed, valid changes of the other sections never reach the cache or the nodes")
}

// c16nameIndexIgnoresUID: the fall-back lookup of existingPodMigrationJob (by namespace/name)
// exists for live jobs the UID index does not return for this pod. It counts a job as soon as its
// PodRef names the pod; the UID recorded in the job plays no part. A UID condition in that test makes
// a pod that was re-created under the same name (new UID) invisible to the duplicate filter and to
// the per-node / per-namespace counters that go through this function.
func c16nameIndexIgnoresUID(c *Ctx) {
	r := c.R
	r.Rule("PATH(name fallback): in filter.existingPodMigrationJob the literal that matches a job by PodRef.Namespace/Name sets the found flag under no condition on PodRef.UID")
	fn := c.Fn(arbitratorPkg, "filter", "existingPodMigrationJob")
	if fn == nil {
		return
	}
	key := fkey(fn) + "/name-match-needs-no-uid"
	// the function, its literals, and (one level) the in-package helpers it calls with their literals
	cands := closuresOf(fn)
	for _, cl := range an.Calls(fn, true) {
		if callee := cl.Common().StaticCallee(); callee != nil && callee.Pkg == fn.Pkg && callee != fn {
			cands = append(cands, closuresOf(callee)...)
		}
	}
	refField := func(v ssa.Value) string {
		fa, ok := v.(*ssa.FieldAddr)
		if !ok {
			return ""
		}
		if !strings.HasSuffix(strings.TrimPrefix(fa.X.Type().String(), "*"), "k8s.io/api/core/v1.ObjectReference") {
			return ""
		}
		return fieldNameOf(fa)
	}
	n, bad := 0, ""
	seenF := map[*ssa.Function]bool{}
	for _, f := range cands {
		if seenF[f] {
			continue
		}
		seenF[f] = true
		byName, byUID := false, ""
		for _, b := range f.Blocks {
			for _, in := range b.Instrs {
				bo, ok := in.(*ssa.BinOp)
				if !ok {
					continue
				}
				for x := range backwardAll(bo) {
					switch refField(x) {
					case "Name":
						byName = true
					case "UID":
						byUID = c.InstrPos(bo)
					}
				}
			}
		}
		if !byName {
			continue
		}
		n++
		if byUID != "" {
			bad = byUID
		}
	}
	if n == 0 {
		r.Unknown("PATH", key, c.Pos(fn.Pos()), "expected a function that compares PodRef.Name with the pod's name")
		return
	}
	r.Check(bad == "", "PATH", key, c.Pos(fn.Pos()), sprintf("%d name match(es) independent of the recorded UID", n),
		"the name fallback only counts jobs with a particular UID ("+bad+"): a live job of a pod that was re-created under the same name is not seen, the new pod gets a second job and is not counted against the per-node cap")
}

// c05updateIsRemoveThenAdd: reservationCache.updatePod is "take the old version out, put the new
// version in". The informer calls it for every update of an assigned pod, also when old and new name
// the same reservation - so whatever the removal half takes out the add half must put back. Decided:
// AddAssignedPod and RemoveAssignedPod are guarded by nil tests only (the record exists, the pod
// object exists). A state predicate of the reservation on the add half (terminating, unavailable,
// not matchable ...) makes a pod that is removed and re-added by a plain resync disappear from the
// reservation's ledger: Allocated drops to zero while the pod is still running on it.
func c05updateIsRemoveThenAdd(c *Ctx) {
	r := c.R
	r.Rule("MIRROR(update = remove + add): in reservationCache.updatePod the calls RemoveAssignedPod(old) and AddAssignedPod(new) are guarded by nil tests only - no state predicate of the reservation decides whether the new version is put back")
	fn := c.Fn(resvPkg, "reservationCache", "updatePod")
	if fn == nil {
		return
	}
	n := 0
	for _, cl := range an.Calls(fn, false) {
		sn := an.ShortCallee(cl.Common())
		if sn != "AddAssignedPod" && sn != "RemoveAssignedPod" {
			continue
		}
		n++
		bad := ""
		for _, g := range an.Guards(cl) {
			bo, ok := g.Cond.(*ssa.BinOp)
			if ok && (an.IsNilConst(bo.X) || an.IsNilConst(bo.Y)) {
				continue
			}
			bad = an.Path(g.Cond)
		}
		r.Check(bad == "", "MIRROR", sprintf("%s/%s/nil-guards-only", fkey(fn), sn), c.InstrPos(cl), "guarded by existence of the record and of the pod object only",
			sn+" is additionally guarded by "+bad+": an update event (which removes the old version first) no longer puts the pod back, and the reservation's Allocated/AssignedPods lose a pod that is still running")
	}
	r.Floor("MIRROR", "Add/RemoveAssignedPod calls in reservationCache.updatePod", n, 2)
}

// quotaAssignByState: when OnPodUpdate finds a pod that is in the quota's cache but not yet marked
// assigned, it marks it assigned because the NEW object is bound and not terminated - a statement
// about the present, not about the transition old -> new. The first event of a bound pod that the
// manager can act on is not necessarily the binding update (the pod was delivered before its quota
// existed and the add was dropped; the next event is a heartbeat with the same node in old and
// new). Decided: no guard of updatePodIsAssignedNoLock(.., true) in OnPodUpdate reads the old pod.
func quotaAssignByState(c *Ctx) {
	r := c.R
	r.Rule("LEVEL(assign by state, not by transition): in GroupQuotaManager.OnPodUpdate no condition that guards updatePodIsAssignedNoLock(.., true) reads the old pod object")
	fn := c.Fn(quotaCorePkg, "GroupQuotaManager", "OnPodUpdate")
	if fn == nil {
		return
	}
	var old *ssa.Parameter
	for _, p := range fn.Params {
		if p.Name() == "oldPod" {
			old = p
		}
	}
	if old == nil && len(fn.Params) == 5 {
		old = fn.Params[4]
	}
	key := fkey(fn) + "/assign-independent-of-old-object"
	if old == nil {
		r.Unknown("LEVEL", key, c.Pos(fn.Pos()), "cannot identify the old-pod parameter")
		return
	}
	n, bad := 0, ""
	for _, cl := range an.Calls(fn, false) {
		if an.ShortCallee(cl.Common()) != "updatePodIsAssignedNoLock" {
			continue
		}
		args := cl.Common().Args
		if len(args) == 0 || !isTrueConst(args[len(args)-1]) {
			continue
		}
		n++
		for _, cond := range influencingConds(cl) {
			for x := range backwardAll(cond) {
				// reads the old object's content (a bare nil test of the parameter is not a read)
				if fa, ok := x.(*ssa.FieldAddr); ok && fa.X == ssa.Value(old) {
					bad = sprintf("%s depends on %s", c.InstrPos(cl), an.Path(cond))
				}
			}
		}
	}
	if n == 0 {
		r.Unknown("LEVEL", key, c.Pos(fn.Pos()), "expected updatePodIsAssignedNoLock(.., true) calls in OnPodUpdate")
		return
	}
	r.Check(bad == "", "LEVEL", key, c.Pos(fn.Pos()), sprintf("%d assign site(s) decided by the new object alone", n),
		"a bound pod is marked assigned only on the binding transition ("+bad+"): a pod whose first usable event is a later update (delivered before its quota existed) enters the cache with its request but never counts as used - the live scheduler and a restarted one disagree about the free quota")
}

// influencingConds: the conditions of the branches that decide whether site is reached: every If of
// which exactly one successor leads to the site's block. A superset of the dominating guards - it
// also sees the operands of a disjunction (a || b), neither of which dominates alone. Meant for
// loop-free functions (inside a loop every branch reaches everything; the caller then gets the
// dominating guards only).
func influencingConds(site ssa.Instruction) []ssa.Value {
	sb := site.Block()
	var out []ssa.Value
	seen := map[ssa.Value]bool{}
	for _, g := range an.Guards(site) {
		if !seen[g.Cond] {
			seen[g.Cond] = true
			out = append(out, g.Cond)
		}
	}
	for _, b := range sb.Parent().Blocks {
		ifi, ok := b.Instrs[len(b.Instrs)-1].(*ssa.If)
		if !ok || len(b.Succs) != 2 {
			continue
		}
		t := b.Succs[0] == sb || an.ForwardReachBlocks(b.Succs[0])[sb]
		f := b.Succs[1] == sb || an.ForwardReachBlocks(b.Succs[1])[sb]
		if t != f {
			cond, _ := an.StripNot(ifi.Cond)
			if !seen[cond] {
				seen[cond] = true
				out = append(out, cond)
			}
		}
	}
	return out
}
