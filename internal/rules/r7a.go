package rules

import (
	"go/token"
	"strings"

	"golang.org/x/tools/go/ssa"

	"kverif/internal/an"
)

// Round 7 (failure paths and unusual returns): rules shared by several properties.

// extSpecParseError: an unreadable extended-resource-spec annotation is an error of the admission, not a silent skip.
func extSpecParseError(c *Ctx) {
	r := c.R
	r.Rule("ERR(summary annotation unreadable): in PodMutatingHandler.mutateByExtendedResources, once GetExtendedResourceSpec returned a non-nil error every reachable return carries a non-nil error (the pod is refused; admitting it keeps a summary that does not describe the spec, and the node agent sizes the cgroups from that summary)")
	fn := c.Fn("pkg/webhook/pod/mutating", "PodMutatingHandler", "mutateByExtendedResources")
	if fn == nil {
		return
	}
	var get ssa.CallInstruction
	for _, cl := range an.Calls(fn, false) {
		if an.ShortCallee(cl.Common()) == "GetExtendedResourceSpec" {
			get = cl
		}
	}
	if get == nil {
		r.Fail("ERR", fkey(fn)+"/unreadable-summary=>error", c.Pos(fn.Pos()), "GetExtendedResourceSpec is not called: the existing annotation is never compared")
		return
	}
	facts := an.Facts{}
	if e := extract(get.Value(), 1); e != nil {
		facts[e] = an.NonNil
	}
	reach := an.Explore(fn, an.After(get), facts, nil)
	bad := ""
	for _, ret := range reach.Returns() {
		for _, alt := range reach.Alts(ret) {
			if reach.EvalAlt(alt, len(alt.Results)-1) != an.NonNil {
				bad = c.InstrPos(ret)
			}
		}
	}
	r.Check(len(facts) == 1 && bad == "", "ERR", fkey(fn)+"/unreadable-summary=>error", c.InstrPos(get), "an unreadable summary annotation refuses the pod", "an unreadable summary annotation is logged and the pod admitted ("+bad+"): the annotation stays as it is and no longer matches the translated spec")
}

// c14sentinel: the 'not declared' sentinel of the batch getters never enters a sum.
func c14sentinel(c *Ctx) {
	r := c.R
	r.Rule("GUARD(sentinel): in the pod-level setters (SetPodCPUShares, SetPodCFSQuota, SetPodMemoryLimit) a result of util.GetBatchMilliCPUFromResourceList / GetBatchMemoryFromResourceList (which is -1 for 'not declared') is added to the pod's sum only under result > 0")
	n := 0
	for _, name := range []string{"SetPodCPUShares", "SetPodCFSQuota", "SetPodMemoryLimit"} {
		fn := c.Fn("pkg/koordlet/runtimehooks/hooks/batchresource", "plugin", name)
		if fn == nil {
			continue
		}
		for _, b := range fn.Blocks {
			for _, in := range b.Instrs {
				bo, ok := in.(*ssa.BinOp)
				if !ok || bo.Op != token.ADD {
					continue
				}
				var res ssa.Value
				for _, op := range []ssa.Value{bo.X, bo.Y} {
					for _, s := range cellSources(op) {
						if call, _ := an.ResultOfCall(s); call != nil && strings.HasPrefix(an.ShortCallee(&call.Call), "GetBatch") && strings.HasSuffix(an.ShortCallee(&call.Call), "FromResourceList") {
							res = op
						}
					}
				}
				if res == nil {
					continue
				}
				n++
				pos := an.ImpliesPositive(an.Guards(bo), func(v ssa.Value) bool { return v == res || sameSource(v, res) })
				r.Check(pos, "GUARD", sprintf("%s/sum-only-positive", fkey(fn)), c.InstrPos(bo), "only declared amounts are summed", "the result of the batch getter is added without the test result > 0: a container that declares no such resource contributes the sentinel -1 and the pod-level value is smaller than the sum of its containers")
			}
		}
	}
	r.Floor("GUARD", "sums of batch amounts over containers", n, 2)
}

// c20selectorError: a node entry whose selector does not convert is skipped; it does not end the search.
func c20selectorError(c *Ctx) {
	r := c.R
	r.Rule("PATH(broken entry is skipped): in every get*Spec selector of nodeslo, with every selector.Matches assumed false and every selector conversion assumed to fail, no return inside the loop over the node entries is reachable (a broken or non-matching entry never decides; the entries behind it are still tried)")
	n := 0
	for _, fn := range c.PkgFuncs(nodesloPkg) {
		facts := an.Facts{}
		nM := 0
		for _, cl := range an.Calls(fn, false) {
			switch {
			case cl.Common().IsInvoke() && cl.Common().Method.Name() == "Matches":
				facts[cl.Value()] = an.False
				nM++
			case an.ShortCallee(cl.Common()) == "LabelSelectorAsSelector":
				if e := extract(cl.Value(), 1); e != nil {
					facts[e] = an.NonNil
				}
			}
		}
		if nM == 0 || !strings.HasPrefix(fn.Name(), "get") {
			continue
		}
		n++
		reach := an.Explore(fn, nil, facts, nil)
		bad := ""
		for _, ret := range reach.Returns() {
			if inLoopBody(ret.Block()) {
				bad = c.InstrPos(ret)
			}
		}
		r.Check(bad == "", "PATH", fkey(fn)+"/broken-entry-skipped", c.Pos(fn.Pos()), "broken and non-matching entries are skipped", "a node entry whose selector does not convert (or does not match) ends the search ("+bad+"): a node selected by a later, valid entry gets the cluster-wide strategy instead of its override")
	}
	r.Floor("PATH", "node-entry selectors in nodeslo", n, 4)
}

// c08fresh: what the cache hands out is a copy; the report interval is never zero by accident.
func c08fresh(c *Ctx) {
	r := c.R
	r.Rule("FRESH(handed-out estimate): in podAssignCache.GetNodeMetricAndEstimatedOfExisting the returned estimate vector is never one of the cache's own vectors (no field of the nodeInfo is returned as it is): the callers add the incoming pod's estimate into it")
	if fn := c.Fn(loadawarePkg, "podAssignCache", "GetNodeMetricAndEstimatedOfExisting"); fn != nil {
		bad := ""
		nRet := 0
		for _, alt := range an.ReturnAlts(fn) {
			for k, res := range alt.Results {
				if !strings.HasSuffix(res.Type().String(), "ResourceVector") {
					continue
				}
				nRet++
				for _, s := range cellSources(res) {
					if ld, ok := s.(*ssa.UnOp); ok && ld.Op == token.MUL {
						if fa, isFA := ld.X.(*ssa.FieldAddr); isFA {
							if owner, _, _, okF := an.FieldOf(fa); okF && strings.HasSuffix(owner, "nodeInfo") {
								bad = sprintf("%s: result %d is the cache's own %s", c.InstrPos(alt.Ret), k, fieldNameOf(fa))
							}
						}
					}
				}
			}
		}
		r.Check(bad == "" && nRet >= 1, "FRESH", fkey(fn)+"/estimate-is-a-copy", c.Pos(fn.Pos()), "the estimate handed out is a fresh vector", "the cache hands out its own vector ("+bad+"): Filter and Score add the incoming pod into it, and the kept estimate grows with every evaluation")
	}
	r.Rule("DEFAULT(report interval): getNodeMetricReportInterval returns the default interval or a value computed from *ReportIntervalSeconds, never a zero that nothing set")
	if fn := c.Fn(loadawarePkg, "", "getNodeMetricReportInterval"); fn != nil {
		bad := ""
		n := 0
		reach := an.Explore(fn, nil, nil, nil)
		for _, ret := range reach.Returns() {
			for _, v := range reach.Values(ret.Results[0]) {
				n++
				if k, isK := constIntOf(v); isK && k == 0 {
					bad = c.InstrPos(ret)
				}
			}
		}
		r.Check(bad == "" && n >= 2, "DEFAULT", fkey(fn)+"/never-zero", c.Pos(fn.Pos()), "default or configured interval", "the report interval can be zero when a collect policy exists without an interval ("+bad+"): a pod placed just before the last report is taken as already reflected and its estimate is dropped")
	}
}

// c13labelPresent: a priority-class label that is present decides, whatever its value.
func c13labelPresent(c *Ctx) {
	r := c.R
	r.Rule("PATH(label present decides): in GetPodPriorityClassRaw the class comes from the priority-class label whenever the label is present (comma-ok lookup), not only when its value is non-empty; spec.priority is consulted only when the label is absent")
	fn := c.Fn("apis/extension", "", "GetPodPriorityClassRaw")
	if fn == nil {
		return
	}
	n, ok := 0, true
	for _, cl := range an.Calls(fn, false) {
		if an.ShortCallee(cl.Common()) != "GetPodPriorityClassByName" {
			continue
		}
		n++
		present := false
		for _, g := range an.Guards(cl) {
			if ex, isE := g.Cond.(*ssa.Extract); isE && ex.Index == 1 && g.Truth {
				if lk, isL := ex.Tuple.(*ssa.Lookup); isL && lk.CommaOk {
					present = true
				}
			}
			// a test on the value narrows the decision to non-empty labels
			if rel, isRel := an.RelOf(g); isRel {
				if s, isS := constString(rel.Y); isS && s == "" {
					ok = false
				}
				if s, isS := constString(rel.X); isS && s == "" {
					ok = false
				}
			}
		}
		if !present {
			ok = false
		}
	}
	r.Check(ok && n >= 1, "PATH", fkey(fn)+"/label-present-decides", c.Pos(fn.Pos()), "a present label decides", "the label decides only when its value is non-empty: a pod with an empty priority-class label is classified by spec.priority and passes the pair checks its declared (unknown) class would fail")
}

// c15selfItemError: an unreadable shared weight refuses the quota.
func c15selfItemError(c *Ctx) {
	r := c.R
	r.Rule("ERR(self item): in validateQuotaSelfItem, once json.Unmarshal of the shared-weight annotation failed every reachable return carries a non-nil error (returning nil there skips the min <= max and min-keys-in-max checks behind it)")
	fn := c.Fn(quotaWebhookPkg, "quotaTopology", "validateQuotaSelfItem")
	if fn == nil {
		return
	}
	n, bad := 0, ""
	for _, cl := range an.Calls(fn, false) {
		if an.CalleeName(cl.Common()) != "encoding/json.Unmarshal" {
			continue
		}
		n++
		reach := an.Explore(fn, an.After(cl), an.Facts{cl.Value(): an.NonNil}, nil)
		for _, ret := range reach.Returns() {
			for _, alt := range reach.Alts(ret) {
				if reach.EvalAlt(alt, 0) != an.NonNil {
					bad = c.InstrPos(ret)
				}
			}
		}
	}
	r.Check(n >= 1 && bad == "", "ERR", fkey(fn)+"/unreadable-weight=>error", c.Pos(fn.Pos()), "an unreadable shared weight is an error", "an unreadable shared weight returns nil ("+bad+"): the checks behind it are skipped and a quota with min above max is recorded")
}

// c05releaseFirst: a pod that leaves a known reservation is taken out of it, whatever is known about where it goes.
func c05releaseFirst(c *Ctx) {
	r := c.R
	r.Rule("PATH(release is unconditional): in reservationCache.updatePod, with the old reservation found in the cache and the old pod given, no return is reachable without RemoveAssignedPod(oldPod) on it (an unknown new reservation is no reason to keep the pod charged to the old one)")
	fn := c.Fn(resvPkg, "reservationCache", "updatePod")
	if fn == nil || len(fn.Params) < 5 {
		return
	}
	facts := an.Facts{}
	for _, b := range fn.Blocks {
		for _, in := range b.Instrs {
			if lk, ok := in.(*ssa.Lookup); ok && strings.HasSuffix(an.Path(lk.X), ".reservationInfos") {
				if p, isP := lk.Index.(*ssa.Parameter); isP && p == fn.Params[1] {
					facts[lk] = an.NonNil
				}
			}
		}
	}
	facts[fn.Params[3]] = an.NonNil
	reach := an.Explore(fn, nil, facts, func(in ssa.Instruction) bool {
		cl, ok := in.(ssa.CallInstruction)
		return ok && an.ShortCallee(cl.Common()) == "RemoveAssignedPod"
	})
	r.Check(len(facts) >= 2 && len(reach.Returns()) == 0, "PATH", fkey(fn)+"/release-unconditional", c.Pos(fn.Pos()), "the old reservation always lets the pod go", "the pod can stay charged to its old reservation (a return is reachable before RemoveAssignedPod): the later delete event carries the new record, so the amount is never given back")
}

// inLoopBody: b is reached through the body edge of a loop header (also when b leaves the loop by returning, which
// makes it no member of the natural loop).
func inLoopBody(b *ssa.BasicBlock) bool {
	for _, h := range b.Parent().Blocks {
		if len(h.Succs) != 2 {
			continue
		}
		isHeader := false
		for _, p := range h.Preds {
			if h.Dominates(p) {
				isHeader = true
			}
		}
		if !isHeader {
			continue
		}
		for _, body := range h.Succs {
			// the body successor is the one from which the header is reachable again
			if !an.ForwardReachBlocks(body)[h] && body != h {
				continue
			}
			if body == b || body.Dominates(b) {
				return true
			}
		}
	}
	return false
}
