package rules

import (
	"go/ast"
	"go/token"
	"go/types"
	"golang.org/x/tools/go/ssa"
	"kverif/internal/an"
	"sort"
	"strings"

	"golang.org/x/tools/go/packages"
)

// SortSite is one sort.Slice / sort.SliceStable / sort.SliceIsSorted call with a literal comparator.
type SortSite struct {
	Pkg    *packages.Package
	Call   *ast.CallExpr
	Slice  ast.Expr
	Lit    *ast.FuncLit
	Encl   string // enclosing function name (receiver-qualified)
	Ord    int    // ordinal of the site inside the enclosing function
	I, J   *types.Var
	Stable bool
}

// SortSites enumerates comparator sites of the given packages (all repo packages when nil).
func (c *Ctx) SortSites(filter func(*packages.Package) bool) []SortSite {
	var out []SortSite
	for _, pk := range c.P.Pkgs {
		if filter != nil && !filter(pk) {
			continue
		}
		for _, f := range pk.Syntax {
			for _, d := range f.Decls {
				fd, ok := d.(*ast.FuncDecl)
				if !ok || fd.Body == nil {
					continue
				}
				encl := declName(pk, fd)
				ord := 0
				ast.Inspect(fd.Body, func(n ast.Node) bool {
					call, ok := n.(*ast.CallExpr)
					if !ok || len(call.Args) != 2 {
						return true
					}
					sel, ok := call.Fun.(*ast.SelectorExpr)
					if !ok {
						return true
					}
					obj, ok := pk.TypesInfo.Uses[sel.Sel].(*types.Func)
					if !ok || obj.Pkg() == nil || obj.Pkg().Path() != "sort" {
						return true
					}
					if obj.Name() != "Slice" && obj.Name() != "SliceStable" && obj.Name() != "SliceIsSorted" {
						return true
					}
					lit, ok := call.Args[1].(*ast.FuncLit)
					if !ok {
						return true
					}
					ord++
					s := SortSite{Pkg: pk, Call: call, Slice: ast.Unparen(call.Args[0]), Lit: lit, Encl: encl, Ord: ord, Stable: obj.Name() == "SliceStable"}
					var ps []*types.Var
					for _, fl := range lit.Type.Params.List {
						for _, nm := range fl.Names {
							if v, ok := pk.TypesInfo.Defs[nm].(*types.Var); ok {
								ps = append(ps, v)
							} else {
								ps = append(ps, nil)
							}
						}
					}
					if len(ps) == 2 {
						s.I, s.J = ps[0], ps[1]
					}
					out = append(out, s)
					return true
				})
			}
		}
	}
	return out
}

func declName(pk *packages.Package, fd *ast.FuncDecl) string {
	name := fd.Name.Name
	if fd.Recv != nil && len(fd.Recv.List) > 0 {
		t := fd.Recv.List[0].Type
		if s, ok := t.(*ast.StarExpr); ok {
			t = s.X
		}
		if ix, ok := t.(*ast.IndexExpr); ok {
			t = ix.X
		}
		if id, ok := t.(*ast.Ident); ok {
			name = "(" + id.Name + ")." + name
		}
	}
	return strings.TrimPrefix(pk.PkgPath, "github.com/koordinator-sh/koordinator/") + "." + name
}

// SortIndexRule is SORT(a): the comparator's position parameters i, j may be used only to index the
// slice being sorted (the first argument of the sort call, compared as a resolved expression).
// Indexing any other map or slice with a position is a key confusion: positions are not element keys.
// Returns the offending uses.
func (c *Ctx) sortIndexViolations(s SortSite) []ast.Node {
	info := s.Pkg.TypesInfo
	var bad []ast.Node
	if s.I == nil || s.J == nil {
		return nil // unnamed parameters cannot be misused
	}
	isPos := func(e ast.Expr) bool {
		id, ok := ast.Unparen(e).(*ast.Ident)
		if !ok {
			return false
		}
		o := info.Uses[id]
		return o != nil && (o == types.Object(s.I) || o == types.Object(s.J))
	}
	// aliases of the sorted slice declared inside the comparator are not expected; compare structurally.
	var walk func(n ast.Node, parent []ast.Node)
	allowed := map[*ast.Ident]bool{}
	ast.Inspect(s.Lit.Body, func(n ast.Node) bool {
		ix, ok := n.(*ast.IndexExpr)
		if !ok {
			return true
		}
		if isPos(ix.Index) && sameExpr(info, ast.Unparen(ix.X), s.Slice) {
			allowed[ast.Unparen(ix.Index).(*ast.Ident)] = true
		}
		return true
	})
	_ = walk
	ast.Inspect(s.Lit.Body, func(n ast.Node) bool {
		id, ok := n.(*ast.Ident)
		if !ok {
			return true
		}
		o := info.Uses[id]
		if o == nil || (o != types.Object(s.I) && o != types.Object(s.J)) {
			return true
		}
		if !allowed[id] {
			bad = append(bad, id)
		}
		return true
	})
	return bad
}

// sameExpr: structural equality of two expressions with identifiers compared by resolved object.
func sameExpr(info *types.Info, a, b ast.Expr) bool {
	a, b = ast.Unparen(a), ast.Unparen(b)
	switch x := a.(type) {
	case *ast.Ident:
		y, ok := b.(*ast.Ident)
		if !ok {
			return false
		}
		ox, oy := info.ObjectOf(x), info.ObjectOf(y)
		return ox != nil && ox == oy
	case *ast.SelectorExpr:
		y, ok := b.(*ast.SelectorExpr)
		if !ok {
			return false
		}
		return info.ObjectOf(x.Sel) == info.ObjectOf(y.Sel) && sameExpr(info, x.X, y.X)
	case *ast.IndexExpr:
		y, ok := b.(*ast.IndexExpr)
		return ok && sameExpr(info, x.X, y.X) && sameExpr(info, x.Index, y.Index)
	case *ast.StarExpr:
		y, ok := b.(*ast.StarExpr)
		return ok && sameExpr(info, x.X, y.X)
	case *ast.BasicLit:
		y, ok := b.(*ast.BasicLit)
		return ok && x.Kind == y.Kind && x.Value == y.Value
	case *ast.CallExpr:
		y, ok := b.(*ast.CallExpr)
		if !ok || len(x.Args) != len(y.Args) || !sameExpr(info, x.Fun, y.Fun) {
			return false
		}
		for i := range x.Args {
			if !sameExpr(info, x.Args[i], y.Args[i]) {
				return false
			}
		}
		return true
	case *ast.SliceExpr:
		y, ok := b.(*ast.SliceExpr)
		if !ok || !sameExpr(info, x.X, y.X) {
			return false
		}
		eq := func(p, q ast.Expr) bool {
			if p == nil || q == nil {
				return p == nil && q == nil
			}
			return sameExpr(info, p, q)
		}
		return eq(x.Low, y.Low) && eq(x.High, y.High) && eq(x.Max, y.Max)
	}
	return false
}

// RunSortIndex applies SORT(a) to the sites selected by filter and records one obligation per site.
func (c *Ctx) RunSortIndex(rule string, sites []SortSite) (n int) {
	for _, s := range sites {
		key := sprintf("%s/sort#%d", s.Encl, s.Ord)
		bad := c.sortIndexViolations(s)
		if len(bad) == 0 {
			c.R.OK(rule, key, c.Pos(s.Call.Pos()), "comparator positions index only the sorted slice "+types.ExprString(s.Slice))
		} else {
			var where []string
			for _, b := range bad {
				where = append(where, c.Pos(b.Pos()))
			}
			c.R.Fail(rule, key, c.Pos(s.Call.Pos()), sprintf("comparator of sort over %s uses a slice position to index something other than the sorted slice (positions are not element keys) at %s",
				types.ExprString(s.Slice), strings.Join(where, ", ")))
		}
		n++
	}
	return n
}

// ComparatorChain reads a comparator closure on SSA: the keys it compares in order ("<field><op>", prefixed "swapped"
// when the operands are taken in the order j,i) and what it falls back to when all keys are equal (the callee name or
// the last comparison). It understands if-chains, tag-less switches, hoisted elements ("a, b := s[i], s[j]") and
// single-exit forms alike, because it works on the return alternatives and the relations that guard them.
func (c *Ctx) ComparatorChain(lit *ast.FuncLit) (keys []string, tail string, ok bool) {
	var fn *ssa.Function
	for _, f := range c.P.AllFuncs() {
		if f.Syntax() == ast.Node(lit) {
			fn = f
		}
	}
	if fn == nil || len(fn.Params) < 2 {
		return nil, "", false
	}
	pi, pj := fn.Params[len(fn.Params)-2], fn.Params[len(fn.Params)-1]
	side := func(v ssa.Value) string {
		hasI, hasJ := false, false
		for x := range backwardAll(v) {
			if x == ssa.Value(pi) {
				hasI = true
			}
			if x == ssa.Value(pj) {
				hasJ = true
			}
		}
		switch {
		case hasI && !hasJ:
			return "i"
		case hasJ && !hasI:
			return "j"
		}
		return "?"
	}
	field := func(v ssa.Value) string {
		p := an.Path(v)
		if i := strings.LastIndex(p, "."); i >= 0 {
			return p[i+1:]
		}
		return ""
	}
	type keyAlt struct {
		name  string
		depth int
	}
	var ks []keyAlt
	tailDepth := -1
	for _, alt := range an.ReturnAlts(fn) {
		if len(alt.Results) != 1 {
			return nil, "", false
		}
		// how many keys are known equal on this alternative, and which differ
		nEq := 0
		differ := map[string]bool{}
		for _, g := range alt.Guards {
			rel, isRel := an.RelOf(g)
			if !isRel || side(rel.X) == "?" || side(rel.Y) == "?" || side(rel.X) == side(rel.Y) || field(rel.X) == "" || field(rel.X) != field(rel.Y) {
				continue
			}
			switch rel.Op {
			case token.EQL:
				nEq++
			case token.NEQ:
				differ[field(rel.X)] = true
			}
		}
		res, _ := an.StripNot(alt.Results[0])
		if bo, isB := res.(*ssa.BinOp); isB && (bo.Op == token.LSS || bo.Op == token.GTR || bo.Op == token.LEQ || bo.Op == token.GEQ) &&
			field(bo.X) != "" && field(bo.X) == field(bo.Y) && side(bo.X) != "?" && side(bo.X) != side(bo.Y) && differ[field(bo.X)] {
			name := field(bo.X) + bo.Op.String()
			if side(bo.X) == "j" {
				name = "swapped" + name
			}
			ks = append(ks, keyAlt{name, nEq})
			continue
		}
		// the fall-back
		if nEq > tailDepth {
			tailDepth = nEq
			switch x := res.(type) {
			case *ssa.Call:
				if callee := x.Call.StaticCallee(); callee != nil {
					tail = callee.Name()
				} else {
					tail = strings.TrimLeft(an.Path(x.Call.Value), "*")
				}
			case *ssa.BinOp:
				tail = field(x.X) + x.Op.String()
			default:
				tail = an.Path(res)
			}
		}
	}
	sort.SliceStable(ks, func(a, b int) bool { return ks[a].depth < ks[b].depth })
	for i, k := range ks {
		if k.depth != i {
			return nil, "", false // not a lexicographic chain
		}
		keys = append(keys, k.name)
	}
	return keys, tail, true
}
