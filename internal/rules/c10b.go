package rules

import (
	"go/token"

	"golang.org/x/tools/go/ssa"

	"kverif/internal/an"
)

// c10system: the system-QoS exclusive CPUs are really found when they are declared.
func c10system(c *Ctx) {
	r := c.R
	r.Decides("when the node declares a system-QoS CPU set (non-empty, exclusive by default or explicitly) that parses, getSystemQOSExclusiveCPU returns exactly the parsed set (never the empty set), so those CPUs reach the exclusion filters; IsCPUSetExclusive is true when the flag is absent")
	r.Rule("PATH(system exclusive): in getSystemQOSExclusiveCPU, with GetSystemQOSResource returning (non-nil, nil), a non-empty CPUSet string, IsCPUSetExclusive()==true and cpuset.Parse returning no error, every returned set is the result of that Parse call and the error is nil; with Parse failing the error is non-nil; SystemQOSResource.IsCPUSetExclusive returns true when CPUSetExclusive is nil")
	if fn := c.Fn(suppressPkg, "", "getSystemQOSExclusiveCPU"); fn != nil {
		key := fkey(fn)
		var get, parse, excl *ssa.Call
		for _, cl := range an.Calls(fn, false) {
			call, ok := cl.(*ssa.Call)
			if !ok {
				continue
			}
			switch an.ShortCallee(&call.Call) {
			case "GetSystemQOSResource":
				get = call
			case "Parse":
				parse = call
			case "IsCPUSetExclusive":
				excl = call
			}
		}
		if get == nil || parse == nil || excl == nil {
			r.Fail("PATH", key+"/declared=>parsed-set", c.Pos(fn.Pos()), sprintf("GetSystemQOSResource=%v IsCPUSetExclusive=%v cpuset.Parse=%v: a step is gone", get != nil, excl != nil, parse != nil))
		} else {
			f := an.Facts{extract(get, 1): an.Nil, extract(get, 0): an.NonNil, excl: an.True}
			nLen := 0
			for _, b := range fn.Blocks {
				for _, in := range b.Instrs {
					bo, ok := in.(*ssa.BinOp)
					if !ok {
						continue
					}
					if cl, ok := bo.X.(*ssa.Call); ok && an.IsBuiltinCall(cl, "len") {
						if k, isC := constIntOf(bo.Y); isC && k == 0 {
							switch bo.Op {
							case token.GTR, token.NEQ:
								f[bo] = an.True
								nLen++
							case token.EQL, token.LEQ:
								f[bo] = an.False
								nLen++
							}
						}
					}
				}
			}
			parsesDeclared := false
			for x := range backwardAll(parse.Call.Args[0]) {
				if x == extract(get, 0) {
					parsesDeclared = true
				}
			}
			// parse succeeds
			f1 := an.Facts{}
			for k, v := range f {
				f1[k] = v
			}
			f1[extract(parse, 1)] = an.Nil
			reach := an.Explore(fn, nil, f1, nil)
			okSet, okErr, n := true, true, 0
			for _, ret := range reach.Returns() {
				for _, alt := range reach.Alts(ret) {
					n++
					from := false
					for _, s := range cellSources(alt.Results[0]) {
						if s == extract(parse, 0) {
							from = true
						} else {
							from = false
							break
						}
					}
					if !from {
						okSet = false
					}
					if reach.EvalAlt(alt, 1) != an.Nil {
						okErr = false
					}
				}
			}
			r.Check(nLen > 0 && parsesDeclared && n > 0 && okSet && okErr, "PATH", key+"/declared=>parsed-set", c.InstrPos(parse), "the declared exclusive set is what is returned",
				sprintf("a declared, exclusive, well-formed system-QoS CPU set is not what the function returns (non-empty test found=%v, Parse gets the declared string=%v, %d returns, all return the parsed set=%v, error nil=%v): BE pods would be placed on CPUs exclusive to system QoS", nLen > 0, parsesDeclared, n, okSet, okErr))
			// parse fails
			f2 := an.Facts{}
			for k, v := range f {
				f2[k] = v
			}
			f2[extract(parse, 1)] = an.NonNil
			okFail, w := onlyErrors(fn, an.After(parse), f2, nil)
			r.Check(okFail, "PATH", key+"/unparsable=>error", c.InstrPos(parse), "a declared set that does not parse is reported", "a declared system-QoS CPU set that does not parse is silently treated as 'none': "+w)
		}
	}
	if fn := c.Fn("apis/extension", "SystemQOSResource", "IsCPUSetExclusive"); fn != nil {
		f := an.Facts{}
		for _, b := range fn.Blocks {
			for _, in := range b.Instrs {
				if ld, ok := in.(*ssa.UnOp); ok && ld.Op == token.MUL {
					if _, fname, _, ok := an.FieldOf(ld.X); ok && fname == "CPUSetExclusive" {
						f[ld] = an.Nil
					}
				}
			}
		}
		reach := an.Explore(fn, nil, f, nil)
		ok, n := len(f) > 0, 0
		for _, ret := range reach.Returns() {
			for _, alt := range reach.Alts(ret) {
				n++
				if reach.EvalAlt(alt, 0) != an.True {
					ok = false
				}
			}
		}
		r.Check(ok && n > 0, "PATH", fkey(fn)+"/default-exclusive", c.Pos(fn.Pos()), "an absent flag means exclusive", "with the CPUSetExclusive flag absent IsCPUSetExclusive does not return true: the documented default (exclusive) is lost and BE pods share the system-QoS CPUs")
	}
}
