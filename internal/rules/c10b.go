package rules

import (
	"go/token"
	"strings"

	"golang.org/x/tools/go/ssa"

	"kverif/internal/an"
)

// c10system: the system-QoS exclusive CPUs are really found when they are declared.
func c10system(c *Ctx) {
	r := c.R
	r.Decides("when the node declares a system-QoS CPU set (non-empty, exclusive by default or explicitly) that parses, getSystemQOSExclusiveCPU returns exactly the parsed set (never the empty set), so those CPUs reach the exclusion filters; IsCPUSetExclusive is true when the flag is absent")
	r.Rule("PATH(system exclusive): in getSystemQOSExclusiveCPU, with GetSystemQOSResource returning (non-nil, nil), a non-empty CPUSet string, IsCPUSetExclusive()==true and cpuset.Parse returning no error, every returned set is the result of that Parse call and the error is nil; with Parse failing the error is non-nil; SystemQOSResource.IsCPUSetExclusive returns true when CPUSetExclusive is nil")
	if fn := c.Fn(suppressPkg, "", "getSystemQOSExclusiveCPU"); fn != nil {
		key := fkey(fn)
		var get, parse, excl *ssa.Call
		for _, cl := range an.Calls(fn, false) {
			call, ok := cl.(*ssa.Call)
			if !ok {
				continue
			}
			switch an.ShortCallee(&call.Call) {
			case "GetSystemQOSResource":
				get = call
			case "Parse":
				parse = call
			case "IsCPUSetExclusive":
				excl = call
			}
		}
		if get == nil || parse == nil || excl == nil {
			r.Fail("PATH", key+"/declared=>parsed-set", c.Pos(fn.Pos()), sprintf("GetSystemQOSResource=%v IsCPUSetExclusive=%v cpuset.Parse=%v: a step is gone", get != nil, excl != nil, parse != nil))
		} else {
			f := an.Facts{extract(get, 1): an.Nil, extract(get, 0): an.NonNil, excl: an.True}
			nLen := 0
			for _, b := range fn.Blocks {
				for _, in := range b.Instrs {
					bo, ok := in.(*ssa.BinOp)
					if !ok {
						continue
					}
					if cl, ok := bo.X.(*ssa.Call); ok && an.IsBuiltinCall(cl, "len") {
						if k, isC := constIntOf(bo.Y); isC && k == 0 {
							switch bo.Op {
							case token.GTR, token.NEQ:
								f[bo] = an.True
								nLen++
							case token.EQL, token.LEQ:
								f[bo] = an.False
								nLen++
							}
						}
					}
				}
			}
			parsesDeclared := false
			for x := range backwardAll(parse.Call.Args[0]) {
				if x == extract(get, 0) {
					parsesDeclared = true
				}
			}
			// parse succeeds
			f1 := an.Facts{}
			for k, v := range f {
				f1[k] = v
			}
			f1[extract(parse, 1)] = an.Nil
			reach := an.Explore(fn, nil, f1, nil)
			okSet, okErr, n := true, true, 0
			for _, ret := range reach.Returns() {
				for _, alt := range reach.Alts(ret) {
					n++
					from := false
					for _, s := range cellSources(alt.Results[0]) {
						if s == extract(parse, 0) {
							from = true
						} else {
							from = false
							break
						}
					}
					if !from {
						okSet = false
					}
					if reach.EvalAlt(alt, 1) != an.Nil {
						okErr = false
					}
				}
			}
			r.Check(nLen > 0 && parsesDeclared && n > 0 && okSet && okErr, "PATH", key+"/declared=>parsed-set", c.InstrPos(parse), "the declared exclusive set is what is returned",
				sprintf("a declared, exclusive, well-formed system-QoS CPU set is not what the function returns (non-empty test found=%v, Parse gets the declared string=%v, %d returns, all return the parsed set=%v, error nil=%v): BE pods would be placed on CPUs exclusive to system QoS", nLen > 0, parsesDeclared, n, okSet, okErr))
			// parse fails
			f2 := an.Facts{}
			for k, v := range f {
				f2[k] = v
			}
			f2[extract(parse, 1)] = an.NonNil
			okFail, w := onlyErrors(fn, an.After(parse), f2, nil)
			r.Check(okFail, "PATH", key+"/unparsable=>error", c.InstrPos(parse), "a declared set that does not parse is reported", "a declared system-QoS CPU set that does not parse is silently treated as 'none': "+w)
		}
	}
	if fn := c.Fn("apis/extension", "SystemQOSResource", "IsCPUSetExclusive"); fn != nil {
		f := an.Facts{}
		for _, b := range fn.Blocks {
			for _, in := range b.Instrs {
				if ld, ok := in.(*ssa.UnOp); ok && ld.Op == token.MUL {
					if _, fname, _, ok := an.FieldOf(ld.X); ok && fname == "CPUSetExclusive" {
						f[ld] = an.Nil
					}
				}
			}
		}
		reach := an.Explore(fn, nil, f, nil)
		ok, n := len(f) > 0, 0
		for _, ret := range reach.Returns() {
			for _, alt := range reach.Alts(ret) {
				n++
				if reach.EvalAlt(alt, 0) != an.True {
					ok = false
				}
			}
		}
		r.Check(ok && n > 0, "PATH", fkey(fn)+"/default-exclusive", c.Pos(fn.Pos()), "an absent flag means exclusive", "with the CPUSetExclusive flag absent IsCPUSetExclusive does not return true: the documented default (exclusive) is lost and BE pods share the system-QoS CPUs")
	}
}

// c10filters: who counts as "not best-effort" for the budget, and when two cpuset strings are the same set.
func c10filters(c *Ctx) {
	r := c.R
	r.Decides("a host application is left out of the non-BE consumption only when it is BE and declares a cgroup under the kubepods best-effort directory (a BE host application elsewhere - or without a declared path - is not restrained by the BE cgroup, so its usage must shrink the budget); two cpuset strings are called equal only when they are textually identical or their parsed sets are Equal (a same-size test lets a changed set go unwritten)")
	r.Rule("PATH(host app filter): helpers.NonBEHostAppFilter returns true in each of the cases QoS != BE; QoS == BE with CgroupPath == nil; QoS == BE with a CgroupPath whose Base is not the kubepods best-effort base")
	if fn := c.Fn("pkg/koordlet/qosmanager/helpers", "", "NonBEHostAppFilter"); fn != nil {
		var qos, base []*ssa.BinOp
		var path []ssa.Value
		for _, b := range fn.Blocks {
			for _, in := range b.Instrs {
				switch x := in.(type) {
				case *ssa.BinOp:
					if x.Op != token.EQL && x.Op != token.NEQ {
						continue
					}
					px := an.Path(x.X)
					switch {
					case strings.HasSuffix(px, ".QoS"):
						qos = append(qos, x)
					case strings.HasSuffix(px, ".Base"):
						base = append(base, x)
					}
				case *ssa.UnOp:
					if x.Op == token.MUL {
						if _, f, _, ok := an.FieldOf(x.X); ok && f == "CgroupPath" {
							path = append(path, x)
						}
					}
				}
			}
		}
		set := func(f an.Facts, bos []*ssa.BinOp, equal bool) {
			for _, bo := range bos {
				if (bo.Op == token.EQL) == equal {
					f[bo] = an.True
				} else {
					f[bo] = an.False
				}
			}
		}
		allTrue := func(f an.Facts) bool {
			reach := an.Explore(fn, nil, f, nil)
			n := 0
			for _, ret := range reach.Returns() {
				for _, alt := range reach.Alts(ret) {
					n++
					if reach.EvalAlt(alt, 0) != an.True {
						return false
					}
				}
			}
			return n > 0
		}
		f1 := an.Facts{}
		set(f1, qos, false)
		f2 := an.Facts{}
		set(f2, qos, true)
		for _, p := range path {
			f2[p] = an.Nil
		}
		f3 := an.Facts{}
		set(f3, qos, true)
		set(f3, base, false)
		for _, p := range path {
			f3[p] = an.NonNil
		}
		ok1, ok2, ok3 := allTrue(f1), allTrue(f2), allTrue(f3)
		r.Check(len(qos) > 0 && len(base) > 0 && len(path) > 0 && ok1 && ok2 && ok3, "PATH", fkey(fn)+"/counts-as-non-BE", c.Pos(fn.Pos()), "only a BE application under the kubepods best-effort base is left out",
			sprintf("a host application that the BE cgroup does not restrain is left out of the non-BE consumption (counted when not BE=%v, when BE without a declared cgroup path=%v, when BE under another base=%v): the BE budget no longer shrinks with its usage", ok1, ok2, ok3))
	}

	r.Rule("EQUAL(cpuset strings): cpuset.IsEqualStrCpus returns true only under a == b or as the result of <Parse(a)>.Equals(<Parse(b)>) with the two different parsed sets as operands; a parse error returns false")
	if fn := c.Fn("pkg/util/cpuset", "", "IsEqualStrCpus"); fn != nil {
		var pa, pb *ssa.Call
		for _, cl := range an.Calls(fn, false) {
			if cc, ok := cl.(*ssa.Call); ok && an.ShortCallee(&cc.Call) == "Parse" {
				if isParamOf(fn, cc.Call.Args[0], 0) {
					pa = cc
				} else if isParamOf(fn, cc.Call.Args[0], 1) {
					pb = cc
				}
			}
		}
		ok, why := pa != nil && pb != nil, "both strings are no longer parsed"
		if ok {
			from := func(v ssa.Value, p *ssa.Call) bool {
				srcs := cellSources(v)
				if a, isA := v.(*ssa.Alloc); isA && a.Referrers() != nil {
					srcs = nil
					for _, ref := range *a.Referrers() {
						if st, isSt := ref.(*ssa.Store); isSt && st.Addr == ssa.Value(a) {
							srcs = append(srcs, cellSources(st.Val)...)
						}
					}
				}
				for _, s := range srcs {
					if s != extract(p, 0) {
						return false
					}
				}
				return len(srcs) > 0
			}
			for _, alt := range an.ReturnAlts(fn) {
				res := alt.Results[0]
				if k, isC := res.(*ssa.Const); isC {
					if !isTrueConst(k) {
						continue
					}
					// true: only under a == b
					same := false
					for _, g := range alt.Guards {
						if bo, isBo := g.Cond.(*ssa.BinOp); isBo && (bo.Op == token.EQL) == g.Truth && ((isParamOf(fn, bo.X, 0) && isParamOf(fn, bo.Y, 1)) || (isParamOf(fn, bo.X, 1) && isParamOf(fn, bo.Y, 0))) {
							same = true
						}
					}
					if !same {
						ok, why = false, c.InstrPos(alt.Ret)+": true is returned without the strings being identical"
					}
					continue
				}
				eq, _ := an.ResultOfCall(firstSource(res))
				if eq == nil || an.ShortCallee(&eq.Call) != "Equals" || len(eq.Call.Args) != 2 {
					ok, why = false, c.InstrPos(alt.Ret)+": the result is not that of Equals on the parsed sets"
					continue
				}
				a0, a1 := eq.Call.Args[0], eq.Call.Args[1]
				if !((from(a0, pa) && from(a1, pb)) || (from(a0, pb) && from(a1, pa))) {
					ok, why = false, c.InstrPos(alt.Ret)+": Equals does not compare Parse(a) with Parse(b)"
				}
			}
			// a parse error means false
			for _, p := range []*ssa.Call{pa, pb} {
				reach := an.Explore(fn, an.After(p), an.Facts{extract(p, 1): an.NonNil}, nil)
				for _, ret := range reach.Returns() {
					for _, alt := range reach.Alts(ret) {
						if reach.EvalAlt(alt, 0) != an.False {
							ok, why = false, "a string that does not parse can compare equal"
						}
					}
				}
			}
		}
		r.Check(ok, "EQUAL", fkey(fn)+"/set-equality", c.Pos(fn.Pos()), "equal means identical text or Equal parsed sets", "two different CPU sets can be called equal ("+why+"): the write of the new set is skipped and the cgroup keeps CPUs that now belong to somebody else")
	}
}

// c10cacheMode: the cpuset files are always written through the executor's cache.
func c10cacheMode(c *Ctx) {
	r := c.R
	r.Decides("every batch write of the BE cpuset files goes through the executor with caching on: a write that bypasses the cache (e.g. the transient loose set) leaves the cache remembering the previous final value, and the next cached write of that same value is skipped as unchanged - the cgroups keep the loose set")
	r.Rule("CACHE(one mode per file): in package cpusuppress every call of ResourceUpdateExecutor.UpdateBatch passes the constant true as its cacheable argument (on every path, also through in-package wrappers after inlining)")
	n := 0
	for _, fn := range c.PkgFuncs(suppressPkg) {
		nIn := 0
		for _, cl := range an.Calls(fn, false) {
			if !cl.Common().IsInvoke() || cl.Common().Method.Name() != "UpdateBatch" {
				continue
			}
			n++
			nIn++
			ok := true
			for _, s := range cellSources(cl.Common().Args[0]) {
				if !isTrueConst(s) {
					ok = false
				}
			}
			r.Check(ok, "CACHE", sprintf("%s/UpdateBatch#%d", fkey(fn), nIn), c.InstrPos(cl), "cacheable=true", "a batch of cpuset writes bypasses the executor's cache (cacheable is not the constant true): the cache keeps an older value and a later cached write of that value is skipped, leaving the cgroups on the transient set")
		}
	}
	r.Floor("CACHE", "UpdateBatch calls in cpusuppress", n, 1)
}
