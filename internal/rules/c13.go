package rules

import (
	"go/ast"
	"go/constant"
	"go/token"
	"go/types"
	"sort"
	"strings"

	"golang.org/x/tools/go/ssa"

	"kverif/internal/an"
)

func init() { Registry["C13"] = c13 }

const (
	podValidPkg = "pkg/webhook/pod/validating"
	podMutPkg   = "pkg/webhook/pod/mutating"
)

// variadicConsts returns the string constants stored into the variadic slice argument v.
func variadicConsts(v ssa.Value) []string {
	var out []string
	for x := range backwardAll(v) {
		a, ok := x.(*ssa.Alloc)
		if !ok {
			continue
		}
		for _, ref := range *a.Referrers() {
			ia, ok := ref.(*ssa.IndexAddr)
			if !ok {
				continue
			}
			for _, r2 := range *ia.Referrers() {
				if st, ok := r2.(*ssa.Store); ok {
					if cst, ok := st.Val.(*ssa.Const); ok && cst.Value != nil && cst.Value.Kind() == constant.String {
						out = append(out, constant.StringVal(cst.Value))
					}
				}
			}
		}
	}
	sort.Strings(out)
	return out
}

func c13(c *Ctx) {
	r := c.R
	r.Decides("the forbidden QoS/priority pairs cover the enum: LSR is forbidden with every priority class except prod, BE with none and prod; the four priority value ranges are ordered and disjoint")
	r.Decides("on update both immutability validators run and compare the raw classes of old and new pod; every validator result reaches the error list that decides 'allowed'")
	r.Decides("translation replaces the native entry by the extended one and erases it on the same path, the value coming only from the native quantity (milli-value for CPU); it is applied to requests and limits of containers and init containers and to overhead; a request is filled from the limit only when the request key is absent")
	r.Decides("batch resources require QoS BE; LSR/LSE pods must request a whole number of CPUs")
	r.Decides("the pair/shape validators run before any allowing answer on Create and Update alike; every erase of a native entry is paired with the store of the extended one; each priority class is returned only within its own Min..Max; the summary annotation is rewritten whenever it differs (size-aware equality) and copies Requests/Limits from the same side under the same name")
	r.Declines("amount preservation for arbitrary quantities, idempotence as a round trip, equality of the summary annotation with the final spec")

	c13wholeCPUs(c)
	extSpecParseError(c)
	c13labelPresent(c)
	ext := c.P.Pkg("apis/extension")
	var allPrio []string
	if ext != nil {
		sc := ext.Types.Scope()
		for _, n := range sc.Names() {
			if cst, ok := sc.Lookup(n).(*types.Const); ok {
				if nt, ok := cst.Type().(*types.Named); ok && nt.Obj().Name() == "PriorityClass" {
					allPrio = append(allPrio, constant.StringVal(cst.Val()))
				}
			}
		}
	}
	sort.Strings(allPrio)

	fn := c.Fn(podValidPkg, "PodValidatingHandler", "clusterColocationProfileValidatingPod")
	if fn != nil {
		r.Rule("TABLE: the constants passed to forbidSpecialQoSClassAndPriorityClass: for QoS LSR all PriorityClass constants except koord-prod; for QoS BE a set containing '' and koord-prod")
		seen := map[string][]string{}
		for _, cl := range an.Calls(fn, false) {
			if an.ShortCallee(cl.Common()) != "forbidSpecialQoSClassAndPriorityClass" {
				continue
			}
			a := cl.Common().Args
			q := ""
			if cst, ok := a[1].(*ssa.Const); ok && cst.Value != nil {
				q = constant.StringVal(cst.Value)
			}
			seen[q] = variadicConsts(a[2])
		}
		var wantLSR []string
		for _, p := range allPrio {
			if p != "koord-prod" {
				wantLSR = append(wantLSR, p)
			}
		}
		r.Check(len(allPrio) >= 5 && strings.Join(seen["LSR"], ",") == strings.Join(wantLSR, ","), "TABLE", fkey(fn)+"/forbid/LSR", c.Pos(fn.Pos()), "LSR forbidden with {"+strings.Join(seen["LSR"], ",")+"}",
			"LSR must be forbidden with every priority class except koord-prod {"+strings.Join(wantLSR, ",")+"}, but the list is {"+strings.Join(seen["LSR"], ",")+"}")
		be := map[string]bool{}
		for _, p := range seen["BE"] {
			be[p] = true
		}
		_, hasBE := seen["BE"]
		r.Check(hasBE && be[""] && be["koord-prod"], "TABLE", fkey(fn)+"/forbid/BE", c.Pos(fn.Pos()), "BE forbidden with none and prod", "BE must be forbidden with no priority class and with koord-prod, but the list is {"+strings.Join(seen["BE"], ",")+"}")

		r.Rule("PATH/ERR: under Operation == Update validateImmutableQoSClass and validateImmutablePriorityClass are called; the result of every validator call flows into the list whose ToAggregate() decides allowed; allowed is false exactly when that error is non-nil")
		var agg ssa.CallInstruction
		for _, cl := range an.Calls(fn, false) {
			if an.ShortCallee(cl.Common()) == "ToAggregate" {
				agg = cl
			}
		}
		validators := []string{"validateImmutableQoSClass", "validateImmutablePriorityClass", "validateRequiredQoSClass", "forbidSpecialQoSClassAndPriorityClass", "validateResources"}
		for _, v := range validators {
			n := 0
			ok := true
			for _, cl := range an.Calls(fn, false) {
				if an.ShortCallee(cl.Common()) != v || cl.Value() == nil {
					continue
				}
				n++
				if agg == nil || !an.ForwardReach(cl.Value(), nil)[an.Args(agg.Common())[0]] {
					ok = false
				}
				if strings.HasPrefix(v, "validateImmutable") {
					upd := false
					for _, g := range an.Guards(cl) {
						if g.Truth && strings.Contains(an.Path(g.Cond), `"UPDATE"`) {
							upd = true
						}
					}
					if !upd {
						ok = false
					}
				}
			}
			r.Check(ok && n >= 1, "ERR", fkey(fn)+"/validator/"+v, c.Pos(fn.Pos()), "called and its result decides the admission", sprintf("validator %s: calls=%d, result reaches the aggregated error (and runs on Update where required)=%v", v, n, ok))
		}
		r.Rule("PATH(always validated): in clusterColocationProfileValidatingPod no return that may allow the request is reachable without each of validateRequiredQoSClass, both forbidSpecialQoSClassAndPriorityClass calls and validateResources having run (on Create and on Update alike)")
		ordv := map[string]int{}
		for _, cl := range an.Calls(fn, false) {
			sn := an.ShortCallee(cl.Common())
			if sn != "validateRequiredQoSClass" && sn != "forbidSpecialQoSClassAndPriorityClass" && sn != "validateResources" {
				continue
			}
			ordv[sn]++
			target := cl
			reach := an.Explore(fn, nil, nil, func(in ssa.Instruction) bool { return in == ssa.Instruction(target) })
			bad := ""
			for _, ret := range reach.Returns() {
				for _, alt := range reach.Alts(ret) {
					if reach.EvalAlt(alt, 0) != an.False {
						bad = c.InstrPos(ret)
					}
				}
			}
			r.Check(bad == "", "PATH", sprintf("%s/always-runs/%s#%d", fkey(fn), sn, ordv[sn]), c.InstrPos(cl), "runs before any allowing return", "the request can be allowed (return at "+bad+") without "+sn+" having run: e.g. an update that keeps QoS and priority class but changes resources or labels is no longer checked")
		}
		// the two class immutability validators are not optional on update
		r.Rule("PATH(update => class immutability): in clusterColocationProfileValidatingPod, for an UPDATE request, validateImmutableQoSClass and validateImmutablePriorityClass are each reached on every path (no feature gate or other condition in front of them; only the koordinator priority LABEL check may be gated)")
		uf := an.Facts{}
		for _, b := range fn.Blocks {
			for _, in := range b.Instrs {
				if bo, ok := in.(*ssa.BinOp); ok && bo.Op == token.EQL {
					if s, isC := constString(bo.Y); isC {
						switch s {
						case "UPDATE":
							uf[bo] = an.True
						case "CREATE", "DELETE", "CONNECT":
							uf[bo] = an.False
						}
					}
				}
			}
		}
		for _, name := range []string{"validateImmutableQoSClass", "validateImmutablePriorityClass"} {
			found := false
			want := name
			reach := an.Explore(fn, nil, uf, func(in ssa.Instruction) bool {
				if cl, ok := in.(ssa.CallInstruction); ok && an.ShortCallee(cl.Common()) == want {
					found = true
					return true
				}
				return false
			})
			r.Check(len(uf) > 0 && found && len(reach.Returns()) == 0, "PATH", fkey(fn)+"/update=>"+name, c.Pos(fn.Pos()), "runs for every update", "on an UPDATE the request can be answered without "+name+" (it sits behind a feature gate or another condition): the class can be changed on update")
		}
		if agg != nil {
			// allowed=false iff err != nil: explore with err non-nil
			reach := an.Explore(fn, an.After(agg), an.Facts{agg.Value(): an.NonNil}, nil)
			bad := false
			for _, ret := range reach.Returns() {
				for _, alt := range reach.Alts(ret) {
					if reach.EvalAlt(alt, 0) != an.False {
						bad = true
					}
				}
			}
			r.Check(!bad, "PATH", fkey(fn)+"/error=>denied", c.InstrPos(agg), "any validation error denies the request", "with a non-nil aggregated error the pod can still be allowed")
		}
	}

	// immutability validators compare raw classes
	r.Rule("PATH/FLOW: validateImmutableQoSClass (validateImmutablePriorityClass) has a single kind of return: ValidateImmutableField(GetPodQoSClassRaw(new), GetPodQoSClassRaw(old)) (resp. GetPodPriorityClassRaw)")
	for _, x := range [][2]string{{"validateImmutableQoSClass", "GetPodQoSClassRaw"}, {"validateImmutablePriorityClass", "GetPodPriorityClassRaw"}} {
		f := c.Fn(podValidPkg, "", x[0])
		if f == nil {
			continue
		}
		ok := true
		n := 0
		for _, b := range f.Blocks {
			ret, isRet := b.Instrs[len(b.Instrs)-1].(*ssa.Return)
			if !isRet {
				continue
			}
			n++
			call, _ := an.ResultOfCall(ret.Results[0])
			if call == nil || an.ShortCallee(&call.Call) != "ValidateImmutableField" {
				ok = false
				continue
			}
			pa, pb := an.Path(call.Call.Args[0]), an.Path(call.Call.Args[1])
			if !(strings.Contains(pa, x[1]+"(newPod)") && strings.Contains(pb, x[1]+"(oldPod)")) {
				ok = false
			}
		}
		r.Check(ok && n == 1, "PATH", fkey(f)+"/always-compares-raw-classes", c.Pos(f.Pos()), "every path compares the raw class of old and new pod", "the validator has a return that does not compare "+x[1]+"(newPod) with "+x[1]+"(oldPod): the class can change on update (e.g. through the priority-class label while spec.priority stays)")
	}

	// priority ranges
	r.Rule("CONST: PriorityFreeValueMin <= Max < PriorityBatchValueMin <= Max < PriorityMidValueMin <= Max < PriorityProdValueMin <= Max")
	if ext != nil {
		// the bounds are package variables (customisable); their declared initial values are checked
		inits := map[string]int64{}
		for _, f := range ext.Syntax {
			for _, d := range f.Decls {
				gd, ok := d.(*ast.GenDecl)
				if !ok {
					continue
				}
				for _, sp := range gd.Specs {
					vs, ok := sp.(*ast.ValueSpec)
					if !ok {
						continue
					}
					for i, nm := range vs.Names {
						if i < len(vs.Values) {
							if tv, ok := ext.TypesInfo.Types[vs.Values[i]]; ok && tv.Value != nil && tv.Value.Kind() == constant.Int {
								v, _ := constant.Int64Val(tv.Value)
								inits[nm.Name] = v
							}
						}
					}
				}
			}
		}
		get := func(n string) (int64, bool) {
			v, ok := inits[n]
			return v, ok
		}
		var seq []int64
		okAll := true
		for _, n := range []string{"PriorityFreeValueMin", "PriorityFreeValueMax", "PriorityBatchValueMin", "PriorityBatchValueMax", "PriorityMidValueMin", "PriorityMidValueMax", "PriorityProdValueMin", "PriorityProdValueMax"} {
			v, ok := get(n)
			okAll = okAll && ok
			seq = append(seq, v)
		}
		for i := 1; okAll && i < len(seq); i++ {
			if i%2 == 1 && seq[i] < seq[i-1] {
				okAll = false
			}
			if i%2 == 0 && seq[i] <= seq[i-1] {
				okAll = false
			}
		}
		r.Check(okAll, "CONST", "apis/extension/priority-ranges", "", sprintf("ranges ordered and disjoint: %v", seq), sprintf("priority value ranges overlap or are out of order: %v", seq))
	}

	c13ranges(c)
	summaryAnnotation(c)
	c13mutate(c)
	c13shape(c)
}

// c13ranges: the value->class mapping tests each class against its own bounds.
func c13ranges(c *Ctx) {
	r := c.R
	r.Rule("PATH(ranges): in getPriorityClassByPriority the return of class K (prod, mid, batch, free) is dominated by exactly p >= Priority<K>ValueMin and p <= Priority<K>ValueMax (both bounds of the same class; values between two ranges map to no class)")
	fn := c.Fn("apis/extension", "", "getPriorityClassByPriority")
	if fn == nil {
		return
	}
	classes := map[string]string{"koord-prod": "Prod", "koord-mid": "Mid", "koord-batch": "Batch", "koord-free": "Free"}
	found := map[string]bool{}
	for _, alt := range an.ReturnAlts(fn) {
		ret := alt.Ret
		_ = ret
		name, isC := constString(alt.Results[0])
		k, tracked := classes[name]
		if !isC || !tracked {
			continue
		}
		found[name] = true
		lo, hi := false, false
		var other []string
		for _, g := range alt.Guards {
			// the relation that holds, with the bound on the right ("Min <= p" reads "p >= Min")
			rel, ok := an.RelOf(g)
			if !ok {
				continue
			}
			op, y := rel.Op, an.Path(rel.Y)
			if xp := an.Path(rel.X); strings.Contains(xp, "Priority") && strings.Contains(xp, "Value") {
				y = xp
				switch op {
				case token.LSS:
					op = token.GTR
				case token.LEQ:
					op = token.GEQ
				case token.GTR:
					op = token.LSS
				case token.GEQ:
					op = token.LEQ
				}
			}
			switch {
			case op == token.GEQ && strings.HasSuffix(y, "Priority"+k+"ValueMin"):
				lo = true
			case op == token.LEQ && strings.HasSuffix(y, "Priority"+k+"ValueMax"):
				hi = true
			case g.Truth && strings.Contains(y, "Priority") && strings.Contains(y, "Value"):
				other = append(other, op.String()+" "+y)
			}
		}
		r.Check(lo && hi && len(other) == 0, "PATH", fkey(fn)+"/range/"+name, c.InstrPos(ret), "guarded by its own Min and Max", sprintf("class %s is returned under: own lower bound=%v, own upper bound=%v, foreign bounds=%v - values outside the published %s range are classified as %s", name, lo, hi, other, k, name))
	}
	for name := range classes {
		if !found[name] {
			r.Unknown("PATH", fkey(fn)+"/range/"+name, c.Pos(fn.Pos()), "no return of this class constant found")
		}
	}
}

func c13mutate(c *Ctx) {
	r := c.R
	r.Rule("ORDER(translate once, last): in clusterColocationProfileMutatingPod no call of mutatePodResourceSpec lies inside the loop over the matched profiles (the translation erases the native entries for the tier known at that moment; a later profile that changes the priority class finds nothing left to translate)")
	if fn := c.Fn(podMutPkg, "PodMutatingHandler", "clusterColocationProfileMutatingPod"); fn != nil {
		n, inLoop := 0, ""
		for _, cl := range an.Calls(fn, false) {
			if an.ShortCallee(cl.Common()) != "mutatePodResourceSpec" {
				continue
			}
			n++
			if an.InnermostLoopHeader(cl.Block()) != nil {
				inLoop = c.InstrPos(cl)
			}
		}
		r.Check(n >= 1 && inLoop == "", "ORDER", fkey(fn)+"/translate-after-all-profiles", c.Pos(fn.Pos()), "translation runs once, behind the profile loop", "the resource translation runs inside the profile loop (at "+inLoop+"): with two matching profiles of different tiers the pod ends up with the first tier's resource names and the second tier's priority")
	}
	r.Rule("PATH/FLOW: in replaceAndEraseResource the store resourceList[extended] = q and delete(resourceList, native) are on the same path, guarded by the native key being present; q derives only from the looked-up native quantity (through NewQuantity(MilliValue()) for CPU)")
	if fn := c.Fn(podMutPkg, "", "replaceAndEraseResource"); fn != nil {
		var store *ssa.MapUpdate
		var del ssa.CallInstruction
		for _, b := range fn.Blocks {
			for _, in := range b.Instrs {
				switch x := in.(type) {
				case *ssa.MapUpdate:
					store = x
				case ssa.CallInstruction:
					if bi, ok := x.Common().Value.(*ssa.Builtin); ok && bi.Name() == "delete" {
						del = x
					}
				}
			}
		}
		key := fkey(fn)
		if store == nil || del == nil {
			r.Fail("PATH", key+"/replace+erase", c.Pos(fn.Pos()), sprintf("store of the extended entry found: %v, erase of the native entry found: %v", store != nil, del != nil))
		} else {
			reach := an.Explore(fn, an.After(store), nil, func(in ssa.Instruction) bool { return in == ssa.Instruction(del) })
			paired := len(reach.Returns()) == 0 || instrBefore(del, store)
			// every erase of the native entry is paired with the store of the extended entry
			for _, cl := range an.Calls(fn, false) {
				if bi, ok := cl.Common().Value.(*ssa.Builtin); !ok || bi.Name() != "delete" {
					continue
				}
				if instrBefore(store, cl) {
					continue
				}
				rs := an.Explore(fn, an.After(cl), nil, func(in ssa.Instruction) bool { return in == ssa.Instruction(store) })
				if len(rs.Returns()) > 0 {
					paired = false
				}
			}
			sameMap := store.Map == del.Common().Args[0] && del.Common().Args[1] == ssa.Value(fn.Params[2])
			present := false
			for _, g := range an.Guards(store) {
				if isCommaOk(g.Cond) && g.Truth {
					present = true
				}
			}
			r.Check(paired && sameMap && present, "PATH", key+"/replace+erase", c.InstrPos(store), "replace and erase are paired under 'native entry present'",
				sprintf("replace/erase pairing broken: erase on every path=%v, same list and native key=%v, guarded by presence=%v", paired, sameMap, present))
			// provenance of the stored value
			var bad []string
			nsrc := 0
			for _, l := range an.Sources(store.Value, func(v ssa.Value) bool {
				if call, ok := v.(*ssa.Call); ok {
					switch an.ShortCallee(&call.Call) {
					case "NewQuantity", "MilliValue":
						return true
					}
				}
				if u, ok := v.(*ssa.UnOp); ok && u.Op == token.MUL {
					return true
				}
				return false
			}) {
				switch x := l.(type) {
				case *ssa.Const:
					continue
				case *ssa.Extract:
					if lk, ok := x.Tuple.(*ssa.Lookup); ok && lk.X == store.Map && lk.Index == ssa.Value(fn.Params[2]) {
						nsrc++
						continue
					}
				case *ssa.Lookup:
					if x.X == store.Map {
						nsrc++
						continue
					}
				case *ssa.Alloc:
					continue
				}
				bad = append(bad, an.Path(l))
			}
			r.Check(len(bad) == 0 && nsrc >= 1, "FLOW", key+"/value-from-native-entry", c.InstrPos(store), "the extended entry carries the native amount", "the amount stored under the extended name has other sources than the native entry: "+strings.Join(bad, "; "))
			// CPU goes through MilliValue
			milli := false
			for _, cl := range an.Calls(fn, false) {
				if an.ShortCallee(cl.Common()) == "MilliValue" {
					for _, g := range an.Guards(cl) {
						// "name == cpu" holds: written as == taken or as != not taken
						if rel, isRel := an.RelOf(g); isRel && rel.Op == token.EQL {
							sx, okx := constString(rel.X)
							sy, oky := constString(rel.Y)
							if (okx && sx == "cpu") || (oky && sy == "cpu") {
								milli = true
							}
						}
					}
				}
			}
			r.Check(milli, "FLOW", key+"/cpu-in-milli", c.Pos(fn.Pos()), "CPU is converted to milli-cores", "CPU is no longer converted with MilliValue() under resourceName == cpu")
		}
	}
	r.Rule("TABLE: mutatePodResourceSpec calls replaceAndEraseResource for {Requests,Limits} x {cpu,memory} inside the loop over init containers and containers, and for Overhead x {cpu,memory}")
	if fn := c.Fn(podMutPkg, "PodMutatingHandler", "mutatePodResourceSpec"); fn != nil {
		got := map[string]bool{}
		for _, cl := range an.Calls(fn, false) {
			if an.ShortCallee(cl.Common()) != "replaceAndEraseResource" {
				continue
			}
			a := cl.Common().Args
			// an argument may be the element of a full scan over a slice literal (table-driven form)
			for _, lv := range argAlts(a[1]) {
				list := an.Path(lv)
				for _, rv := range argAlts(a[2]) {
					res := an.Path(rv)
					for _, f := range []string{"Requests", "Limits", "Overhead"} {
						if strings.HasSuffix(list, "."+f) {
							got[f+"/"+strings.Trim(res, `"`)] = true
						}
					}
				}
			}
		}
		for _, w := range []string{"Requests/cpu", "Requests/memory", "Limits/cpu", "Limits/memory", "Overhead/cpu", "Overhead/memory"} {
			r.Check(got[w], "TABLE", fkey(fn)+"/translate/"+w, c.Pos(fn.Pos()), "translated", w+" is not translated: the native entry would survive admission for this tier")
		}
		// both container lists
		src := false
		for _, b := range fn.Blocks {
			for _, in := range b.Instrs {
				if st, ok := in.(*ssa.Store); ok {
					p := an.Path(st.Val)
					if strings.HasSuffix(p, ".InitContainers") || strings.HasSuffix(p, ".Containers") {
						src = true
					}
				}
			}
		}
		n := 0
		for _, b := range fn.Blocks {
			for _, in := range b.Instrs {
				if st, ok := in.(*ssa.Store); ok {
					p := an.Path(st.Val)
					if strings.HasSuffix(p, ".InitContainers") || strings.HasSuffix(p, ".Containers") {
						n++
					}
				}
			}
		}
		r.Check(src && n == 2, "TABLE", fkey(fn)+"/both-container-lists", c.Pos(fn.Pos()), "init containers and containers are translated", sprintf("container lists iterated: %d (expected InitContainers and Containers)", n))
	}
	r.Rule("PATH: in restrictResourceRequestAndLimit the request is filled from the limit only when the request key is absent (comma-ok lookup false) and the limit key is present")
	if fn := c.Fn(podMutPkg, "", "restrictResourceRequestAndLimit"); fn != nil {
		n := 0
		for _, b := range fn.Blocks {
			for _, in := range b.Instrs {
				mu, ok := in.(*ssa.MapUpdate)
				if !ok {
					continue
				}
				n++
				var reqAbsent, limPresent bool
				for _, g := range an.Guards(mu) {
					e, ok := g.Cond.(*ssa.Extract)
					if !ok || e.Index != 1 {
						continue
					}
					lk, ok := e.Tuple.(*ssa.Lookup)
					if !ok || !lk.CommaOk {
						continue
					}
					p := an.Path(lk.X)
					if strings.HasSuffix(p, ".Requests") && !g.Truth {
						reqAbsent = true
					}
					if strings.HasSuffix(p, ".Limits") && g.Truth {
						limPresent = true
					}
				}
				r.Check(reqAbsent && limPresent, "PATH", fkey(fn)+"/fill-only-if-absent", c.InstrPos(mu), "request filled only when undeclared", sprintf("the request is overwritten with the limit without the key-absence test (request key absent=%v, limit key present=%v): a declared request (e.g. an explicit 0) loses its amount", reqAbsent, limPresent))
			}
		}
		if n == 0 {
			r.Unknown("PATH", fkey(fn)+"/fill-only-if-absent", c.Pos(fn.Pos()), "no store into Requests found")
		}
	}
}

func c13shape(c *Ctx) {
	r := c.R
	r.Rule("PATH: validateRequiredQoSClass returns nil only when both batch amounts are zero or QoS == BE; validateResources adds an error for LSR/LSE when cpu is zero or Value()*1000 != MilliValue()")
	if fn := c.Fn(podValidPkg, "", "validateRequiredQoSClass"); fn != nil {
		facts := an.Facts{}
		nz := 0
		for _, cl := range an.Calls(fn, false) {
			if an.ShortCallee(cl.Common()) == "IsZero" && nz == 0 {
				facts[cl.Value()] = an.False
				nz++
			}
		}
		for _, b := range fn.Blocks {
			for _, in := range b.Instrs {
				if bo, ok := in.(*ssa.BinOp); ok && (bo.Op == token.EQL || bo.Op == token.NEQ) && strings.Contains(an.Path(bo), `"BE"`) {
					// the QoS is not BE
					if bo.Op == token.EQL {
						facts[bo] = an.False
					} else {
						facts[bo] = an.True
					}
				}
			}
		}
		reach := an.Explore(fn, nil, facts, nil)
		bad := false
		for _, ret := range reach.Returns() {
			for _, alt := range reach.Alts(ret) {
				if an.IsNilConst(alt.Results[0]) {
					bad = true
				}
			}
		}
		r.Check(len(facts) == 2 && !bad, "PATH", fkey(fn)+"/batch-needs-BE", c.Pos(fn.Pos()), "batch resources without QoS BE are rejected", "a pod with non-zero batch CPU and a QoS other than BE can pass")
	}
	if fn := c.Fn(podValidPkg, "", "validateResources"); fn != nil {
		// scenarios: QoS LSR (resp. LSE), a non-zero CPU request that is not a whole number: no return without appending an error
		var cmp *ssa.BinOp
		qosCmp := map[string][]*ssa.BinOp{}
		var zero []ssa.Value
		for _, b := range fn.Blocks {
			for _, in := range b.Instrs {
				switch x := in.(type) {
				case *ssa.BinOp:
					if x.Op != token.EQL && x.Op != token.NEQ {
						continue
					}
					p := an.Path(x)
					if strings.Contains(p, "Value(") && strings.Contains(p, "* 1000") && strings.Contains(p, "MilliValue(") {
						cmp = x
					}
					for _, q := range []string{"LSR", "LSE"} {
						if strings.Contains(p, `"`+q+`"`) {
							qosCmp[q] = append(qosCmp[q], x)
						}
					}
				case *ssa.Call:
					if an.ShortCallee(&x.Call) == "IsZero" {
						zero = append(zero, x)
					}
				}
			}
		}
		ok := cmp != nil && len(qosCmp["LSR"]) > 0 && len(qosCmp["LSE"]) > 0
		set := func(f an.Facts, bo *ssa.BinOp, equal bool) {
			if (bo.Op == token.EQL) == equal {
				f[bo] = an.True
			} else {
				f[bo] = an.False
			}
		}
		for _, q := range []string{"LSR", "LSE"} {
			if !ok {
				break
			}
			f := an.Facts{}
			for qq, list := range qosCmp {
				for _, bo := range list {
					set(f, bo, qq == q)
				}
			}
			for _, z := range zero {
				f[z] = an.False
			}
			set(f, cmp, false) // Value()*1000 differs from MilliValue()
			// an error is produced: a call that yields a *field.Error (appended to a list or put into a literal)
			reach := an.Explore(fn, nil, f, func(in ssa.Instruction) bool {
				call, isC := in.(*ssa.Call)
				return isC && strings.HasSuffix(call.Type().String(), "util/validation/field.Error")
			})
			if len(reach.Returns()) > 0 {
				ok = false
			}
		}
		r.Check(ok, "PATH", fkey(fn)+"/whole-cpus", c.Pos(fn.Pos()), "LSR/LSE pods must request whole CPUs", "for an LSR or LSE pod whose CPU request is not a whole number a return is reachable without an error being appended (or the test Value()*1000 != MilliValue() is missing)")
	}
}

// argAlts: the values an argument can take when it is the element of a loop that visits every position of a slice
// literal ("for _, x := range []T{a, b}"); otherwise the value itself.
func argAlts(v ssa.Value) []ssa.Value {
	self := []ssa.Value{v}
	u, ok := v.(*ssa.UnOp)
	if !ok || u.Op != token.MUL {
		return self
	}
	ia, ok := u.X.(*ssa.IndexAddr)
	if !ok {
		return self
	}
	if _, _, full := fullScan(ia); !full {
		return self
	}
	var out []ssa.Value
	for _, src := range cellSources(ia.X) {
		es := variadicElems(src)
		if len(es) == 0 {
			return self
		}
		out = append(out, es...)
	}
	if len(out) == 0 {
		return self
	}
	return out
}
