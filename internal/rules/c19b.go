package rules

import (
	"go/token"
	"strings"

	"golang.org/x/tools/go/ssa"

	"kverif/internal/an"
)

// c19forward: every pod event of the restoring plugins reaches the rebuild; the VF ledger release is the inverse of its add.
func c19forward(c *Ctx) {
	r := c.R
	r.Decides("the pod informer handlers of nodenumaresource, deviceshare and reservation hand every add and update event to updatePod (no 'nothing changed' shortcut: after a restart an allocation whose add was dropped - node topology or owner not there yet - is repaired only by the pod's next event, which usually changes nothing); releasing a pod's virtual functions removes exactly the released ones from the stored set of that physical function and drops the entry only when the stored set is empty")
	r.Rule("PATH(handlers forward): in podEventHandler.OnAdd/OnUpdate (nodenumaresource, reservation) and nodeDeviceCache.onPodAdd/onPodUpdate (deviceshare), with the event objects being pods, updatePod is reached on every path")
	n := 0
	for _, h := range []struct{ pkg, recv, name string }{
		{numaPkg, "podEventHandler", "OnAdd"}, {numaPkg, "podEventHandler", "OnUpdate"},
		{devPkg, "nodeDeviceCache", "onPodAdd"}, {devPkg, "nodeDeviceCache", "onPodUpdate"},
		{resvPkg, "podEventHandler", "OnAdd"}, {resvPkg, "podEventHandler", "OnUpdate"},
	} {
		fn := c.Fn(h.pkg, h.recv, h.name)
		if fn == nil {
			continue
		}
		n++
		f := an.Facts{}
		for _, b := range fn.Blocks {
			for _, in := range b.Instrs {
				ta, ok := in.(*ssa.TypeAssert)
				if !ok {
					continue
				}
				if _, isP := ta.X.(*ssa.Parameter); !isP {
					continue
				}
				if ta.CommaOk {
					f[extract(ta, 1)] = an.True
					f[extract(ta, 0)] = an.NonNil
				} else {
					f[ta] = an.NonNil
				}
			}
		}
		found := false
		reach := an.Explore(fn, nil, f, func(in ssa.Instruction) bool {
			if cl, ok := in.(ssa.CallInstruction); ok && an.ShortCallee(cl.Common()) == "updatePod" {
				found = true
				return true
			}
			return false
		})
		r.Check(len(f) > 0 && found && len(reach.Returns()) == 0, "PATH", fkey(fn)+"=>updatePod", c.Pos(fn.Pos()), "every pod event is forwarded", "a pod event can be dropped before updatePod (a shortcut on 'nothing relevant changed'): an allocation whose first replay was lost is never rebuilt")
	}
	r.Floor("PATH", "pod informer handlers of the restoring plugins", n, 6)

	r.Rule("MIRROR(VF release): in nodeDevice.removeVFAllocations the per-minor entry is deleted (or replaced) only on the strength of the STORED set of the receiver: the emptiness test looks at a set obtained from the receiver's map (after Delete of the released VFs, or stored.Difference(released)), never at a set computed from the released record alone; nothing derived only from the released record is stored back")
	if fn := c.Fn(devPkg, "nodeDevice", "removeVFAllocations"); fn != nil {
		recv := fn.Params[0]
		fromRecv := func(v ssa.Value) bool {
			for x := range backwardAll(v) {
				if x == ssa.Value(recv) {
					return true
				}
			}
			return false
		}
		ok, nDel := true, 0
		why := ""
		for _, cl := range an.Calls(fn, false) {
			call, isCall := cl.(*ssa.Call)
			if !isCall || !an.IsBuiltinCall(call, "delete") || !strings.HasSuffix(an.Path(call.Call.Args[0]), ".allocatedVFs") {
				continue
			}
			nDel++
			tested := false
			for _, g := range an.Guards(call) {
				rel, isRel := an.RelOf(g)
				if !isRel {
					continue
				}
				ln, isLn := rel.X.(*ssa.Call)
				if !isLn || !an.IsBuiltinCall(ln, "len") {
					continue
				}
				if k, isC := constIntOf(rel.Y); !isC || k != 0 || rel.Op != token.EQL {
					continue
				}
				set := ln.Call.Args[0]
				// a Difference must have the stored set as receiver
				good := fromRecv(set)
				for x := range backwardAll(set) {
					if d, isD := x.(*ssa.Call); isD && an.ShortCallee(&d.Call) == "Difference" {
						as := an.Args(&d.Call)
						if len(as) == 2 && (!fromRecv(as[0]) || fromRecv(as[1])) {
							good = false
						}
					}
				}
				if good {
					tested = true
				} else {
					why = c.InstrPos(call) + ": the emptiness test looks at a set computed from the released record"
				}
			}
			if !tested {
				ok = false
				if why == "" {
					why = c.InstrPos(call) + ": the entry is deleted without an emptiness test of the stored set"
				}
			}
		}
		for _, b := range fn.Blocks {
			for _, in := range b.Instrs {
				if mu, isMU := in.(*ssa.MapUpdate); isMU && strings.HasSuffix(an.Path(mu.Map), ".allocatedVFs") {
					good := false
					for x := range backwardAll(mu.Value) {
						if d, isD := x.(*ssa.Call); isD && an.ShortCallee(&d.Call) == "Difference" {
							as := an.Args(&d.Call)
							good = len(as) == 2 && fromRecv(as[0]) && !fromRecv(as[1])
						}
					}
					if !good {
						ok = false
						why = c.InstrPos(mu) + ": a set that is not 'stored minus released' is stored back"
					}
				}
			}
		}
		r.Check(ok && nDel >= 1, "MIRROR", fkey(fn)+"/inverse-of-add", c.Pos(fn.Pos()), "only the released VFs leave the stored set", "releasing one pod's virtual functions can wipe the other pods' on the same physical function ("+why+"): the in-use VF is handed out again")
	}
}

// c19deviceUpdate: the deviceshare update handler validates before it mutates and does release+add in one critical section.
func c19deviceUpdate(c *Ctx) {
	r := c.R
	r.Rule("ORDER(validate, then one critical section): in nodeDeviceCache.updatePod no parse of an allocation annotation (GetDeviceAllocations) is reachable after a call that changes the device ledger (updateCacheUsed, directly or through a callee) - an event whose annotation cannot be read leaves the ledger untouched; and where an update both releases the previous version and records the current one, both are direct updateCacheUsed calls under one acquisition of the node's lock (a callee that takes the lock itself opens a window in which a running pod's device is free)")
	fn := c.Fn(devPkg, "nodeDeviceCache", "updatePod")
	if fn == nil {
		return
	}
	var muts, parses []ssa.CallInstruction
	for _, cl := range an.Calls(fn, true) {
		switch {
		case an.ShortCallee(cl.Common()) == "GetDeviceAllocations":
			parses = append(parses, cl)
		case an.ShortCallee(cl.Common()) == "updateCacheUsed":
			muts = append(muts, cl)
		default:
			if callee := cl.Common().StaticCallee(); callee != nil && len(callee.Blocks) > 0 && Reaches(callee, "updateCacheUsed", 4) {
				muts = append(muts, cl)
			}
		}
	}
	ok, why := true, ""
	after := func(a, b ssa.Instruction) bool { // b reachable after a
		if a.Block() == b.Block() {
			ia, ib := -1, -1
			for i, in := range a.Block().Instrs {
				if in == a {
					ia = i
				}
				if in == b {
					ib = i
				}
			}
			if ib > ia {
				return true
			}
		}
		for _, s := range a.Block().Succs {
			if s == b.Block() || an.ForwardReachBlocks(s)[b.Block()] {
				return true
			}
		}
		return false
	}
	for _, m := range muts {
		for _, p := range parses {
			if m.Parent() == fn && p.Parent() == fn && after(m, p) {
				ok = false
				why = c.InstrPos(m) + " changes the ledger before " + c.InstrPos(p) + " has read the annotation"
			}
		}
		// a ledger change followed by another ledger change: both must be direct calls (same critical section)
		for _, m2 := range muts {
			if m == m2 || m.Parent() != fn || m2.Parent() != fn || !after(m, m2) {
				continue
			}
			if an.ShortCallee(m.Common()) != "updateCacheUsed" || an.ShortCallee(m2.Common()) != "updateCacheUsed" {
				ok = false
				why = c.InstrPos(m) + " and " + c.InstrPos(m2) + " change the ledger in separate critical sections"
			}
		}
	}
	r.Check(ok && len(muts) >= 2 && len(parses) >= 1, "ORDER", fkey(fn)+"/validate-then-one-section", c.Pos(fn.Pos()), "annotations are read before the ledger changes; release and add share one critical section", "a replayed update can release a running pod's devices and then fail or pause before recording them again ("+why+"): the device is considered free")
}

// c19values: what is rebuilt / persisted is the figure that was recorded, not a position or the last addend.
func c19values(c *Ctx) {
	r := c.R
	r.Rule("FLOW(NUMA id): in nodenumaresource podEventHandler.updatePod the Node of every rebuilt NUMANodeResource derives from the Node field of the persisted entry (not from its position in the list: an allocation on NUMA node 1 alone would be rebuilt on node 0)")
	if fn := c.Fn(numaPkg, "podEventHandler", "updatePod"); fn != nil {
		n, ok := 0, true
		for _, b := range fn.Blocks {
			for _, in := range b.Instrs {
				st, isS := in.(*ssa.Store)
				if !isS {
					continue
				}
				owner, field, _, isF := an.FieldOf(st.Addr)
				if !isF || field != "Node" || !strings.HasSuffix(owner, "nodenumaresource.NUMANodeResource") {
					continue
				}
				n++
				from := false
				for x := range backwardAll(st.Val) {
					if fa, isFA := x.(*ssa.FieldAddr); isFA {
						if o2, f2, _, ok2 := an.FieldOf(fa); ok2 && f2 == "Node" && strings.HasSuffix(o2, "extension.NUMANodeResource") {
							from = true
						}
					}
				}
				if !from {
					ok = false
				}
			}
		}
		r.Check(ok && n >= 1, "FLOW", fkey(fn)+"/numa-id-from-record", c.Pos(fn.Pos()), "the NUMA node id is read back from the record", "the NUMA node of a rebuilt allocation does not come from the persisted entry's Node field: after a restart the amount is booked on another NUMA node and the occupied one looks free")
	}
	r.Rule("AGG(sum over devices): in deviceshare updateReservationAllocatable the amount persisted through UpdateReservationResizeAllocatable is accumulated with quotav1.Add over every allocated device (two devices of one type count twice)")
	if fn := c.Fn(devPkg, "", "updateReservationAllocatable"); fn != nil {
		n, ok := 0, true
		for _, cl := range an.Calls(fn, false) {
			if an.ShortCallee(cl.Common()) != "UpdateReservationResizeAllocatable" {
				continue
			}
			n++
			sum := false
			for x := range backwardAll(cl.Common().Args[1]) {
				if call, isC := x.(*ssa.Call); isC && strings.HasSuffix(an.CalleeName(&call.Call), "quota/v1.Add") {
					sum = true
				}
			}
			// a map filled key by key is an overwrite, not a sum
			for _, src := range cellSources(cl.Common().Args[1]) {
				if _, isMM := src.(*ssa.MakeMap); isMM {
					sum = false
				}
			}
			if !sum {
				ok = false
			}
		}
		r.Check(ok && n >= 1, "AGG", fkey(fn)+"/sum", c.Pos(fn.Pos()), "the persisted amount is the sum over the devices", "the amount persisted for the reservation is not accumulated with quotav1.Add: with two devices of a type the record holds one device's amount, and the restarted scheduler sizes the reservation to half of what is taken")
	}
}
