package rules

import (
	"go/token"
	"strings"

	"golang.org/x/tools/go/ssa"

	"kverif/internal/an"
	"kverif/internal/load"
)

// onlyErrors: from start under facts, no nil-error return and none of the given blocks/instructions is reachable.
func onlyErrors(fn *ssa.Function, start *an.Start, facts an.Facts, forbid func(ssa.Instruction) bool) (bool, string) {
	hit := ""
	reach := an.Explore(fn, start, facts, func(in ssa.Instruction) bool {
		if forbid != nil && forbid(in) {
			hit = "a forbidden step is reached"
			return true
		}
		return false
	})
	if hit != "" {
		return false, hit
	}
	for _, ret := range reach.Returns() {
		for _, alt := range reach.Alts(ret) {
			if reach.EvalAlt(alt, len(alt.Results)-1) != an.NonNil {
				return false, "a return without an error is reachable"
			}
		}
	}
	return true, ""
}

// lookupsOf: the comma-ok lookups m[k] in fn whose map is the receiver field named field (or, with field "", whose
// map path ends in suffix).
func lookupsOf(fn *ssa.Function, suffix string) []*ssa.Lookup {
	var out []*ssa.Lookup
	for _, b := range fn.Blocks {
		for _, in := range b.Instrs {
			if lk, ok := in.(*ssa.Lookup); ok && lk.CommaOk && strings.HasSuffix(an.Path(lk.X), suffix) {
				out = append(out, lk)
			}
		}
	}
	return out
}

// setCmpFacts assumes, for every comparison of the result of call (a Cmp) with a constant, the outcome it has when
// the call returns v.
func setCmpFacts(fn *ssa.Function, call *ssa.Call, v int64, f an.Facts) int {
	n := 0
	for _, b := range fn.Blocks {
		for _, in := range b.Instrs {
			bo, ok := in.(*ssa.BinOp)
			if !ok || bo.X != ssa.Value(call) {
				continue
			}
			k, isC := constIntOf(bo.Y)
			if !isC {
				continue
			}
			var res bool
			switch bo.Op {
			case token.EQL:
				res = v == k
			case token.NEQ:
				res = v != k
			case token.LSS:
				res = v < k
			case token.LEQ:
				res = v <= k
			case token.GTR:
				res = v > k
			case token.GEQ:
				res = v >= k
			default:
				continue
			}
			if res {
				f[bo] = an.True
			} else {
				f[bo] = an.False
			}
			n++
		}
	}
	return n
}

// c15items: the per-request conditions themselves.
func c15items(c *Ctx) {
	r := c.R
	r.Decides("validateQuotaSelfItem rejects a min entry whose dimension max does not declare and a min entry above max; checkParentQuotaInfo rejects a non-root parent that is unknown to either map or not marked as parent; checkIsParentChange rejects turning a quota with children into a non-parent; ValidAddQuota/ValidUpdateQuota reject a namespace bound to another quota and record exactly the namespaces they checked; ValidDeleteQuota rejects a quota with children or pods; nothing is recorded before both the self-item and the topology validation of that very object returned nil")
	const tp = "(*" + load.Module + "/" + quotaWebhookPkg + ".quotaTopology)."

	// ---- self item
	r.Rule("PATH(self item): in validateQuotaSelfItem, for an entry of Spec.Min: with the lookup of its key in Spec.Max failing, and with the lookup succeeding and max comparing below min (either operand order of Cmp), only error returns are reachable and the next entry is not reached")
	if fn := c.Fn(quotaWebhookPkg, "quotaTopology", "validateQuotaSelfItem"); fn != nil {
		key := fkey(fn)
		var lk *ssa.Lookup
		for _, l := range lookupsOf(fn, ".Spec.Max") {
			// the key ranges over Spec.Min
			for x := range backwardAll(l.Index) {
				if rg, ok := x.(*ssa.Range); ok && strings.HasSuffix(an.Path(rg.X), ".Spec.Min") {
					lk = l
				}
			}
		}
		if lk == nil {
			r.Fail("PATH", key+"/min-within-max", c.Pos(fn.Pos()), "no lookup of a Spec.Min key in Spec.Max: the check that min is declared only for dimensions of max, and not above it, is gone")
		} else {
			hdr := an.InnermostLoopHeader(lk.Block())
			forbid := func(in ssa.Instruction) bool {
				_, isNext := in.(*ssa.Next)
				return isNext && hdr != nil && in.Block() == hdr
			}
			exist := extract(lk, 1)
			ok1, why1 := onlyErrors(fn, an.After(lk), an.Facts{exist: an.False}, forbid)
			r.Check(ok1, "PATH", key+"/min-key-not-in-max=>error", c.InstrPos(lk), "rejected", "a min dimension that max does not declare is accepted: "+why1)
			// the comparison
			maxVal := extract(lk, 0)
			var cmp *ssa.Call
			sign := int64(0)
			for _, cl := range an.Calls(fn, false) {
				call, isCall := cl.(*ssa.Call)
				if !isCall || an.ShortCallee(&call.Call) != "Cmp" || len(call.Call.Args) != 2 || hdr == nil || !hdr.Dominates(call.Block()) {
					continue
				}
				a0, a1 := call.Call.Args[0], call.Call.Args[1]
				isMax := func(v ssa.Value) bool {
					for x := range backwardAll(v) {
						if x == maxVal {
							return true
						}
					}
					return false
				}
				switch {
				case isMax(a0) && !isMax(a1):
					cmp, sign = call, -1 // max.Cmp(min) == -1: max below min
				case isMax(a1) && !isMax(a0):
					cmp, sign = call, 1
				}
			}
			if cmp == nil {
				r.Fail("PATH", key+"/min-above-max=>error", c.InstrPos(lk), "max and min of a dimension are not compared")
			} else {
				f := an.Facts{exist: an.True}
				n := setCmpFacts(fn, cmp, sign, f)
				ok2, why2 := onlyErrors(fn, an.After(cmp), f, forbid)
				r.Check(n > 0 && ok2, "PATH", key+"/min-above-max=>error", c.InstrPos(cmp), "rejected", sprintf("a min above max is accepted (%d comparisons of the Cmp result): %s", n, why2))
			}
		}
	}

	// ---- parent exists and is a parent
	r.Rule("PATH(parent): in checkParentQuotaInfo, for a parent other than the root: an unknown parent (quotaInfoMap), a parent without hierarchy entry (quotaHierarchyInfo) and a parent whose IsParent is false each lead to error returns only")
	if fn := c.Fn(quotaWebhookPkg, "quotaTopology", "checkParentQuotaInfo"); fn != nil {
		key := fkey(fn)
		base := an.Facts{}
		for _, b := range fn.Blocks {
			for _, in := range b.Instrs {
				if bo, ok := in.(*ssa.BinOp); ok && isParamOf(fn, bo.X, 1) {
					if s, isC := constString(bo.Y); isC && s != "" {
						if bo.Op == token.NEQ {
							base[bo] = an.True
						} else if bo.Op == token.EQL {
							base[bo] = an.False
						}
					}
				}
			}
		}
		with := func(extra an.Facts) an.Facts {
			f := an.Facts{}
			for k, v := range base {
				f[k] = v
			}
			for k, v := range extra {
				f[k] = v
			}
			return f
		}
		var infoLk, hierLk *ssa.Lookup
		for _, l := range lookupsOf(fn, ".quotaInfoMap") {
			if isParamOf(fn, l.Index, 1) {
				infoLk = l
			}
		}
		for _, l := range lookupsOf(fn, ".quotaHierarchyInfo") {
			if isParamOf(fn, l.Index, 1) {
				hierLk = l
			}
		}
		if len(base) == 0 || infoLk == nil || hierLk == nil {
			r.Fail("PATH", key+"/parent-known", c.Pos(fn.Pos()), sprintf("root test found=%v, lookup of the parent in quotaInfoMap=%v, in quotaHierarchyInfo=%v: a check that the parent exists is gone", len(base) > 0, infoLk != nil, hierLk != nil))
		} else {
			ok1, w1 := onlyErrors(fn, nil, with(an.Facts{extract(infoLk, 1): an.False}), nil)
			r.Check(ok1, "PATH", key+"/unknown-parent=>error", c.InstrPos(infoLk), "rejected", "a quota whose parent is not recorded is accepted: "+w1)
			ok2, w2 := onlyErrors(fn, nil, with(an.Facts{extract(infoLk, 1): an.True, extract(infoLk, 0): an.NonNil, extract(hierLk, 1): an.False}), nil)
			r.Check(ok2, "PATH", key+"/parent-without-hierarchy=>error", c.InstrPos(hierLk), "rejected", "a quota whose parent has no hierarchy entry is accepted: "+w2)
			// IsParent false
			var isParent ssa.Value
			for _, b := range fn.Blocks {
				for _, in := range b.Instrs {
					if ld, ok := in.(*ssa.UnOp); ok && ld.Op == token.MUL {
						if _, f, base2, ok := an.FieldOf(ld.X); ok && f == "IsParent" {
							for x := range backwardAll(base2) {
								if x == extract(infoLk, 0) {
									isParent = ld
								}
							}
						}
					}
				}
			}
			if isParent == nil {
				r.Fail("PATH", key+"/parent-not-marked=>error", c.Pos(fn.Pos()), "the parent's IsParent flag is not read")
			} else {
				ok3, w3 := onlyErrors(fn, nil, with(an.Facts{extract(infoLk, 1): an.True, extract(infoLk, 0): an.NonNil, extract(hierLk, 1): an.True, isParent: an.False}), nil)
				r.Check(ok3, "PATH", key+"/parent-not-marked=>error", c.Pos(fn.Pos()), "rejected", "a quota is accepted under a parent that is not marked as parent: "+w3)
			}
		}
	}

	// ---- a quota with children stays a parent
	r.Rule("PATH(is-parent change): in checkIsParentChange, for an update that changes IsParent, with children recorded for the quota and the new IsParent false only error returns are reachable")
	if fn := c.Fn(quotaWebhookPkg, "quotaTopology", "checkIsParentChange"); fn != nil {
		key := fkey(fn)
		f := an.Facts{fn.Params[1]: an.NonNil}
		nChildren, nFlag := 0, 0
		for _, b := range fn.Blocks {
			for _, in := range b.Instrs {
				switch x := in.(type) {
				case *ssa.BinOp:
					// old.IsParent == new.IsParent
					lx, okx := x.X.(*ssa.UnOp)
					ly, oky := x.Y.(*ssa.UnOp)
					if okx && oky {
						_, fx, _, ok1 := an.FieldOf(lx.X)
						_, fy, _, ok2 := an.FieldOf(ly.X)
						if ok1 && ok2 && fx == "IsParent" && fy == "IsParent" {
							if x.Op == token.EQL {
								f[x] = an.False
							} else if x.Op == token.NEQ {
								f[x] = an.True
							}
						}
					}
					// len(children) > 0
					if cl, ok := x.X.(*ssa.Call); ok && an.IsBuiltinCall(cl, "len") && strings.Contains(an.Path(cl.Call.Args[0]), ".quotaHierarchyInfo") {
						if k, isC := constIntOf(x.Y); isC && k == 0 {
							switch x.Op {
							case token.GTR, token.NEQ:
								f[x] = an.True
								nChildren++
							case token.EQL, token.LEQ:
								f[x] = an.False
								nChildren++
							}
						}
					}
				case *ssa.UnOp:
					if x.Op == token.MUL {
						if _, fname, base2, ok := an.FieldOf(x.X); ok && fname == "IsParent" && isParamOf(fn, base2, 1) {
							f[x] = an.False
							nFlag++
						}
					}
				}
			}
		}
		okc, w := onlyErrors(fn, nil, f, nil)
		r.Check(nChildren > 0 && nFlag > 0 && okc, "PATH", key+"/children=>stays-parent", c.Pos(fn.Pos()), "rejected", sprintf("a quota with children can be turned into a non-parent (children test found=%v, new flag read=%v): %s", nChildren > 0, nFlag > 0, w))
	}

	// ---- namespaces
	r.Rule("PATH/FLOW(namespaces): in ValidAddQuota a namespace found in namespaceToQuotaMap, in ValidUpdateQuota one found there under another quota's name, leads to error returns only; every namespaceToQuotaMap[ns] = name written by them takes ns from the same list that was checked and the name of the quota being validated")
	for _, n := range []string{"ValidAddQuota", "ValidUpdateQuota"} {
		fn := c.Fn(quotaWebhookPkg, "quotaTopology", n)
		if fn == nil {
			continue
		}
		key := fkey(fn)
		lks := lookupsOf(fn, ".namespaceToQuotaMap")
		if len(lks) != 1 {
			r.Fail("PATH", key+"/namespace-bound=>error", c.Pos(fn.Pos()), sprintf("%d lookups of a namespace in namespaceToQuotaMap (1 expected): the uniqueness check is gone or duplicated", len(lks)))
			continue
		}
		lk := lks[0]
		f := an.Facts{extract(lk, 1): an.True}
		if n == "ValidUpdateQuota" {
			// bound to another name
			for _, b := range fn.Blocks {
				for _, in := range b.Instrs {
					if bo, ok := in.(*ssa.BinOp); ok && (bo.X == extract(lk, 0) || bo.Y == extract(lk, 0)) {
						if bo.Op == token.NEQ {
							f[bo] = an.True
						} else if bo.Op == token.EQL {
							f[bo] = an.False
						}
					}
				}
			}
		}
		okn, w := onlyErrors(fn, an.After(lk), f, func(in ssa.Instruction) bool {
			_, isNext := in.(*ssa.Next)
			return isNext
		})
		r.Check(okn, "PATH", key+"/namespace-bound=>error", c.InstrPos(lk), "rejected", "a namespace already bound (to another quota) is accepted: "+w)
		// what is written
		var checked ssa.Value
		for x := range backwardAll(lk.Index) {
			if ia, ok := x.(*ssa.IndexAddr); ok {
				checked = firstSource(ia.X)
			}
		}
		okw, nw := checked != nil, 0
		for _, b := range fn.Blocks {
			for _, in := range b.Instrs {
				mu, ok := in.(*ssa.MapUpdate)
				if !ok || !strings.HasSuffix(an.Path(mu.Map), ".namespaceToQuotaMap") {
					continue
				}
				nw++
				same := false
				for x := range backwardAll(mu.Key) {
					if ia, ok := x.(*ssa.IndexAddr); ok && firstSource(ia.X) == checked {
						same = true
					}
				}
				name := strings.HasSuffix(an.Path(mu.Value), ".Name") && func() bool {
					for x := range backwardAll(mu.Value) {
						if isParamOf(fn, x, fn.Signature.Params().Len()-1) {
							return true
						}
					}
					return false
				}()
				if !same || !name {
					okw = false
				}
			}
		}
		r.Check(okw && nw == 1, "FLOW", key+"/namespaces-recorded-as-checked", c.Pos(fn.Pos()), "the namespaces recorded are the ones checked, under the validated quota's name", sprintf("the namespace binding recorded differs from what was checked (%d writes; same list and the validated quota's name=%v)", nw, okw))
	}

	// ---- delete
	r.Rule("PATH(delete): in ValidDeleteQuota, with a non-empty child set, and with a non-empty pod list, only error returns are reachable and no map is touched")
	if fn := c.Fn(quotaWebhookPkg, "quotaTopology", "ValidDeleteQuota"); fn != nil {
		key := fkey(fn)
		isDel := func(in ssa.Instruction) bool {
			cl, ok := in.(*ssa.Call)
			return ok && an.IsBuiltinCall(cl, "delete")
		}
		for _, t := range []struct{ what, suffix string }{{"children", "quotaHierarchyInfo"}, {"pods", ".Items"}} {
			f := an.Facts{}
			n := 0
			var first ssa.Instruction
			for _, b := range fn.Blocks {
				for _, in := range b.Instrs {
					bo, ok := in.(*ssa.BinOp)
					if !ok {
						continue
					}
					cl, ok := bo.X.(*ssa.Call)
					if !ok || !an.IsBuiltinCall(cl, "len") {
						continue
					}
					p := an.Path(cl.Call.Args[0])
					if !strings.Contains(p, t.suffix) {
						continue
					}
					k, isC := constIntOf(bo.Y)
					if !isC || k != 0 {
						continue
					}
					switch bo.Op {
					case token.GTR, token.NEQ:
						f[bo] = an.True
					case token.EQL, token.LEQ:
						f[bo] = an.False
					default:
						continue
					}
					n++
					if first == nil {
						first = bo
					}
				}
			}
			if n == 0 {
				r.Fail("PATH", key+"/"+t.what+"=>error", c.Pos(fn.Pos()), "the test whether the quota still has "+t.what+" is gone")
				continue
			}
			// the lookups on the way succeed
			for _, l := range lookupsOf(fn, ".quotaInfoMap") {
				f[extract(l, 1)] = an.True
			}
			for _, l := range lookupsOf(fn, ".quotaHierarchyInfo") {
				f[extract(l, 1)] = an.True
			}
			okd, w := onlyErrors(fn, &an.Start{Block: first.Block(), Index: instrIndex(first)}, f, isDel)
			r.Check(okd, "PATH", key+"/"+t.what+"=>error", c.InstrPos(first), "rejected, nothing deleted", "a quota that still has "+t.what+" can be deleted: "+w)
		}
	}

	// ---- gate: validated object = recorded object
	r.Rule("GATE(validated = recorded): in ValidAddQuota/ValidUpdateQuota the QuotaInfo stored into quotaInfoMap is the NewQuotaInfoFromQuota of the quota parameter that validateQuotaSelfItem received, is the value validateQuotaTopology received as the new info, and both calls precede the store on every path")
	for _, n := range []string{"ValidAddQuota", "ValidUpdateQuota"} {
		fn := c.Fn(quotaWebhookPkg, "quotaTopology", n)
		if fn == nil {
			continue
		}
		key := fkey(fn)
		var store *ssa.MapUpdate
		for _, b := range fn.Blocks {
			for _, in := range b.Instrs {
				if mu, ok := in.(*ssa.MapUpdate); ok && strings.HasSuffix(an.Path(mu.Map), ".quotaInfoMap") {
					store = mu
				}
			}
		}
		selfs := an.CallsTo(fn, false, tp+"validateQuotaSelfItem")
		topos := an.CallsTo(fn, false, tp+"validateQuotaTopology")
		if store == nil || len(selfs) != 1 || len(topos) != 1 {
			r.Fail("GATE", key+"/validated=recorded", c.Pos(fn.Pos()), sprintf("store into quotaInfoMap found=%v, validateQuotaSelfItem calls=%d, validateQuotaTopology calls=%d", store != nil, len(selfs), len(topos)))
			continue
		}
		qIdx := fn.Signature.Params().Len() - 1
		info, _ := an.ResultOfCall(firstSource(store.Value))
		built := info != nil && an.ShortCallee(&info.Call) == "NewQuotaInfoFromQuota" && isParamOf(fn, info.Call.Args[0], qIdx)
		selfArg := isParamOf(fn, selfs[0].Common().Args[1], qIdx)
		topoArg := firstSource(topos[0].Common().Args[2]) == firstSource(store.Value)
		order := mustPass(selfs[0], store) && mustPass(topos[0], store)
		r.Check(built && selfArg && topoArg && order, "GATE", key+"/validated=recorded", c.InstrPos(store), "the recorded info is built from the validated quota and was itself validated",
			sprintf("what is recorded is not what was validated: recorded info is NewQuotaInfoFromQuota(the new quota)=%v, self-item check got the new quota=%v, topology check got the recorded info=%v, both precede the store=%v", built, selfArg, topoArg, order))
	}
}

// c15sums: a failed min-sum comparison always rejects; "is a parent" is read from its own label only.
func c15sums(c *Ctx) {
	r := c.R
	r.Decides("in checkMinQuotaValidate a failed comparison (siblings' mins plus own min against the parent's min; children's mins against the own min) leads to error returns only; IsParentQuota is true only for the is-parent label (the update shortcut compares that label, so any other source of 'is a parent' can flip without validation)")
	r.Rule("PATH(min sums): in quotaTopology.checkMinQuotaValidate, from behind each util.LessThanOrEqualCompletely call, assuming it returned false, only returns with a non-nil error are reachable")
	if fn := c.Fn(quotaWebhookPkg, "quotaTopology", "checkMinQuotaValidate"); fn != nil {
		n := 0
		for _, cl := range an.Calls(fn, false) {
			call, ok := cl.(*ssa.Call)
			if !ok || an.ShortCallee(&call.Call) != "LessThanOrEqualCompletely" {
				continue
			}
			n++
			good, why := onlyErrors(fn, an.After(call), an.Facts{call: an.False}, nil)
			r.Check(good, "PATH", sprintf("%s/sum-exceeded=>error#%d", fkey(fn), n), c.InstrPos(call), "rejected", "a min-sum comparison that failed does not always reject the request: "+why)
		}
		r.Floor("PATH", "min-sum comparisons", n, 2)
	}
	r.Rule("PATH(is-parent source): extension.IsParentQuota returns true only when the comparison of the is-parent label with \"true\" holds")
	if fn := c.Fn("apis/extension", "", "IsParentQuota"); fn != nil {
		f := an.Facts{}
		for _, b := range fn.Blocks {
			for _, in := range b.Instrs {
				if bo, ok := in.(*ssa.BinOp); ok && (bo.Op == token.EQL || bo.Op == token.NEQ) {
					if s, isC := constString(bo.Y); isC && s == "true" {
						if bo.Op == token.EQL {
							f[bo] = an.False
						} else {
							f[bo] = an.True
						}
					}
				}
			}
		}
		reach := an.Explore(fn, nil, f, nil)
		ok, n := len(f) > 0, 0
		for _, ret := range reach.Returns() {
			for _, alt := range reach.Alts(ret) {
				n++
				if reach.EvalAlt(alt, 0) != an.False {
					ok = false
				}
			}
		}
		r.Check(ok && n > 0, "PATH", fkey(fn)+"/only-the-label", c.Pos(fn.Pos()), "false unless the is-parent label says true", "IsParentQuota can be true without the is-parent label: the admission shortcut for 'nothing relevant changed' does not look at the other source, so 'is a parent' can be flipped without validation")
	}
}
