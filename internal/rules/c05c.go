package rules

import (
	"golang.org/x/tools/go/ssa"

	"kverif/internal/an"
)

// c05values: the object released is the object that was tested; the restricted dimensions are never empty.
func c05values(c *Ctx) {
	r := c.R
	r.Decides("the reservation pod handler releases the version of the pod whose state licensed the release (the old one where the old one was assigned, the new one where the new one terminated); the restricted dimensions of a reservation fall back to all its allocatable dimensions when the options name nothing the reservation holds")
	r.Rule("PAIR(release what you tested): in podEventHandler.updatePod (reservation) every deletePod(x) is dominated by a predicate call on the same x that holds (assignedPod(x), IsPodTerminated(x)) - releasing the other version reads the reservation, the UID and the node from an object that never held them")
	if fn := c.Fn(resvPkg, "podEventHandler", "updatePod"); fn != nil {
		n := 0
		for _, cl := range an.Calls(fn, false) {
			if an.ShortCallee(cl.Common()) != "deletePod" {
				continue
			}
			a := an.Args(cl.Common())
			x := a[len(a)-1]
			n++
			tested := false
			for _, g := range an.Guards(cl) {
				if !g.Truth {
					continue
				}
				call, _ := an.ResultOfCall(g.Cond)
				if call == nil {
					continue
				}
				for _, arg := range call.Call.Args {
					if sameSource(arg, x) {
						tested = true
					}
				}
			}
			r.Check(tested, "PAIR", sprintf("%s/deletePod#%d", fkey(fn), n), c.InstrPos(cl), "the released version is the tested one", "deletePod is given a version of the pod that no dominating test speaks about: the reservation to release, the pod UID and the node are read from the wrong object and the vanished pod stays charged")
		}
		r.Floor("PAIR", "deletePod calls in the reservation pod handler", n, 2)
	}

	r.Rule("DEFAULT(restricted dimensions): GetReservationRestrictedResources never returns an empty selection for a non-empty allocatable list - with every emptiness test of the selection assumed to say 'empty', each reachable return yields the allocatable parameter")
	if fn := c.Fn("pkg/util/reservation", "", "GetReservationRestrictedResources"); fn != nil && len(fn.Params) == 2 {
		facts := an.Facts{}
		nTests := 0
		for _, b := range fn.Blocks {
			for _, in := range b.Instrs {
				bo, ok := in.(*ssa.BinOp)
				if !ok {
					continue
				}
				arg, emptyWhenTrue, isLen := lenZeroTest(bo)
				if !isLen {
					continue
				}
				// only tests of the selection (a slice made here), not of the parameters
				madeHere := false
				for x := range backwardAll(arg) {
					if _, isM := x.(*ssa.MakeSlice); isM {
						madeHere = true
					}
				}
				if !madeHere {
					continue
				}
				nTests++
				facts[bo] = an.True
				if !emptyWhenTrue {
					facts[bo] = an.False
				}
			}
		}
		reach := an.Explore(fn, nil, facts, nil)
		bad := ""
		for _, ret := range reach.Returns() {
			for _, v := range reach.Values(ret.Results[0]) {
				if v != ssa.Value(fn.Params[0]) {
					bad = c.InstrPos(ret)
				}
			}
		}
		r.Check(nTests >= 1 && bad == "", "DEFAULT", fkey(fn)+"/never-empty", c.Pos(fn.Pos()), "an empty selection falls back to all allocatable dimensions", "an empty selection can be returned ("+bad+"): options that name only resources the reservation does not hold leave it with no restricted dimension, nothing is accounted and a restricted reservation admits any amount")
	}
}
