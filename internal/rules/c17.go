package rules

import (
	"go/token"
	"strings"

	"golang.org/x/tools/go/ssa"

	"kverif/internal/an"
)

func init() { Registry["C17"] = c17 }

const migrationPkg = "pkg/descheduler/controllers/migration"

func c17(c *Ctx) {
	r := c.R
	c17more(c)
	c17delete(c)
	c17abortedWithError(c)
	r.Decides("in reservation-first mode the eviction is unreachable while the reservation lookup failed, the reservation is pending, expired, or neither scheduled nor preempted-complete, or the schedule-success preparation (incl. the same-node abort) failed")
	r.Decides("a job in a terminal phase returns before any call that evicts, creates/deletes a reservation or writes status")
	r.Decides("the evictor is called only when the eviction condition is not True, the reason is not Evicting and the reservation is not bound by another pod; after a successful eviction the Evicting condition is written before returning")
	r.Decides("the TTL abort deletes the reservation before it marks the job failed, and a delete error other than NotFound returns before the status write")
	r.Decides("a failed reservation delete is reported to the caller (the job is not marked failed while its reservation may still exist)")
	r.Declines("multi-reconcile histories with injected faults, 'at most once' over several reconciles (depends on the persisted condition being read back)")

	fn := c.Fn(migrationPkg, "Reconciler", "doMigrate")
	if fn != nil {
		c17gates(c, fn)
	}
	if f := c.Fn(migrationPkg, "Reconciler", "prepareJobWithReservationScheduleSuccess"); f != nil {
		r.Rule("PATH: in prepareJobWithReservationScheduleSuccess, after abortJobIfReserveOnSameNode returned aborted==true (or an error) no nil return is reachable")
		var ab ssa.CallInstruction
		for _, cl := range an.Calls(f, false) {
			if an.ShortCallee(cl.Common()) == "abortJobIfReserveOnSameNode" {
				ab = cl
			}
		}
		if ab == nil {
			r.Fail("PATH", fkey(f)+"/same-node-abort", c.Pos(f.Pos()), "abortJobIfReserveOnSameNode is no longer called: a reservation on the pod's own node would be accepted")
		} else {
			for _, x := range []struct {
				name  string
				facts an.Facts
			}{{"aborted", an.Facts{extract(ab.Value(), 0): an.True, extract(ab.Value(), 1): an.Nil}}, {"error", an.Facts{extract(ab.Value(), 1): an.NonNil}}} {
				reach := an.Explore(f, an.After(ab), x.facts, nil)
				bad := false
				for _, ret := range reach.Returns() {
					for _, alt := range reach.Alts(ret) {
						if reach.EvalAlt(alt, 0) != an.NonNil {
							bad = true
						}
					}
				}
				r.Check(!bad, "PATH", fkey(f)+"/same-node-abort/"+x.name, c.InstrPos(ab), "a same-node reservation stops the job", "after the same-node abort ("+x.name+") the preparation can still return nil and the pod would be evicted")
			}
		}
	}
	if f := c.Fn(migrationPkg, "Reconciler", "prepareJobWithReservationScheduleSuccess"); f != nil {
		r.Rule("PATH: in prepareJobWithReservationScheduleSuccess, for a reservation with a node whose job has no node recorded yet and whose ReservationScheduled condition is not True (absent, or False after an unschedulable round), no return is reachable without abortJobIfReserveOnSameNode")
		facts := an.Facts{}
		for _, b := range f.Blocks {
			for _, in := range b.Instrs {
				bo, ok := in.(*ssa.BinOp)
				if !ok || (bo.Op != token.EQL && bo.Op != token.NEQ) {
					continue
				}
				str, isC := constString(bo.Y)
				if !isC {
					continue
				}
				px := an.Path(bo.X)
				var holds, known bool
				switch {
				case str == "" && strings.Contains(px, "GetScheduledNodeName"):
					holds, known = false, true // the reservation has a node
				case str == "" && strings.HasSuffix(px, ".Status.NodeName"):
					holds, known = true, true // the job has none recorded (== "" holds)
				case str == "True" && strings.HasSuffix(px, ".Status"):
					holds, known = false, true // the condition is not True
				}
				if !known {
					continue
				}
				if (bo.Op == token.EQL) == holds {
					facts[bo] = an.True
				} else {
					facts[bo] = an.False
				}
			}
		}
		reach := an.Explore(f, nil, facts, func(in ssa.Instruction) bool {
			cl, ok := in.(ssa.CallInstruction)
			return ok && an.ShortCallee(cl.Common()) == "abortJobIfReserveOnSameNode"
		})
		r.Check(len(facts) >= 3 && len(reach.Returns()) == 0, "PATH", fkey(f)+"/same-node-check-not-skippable", c.Pos(f.Pos()), "the same-node check runs unless the job is already recorded as scheduled", sprintf("the same-node check can be skipped although the job is not recorded as scheduled (%d returns reachable, %d tests recognised): after one unschedulable round the condition exists with status False, and a reservation that then lands on the pod's own node is accepted", len(reach.Returns()), len(facts)))
	}
	if f := c.Fn(migrationPkg, "Reconciler", "preparePodRef"); f != nil {
		r.Rule("ERR: in preparePodRef a failed Get of the pod (also NotFound, after the job was aborted) makes the function return a non-nil error: the caller sets the job Running on a nil error")
		for _, cl := range an.Calls(f, false) {
			if !cl.Common().IsInvoke() || cl.Common().Method.Name() != "Get" || cl.Value() == nil {
				continue
			}
			reach := an.Explore(f, an.After(cl), an.Facts{cl.Value(): an.NonNil}, nil)
			bad := ""
			for _, ret := range reach.Returns() {
				for _, alt := range reach.Alts(ret) {
					if reach.EvalAlt(alt, 2) != an.NonNil {
						bad = c.InstrPos(ret)
					}
				}
			}
			r.Check(bad == "", "ERR", fkey(f)+"/get-error-returned", c.InstrPos(cl), "a failed Get is returned", "after the pod could not be read the function can return a nil error (at "+bad+"): a job that was just marked Failed is put back to Running and goes on to reserve and evict")
		}
	}
	if f := c.Fn(migrationPkg+"/reservation", "interpreterImpl", "DeleteReservation"); f != nil {
		r.Rule("ERR: in the reservation interpreter's DeleteReservation a failed Client.Delete makes the function return a non-nil error (abortJobIfTimeout relies on it to keep the job alive until the reservation is really gone)")
		n := 0
		for _, cl := range an.Calls(f, false) {
			if !cl.Common().IsInvoke() || cl.Common().Method.Name() != "Delete" || cl.Value() == nil {
				continue
			}
			n++
			reach := an.Explore(f, an.After(cl), an.Facts{cl.Value(): an.NonNil}, nil)
			bad := ""
			for _, ret := range reach.Returns() {
				for _, alt := range reach.Alts(ret) {
					if reach.EvalAlt(alt, 0) != an.NonNil {
						bad = c.InstrPos(ret)
					}
				}
			}
			r.Check(bad == "", "ERR", fkey(f)+"/delete-error-propagates", c.InstrPos(cl), "a delete failure is returned", "after Client.Delete failed the function can return nil (at "+bad+"): the job is marked failed and never reconciled again while its reservation stays")
		}
		if n == 0 {
			r.Fail("ERR", fkey(f)+"/delete-error-propagates", c.Pos(f.Pos()), "no Client.Delete call found")
		}
	}
	if f := c.Fn(migrationPkg+"/reservation", "interpreterImpl", "GetReservation"); f != nil {
		r.Rule("ERR: in the reservation interpreter's GetReservation the error of the last read (the API reader's Get behind a cache miss, or the cache Get itself) is what the function returns: with every Get failing no nil error is returned (a reservation that exists nowhere must not come back as an empty object: the re-check before the eviction relies on the NotFound)")
		f0 := an.Facts{}
		n := 0
		for _, cl := range an.Calls(f, false) {
			if cl.Common().IsInvoke() && cl.Common().Method.Name() == "Get" && cl.Value() != nil {
				f0[cl.Value()] = an.NonNil
				n++
			}
			if an.ShortCallee(cl.Common()) == "IsNotFound" && cl.Value() != nil {
				f0[cl.Value()] = an.True
			}
		}
		reach := an.Explore(f, nil, f0, nil)
		bad := ""
		for _, ret := range reach.Returns() {
			for _, alt := range reach.Alts(ret) {
				if reach.EvalAlt(alt, 1) != an.NonNil {
					bad = c.InstrPos(ret)
				}
			}
		}
		r.Check(n >= 1 && bad == "", "ERR", fkey(f)+"/missing-everywhere=>error", c.Pos(f.Pos()), "a reservation found nowhere is an error", "with the reservation missing from the cache and from the API server GetReservation can return a nil error (at "+bad+"): the caller sees an empty reservation and the eviction is not vetoed")
	}
	if f := c.Fn(migrationPkg, "Reconciler", "evictPod"); f != nil {
		c17evict(c, f)
	}
	if f := c.Fn(migrationPkg, "Reconciler", "abortJobIfTimeout"); f != nil {
		c17ttl(c, f)
	}
}

func c17gates(c *Ctx, fn *ssa.Function) {
	r := c.R
	key := fkey(fn)
	// the reservation-first eviction call: r.evictPod (not inside evictPodDirectly)
	var ev ssa.CallInstruction
	for _, cl := range an.Calls(fn, false) {
		if an.ShortCallee(cl.Common()) == "evictPod" {
			ev = cl
		}
	}
	if ev == nil {
		r.Fail("PATH", key+"/evict-call", c.Pos(fn.Pos()), "the reservation-first eviction call r.evictPod is not found in doMigrate")
		return
	}
	r.Rule("PATH: in doMigrate the call r.evictPod is unreachable under each of: GetReservation error != nil; IsReservationPending==true; IsReservationExpired==true; IsReservationScheduled==false with Preempt not complete (or no preemption); prepareJobWithReservationScheduleSuccess error != nil; phase terminal; abortJobIfTimeout timeout/error")
	find := func(name string) ssa.CallInstruction {
		for _, cl := range an.Calls(fn, false) {
			if an.ShortCallee(cl.Common()) == name {
				return cl
			}
		}
		return nil
	}
	type gate struct {
		name  string
		facts func() an.Facts
	}
	callFact := func(name string, idx int, val an.Abs) func() an.Facts {
		return func() an.Facts {
			cl := find(name)
			if cl == nil || cl.Value() == nil {
				return nil
			}
			var v ssa.Value = cl.Value()
			if idx >= 0 {
				v = extract(cl.Value(), idx)
			}
			if v == nil {
				return nil
			}
			return an.Facts{v: val}
		}
	}
	gates := []gate{
		{"reservation-lookup-failed", callFact("GetReservation", 1, an.NonNil)},
		{"reservation-pending", callFact("IsReservationPending", -1, an.True)},
		{"reservation-expired", callFact("IsReservationExpired", -1, an.True)},
		{"schedule-success-preparation-failed", callFact("prepareJobWithReservationScheduleSuccess", -1, an.NonNil)},
		{"ttl-expired", callFact("abortJobIfTimeout", 0, an.True)},
		{"unscheduled-and-preemption-incomplete", func() an.Facts {
			s, p := find("IsReservationScheduled"), find("Preempt")
			if s == nil || p == nil {
				return nil
			}
			return an.Facts{s.Value(): an.False, extract(p.Value(), 0): an.False, extract(p.Value(), 2): an.Nil}
		}},
		{"unscheduled-and-no-preemption", func() an.Facts {
			s, np := find("IsReservationScheduled"), find("NeedPreemption")
			if s == nil || np == nil {
				return nil
			}
			return an.Facts{s.Value(): an.False, np.Value(): an.False}
		}},
	}
	for _, g := range gates {
		facts := g.facts()
		if facts == nil {
			r.Fail("PATH", key+"/gate/"+g.name, c.InstrPos(ev), "the gate's check is no longer called in doMigrate: the eviction is not conditioned on it")
			continue
		}
		reach := an.Explore(fn, nil, facts, nil)
		r.Check(!reach.Reached(ev), "PATH", key+"/gate/"+g.name, c.InstrPos(ev), "eviction unreachable when "+g.name,
			"the eviction r.evictPod is reachable although "+g.name+": the pod could be evicted before capacity is secured")
	}
	// every gate check is evaluated before the eviction (dominates it)
	for _, name := range []string{"GetReservation", "IsReservationPending", "IsReservationExpired", "IsReservationScheduled", "prepareJobWithReservationScheduleSuccess", "abortJobIfTimeout"} {
		cl := find(name)
		ok := cl != nil && mustPass(cl, ev)
		r.Check(ok, "PATH", key+"/gate-evaluated/"+name, c.InstrPos(ev), name+" is evaluated on every path to the eviction", name+" does not dominate the eviction: some path evicts without this check (e.g. the check was moved under another condition)")
	}
	// terminal phases
	r.Rule("PATH: with job.Status.Phase different from '', Pending and Running, doMigrate reaches no call at all besides logging (no evict, no reservation create/delete, no status write)")
	facts := an.Facts{}
	for _, b := range fn.Blocks {
		for _, in := range b.Instrs {
			bo, ok := in.(*ssa.BinOp)
			if !ok || !strings.Contains(an.Path(bo.X), ".Status.Phase") {
				continue
			}
			if _, isC := bo.Y.(*ssa.Const); !isC {
				continue
			}
			if bo.Op == token.NEQ {
				facts[bo] = an.True
			} else if bo.Op == token.EQL {
				facts[bo] = an.False
			}
		}
	}
	pausedFalse := false
	for _, b := range fn.Blocks {
		for _, in := range b.Instrs {
			if u, ok := in.(*ssa.UnOp); ok && strings.HasSuffix(an.Path(u), ".Spec.Paused") {
				facts[u] = an.False
				pausedFalse = true
			}
		}
	}
	reach := an.Explore(fn, nil, facts, nil)
	var effects []string
	for _, in := range reach.Instrs() {
		cl, ok := in.(ssa.CallInstruction)
		if !ok {
			continue
		}
		n := an.CalleeName(cl.Common())
		if strings.HasPrefix(n, "k8s.io/klog") || strings.HasPrefix(n, "(k8s.io/klog") || strings.HasPrefix(n, "builtin.") || n == "" {
			continue
		}
		effects = append(effects, an.ShortCallee(cl.Common())+"@"+c.InstrPos(cl))
	}
	r.Check(pausedFalse && len(facts) >= 4 && len(effects) == 0, "PATH", key+"/terminal-phase-short-circuit", c.Pos(fn.Pos()), "a finished job triggers nothing",
		"for a job in a terminal phase doMigrate still reaches: "+strings.Join(effects, ", "))
}

func c17evict(c *Ctx, fn *ssa.Function) {
	r := c.R
	r.Rule("PATH: in evictPod the call evictorInterpreter.Evict is unreachable when the eviction condition is True, when its reason is Evicting, or when abortJobIfReservationBoundByAnotherPod aborted; from behind a nil-error Evict no return is reachable before updateCondition is called")
	key := fkey(fn)
	var ev, ab ssa.CallInstruction
	var upd []ssa.CallInstruction
	for _, cl := range an.Calls(fn, false) {
		switch {
		case cl.Common().IsInvoke() && cl.Common().Method.Name() == "Evict":
			ev = cl
		case an.ShortCallee(cl.Common()) == "abortJobIfReservationBoundByAnotherPod":
			ab = cl
		case an.ShortCallee(cl.Common()) == "updateCondition":
			upd = append(upd, cl)
		}
	}
	if ev == nil || ab == nil {
		r.Fail("PATH", key+"/shape", c.Pos(fn.Pos()), "evictorInterpreter.Evict or abortJobIfReservationBoundByAnotherPod not found in evictPod")
		return
	}
	// condition gates: comparisons of cond.Status / cond.Reason
	var statusTrue, reasonEvicting []*ssa.BinOp
	for _, b := range fn.Blocks {
		for _, in := range b.Instrs {
			bo, ok := in.(*ssa.BinOp)
			if !ok || bo.Op != token.EQL {
				continue
			}
			p := an.Path(bo)
			if strings.Contains(p, ".Status ==") && strings.Contains(p, `"True"`) {
				statusTrue = append(statusTrue, bo)
			}
			if strings.Contains(p, ".Reason ==") && strings.Contains(p, `"Evicting"`) {
				reasonEvicting = append(reasonEvicting, bo)
			}
		}
	}
	nonNilCond := an.Facts{}
	for _, b := range fn.Blocks {
		for _, in := range b.Instrs {
			if bo, ok := in.(*ssa.BinOp); ok && bo.Op == token.NEQ && an.IsNilConst(bo.Y) && strings.Contains(an.Path(bo.X), "GetCondition") {
				nonNilCond[bo] = an.True
			}
		}
	}
	with := func(extra map[ssa.Value]an.Abs) an.Facts {
		f := an.Facts{}
		for k, v := range nonNilCond {
			f[k] = v
		}
		for k, v := range extra {
			f[k] = v
		}
		return f
	}
	if len(statusTrue) == 0 || len(reasonEvicting) == 0 {
		r.Fail("PATH", key+"/condition-gates", c.Pos(fn.Pos()), "the tests of the eviction condition (Status==True, Reason==Evicting) are not found")
	} else {
		e1 := map[ssa.Value]an.Abs{}
		for _, b := range statusTrue {
			e1[b] = an.True
		}
		r.Check(!an.Explore(fn, nil, with(e1), nil).Reached(ev), "PATH", key+"/no-evict-when-condition-true", c.InstrPos(ev), "an already evicted pod is not evicted again", "Evict is reachable although the eviction condition is already True")
		e2 := map[ssa.Value]an.Abs{}
		for _, b := range reasonEvicting {
			e2[b] = an.True
		}
		r.Check(!an.Explore(fn, nil, with(e2), nil).Reached(ev), "PATH", key+"/no-evict-while-evicting", c.InstrPos(ev), "an eviction in progress is not repeated", "Evict is reachable although the condition says Evicting")
	}
	r.Check(!an.Explore(fn, nil, an.Facts{extract(ab.Value(), 0): an.True}, nil).Reached(ev) && mustPass(ab, ev), "PATH", key+"/no-evict-when-bound-by-another", c.InstrPos(ev), "no eviction when the reservation is bound by another pod", "Evict is reachable although the reservation is bound by another pod (or the check no longer dominates it)")
	isUpd := map[ssa.Instruction]bool{}
	for _, u := range upd {
		isUpd[u] = true
	}
	reach := an.Explore(fn, an.After(ev), an.Facts{ev.Value(): an.Nil}, func(in ssa.Instruction) bool { return isUpd[in] })
	r.Check(len(reach.Returns()) == 0, "PATH", key+"/evicting-condition-written", c.InstrPos(ev), "after a successful eviction the Evicting condition is persisted before returning", "after a successful eviction a return is reachable without writing the Evicting condition: the next reconcile would evict again")
}

func c17ttl(c *Ctx, fn *ssa.Function) {
	r := c.R
	r.Rule("PATH: in abortJobIfTimeout the store Phase=Failed and the status update are dominated by the deleteReservation call; with a delete error that is not NotFound no status update is reachable")
	key := fkey(fn)
	var del, isNF ssa.CallInstruction
	var upd []ssa.CallInstruction
	for _, cl := range an.Calls(fn, false) {
		switch {
		case an.ShortCallee(cl.Common()) == "deleteReservation":
			del = cl
		case an.ShortCallee(cl.Common()) == "IsNotFound":
			isNF = cl
		case cl.Common().IsInvoke() && cl.Common().Method.Name() == "Update":
			upd = append(upd, cl)
		}
	}
	var phaseStore *ssa.Store
	for _, b := range fn.Blocks {
		for _, in := range b.Instrs {
			if st, ok := in.(*ssa.Store); ok {
				if _, f, _, ok := an.FieldOf(st.Addr); ok && f == "Phase" {
					phaseStore = st
				}
			}
		}
	}
	if del == nil || phaseStore == nil || len(upd) == 0 {
		r.Fail("PATH", key+"/delete-before-fail", c.Pos(fn.Pos()), "deleteReservation, the Phase store or the status update not found in abortJobIfTimeout")
		return
	}
	okOrder := mustPass(del, phaseStore)
	for _, u := range upd {
		okOrder = okOrder && mustPass(del, u)
	}
	r.Check(okOrder, "PATH", key+"/delete-before-fail", c.InstrPos(del), "the reservation is deleted before the job is marked failed", "the job is marked Failed (or the status is updated) before the reservation is deleted: if the delete then fails, the terminal phase prevents any retry and the reservation leaks")
	if isNF != nil {
		reach := an.Explore(fn, an.After(del), an.Facts{del.Value(): an.NonNil, isNF.Value(): an.False}, nil)
		bad := false
		for _, u := range upd {
			if reach.Reached(u) {
				bad = true
			}
		}
		r.Check(!bad, "PATH", key+"/delete-error-returns", c.InstrPos(del), "a failed delete is retried (no terminal status written)", "after a delete error other than NotFound the status update is still reachable")
	}
}
