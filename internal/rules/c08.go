package rules

import (
	"sort"
	"strings"

	"golang.org/x/tools/go/ssa"

	"kverif/internal/an"
)

func init() { Registry["C08"] = c08 }

const loadawarePkg = "pkg/scheduler/plugins/loadaware"

// guardedEffects lists the mutating method calls on receiver fields with arguments and dominating conditions,
// rendered canonically (same source shape => same strings).
func guardedEffects(fn *ssa.Function, muts map[string]string) []string {
	recv := an.Receiver(fn)
	var out []string
	for _, cl := range an.Calls(fn, false) {
		name := an.ShortCallee(cl.Common())
		dual, ok := muts[name]
		if !ok {
			continue
		}
		args := an.Args(cl.Common())
		if len(args) == 0 || strings.HasPrefix(an.CalleeName(cl.Common()), "(time.") {
			continue
		}
		onRecv := false
		var chain string
		for _, ch := range an.Chains(args[0]) {
			if ch.Root == ssa.Value(recv) && len(ch.Elems) > 0 {
				onRecv = true
				chain = ch.Suffix()
			}
		}
		if !onRecv {
			continue
		}
		var as []string
		for _, a := range args[1:] {
			as = append(as, an.Path(a))
		}
		out = append(out, chain+" "+dual+"("+strings.Join(as, ", ")+") when "+an.DescribeGuards(an.Guards(cl)))
	}
	sort.Strings(out)
	return out
}

func c08(c *Ctx) {
	r := c.R
	r.Decides("addPod and deletePod perform the same guarded effects on the same accumulators with dual operations and textually identical conditions (the incremental sums are updated by an operation and its exact inverse)")
	r.Decides("every accumulator touched by addPod/deletePod is re-initialised in AddOrUpdateNodeMetric before the pods are re-added (a metric report rebuilds from scratch)")
	r.Decides("Filter returns success only as the result of the threshold check or under the enumerated exemptions; an expired metric with scheduling disallowed is rejected; the threshold check rejects as soon as one thresholded resource exceeds its limit")
	r.Declines("the inequality itself and its rounding, equality with a freshly built cache; locking (conditional locking is not modelled)")

	add := c.Fn(loadawarePkg, "nodeInfo", "addPod")
	del := c.Fn(loadawarePkg, "nodeInfo", "deletePod")
	if add != nil && del != nil {
		r.Rule("MIRROR(full): the multiset of (accumulator, operation, arguments, dominating conditions) of addPod equals that of deletePod after mapping Sub->Add, SubDelta->AddDelta, Delete->Insert")
		ea := guardedEffects(add, map[string]string{"Add": "Add", "AddDelta": "AddDelta", "Insert": "Insert"})
		ed := guardedEffects(del, map[string]string{"Sub": "Add", "SubDelta": "AddDelta", "Delete": "Insert"})
		for i := range ed {
			ed[i] = strings.ReplaceAll(ed[i], ".SubDelta(", ".AddDelta(")
		}
		sort.Strings(ed)
		r.Floor("MIRROR", "guarded effects of addPod", len(ea), 7)
		// pairwise
		ma, md := map[string]int{}, map[string]int{}
		for _, e := range ea {
			ma[e]++
		}
		for _, e := range ed {
			md[e]++
		}
		var onlyA, onlyD []string
		for e, n := range ma {
			if md[e] != n {
				onlyA = append(onlyA, e)
			}
		}
		for e, n := range md {
			if ma[e] != n {
				onlyD = append(onlyD, e)
			}
		}
		sort.Strings(onlyA)
		sort.Strings(onlyD)
		r.Check(len(onlyA) == 0 && len(onlyD) == 0, "MIRROR", "nodeInfo.addPod~deletePod/guarded-effects", c.Pos(del.Pos()), sprintf("%d guarded effects mirror each other", len(ea)),
			"addPod and deletePod are not exact inverses.\n              only in addPod: "+strings.Join(onlyA, "\n                              ")+"\n              only in deletePod (dualised): "+strings.Join(onlyD, "\n                              "))
		// branch conditions (short-circuit operands are separate branches in SSA)
		conds := func(fn *ssa.Function) []string {
			var out []string
			for _, b := range fn.Blocks {
				if ifi, ok := b.Instrs[len(b.Instrs)-1].(*ssa.If); ok {
					v, neg := an.StripNot(ifi.Cond)
					p := an.Path(v)
					if neg {
						p = "!" + p
					}
					p = strings.ReplaceAll(p, ".SubDelta(", ".AddDelta(")
					out = append(out, p)
				}
			}
			sort.Strings(out)
			return out
		}
		ca, cd := conds(add), conds(del)
		r.Check(strings.Join(ca, " ;; ") == strings.Join(cd, " ;; "), "MIRROR", "nodeInfo.addPod~deletePod/branch-conditions", c.Pos(del.Pos()), sprintf("%d branch conditions are identical", len(ca)),
			"the branch conditions of addPod and deletePod differ (a pod could be added to a sum under one condition and removed under another).\n              addPod:    "+strings.Join(ca, " ;; ")+"\n              deletePod: "+strings.Join(cd, " ;; "))
		for i, e := range ea {
			if i < 3 {
				r.Count("mirror_effect_samples", 1)
				_ = e
			}
		}
	}

	// rebuild resets every accumulator
	if fn := c.Fn(loadawarePkg, "nodeInfo", "AddOrUpdateNodeMetric"); fn != nil && add != nil {
		r.Rule("TABLE: every receiver field mutated by addPod (prodUsage, nodeDelta, nodeEstimated, prodDelta, nodeDeltaPods, nodeEstimatedPods, prodDeltaPods) and every field it reads from the report (podUsages, prodPods, updateTime, reportInterval) is assigned in AddOrUpdateNodeMetric in a block that dominates the loop re-adding the pods")
		recv := an.Receiver(add)
		fields := map[string]bool{}
		for _, cl := range an.Calls(add, false) {
			switch an.ShortCallee(cl.Common()) {
			case "Add", "AddDelta", "Insert":
				if strings.HasPrefix(an.CalleeName(cl.Common()), "(time.") {
					continue
				}
				for _, ch := range an.Chains(an.Args(cl.Common())[0]) {
					if ch.Root == ssa.Value(recv) && len(ch.Elems) > 0 {
						fields[ch.First()] = true
					}
				}
			}
		}
		for _, f := range []string{"podUsages", "prodPods"} {
			fields[f] = true
		}
		var readd ssa.CallInstruction
		for _, cl := range an.Calls(fn, false) {
			if an.ShortCallee(cl.Common()) == "addPod" {
				readd = cl
			}
		}
		if readd == nil {
			r.Fail("TABLE", fkey(fn)+"/rebuild", c.Pos(fn.Pos()), "AddOrUpdateNodeMetric no longer re-adds the pods after a metric report")
		} else {
			stored := map[string]bool{}
			r2 := an.Receiver(fn)
			for _, b := range fn.Blocks {
				for _, in := range b.Instrs {
					st, ok := in.(*ssa.Store)
					if !ok {
						continue
					}
					fa, ok := st.Addr.(*ssa.FieldAddr)
					if !ok || an.Origin(fa.X) != ssa.Value(r2) {
						continue
					}
					if _, f, _, ok := an.FieldOf(fa); ok && (b == readd.Block() || b.Dominates(readd.Block())) {
						stored[f] = true
					}
				}
			}
			var names []string
			for f := range fields {
				names = append(names, f)
			}
			sort.Strings(names)
			for _, f := range names {
				r.Check(stored[f], "TABLE", fkey(fn)+"/reset/"+f, c.InstrPos(readd), "re-initialised before the rebuild", "accumulator "+f+" is updated incrementally by addPod/deletePod but not re-initialised before the pods are re-added on a metric report: old contributions are counted twice")
			}
			r.Floor("TABLE", "accumulators reset before rebuild", len(names), 8)
		}
	}

	if fn := c.Fn(loadawarePkg, "Plugin", "Filter"); fn != nil {
		c08filter(c, fn)
	}
	if fn := c.Fn(loadawarePkg, "Plugin", "filterNodeUsage"); fn != nil {
		r.Rule("PATH: in filterNodeUsage, after the comparison usage <= threshold[i] evaluated to false only an Unschedulable status is returned; usage derives from estimatedUsed[i] and allocatable[i] with the same index as the threshold")
		var cmp *ssa.BinOp
		for _, b := range fn.Blocks {
			for _, in := range b.Instrs {
				if bo, ok := in.(*ssa.BinOp); ok && bo.Op.String() == "<=" {
					cmp = bo
				}
			}
		}
		if cmp == nil {
			r.Fail("PATH", fkey(fn)+"/exceed=>reject", c.Pos(fn.Pos()), "comparison usage <= threshold not found")
		} else {
			reach := an.Explore(fn, an.After(cmp), an.Facts{cmp: an.False}, nil)
			bad := false
			nret := 0
			for _, ret := range reach.Returns() {
				nret++
				call, _ := an.ResultOfCall(ret.Results[0])
				if call == nil || an.ShortCallee(&call.Call) != "NewStatus" || an.Path(call.Call.Args[0]) != "2" {
					bad = true
				}
			}
			r.Check(!bad && nret == 1, "PATH", fkey(fn)+"/exceed=>reject", c.InstrPos(cmp), "an exceeded threshold always rejects the node", "after usage > threshold a return other than Unschedulable is reachable")
			pu, pv := an.Path(cmp.X), an.Path(cmp.Y)
			ok := strings.Contains(pu, "estimatedUsed[") && strings.Contains(pu, "allocatable[") && strings.Contains(pv, "usageThresholds")
			r.Check(ok, "FLOW", fkey(fn)+"/operands", c.InstrPos(cmp), "usage(estimated/allocatable) is compared with the threshold of the same resource", "comparison operands changed: "+pu+" <= "+pv)
		}
	}
	if fn := c.Fn(loadawarePkg, "usageThresholdsFilterProfile", "generateUsageThresholdsFilterProfile"); fn != nil {
		r.Rule("EFFECT: generateUsageThresholdsFilterProfile (called concurrently for every node) writes nothing reachable from the plugin-wide profile it is invoked on")
		es := an.Effects(fn, an.Receiver(fn), nil)
		var ss []string
		for _, e := range es {
			ss = append(ss, e.String()+" @"+c.InstrPos(e.Instr))
		}
		r.Check(len(es) == 0, "EFFECT", fkey(fn)+"/pure", c.Pos(fn.Pos()), "no write through the shared profile", "node-specific thresholds are written into the shared plugin-wide profile: "+strings.Join(ss, "; ")+" — every other node is judged against them afterwards")
	}
}

func c08filter(c *Ctx, fn *ssa.Function) {
	r := c.R
	r.Rule("PATH: in Plugin.Filter every return of a nil/success status that is not the result of filterNodeUsage is dominated by one of the enumerated exemptions; with the metric expired and FilterExpiredNodeMetrics && !EnableScheduleWhenNodeMetricsExpired the result is Unschedulable")
	key := fkey(fn)
	allowed := []string{"IsDaemonSetPod", "IsEmpty", "isNodeMetricExpired", "EstimateNode", "NodeMetric", "GetNodeMetricAndEstimatedOfExisting", "== nil", "!= nil", "len("}
	n := 0
	for _, b := range fn.Blocks {
		ret, ok := b.Instrs[len(b.Instrs)-1].(*ssa.Return)
		if !ok {
			continue
		}
		v := ret.Results[0]
		if call, _ := an.ResultOfCall(v); call != nil {
			if sn := an.ShortCallee(&call.Call); sn == "filterNodeUsage" || sn == "NewStatus" || sn == "AsStatus" {
				continue
			}
		}
		n++
		k := sprintf("%s/success-exit#%d", key, n)
		if !an.IsNilConst(v) {
			// a phi or variable: accept only if all sources are nil or filterNodeUsage/NewStatus results
			okAll := true
			for _, l := range an.Sources(v, nil) {
				if an.IsNilConst(l) {
					continue
				}
				if call, ok := l.(*ssa.Call); ok {
					if sn := an.ShortCallee(&call.Call); sn == "filterNodeUsage" || sn == "NewStatus" || sn == "AsStatus" {
						continue
					}
				}
				okAll = false
			}
			if !okAll {
				r.Unknown("PATH", k, c.InstrPos(ret), "returned status has an unrecognised source")
				continue
			}
		}
		gs := an.Guards(ret)
		exempt := ""
		for _, g := range gs {
			p := an.Path(g.Cond)
			for _, a := range allowed {
				if strings.Contains(p, a) {
					exempt = a
				}
			}
		}
		r.Check(exempt != "", "PATH", k, c.InstrPos(ret), "success exit under exemption: "+an.DescribeGuards(gs), "a success exit of Filter is not under any of the enumerated exemptions (daemon-set pod, empty thresholds, metric missing/expired-but-allowed, estimation error); guards: "+an.DescribeGuards(gs))
	}
	if n == 0 {
		r.Unknown("PATH", key+"/success-exits", c.Pos(fn.Pos()), "no exemption exit found: unknown idiom")
	}
}
