package rules

import (
	"go/token"
	"go/types"
	"sort"
	"strings"

	"golang.org/x/tools/go/ssa"

	"kverif/internal/an"
)

func init() { Registry["C08"] = c08 }

const loadawarePkg = "pkg/scheduler/plugins/loadaware"

// guardedEffects lists the mutating method calls on receiver fields with arguments and dominating conditions,
// rendered canonically (same source shape => same strings).
func guardedEffects(fn *ssa.Function, muts map[string]string) []string {
	recv := an.Receiver(fn)
	var out []string
	for _, cl := range an.Calls(fn, false) {
		name := an.ShortCallee(cl.Common())
		dual, ok := muts[name]
		if !ok {
			continue
		}
		args := an.Args(cl.Common())
		if len(args) == 0 || strings.HasPrefix(an.CalleeName(cl.Common()), "(time.") {
			continue
		}
		onRecv := false
		var chain string
		for _, ch := range an.Chains(args[0]) {
			if ch.Root == ssa.Value(recv) && len(ch.Elems) > 0 {
				onRecv = true
				chain = ch.Suffix()
			}
		}
		if !onRecv {
			continue
		}
		var as []string
		for _, a := range args[1:] {
			as = append(as, an.Path(a))
		}
		out = append(out, chain+" "+dual+"("+strings.Join(as, ", ")+") when "+an.DescribeGuards(an.Guards(cl)))
	}
	sort.Strings(out)
	return out
}

func c08(c *Ctx) {
	c08retryLooksUpAgain(c)
	r := c.R
	r.Rule("PATH(tombstone): the delete handler treats a cache.DeletedFinalStateUnknown (delivered by value) like the object inside it: both reach the release, and no assertion to the pointer type exists")
	c.Tombstone("PATH", loadawarePkg, "podAssignCache", "OnDelete", "unAssign")
	r.Decides("addPod and deletePod perform the same guarded effects on the same accumulators with dual operations and textually identical conditions (the incremental sums are updated by an operation and its exact inverse)")
	r.Decides("every accumulator touched by addPod/deletePod is re-initialised in AddOrUpdateNodeMetric before the pods are re-added (a metric report rebuilds from scratch)")
	r.Decides("Filter returns success only as the result of the threshold check or under the enumerated exemptions; an expired metric with scheduling disallowed is rejected; the threshold check rejects as soon as one thresholded resource exceeds its limit")
	r.Decides("updatePod = deletePod(old)+addPod(new) unless a skip compares everything addPod reads; AddOrUpdatePod/DeletePod always reach the sums and the pod map when a metric is present")
	r.Declines("the inequality itself and its rounding, equality with a freshly built cache; locking (conditional locking is not modelled)")

	add := c.Fn(loadawarePkg, "nodeInfo", "addPod")
	del := c.Fn(loadawarePkg, "nodeInfo", "deletePod")
	if add != nil && del != nil {
		r.Rule("MIRROR(full): the multiset of (accumulator, operation, arguments, dominating conditions) of addPod equals that of deletePod after mapping Sub->Add, SubDelta->AddDelta, Delete->Insert")
		ea := guardedEffects(add, map[string]string{"Add": "Add", "AddDelta": "AddDelta", "Insert": "Insert"})
		ed := guardedEffects(del, map[string]string{"Sub": "Add", "SubDelta": "AddDelta", "Delete": "Insert"})
		for i := range ed {
			ed[i] = strings.ReplaceAll(ed[i], ".SubDelta(", ".AddDelta(")
		}
		sort.Strings(ed)
		r.Floor("MIRROR", "guarded effects of addPod", len(ea), 7)
		// pairwise
		ma, md := map[string]int{}, map[string]int{}
		for _, e := range ea {
			ma[e]++
		}
		for _, e := range ed {
			md[e]++
		}
		var onlyA, onlyD []string
		for e, n := range ma {
			if md[e] != n {
				onlyA = append(onlyA, e)
			}
		}
		for e, n := range md {
			if ma[e] != n {
				onlyD = append(onlyD, e)
			}
		}
		sort.Strings(onlyA)
		sort.Strings(onlyD)
		r.Check(len(onlyA) == 0 && len(onlyD) == 0, "MIRROR", "nodeInfo.addPod~deletePod/guarded-effects", c.Pos(del.Pos()), sprintf("%d guarded effects mirror each other", len(ea)),
			"addPod and deletePod are not exact inverses.\n              only in addPod: "+strings.Join(onlyA, "\n                              ")+"\n              only in deletePod (dualised): "+strings.Join(onlyD, "\n                              "))
		// branch conditions (short-circuit operands are separate branches in SSA)
		conds := func(fn *ssa.Function) []string {
			var out []string
			for _, b := range fn.Blocks {
				if ifi, ok := b.Instrs[len(b.Instrs)-1].(*ssa.If); ok {
					v, neg := an.StripNot(ifi.Cond)
					p := an.Path(v)
					if neg {
						p = "!" + p
					}
					p = strings.ReplaceAll(p, ".SubDelta(", ".AddDelta(")
					out = append(out, p)
				}
			}
			sort.Strings(out)
			return out
		}
		ca, cd := conds(add), conds(del)
		r.Check(strings.Join(ca, " ;; ") == strings.Join(cd, " ;; "), "MIRROR", "nodeInfo.addPod~deletePod/branch-conditions", c.Pos(del.Pos()), sprintf("%d branch conditions are identical", len(ca)),
			"the branch conditions of addPod and deletePod differ (a pod could be added to a sum under one condition and removed under another).\n              addPod:    "+strings.Join(ca, " ;; ")+"\n              deletePod: "+strings.Join(cd, " ;; "))
		for i, e := range ea {
			if i < 3 {
				r.Count("mirror_effect_samples", 1)
				_ = e
			}
		}
	}

	c08events(c, add, del)
	if fn := c.FnOpt(loadawarePkg, "nodeInfo", "AddOrUpdateNodeMetric"); fn != nil {
		r.Rule("PATH(report => rebuild): in AddOrUpdateNodeMetric, once the new report is recorded (n.nodeMetric = metric) no return is reachable without the sums having been rebuilt (the re-initialisation of nodeDelta and the re-adding of the pods): while the metric was absent pod events did not touch the sums, and the report interval can change without the update time changing, so 'same update time' is no reason to keep them")
		var rec *ssa.Store
		for _, b := range fn.Blocks {
			for _, in := range b.Instrs {
				if st, ok := in.(*ssa.Store); ok {
					if _, f, _, ok := an.FieldOf(st.Addr); ok && f == "nodeMetric" && !an.IsNilConst(st.Val) {
						rec = st
					}
				}
			}
		}
		if rec == nil {
			r.Unknown("PATH", fkey(fn)+"/report=>rebuild", c.Pos(fn.Pos()), "store of the new report not found")
		} else {
			reach := an.Explore(fn, an.After(rec), nil, func(in ssa.Instruction) bool {
				cl, ok := in.(ssa.CallInstruction)
				return ok && an.ShortCallee(cl.Common()) == "addPod"
			})
			// a node without pods has nothing to re-add: the exit of the (empty) loop is fine, so the barrier is the reset store
			reach2 := an.Explore(fn, an.After(rec), nil, func(in ssa.Instruction) bool {
				st, ok := in.(*ssa.Store)
				if !ok {
					return false
				}
				_, f, _, ok := an.FieldOf(st.Addr)
				return ok && f == "nodeDelta"
			})
			_ = reach
			r.Check(len(reach2.Returns()) == 0, "PATH", fkey(fn)+"/report=>rebuild", c.InstrPos(rec), "a recorded report always rebuilds the sums", "after the report was recorded a return is reachable without re-initialising the sums: the kept estimate drifts from what would be computed from scratch")
		}
	}

	// rebuild resets every accumulator
	if fn := c.Fn(loadawarePkg, "nodeInfo", "AddOrUpdateNodeMetric"); fn != nil && add != nil {
		r.Rule("TABLE: every receiver field mutated by addPod (prodUsage, nodeDelta, nodeEstimated, prodDelta, nodeDeltaPods, nodeEstimatedPods, prodDeltaPods) and every field it reads from the report (podUsages, prodPods, updateTime, reportInterval) is assigned in AddOrUpdateNodeMetric in a block that dominates the loop re-adding the pods")
		recv := an.Receiver(add)
		fields := map[string]bool{}
		for _, cl := range an.Calls(add, false) {
			switch an.ShortCallee(cl.Common()) {
			case "Add", "AddDelta", "Insert":
				if strings.HasPrefix(an.CalleeName(cl.Common()), "(time.") {
					continue
				}
				for _, ch := range an.Chains(an.Args(cl.Common())[0]) {
					if ch.Root == ssa.Value(recv) && len(ch.Elems) > 0 {
						fields[ch.First()] = true
					}
				}
			}
		}
		for _, f := range []string{"podUsages", "prodPods"} {
			fields[f] = true
		}
		var readd ssa.CallInstruction
		for _, cl := range an.Calls(fn, false) {
			if an.ShortCallee(cl.Common()) == "addPod" {
				readd = cl
			}
		}
		if readd == nil {
			r.Fail("TABLE", fkey(fn)+"/rebuild", c.Pos(fn.Pos()), "AddOrUpdateNodeMetric no longer re-adds the pods after a metric report")
		} else {
			stored := map[string]bool{}
			r2 := an.Receiver(fn)
			for _, b := range fn.Blocks {
				for _, in := range b.Instrs {
					st, ok := in.(*ssa.Store)
					if !ok {
						continue
					}
					fa, ok := st.Addr.(*ssa.FieldAddr)
					if !ok || an.Origin(fa.X) != ssa.Value(r2) {
						continue
					}
					if _, f, _, ok := an.FieldOf(fa); ok && (b == readd.Block() || b.Dominates(readd.Block())) {
						stored[f] = true
					}
				}
			}
			var names []string
			for f := range fields {
				names = append(names, f)
			}
			sort.Strings(names)
			for _, f := range names {
				r.Check(stored[f], "TABLE", fkey(fn)+"/reset/"+f, c.InstrPos(readd), "re-initialised before the rebuild", "accumulator "+f+" is updated incrementally by addPod/deletePod but not re-initialised before the pods are re-added on a metric report: old contributions are counted twice")
			}
			r.Floor("TABLE", "accumulators reset before rebuild", len(names), 8)
		}
	}

	if fn := c.Fn(loadawarePkg, "Plugin", "Filter"); fn != nil {
		c08filter(c, fn)
	}
	if fn := c.Fn(loadawarePkg, "Plugin", "filterNodeUsage"); fn != nil {
		r.Rule("PATH: in filterNodeUsage, after the comparison usage <= threshold[i] evaluated to false only an Unschedulable status is returned; usage derives from estimatedUsed[i] and allocatable[i] with the same index as the threshold")
		// the comparison of the rounded usage percentage with the threshold, in any of its equivalent spellings:
		// usage <= t (exceeds when false), usage > t (exceeds when true), t >= usage, t < usage
		var cmp *ssa.BinOp
		exceeds := an.False
		isUsage := func(v ssa.Value) bool {
			for x := range backwardAll(v) {
				if call, ok := x.(*ssa.Call); ok && an.ShortCallee(&call.Call) == "Round" {
					return true
				}
			}
			return false
		}
		for _, b := range fn.Blocks {
			for _, in := range b.Instrs {
				bo, ok := in.(*ssa.BinOp)
				if !ok {
					continue
				}
				ux, uy := isUsage(bo.X), isUsage(bo.Y)
				switch {
				case ux && !uy && bo.Op == token.LEQ, uy && !ux && bo.Op == token.GEQ:
					cmp, exceeds = bo, an.False
				case ux && !uy && bo.Op == token.GTR, uy && !ux && bo.Op == token.LSS:
					cmp, exceeds = bo, an.True
				}
			}
		}
		if cmp == nil {
			r.Fail("PATH", fkey(fn)+"/exceed=>reject", c.Pos(fn.Pos()), "comparison usage <= threshold not found")
		} else {
			reach := an.Explore(fn, an.After(cmp), an.Facts{cmp: exceeds}, nil)
			bad := false
			nret := 0
			for _, ret := range reach.Returns() {
				for _, v := range reach.Values(ret.Results[0]) {
					nret++
					call, _ := an.ResultOfCall(v)
					if call == nil || an.ShortCallee(&call.Call) != "NewStatus" || an.Path(call.Call.Args[0]) != "2" {
						bad = true
					}
				}
			}
			r.Check(!bad && nret >= 1, "PATH", fkey(fn)+"/exceed=>reject", c.InstrPos(cmp), "an exceeded threshold always rejects the node", "after usage > threshold a return other than Unschedulable is reachable")
			pu, pv := an.Path(cmp.X), an.Path(cmp.Y)
			if !isUsage(cmp.X) { // mirrored spelling: the threshold stands on the left
				pu, pv = pv, pu
			}
			ok := strings.Contains(pu, "estimatedUsed[") && strings.Contains(pu, "allocatable[") && strings.Contains(pv, "usageThresholds")
			r.Check(ok, "FLOW", fkey(fn)+"/operands", c.InstrPos(cmp), "usage(estimated/allocatable) is compared with the threshold of the same resource", "comparison operands changed: "+pu+" <= "+pv)
		}
	}
	if fn := c.Fn(loadawarePkg, "usageThresholdsFilterProfile", "generateUsageThresholdsFilterProfile"); fn != nil {
		c08profile(c, fn)
		c08aggregated(c, fn)
	}
	r.Rule("EFFECT: generateUsageThresholdsFilterProfile (called concurrently for every node) and the estimator's EstimatePod/EstimateNode (called for every pod and node) write nothing reachable from the shared object they are invoked on, directly or through a callee that receives part of it")
	for _, t := range []struct{ pkg, recv, name, what string }{
		{loadawarePkg, "usageThresholdsFilterProfile", "generateUsageThresholdsFilterProfile", "node-specific thresholds are written into the shared plugin-wide profile"},
		{loadawarePkg + "/estimator", "DefaultEstimator", "EstimatePod", "a pod-specific value is written into the estimator shared by all pods"},
		{loadawarePkg + "/estimator", "DefaultEstimator", "EstimateNode", "a node-specific value is written into the estimator shared by all nodes"},
	} {
		fn := c.Fn(t.pkg, t.recv, t.name)
		if fn == nil {
			continue
		}
		es := an.DeepEffects(fn, an.Receiver(fn), nil, 4)
		var ss []string
		for _, e := range es {
			ss = append(ss, e.String()+" @"+c.InstrPos(e.Instr))
		}
		r.Check(len(es) == 0, "EFFECT", fkey(fn)+"/pure", c.Pos(fn.Pos()), "no write through the shared receiver", t.what+": "+strings.Join(ss, "; ")+" — every later caller sees them")
	}
	c08handlers(c)
	c08values(c)
	c08fresh(c)
	c08recheck(c)
	c08estimateNode(c)
}

// assumeLen0 / assumeEmpty set, for every comparison of len(<..suffix>) with 0 (of <..suffix> with ""), the outcome it has
// when the length is 0 (the string is empty), whatever way the comparison is spelled.
func assumeLen0(fn *ssa.Function, suffix string, f an.Facts) int {
	n := 0
	for _, b := range fn.Blocks {
		for _, in := range b.Instrs {
			bo, ok := in.(*ssa.BinOp)
			if !ok {
				continue
			}
			call, isCall := bo.X.(*ssa.Call)
			k, isC := constIntOf(bo.Y)
			if !isCall || !isC || k != 0 || !an.IsBuiltinCall(call, "len") || !strings.HasSuffix(an.Path(call.Call.Args[0]), suffix) {
				continue
			}
			switch bo.Op {
			case token.GTR, token.NEQ, token.LSS:
				f[bo] = an.False
				n++
			case token.EQL, token.LEQ, token.GEQ:
				f[bo] = an.True
				n++
			}
		}
	}
	return n
}

func assumeEmpty(fn *ssa.Function, suffix string, f an.Facts) int {
	n := 0
	for _, b := range fn.Blocks {
		for _, in := range b.Instrs {
			bo, ok := in.(*ssa.BinOp)
			if !ok || (bo.Op != token.EQL && bo.Op != token.NEQ) {
				continue
			}
			if str, isC := constString(bo.Y); !isC || str != "" || !strings.HasSuffix(an.Path(bo.X), suffix) {
				continue
			}
			if bo.Op == token.EQL {
				f[bo] = an.True
			} else {
				f[bo] = an.False
			}
			n++
		}
	}
	return n
}

// c08aggregated: a half-specified aggregated section of the node annotation is dropped.
func c08aggregated(c *Ctx, fn *ssa.Function) {
	r := c.R
	r.Rule("PATH(aggregated section): in generateUsageThresholdsFilterProfile, with an aggregated section present whose thresholds are empty (resp. whose aggregation type is empty), the per-node aggregated profile cannot be built without the section having been reset to nil first (a half-specified section would otherwise replace the whole-node thresholds, or disable filtering with an all-zero vector)")
	key := fkey(fn)
	var reset *ssa.Store
	var build *ssa.Alloc
	for _, b := range fn.Blocks {
		for _, in := range b.Instrs {
			switch x := in.(type) {
			case *ssa.Store:
				if _, f, _, ok := an.FieldOf(x.Addr); ok && f == "AggregatedUsage" && an.IsNilConst(x.Val) {
					reset = x
				}
			case *ssa.Alloc:
				if x.Heap && strings.HasSuffix(x.Type().String(), "aggregatedUsageFilterProfile") {
					build = x
				}
			}
		}
	}
	if build == nil {
		r.Unknown("PATH", key+"/aggregated-section", c.Pos(fn.Pos()), "construction of the aggregated profile not found: unknown idiom")
		return
	}
	// two equivalent idioms: the section is reset in place (c.AggregatedUsage = nil, and tested again later), or it is
	// copied into a local that is set to nil; in the second form the explorer follows the local through its merge
	for _, sc := range []struct{ name, lenSuffix, strSuffix string }{
		{"thresholds-empty", ".UsageThresholds", ""},
		{"type-empty", "", ".UsageAggregationType"},
	} {
		f := an.Facts{}
		// the section is present: nil tests of the section that are evaluated before the reset
		for _, b := range fn.Blocks {
			if reset != nil && !(b == reset.Block() || b.Dominates(reset.Block())) {
				continue
			}
			for _, in := range b.Instrs {
				bo, ok := in.(*ssa.BinOp)
				if !ok || (bo.Op != token.EQL && bo.Op != token.NEQ) || !an.IsNilConst(bo.Y) || !strings.HasSuffix(an.Path(bo.X), ".AggregatedUsage") {
					continue
				}
				if reset == nil {
					// only tests of the field as read from the annotation object (not of a local that may have been reset)
					if ld, isLd := bo.X.(*ssa.UnOp); !isLd || ld.Op != token.MUL {
						continue
					} else if _, isFA := ld.X.(*ssa.FieldAddr); !isFA {
						continue
					}
				}
				if bo.Op == token.NEQ {
					f[bo] = an.True
				} else {
					f[bo] = an.False
				}
			}
		}
		n := len(f)
		if sc.lenSuffix != "" {
			// only the thresholds of the aggregated section (its path goes through .AggregatedUsage)
			n += assumeLen0(fn, ".AggregatedUsage"+sc.lenSuffix, f)
		} else {
			n += assumeEmpty(fn, ".AggregatedUsage"+sc.strSuffix, f)
		}
		reach := an.Explore(fn, nil, f, func(in ssa.Instruction) bool { return reset != nil && in == ssa.Instruction(reset) })
		r.Check(n >= 2 && !reach.Reached(build), "PATH", key+"/aggregated-section/"+sc.name, c.InstrPos(build), "a half-specified aggregated section is reset before it can be used", sprintf("with the aggregated section's %s the aggregated profile can still be built without the section having been reset (%d tests recognised)", sc.name, n))
	}
}

// c08profile: the per-node profile defines every field (from the node's annotation or inherited from the plugin profile).
func c08profile(c *Ctx, fn *ssa.Function) {
	r := c.R
	r.Rule("COMPLETE(profile): in generateUsageThresholdsFilterProfile every field of a freshly built usageThresholdsFilterProfile is assigned on every path to the return (customised or inherited from the plugin-wide profile); no field is left at its zero value, which would silently disable that threshold for the node")
	key := fkey(fn)
	n := 0
	for _, b := range fn.Blocks {
		for _, in := range b.Instrs {
			al, ok := in.(*ssa.Alloc)
			if !ok || !al.Heap {
				continue
			}
			st, ok := al.Type().(*types.Pointer).Elem().Underlying().(*types.Struct)
			if !ok || !strings.HasSuffix(al.Type().String(), "usageThresholdsFilterProfile") {
				continue
			}
			n++
			for i := 0; i < st.NumFields(); i++ {
				fname := st.Field(i).Name()
				idx := i
				reach := an.Explore(fn, an.After(al), nil, func(x ssa.Instruction) bool {
					s, ok := x.(*ssa.Store)
					if !ok {
						return false
					}
					if s.Addr == ssa.Value(al) {
						return true
					}
					fa, ok := s.Addr.(*ssa.FieldAddr)
					return ok && fa.X == ssa.Value(al) && fa.Field == idx
				})
				bad := ""
				for _, ret := range reach.Returns() {
					for _, alt := range reach.Alts(ret) {
						for _, l := range an.Sources(alt.Results[0], nil) {
							if l == ssa.Value(al) {
								bad = c.InstrPos(ret)
							}
						}
					}
				}
				r.Check(bad == "", "COMPLETE", key+"/field/"+fname, c.InstrPos(al), fname+" is assigned on every path", "the per-node profile can be returned (at "+bad+") without its field "+fname+" ever being assigned: a node that customises other thresholds loses the plugin-wide "+fname)
			}
		}
	}
	r.Floor("COMPLETE", "fresh profiles built", n, 1)
}

func c08filter(c *Ctx, fn *ssa.Function) {
	r := c.R
	r.Rule("PATH: in Plugin.Filter every return of a nil/success status that is not the result of filterNodeUsage is dominated by one of the enumerated exemptions; with the metric expired and FilterExpiredNodeMetrics && !EnableScheduleWhenNodeMetricsExpired the result is Unschedulable")
	key := fkey(fn)
	allowed := []string{"IsDaemonSetPod", "IsEmpty", "isNodeMetricExpired", "EstimateNode", "NodeMetric", "GetNodeMetricAndEstimatedOfExisting", "== nil", "!= nil", "len("}
	n := 0
	for _, alt := range an.ReturnAlts(fn) {
		ret := alt.Ret
		_ = ret
		v := alt.Results[0]
		if call, _ := an.ResultOfCall(v); call != nil {
			if sn := an.ShortCallee(&call.Call); sn == "filterNodeUsage" || sn == "NewStatus" || sn == "AsStatus" {
				continue
			}
		}
		n++
		k := sprintf("%s/success-exit#%d", key, n)
		if !an.IsNilConst(v) {
			// a phi or variable: accept only if all sources are nil or filterNodeUsage/NewStatus results
			okAll := true
			for _, l := range an.Sources(v, nil) {
				if an.IsNilConst(l) {
					continue
				}
				if call, ok := l.(*ssa.Call); ok {
					if sn := an.ShortCallee(&call.Call); sn == "filterNodeUsage" || sn == "NewStatus" || sn == "AsStatus" {
						continue
					}
				}
				okAll = false
			}
			if !okAll {
				r.Unknown("PATH", k, c.InstrPos(ret), "returned status has an unrecognised source")
				continue
			}
		}
		gs := alt.Guards
		exempt := ""
		for _, g := range gs {
			p := an.Path(g.Cond)
			for _, a := range allowed {
				if strings.Contains(p, a) {
					exempt = a
				}
			}
		}
		r.Check(exempt != "", "PATH", k, c.InstrPos(ret), "success exit under exemption: "+an.DescribeGuards(gs), "a success exit of Filter is not under any of the enumerated exemptions (daemon-set pod, empty thresholds, metric missing/expired-but-allowed, estimation error); guards: "+an.DescribeGuards(gs))
	}
	if n == 0 {
		r.Unknown("PATH", key+"/success-exits", c.Pos(fn.Pos()), "no exemption exit found: unknown idiom")
	}
}

// c08events: the event entry points keep the sums in step with the pod set.
func c08events(c *Ctx, add, del *ssa.Function) {
	r := c.R
	r.Rule("FRAME(updatePod): updatePod either always performs deletePod(old) followed by addPod(new), or every path that skips them is guarded by comparisons that mention every podAssignInfo field addPod reads (a skipped update may not change anything the sums depend on)")
	up := c.FnOpt(loadawarePkg, "nodeInfo", "updatePod")
	if up == nil {
		// no separate update step: the replace path of AddOrUpdatePod itself has to take the old entry out of the sums
		if fn := c.Fn(loadawarePkg, "nodeInfo", "AddOrUpdatePod"); fn != nil {
			f := an.Facts{}
			for _, b := range fn.Blocks {
				for _, in := range b.Instrs {
					switch x := in.(type) {
					case *ssa.UnOp:
						if x.Op == token.MUL && strings.HasSuffix(an.Path(x), ".deleted") {
							f[x] = an.False
						}
					case *ssa.BinOp:
						if (x.Op == token.NEQ || x.Op == token.EQL) && an.IsNilConst(x.Y) && (strings.HasSuffix(an.Path(x.X), ".nodeMetric") || strings.Contains(an.Path(x.X), ".podInfos[")) {
							f[x] = an.True
							if x.Op == token.EQL {
								f[x] = an.False
							}
						}
					}
				}
			}
			var seq []string
			argOK := true
			for _, cl := range an.Calls(fn, false) {
				switch an.ShortCallee(cl.Common()) {
				case "deletePod":
					seq = append(seq, "deletePod")
					argOK = argOK && strings.Contains(an.Path(cl.Common().Args[1]), ".podInfos[")
				case "addPod":
					seq = append(seq, "addPod")
				}
			}
			reach := an.Explore(fn, nil, f, func(in ssa.Instruction) bool {
				cl, ok := in.(ssa.CallInstruction)
				return ok && an.ShortCallee(cl.Common()) == "deletePod"
			})
			hitAdd := false
			for _, in := range reach.Instrs() {
				if cl, ok := in.(ssa.CallInstruction); ok && an.ShortCallee(cl.Common()) == "addPod" {
					hitAdd = true
				}
			}
			r.Check(len(f) >= 3 && argOK && strings.Join(seq, ";") == "deletePod;addPod" && len(reach.Returns()) == 0 && !hitAdd, "FRAME", fkey(fn)+"/replace-pair", c.Pos(fn.Pos()), "a replaced pod is taken out of the sums (deletePod(previous entry)) before the new version is added", "AddOrUpdatePod can add the new version of a known pod without first subtracting the previous entry (or subtracts something else): the sums count the pod twice")
		}
	}
	if up != nil && add != nil {
		key := fkey(up)
		reads := map[string]bool{}
		if len(add.Params) == 2 {
			for _, b := range add.Blocks {
				for _, in := range b.Instrs {
					if fa, ok := in.(*ssa.FieldAddr); ok && fa.X == ssa.Value(add.Params[1]) {
						reads[fieldNameOf(fa)] = true
					}
				}
			}
		}
		r.Floor("FRAME", "podAssignInfo fields read by addPod", len(reads), 3)
		isOp := func(in ssa.Instruction) bool {
			cl, ok := in.(ssa.CallInstruction)
			return ok && (an.ShortCallee(cl.Common()) == "deletePod" || an.ShortCallee(cl.Common()) == "addPod")
		}
		// order and arguments of the pair
		var seq []string
		for _, cl := range an.Calls(up, false) {
			switch an.ShortCallee(cl.Common()) {
			case "deletePod", "addPod":
				seq = append(seq, an.ShortCallee(cl.Common())+"("+an.Path(cl.Common().Args[1])+")")
			}
		}
		r.Check(strings.Join(seq, ";") == "deletePod(oldPod);addPod(newPod)", "FRAME", key+"/pair", c.Pos(up.Pos()), "deletePod(oldPod) then addPod(newPod)", "updatePod does not consist of deletePod(oldPod) followed by addPod(newPod): "+strings.Join(seq, ";"))
		reach := an.Explore(up, nil, nil, isOp)
		skips := reach.Returns()
		if len(skips) == 0 {
			r.OK("FRAME", key+"/no-skip", c.Pos(up.Pos()), "every path performs the delete/add pair")
		} else {
			compared := map[string]bool{}
			for _, b := range up.Blocks {
				ifi, ok := b.Instrs[len(b.Instrs)-1].(*ssa.If)
				if !ok {
					continue
				}
				for x := range backwardAll(ifi.Cond) {
					if fa, ok := x.(*ssa.FieldAddr); ok {
						if _, isP := fa.X.(*ssa.Parameter); isP {
							compared[fieldNameOf(fa)] = true
						}
					}
				}
			}
			var missing []string
			for f := range reads {
				if !compared[f] {
					missing = append(missing, f)
				}
			}
			sort.Strings(missing)
			r.Check(len(missing) == 0, "FRAME", key+"/no-skip", c.InstrPos(skips[0]), "the skip path compares every field addPod reads", "updatePod can return without deletePod/addPod although these podAssignInfo fields, which addPod reads, are not compared: "+strings.Join(missing, ", ")+" (an update changing only them leaves the sums stale, and the later delete subtracts what was never added)")
		}
	}

	r.Rule("PATH(events): in AddOrUpdatePod, with the node alive and a metric present, no return is reachable without addPod or updatePod, and the pod is stored into podInfos; in DeletePod, with a metric present and the pod known, no return is reachable without deletePod and without removing the pod from podInfos")
	facts := func(fn *ssa.Function) an.Facts {
		f := an.Facts{}
		for _, b := range fn.Blocks {
			for _, in := range b.Instrs {
				switch x := in.(type) {
				case *ssa.UnOp:
					if x.Op == token.MUL && strings.HasSuffix(an.Path(x), ".deleted") {
						f[x] = an.False
					}
				case *ssa.BinOp:
					if (x.Op == token.NEQ || x.Op == token.EQL) && an.IsNilConst(x.Y) && (strings.HasSuffix(an.Path(x.X), ".nodeMetric") || strings.Contains(an.Path(x.X), ".podInfos[")) {
						f[x] = an.True // present
						if x.Op == token.EQL {
							f[x] = an.False
						}
					}
				}
			}
		}
		return f
	}
	if fn := c.Fn(loadawarePkg, "nodeInfo", "AddOrUpdatePod"); fn != nil {
		key := fkey(fn)
		f := facts(fn)
		// oldPod may be nil or not here: drop the podInfos facts
		for v := range f {
			if bo, ok := v.(*ssa.BinOp); ok && !strings.HasSuffix(an.Path(bo.X), ".nodeMetric") {
				delete(f, v)
			}
		}
		reach := an.Explore(fn, nil, f, func(in ssa.Instruction) bool {
			cl, ok := in.(ssa.CallInstruction)
			return ok && (an.ShortCallee(cl.Common()) == "updatePod" || an.ShortCallee(cl.Common()) == "addPod")
		})
		r.Check(len(f) >= 2 && len(reach.Returns()) == 0, "PATH", key+"/sums-follow", c.Pos(fn.Pos()), "an added or updated pod always reaches addPod/updatePod", sprintf("AddOrUpdatePod can return on a live node with a metric without addPod/updatePod (%d returns reachable, %d conditions recognised)", len(reach.Returns()), len(f)))
		reach = an.Explore(fn, nil, f, func(in ssa.Instruction) bool {
			mu, ok := in.(*ssa.MapUpdate)
			return ok && strings.HasSuffix(an.Path(mu.Map), ".podInfos") && an.Path(mu.Value) == "pod"
		})
		r.Check(len(reach.Returns()) == 0, "PATH", key+"/stored", c.Pos(fn.Pos()), "the pod is recorded in podInfos", "AddOrUpdatePod can return on a live node without recording the pod in podInfos (the next metric report would rebuild the sums without it)")
		// arguments
		ok := true
		for _, cl := range an.Calls(fn, false) {
			switch an.ShortCallee(cl.Common()) {
			case "addPod":
				ok = ok && an.Path(cl.Common().Args[1]) == "pod"
			case "updatePod":
				ok = ok && strings.Contains(an.Path(cl.Common().Args[1]), ".podInfos[") && an.Path(cl.Common().Args[2]) == "pod"
			}
		}
		r.Check(ok, "PATH", key+"/arguments", c.Pos(fn.Pos()), "addPod(pod) / updatePod(previous entry, pod)", "addPod/updatePod are not called with the new pod (and the previously recorded entry)")
	}
	if fn := c.Fn(loadawarePkg, "nodeInfo", "DeletePod"); fn != nil {
		key := fkey(fn)
		f := facts(fn)
		reach := an.Explore(fn, nil, f, func(in ssa.Instruction) bool {
			cl, ok := in.(ssa.CallInstruction)
			return ok && an.ShortCallee(cl.Common()) == "deletePod"
		})
		r.Check(len(f) >= 3 && len(reach.Returns()) == 0, "PATH", key+"/sums-follow", c.Pos(fn.Pos()), "a deleted pod always reaches deletePod", sprintf("DeletePod can return for a known pod on a node with a metric without deletePod (%d returns reachable, %d conditions recognised)", len(reach.Returns()), len(f)))
		reach = an.Explore(fn, nil, f, func(in ssa.Instruction) bool {
			cl, ok := in.(ssa.CallInstruction)
			return ok && an.IsBuiltinCall(cl.Value(), "delete") && strings.HasSuffix(an.Path(cl.Common().Args[0]), ".podInfos")
		})
		r.Check(len(reach.Returns()) == 0, "PATH", key+"/removed", c.Pos(fn.Pos()), "the pod is removed from podInfos", "DeletePod can return for a known pod without removing it from podInfos (the next metric report would re-add it)")
	}
	_ = del
}

func fieldNameOf(fa *ssa.FieldAddr) string {
	_, f, _, _ := an.FieldOf(fa)
	return f
}
