// Package rules holds the rule instances of each property: anchors, tables, floors, reasons.
package rules

import (
	"fmt"
	"go/ast"
	"go/token"
	"go/types"

	"golang.org/x/tools/go/ssa"

	"kverif/internal/load"
	"kverif/internal/report"
)

type Ctx struct {
	P    *load.Program
	R    *report.Run
	Tier string
	Home string
}

var Registry = map[string]func(*Ctx){}

func (c *Ctx) Thorough() bool { return c.Tier == "thorough" }

// Fn resolves an anchor; an unresolved anchor is an undecided obligation (never a silent pass).
func (c *Ctx) Fn(rel, recv, name string) *ssa.Function {
	f := c.P.Func(rel, recv, name)
	key := rel + "." + name
	if recv != "" {
		key = rel + ".(" + recv + ")." + name
	}
	if f == nil || len(f.Blocks) == 0 {
		c.R.Unknown("ANCHOR", key, "", "anchor function not found in the current tree (renamed or removed): the rule instances that need it cannot be decided")
		return nil
	}
	c.R.Func(key)
	return f
}

// FnOpt resolves a function that a rule can do without (a thin wrapper that may have been inlined away).
func (c *Ctx) FnOpt(rel, recv, name string) *ssa.Function {
	f := c.P.Func(rel, recv, name)
	if f == nil || len(f.Blocks) == 0 {
		return nil
	}
	return f
}

func (c *Ctx) Pos(p token.Pos) string { return c.P.Pos(p) }

func (c *Ctx) InstrPos(in ssa.Instruction) string {
	if in == nil {
		return "?"
	}
	if in.Pos().IsValid() {
		return c.P.Pos(in.Pos())
	}
	// fall back to the nearest positioned instruction in the block
	b := in.Block()
	for _, x := range b.Instrs {
		if x.Pos().IsValid() {
			return c.P.Pos(x.Pos()) + "(near)"
		}
	}
	if in.Parent() != nil {
		return c.P.Pos(in.Parent().Pos()) + "(func)"
	}
	return "?"
}

// Decl returns the syntax and type info of a source function.
func (c *Ctx) Decl(fn *ssa.Function) (*ast.FuncDecl, *types.Info) {
	return c.P.FuncDecl(fn), c.P.Info(fn)
}

func fkey(fn *ssa.Function) string { return load.FuncName(fn) }

func sprintf(f string, a ...any) string { return fmt.Sprintf(f, a...) }

// structFieldsOf lists the field names of a named struct type object.
func structFieldsOf(obj types.Object) []string {
	if obj == nil {
		return nil
	}
	st, ok := obj.Type().Underlying().(*types.Struct)
	if !ok {
		return nil
	}
	var out []string
	for i := 0; i < st.NumFields(); i++ {
		out = append(out, st.Field(i).Name())
	}
	return out
}
