package rules

import (
	"go/token"
	"golang.org/x/tools/go/ssa"
	"strings"

	"kverif/internal/an"
)

// c16round: one arbitration round handles the jobs one by one, each with its own pod, and records a pass before the next job is looked at.
func c16round(c *Ctx, pkg string) {
	r := c.R
	r.Decides("in an arbitration round every job is filtered with the pod looked up for that very job; a failed job is failed, a passed job is recorded as passed synchronously before the next job is filtered, and a job that neither failed nor passed is left alone (stays waiting)")
	r.Rule("ROUND: in arbitratorImpl.doOnceArbitrate, inside the loop over the sorted jobs: filtering receives podOfJob[job] of the loop's job; updateFailedJob(job, pod) is reached exactly under isFailed and updatePassedJob(job) exactly under !isFailed && isPassed, with the results of this iteration's filtering call; both are plain calls (not go/defer) inside the loop, so the pass is recorded before the next job is filtered; with both results false neither is reached")
	fn := c.Fn(pkg, "arbitratorImpl", "doOnceArbitrate")
	if fn == nil {
		return
	}
	key := fkey(fn)
	var filt, failed, passed ssa.CallInstruction
	for _, cl := range an.Calls(fn, false) {
		switch an.ShortCallee(cl.Common()) {
		case "filtering":
			filt = cl
		case "updateFailedJob":
			failed = cl
		case "updatePassedJob":
			passed = cl
		}
	}
	if filt == nil || failed == nil || passed == nil {
		r.Fail("ROUND", key+"/shape", c.Pos(fn.Pos()), sprintf("filtering=%v updateFailedJob=%v updatePassedJob=%v: a step of the round is gone", filt != nil, failed != nil, passed != nil))
		return
	}
	hdr := an.InnermostLoopHeader(filt.Block())
	_, fSync := failed.(*ssa.Call)
	_, pSync := passed.(*ssa.Call)
	_, filtSync := filt.(*ssa.Call)
	sameLoop := hdr != nil && an.InnermostLoopHeader(failed.Block()) == hdr && an.InnermostLoopHeader(passed.Block()) == hdr
	// the pod is the one of the job
	job := passed.Common().Args[1]
	podOK := false
	if lk, ok := firstSource(filt.Common().Args[1]).(*ssa.Lookup); ok {
		podOK = firstSource(lk.Index) == firstSource(job)
	}
	sameJob := firstSource(failed.Common().Args[1]) == firstSource(job) && firstSource(failed.Common().Args[2]) == firstSource(filt.Common().Args[1])
	// the job is the loop's element
	elem := false
	if ld, ok := firstSource(job).(*ssa.UnOp); ok {
		if ia, ok := ld.X.(*ssa.IndexAddr); ok {
			_, _, elem = fullScan(ia)
		}
	}
	r.Check(fSync && pSync && filtSync && sameLoop && podOK && sameJob && elem, "ROUND", key+"/one-by-one", c.InstrPos(filt), "each job of the round is filtered with its own pod and updated synchronously inside the loop",
		sprintf("the round is not 'one job after the other': plain calls (filtering/failed/passed)=%v/%v/%v, all in the loop over the jobs=%v, the pod is podOfJob[job]=%v, failed job and pod are this iteration's=%v, the job is the element of a full scan=%v — the next job's limit checks would not see this job's pass", filtSync, fSync, pSync, sameLoop, podOK, sameJob, elem))
	if !filtSync {
		return
	}
	isFailed, isPassed := extract(filt.Value(), 0), extract(filt.Value(), 1)
	if isFailed == nil || isPassed == nil {
		r.Fail("ROUND", key+"/outcomes", c.InstrPos(filt), "a result of filtering is discarded")
		return
	}
	// outcomes
	type sc struct {
		name       string
		f, p       an.Abs
		want, deny ssa.CallInstruction
		also       ssa.CallInstruction
	}
	for _, s := range []sc{
		{"failed=>updateFailedJob", an.True, an.Unknown, failed, passed, nil},
		{"passed=>updatePassedJob", an.False, an.True, passed, failed, nil},
		{"neither=>left-waiting", an.False, an.False, nil, failed, passed},
	} {
		facts := an.Facts{isFailed: s.f}
		if s.p != an.Unknown {
			facts[isPassed] = s.p
		}
		hitWant, hitDeny := false, false
		reach := an.Explore(fn, an.After(filt), facts, func(in ssa.Instruction) bool {
			if s.want != nil && in == ssa.Instruction(s.want) {
				hitWant = true
				return true
			}
			if in == ssa.Instruction(s.deny) || (s.also != nil && in == ssa.Instruction(s.also)) {
				hitDeny = true
				return true
			}
			// the next iteration
			return in == ssa.Instruction(filt)
		})
		escaped := false
		if s.want != nil {
			// the header (next job) or the exit must not be reachable without the wanted call
			if len(reach.Returns()) > 0 || (hdr != nil && reach.BlockReached(hdr)) {
				escaped = true
			}
		}
		ok := !hitDeny && !escaped && (s.want == nil || hitWant)
		r.Check(ok, "ROUND", key+"/"+s.name, c.InstrPos(filt), "holds", sprintf("for a job whose filtering returned (isFailed=%v, isPassed=%v): the wanted update is reached=%v, can be bypassed=%v, the other update is reachable=%v", s.f, s.p, hitWant, escaped, hitDeny))
	}
}

// c16accounting: the limiter charges what it checks; the per-workload filter survives when only one of its gates is skipped.
func c16accounting(c *Ctx, pkg string) {
	r := c.R
	r.Decides("EvictionLimiter.Done charges the namespace counter and the total on every call and the node counter whenever the pod has a node - the same conditions under which AllowEvict checks them; the per-workload limit filter is registered unless BOTH of its gates are skipped")
	r.Rule("MIRROR(allow/done): in EvictionLimiter.Done the writes to namespacePodCount and totalCount are reached on every path, the write to nodePodCount on every path with pod.Spec.NodeName != \"\" (AllowEvict checks namespace and total for every pod and the node cap for pods with a node: a counter that is checked but not charged makes the cap free)")
	if fn := c.Fn(evictionsPkg, "EvictionLimiter", "Done"); fn != nil {
		writesTo := func(field string) func(ssa.Instruction) bool {
			return func(in ssa.Instruction) bool {
				switch x := in.(type) {
				case *ssa.MapUpdate:
					return strings.HasSuffix(an.Path(x.Map), "."+field)
				case *ssa.Store:
					_, f, _, ok := an.FieldOf(x.Addr)
					return ok && f == field
				}
				return false
			}
		}
		nodeFacts := an.Facts{}
		for _, b := range fn.Blocks {
			for _, in := range b.Instrs {
				if bo, ok := in.(*ssa.BinOp); ok {
					if s, isC := constString(bo.Y); isC && s == "" && (strings.HasSuffix(an.Path(bo.X), ".Spec.NodeName") || strings.HasSuffix(an.Path(firstSource(bo.X)), ".Spec.NodeName")) {
						if bo.Op == token.NEQ {
							nodeFacts[bo] = an.True
						} else if bo.Op == token.EQL {
							nodeFacts[bo] = an.False
						}
					}
				}
			}
		}
		for _, t := range []struct {
			field string
			facts an.Facts
			when  string
		}{{"namespacePodCount", nil, "every pod"}, {"totalCount", nil, "every pod"}, {"nodePodCount", nodeFacts, "every pod with a node"}} {
			reach := an.Explore(fn, nil, t.facts, writesTo(t.field))
			ok := len(reach.Returns()) == 0 && (t.facts == nil || len(t.facts) > 0)
			r.Check(ok, "MIRROR", fkey(fn)+"/charges/"+t.field, c.Pos(fn.Pos()), "charged for "+t.when, "EvictionLimiter.Done can return without charging "+t.field+" for "+t.when+": AllowEvict keeps checking a counter that is not counted up, so the cap never bites and the reported count is short")
		}
	}

	r.Rule("PATH(workload gates): in filter.initFilters the append of filterMaxMigratingOrUnavailablePerWorkload is reached when isEvictionGateSkipped(MaxMigratingPerWorkload) is true but isEvictionGateSkipped(MaxUnavailablePerWorkload) is false, and the other way round (the filter enforces both budgets and checks each gate itself)")
	if fn := c.Fn(pkg, "filter", "initFilters"); fn != nil {
		gate := map[string][]*ssa.Call{}
		for _, cl := range an.Calls(fn, false) {
			call, ok := cl.(*ssa.Call)
			if !ok || an.ShortCallee(&call.Call) != "isEvictionGateSkipped" {
				continue
			}
			if s, isC := constString(call.Call.Args[1]); isC {
				gate[s] = append(gate[s], call)
			}
		}
		var mig, unav []*ssa.Call
		for k, v := range gate {
			switch {
			case strings.Contains(k, "MaxMigratingPerWorkload"):
				mig = v
			case strings.Contains(k, "MaxUnavailablePerWorkload"):
				unav = v
			}
		}
		isAppend := func(in ssa.Instruction) bool {
			cl, ok := in.(*ssa.Call)
			if !ok || !an.IsBuiltinCall(cl, "append") {
				return false
			}
			var cands []ssa.Value
			for _, e := range variadicElems(cl.Call.Args[len(cl.Call.Args)-1]) {
				for x := range backwardAll(e) {
					cands = append(cands, x)
				}
			}
			for _, x := range cands {
				if mc, isMC := x.(*ssa.MakeClosure); isMC {
					if f, isF := mc.Fn.(*ssa.Function); isF && strings.Contains(f.Name(), "filterMaxMigratingOrUnavailablePerWorkload") {
						return true
					}
				}
				if f, isF := x.(*ssa.Function); isF && strings.Contains(f.Name(), "filterMaxMigratingOrUnavailablePerWorkload") {
					return true
				}
			}
			return false
		}
		okAll := len(mig) > 0 && len(unav) > 0
		for _, sc := range [][2]an.Abs{{an.True, an.False}, {an.False, an.True}} {
			f := an.Facts{}
			for _, g := range mig {
				f[g] = sc[0]
			}
			for _, g := range unav {
				f[g] = sc[1]
			}
			// from the first of the two gate tests on
			first := mig[0]
			if instrBefore(unav[0], mig[0]) {
				first = unav[0]
			}
			start := &an.Start{Block: first.Block(), Index: instrIndex(first)}
			hit := false
			an.Explore(fn, start, f, func(in ssa.Instruction) bool {
				if isAppend(in) {
					hit = true
				}
				return false
			})
			// reached on every path: with the append as barrier no return is reachable
			reach := an.Explore(fn, start, f, isAppend)
			if !hit || len(reach.Returns()) > 0 {
				okAll = false
			}
		}
		r.Check(okAll, "PATH", fkey(fn)+"/workload-filter-unless-both-skipped", c.Pos(fn.Pos()), "registered unless both workload gates are skipped", sprintf("the per-workload filter is dropped as soon as one of its two gates is skipped (gate calls found: migrating=%d unavailable=%d): the other workload budget is no longer enforced", len(mig), len(unav)))
	}
}

// c16visitors: a counting visitor sees every job.
func c16visitors(c *Ctx, pkg string) {
	r := c.R
	r.Decides("the visitors the four limit filters hand to forEachAvailableMigrationJobs return true on every path (false means 'stop iterating': a counting visitor that stops early - e.g. on a failed Get of one job's pod - leaves the later jobs out of the count, and the budget is overrun)")
	r.Rule("COUNT(visit all): in filterMaxMigratingGlobally / PerNode / PerNamespace / OrUnavailablePerWorkload every function literal passed as handler to forEachAvailableMigrationJobs has only 'return true' exits")
	n := 0
	for _, name := range []string{"filterMaxMigratingGlobally", "filterMaxMigratingPerNode", "filterMaxMigratingPerNamespace", "filterMaxMigratingOrUnavailablePerWorkload"} {
		fn := c.Fn(pkg, "filter", name)
		if fn == nil {
			continue
		}
		nIn := 0
		for _, cl := range an.Calls(fn, false) {
			if an.ShortCallee(cl.Common()) != "forEachAvailableMigrationJobs" {
				continue
			}
			mc, ok := cl.Common().Args[2].(*ssa.MakeClosure)
			if !ok {
				continue
			}
			clo, _ := mc.Fn.(*ssa.Function)
			if clo == nil {
				continue
			}
			n++
			nIn++
			bad := ""
			for _, alt := range an.ReturnAlts(clo) {
				if !isTrueConst(alt.Results[0]) {
					bad = c.InstrPos(alt.Ret)
				}
			}
			r.Check(bad == "", "COUNT", sprintf("%s/visitor#%d", fkey(fn), nIn), c.InstrPos(cl), "the visitor never stops the iteration", "the counting visitor can return something else than true (at "+bad+"): the iteration stops there and the jobs listed after it are not counted against the limit")
		}
	}
	r.Floor("COUNT", "counting visitors", n, 3)
}
