package rules

import (
	"golang.org/x/tools/go/ssa"

	"kverif/internal/an"
)

// c16round: one arbitration round handles the jobs one by one, each with its own pod, and records a pass before the next job is looked at.
func c16round(c *Ctx, pkg string) {
	r := c.R
	r.Decides("in an arbitration round every job is filtered with the pod looked up for that very job; a failed job is failed, a passed job is recorded as passed synchronously before the next job is filtered, and a job that neither failed nor passed is left alone (stays waiting)")
	r.Rule("ROUND: in arbitratorImpl.doOnceArbitrate, inside the loop over the sorted jobs: filtering receives podOfJob[job] of the loop's job; updateFailedJob(job, pod) is reached exactly under isFailed and updatePassedJob(job) exactly under !isFailed && isPassed, with the results of this iteration's filtering call; both are plain calls (not go/defer) inside the loop, so the pass is recorded before the next job is filtered; with both results false neither is reached")
	fn := c.Fn(pkg, "arbitratorImpl", "doOnceArbitrate")
	if fn == nil {
		return
	}
	key := fkey(fn)
	var filt, failed, passed ssa.CallInstruction
	for _, cl := range an.Calls(fn, false) {
		switch an.ShortCallee(cl.Common()) {
		case "filtering":
			filt = cl
		case "updateFailedJob":
			failed = cl
		case "updatePassedJob":
			passed = cl
		}
	}
	if filt == nil || failed == nil || passed == nil {
		r.Fail("ROUND", key+"/shape", c.Pos(fn.Pos()), sprintf("filtering=%v updateFailedJob=%v updatePassedJob=%v: a step of the round is gone", filt != nil, failed != nil, passed != nil))
		return
	}
	hdr := an.InnermostLoopHeader(filt.Block())
	_, fSync := failed.(*ssa.Call)
	_, pSync := passed.(*ssa.Call)
	_, filtSync := filt.(*ssa.Call)
	sameLoop := hdr != nil && an.InnermostLoopHeader(failed.Block()) == hdr && an.InnermostLoopHeader(passed.Block()) == hdr
	// the pod is the one of the job
	job := passed.Common().Args[1]
	podOK := false
	if lk, ok := firstSource(filt.Common().Args[1]).(*ssa.Lookup); ok {
		podOK = firstSource(lk.Index) == firstSource(job)
	}
	sameJob := firstSource(failed.Common().Args[1]) == firstSource(job) && firstSource(failed.Common().Args[2]) == firstSource(filt.Common().Args[1])
	// the job is the loop's element
	elem := false
	if ld, ok := firstSource(job).(*ssa.UnOp); ok {
		if ia, ok := ld.X.(*ssa.IndexAddr); ok {
			_, _, elem = fullScan(ia)
		}
	}
	r.Check(fSync && pSync && filtSync && sameLoop && podOK && sameJob && elem, "ROUND", key+"/one-by-one", c.InstrPos(filt), "each job of the round is filtered with its own pod and updated synchronously inside the loop",
		sprintf("the round is not 'one job after the other': plain calls (filtering/failed/passed)=%v/%v/%v, all in the loop over the jobs=%v, the pod is podOfJob[job]=%v, failed job and pod are this iteration's=%v, the job is the element of a full scan=%v — the next job's limit checks would not see this job's pass", filtSync, fSync, pSync, sameLoop, podOK, sameJob, elem))
	if !filtSync {
		return
	}
	isFailed, isPassed := extract(filt.Value(), 0), extract(filt.Value(), 1)
	if isFailed == nil || isPassed == nil {
		r.Fail("ROUND", key+"/outcomes", c.InstrPos(filt), "a result of filtering is discarded")
		return
	}
	// outcomes
	type sc struct {
		name       string
		f, p       an.Abs
		want, deny ssa.CallInstruction
		also       ssa.CallInstruction
	}
	for _, s := range []sc{
		{"failed=>updateFailedJob", an.True, an.Unknown, failed, passed, nil},
		{"passed=>updatePassedJob", an.False, an.True, passed, failed, nil},
		{"neither=>left-waiting", an.False, an.False, nil, failed, passed},
	} {
		facts := an.Facts{isFailed: s.f}
		if s.p != an.Unknown {
			facts[isPassed] = s.p
		}
		hitWant, hitDeny := false, false
		reach := an.Explore(fn, an.After(filt), facts, func(in ssa.Instruction) bool {
			if s.want != nil && in == ssa.Instruction(s.want) {
				hitWant = true
				return true
			}
			if in == ssa.Instruction(s.deny) || (s.also != nil && in == ssa.Instruction(s.also)) {
				hitDeny = true
				return true
			}
			// the next iteration
			return in == ssa.Instruction(filt)
		})
		escaped := false
		if s.want != nil {
			// the header (next job) or the exit must not be reachable without the wanted call
			if len(reach.Returns()) > 0 || (hdr != nil && reach.BlockReached(hdr)) {
				escaped = true
			}
		}
		ok := !hitDeny && !escaped && (s.want == nil || hitWant)
		r.Check(ok, "ROUND", key+"/"+s.name, c.InstrPos(filt), "holds", sprintf("for a job whose filtering returned (isFailed=%v, isPassed=%v): the wanted update is reached=%v, can be bypassed=%v, the other update is reachable=%v", s.f, s.p, hitWant, escaped, hitDeny))
	}
}
