package rules

import (
	"go/types"
	"strings"

	"golang.org/x/tools/go/ssa"

	"kverif/internal/an"
)

func isTombstone(t types.Type) (value, pointer bool) {
	if p, ok := t.(*types.Pointer); ok {
		v, _ := isTombstone(p.Elem())
		return false, v
	}
	n, ok := t.(*types.Named)
	if !ok || n.Obj().Pkg() == nil {
		return false, false
	}
	return n.Obj().Pkg().Path() == "k8s.io/client-go/tools/cache" && n.Obj().Name() == "DeletedFinalStateUnknown", false
}

// Tombstone checks an informer delete handler: a delete that arrives as a tombstone (cache.DeletedFinalStateUnknown,
// delivered BY VALUE by client-go after a missed watch event) must reach the same release as a plain object.
func (c *Ctx) Tombstone(rule, rel, recv, name, sink string) {
	r := c.R
	fn := c.Fn(rel, recv, name)
	if fn == nil {
		return
	}
	key := fkey(fn)
	obj := fn.Params[len(fn.Params)-1]
	var direct, tomb, inner *ssa.TypeAssert
	badPtr := ""
	for _, b := range fn.Blocks {
		for _, in := range b.Instrs {
			ta, ok := in.(*ssa.TypeAssert)
			if !ok {
				continue
			}
			v, p := isTombstone(ta.AssertedType)
			switch {
			case p:
				badPtr = c.InstrPos(ta)
			case v && ta.X == ssa.Value(obj):
				tomb = ta
			case ta.X == ssa.Value(obj):
				if direct == nil {
					direct = ta
				}
			case strings.HasSuffix(an.Path(ta.X), ".Obj"):
				inner = ta
			default:
				// one assertion serving both cases: "if t, ok := obj.(Tombstone); ok { obj = t.Obj }; x, ok := obj.(*T)"
				fromObj, fromInner := false, false
				for _, s := range cellSources(ta.X) {
					if s == ssa.Value(obj) {
						fromObj = true
					}
					if strings.HasSuffix(an.Path(s), ".Obj") {
						fromInner = true
					}
				}
				if fromObj && fromInner {
					if direct == nil {
						direct = ta
					}
					inner = ta
				}
			}
		}
	}
	r.Check(badPtr == "", rule, key+"/tombstone-by-value", c.Pos(fn.Pos()), "no assertion to *cache.DeletedFinalStateUnknown", "the handler asserts the event object to *cache.DeletedFinalStateUnknown at "+badPtr+": client-go delivers tombstones by value, so this case never matches and deletes seen only as tombstones are dropped")
	if tomb == nil || direct == nil || inner == nil {
		r.Fail(rule, key+"/tombstone=>"+sink, c.Pos(fn.Pos()), sprintf("the delete handler has no case for cache.DeletedFinalStateUnknown (by value) that unwraps .Obj (direct case: %v, tombstone case: %v, unwrap: %v): a delete observed only through a re-list leaves the object's resources booked for ever", direct != nil, tomb != nil, inner != nil))
		return
	}
	isSink := func(in ssa.Instruction) bool {
		cl, ok := in.(ssa.CallInstruction)
		return ok && an.ShortCallee(cl.Common()) == sink
	}
	set := func(f an.Facts, ta *ssa.TypeAssert, ok bool) {
		if ta.CommaOk {
			if e := extract(ta, 1); e != nil {
				if ok {
					f[e] = an.True
				} else {
					f[e] = an.False
				}
			}
			if e := extract(ta, 0); e != nil && ok {
				f[e] = an.NonNil
			}
		} else if ok {
			f[ta] = an.NonNil
		}
	}
	f1 := an.Facts{}
	set(f1, direct, true)
	if direct == inner {
		set(f1, tomb, false) // the plain case: the object is not a tombstone
	}
	reach := an.Explore(fn, nil, f1, isSink)
	r.Check(len(reach.Returns()) == 0, rule, key+"/object=>"+sink, c.Pos(fn.Pos()), "a plain delete reaches "+sink, "a delete event carrying the object itself can return without "+sink)
	f2 := an.Facts{}
	if direct != inner {
		set(f2, direct, false)
	}
	set(f2, tomb, true)
	set(f2, inner, true)
	reach = an.Explore(fn, nil, f2, isSink)
	r.Check(len(reach.Returns()) == 0, rule, key+"/tombstone=>"+sink, c.Pos(fn.Pos()), "a tombstone delete reaches "+sink, "a delete event carrying a tombstone with the object inside can return without "+sink+": the object's resources stay booked for ever")
}
