package rules

import (
	"bufio"
	"encoding/json"
	"os"
	"path/filepath"
	"sort"
	"strings"

	"golang.org/x/tools/go/ssa"

	"kverif/internal/an"
	"kverif/internal/load"
)

// Event entry points: functions that take their event object as an interface value and assert it (informer handlers,
// ForgetPod handlers, work-queue callbacks). For these, "what the handler always does for a well-typed event" is a
// property of the code's shape: the calls that no path from the entry can avoid once the assertions succeeded.
//
// reference/forward.txt lists, for the reference tree, every (entry point, in-package callee) pair where the callee is
// unavoidable; the rule re-decides each pair on the current tree. A pair whose callee no longer exists (inlined or
// renamed by a refactoring) is skipped; new helpers are inlined back by the normaliser before the rule runs.

type forwardPair struct{ Fn, Callee string }

func eventFacts(fn *ssa.Function) an.Facts {
	f := an.Facts{}
	for _, b := range fn.Blocks {
		for _, in := range b.Instrs {
			ta, ok := in.(*ssa.TypeAssert)
			if !ok {
				continue
			}
			if _, isP := ta.X.(*ssa.Parameter); !isP {
				continue
			}
			if ta.CommaOk {
				if e := extract(ta, 1); e != nil {
					f[e] = an.True
				}
				if e := extract(ta, 0); e != nil {
					f[e] = an.NonNil
				}
			} else {
				f[ta] = an.NonNil
			}
		}
	}
	return f
}

// mutates: the callee (or what it calls, two levels down) writes state reachable from one of its parameters: pure
// look-ups and predicates are not worth a pair (they can be replaced by equivalent code without any effect).
func mutates(callee *ssa.Function) bool {
	muts := map[string]bool{}
	for _, m := range []string{"Insert", "Delete", "Add", "Sub", "Set", "Store", "Remove", "Update", "Enqueue", "Forget", "Done", "AddAfter", "AddRateLimited"} {
		muts[m] = true
	}
	for _, p := range callee.Params {
		if len(an.DeepEffects(callee, p, muts, 2)) > 0 {
			return true
		}
	}
	return false
}

func isNoise(callee *ssa.Function) bool {
	n := callee.Name()
	for _, p := range []string{"log", "Log", "record", "Record", "metric", "Metric", "String", "Error", "debug", "Debug", "trace", "Trace"} {
		if strings.HasPrefix(n, p) {
			return true
		}
	}
	return false
}

// unavoidableCallees: the in-package callees that every path from the entry of fn (under the event facts) calls.
func unavoidableCallees(fn *ssa.Function) []*ssa.Function {
	facts := eventFacts(fn)
	if len(facts) == 0 {
		return nil
	}
	seen := map[*ssa.Function]bool{}
	var out []*ssa.Function
	for _, cl := range an.Calls(fn, false) {
		if _, plain := cl.(*ssa.Call); !plain {
			continue
		}
		callee := cl.Common().StaticCallee()
		if callee == nil || len(callee.Blocks) == 0 || callee.Pkg == nil || callee.Pkg != fn.Pkg || seen[callee] || isNoise(callee) {
			continue
		}
		seen[callee] = true
		target := callee
		reach := an.Explore(fn, nil, facts, func(in ssa.Instruction) bool {
			c2, ok := in.(*ssa.Call)
			return ok && c2.Call.StaticCallee() == target
		})
		if len(reach.Returns()) == 0 {
			out = append(out, callee)
		}
	}
	return out
}

// GenForward writes reference/forward.txt from the current (reference) tree for the packages the properties are anchored in.
func GenForward(p *load.Program, home string) (int, error) {
	pkgs := anchorPkgs(home, "")
	var lines []string
	for _, fn := range p.AllFuncs() {
		if fn.Pkg == nil || !pkgs[strings.TrimPrefix(fn.Pkg.Pkg.Path(), load.Module+"/")] || fn.Parent() != nil {
			continue
		}
		for _, cal := range unavoidableCallees(fn) {
			if mutates(cal) {
				lines = append(lines, fkey(fn)+"\t"+fkey(cal))
			}
		}
	}
	sort.Strings(lines)
	err := os.WriteFile(filepath.Join(home, "reference", "forward.txt"), []byte(strings.Join(lines, "\n")+"\n"), 0o644)
	return len(lines), err
}

// anchorPkgs: the package directories the property (or, with id "", all properties) is anchored in.
func anchorPkgs(home, id string) map[string]bool {
	out := map[string]bool{}
	f, err := os.Open(filepath.Join(home, "properties.jsonl"))
	if err != nil {
		return out
	}
	defer f.Close()
	sc := bufio.NewScanner(f)
	sc.Buffer(make([]byte, 1<<20), 1<<24)
	for sc.Scan() {
		var p struct {
			ID      string `json:"id"`
			Anchors struct {
				Files []string `json:"files"`
			} `json:"anchors"`
		}
		if json.Unmarshal(sc.Bytes(), &p) != nil || (id != "" && p.ID != id) {
			continue
		}
		for _, file := range p.Anchors.Files {
			out[filepath.Dir(file)] = true
		}
	}
	return out
}

// Forward re-decides the reference pairs of the property's packages.
func (c *Ctx) Forward(id string) {
	r := c.R
	r.Rule("FORWARD(event entry points): for every function of the property's packages that asserts an interface-typed event parameter, each in-package callee that was unavoidable on the reference tree once the assertions succeed (reference/forward.txt, regenerated with --genforward) is still unavoidable: no new early exit or condition sits between a well-typed event and what the handler always did with it")
	pkgs := anchorPkgs(c.Home, id)
	data, err := os.ReadFile(filepath.Join(c.Home, "reference", "forward.txt"))
	if err != nil {
		r.Unknown("FORWARD", "reference/forward.txt", "", "reference table missing")
		return
	}
	byKey := map[string]*ssa.Function{}
	for _, fn := range c.P.AllFuncs() {
		byKey[fkey(fn)] = fn
	}
	n, skipped := 0, 0
	for _, line := range strings.Split(strings.TrimSpace(string(data)), "\n") {
		parts := strings.Split(line, "\t")
		if len(parts) != 2 {
			continue
		}
		fn, cal := byKey[parts[0]], byKey[parts[1]]
		if fn == nil {
			// the reference names a function of another package, or the entry point is gone
			pk := parts[0]
			if i := strings.Index(pk, ")"); strings.HasPrefix(pk, "(*") && i > 0 {
				pk = pk[2:i]
			}
			if j := strings.LastIndex(pk, "."); j > 0 {
				pk = pk[:j]
			}
			if pkgs[pk] {
				skipped++
			}
			continue
		}
		if fn.Pkg == nil || !pkgs[strings.TrimPrefix(fn.Pkg.Pkg.Path(), load.Module+"/")] {
			continue
		}
		if cal == nil || len(cal.Blocks) == 0 {
			skipped++ // the callee was inlined or renamed away: nothing to decide
			continue
		}
		n++
		ok := false
		for _, u := range unavoidableCallees(fn) {
			if u == cal {
				ok = true
			}
		}
		r.Check(ok, "FORWARD", parts[0]+"=>"+parts[1][strings.LastIndex(parts[1], ".")+1:], c.Pos(fn.Pos()), "still reached for every well-typed event",
			"a well-typed event can now leave "+fn.Name()+" without "+cal.Name()+" being called (it was unavoidable on the reference tree): the event's effect on the cache / ledger is dropped on that path")
	}
	if n+skipped > 0 {
		r.OK("FORWARD", "pairs", "", sprintf("%d reference pairs decided, %d skipped (callee or entry point no longer exists)", n, skipped))
	}
}
