package rules

import (
	"go/token"
	"strings"

	"golang.org/x/tools/go/ssa"

	"kverif/internal/an"
)

// c08values: like is merged with like; the default aggregated period is the longest one.
func c08values(c *Ctx) {
	r := c.R
	r.Decides("the per-node threshold profile takes each section from the node's custom section of the same name or, failing that, from the plugin's section of the same name (never the whole-node thresholds for the prod section); the usage stored under the 'no explicit duration' key of the aggregated usages is chosen by a comparison of durations (the longest reported period), not by list order")
	r.Rule("LIKE-TO-LIKE(profile): in generateUsageThresholdsFilterProfile a store into field F of the new usageThresholdsFilterProfile reads, of the receiver's and of the custom object's threshold sections, only the section F")
	if fn := c.Fn(loadawarePkg, "usageThresholdsFilterProfile", "generateUsageThresholdsFilterProfile"); fn != nil {
		sections := map[string]bool{"UsageThresholds": true, "ProdUsageThresholds": true, "AggregatedUsage": true}
		recv := ssa.Value(fn.Params[0])
		var custom ssa.Value
		for _, cl := range an.Calls(fn, false) {
			if an.ShortCallee(cl.Common()) == "GetCustomUsageThresholds" {
				custom = extract(cl.Value(), 0)
			}
		}
		n := 0
		for _, f := range append([]*ssa.Function{fn}, fn.AnonFuncs...) {
			for _, b := range f.Blocks {
				for _, in := range b.Instrs {
					st, isS := in.(*ssa.Store)
					if !isS {
						continue
					}
					owner, field, _, isF := an.FieldOf(st.Addr)
					if !isF || !sections[field] || !strings.HasSuffix(owner, "usageThresholdsFilterProfile") {
						continue
					}
					n++
					bad := ""
					for x := range backwardAll(st.Val) {
						fa, isFA := x.(*ssa.FieldAddr)
						if !isFA || !sections[fieldNameOf(fa)] {
							continue
						}
						if (fa.X == recv || (custom != nil && sameSource(fa.X, custom))) && fieldNameOf(fa) != field {
							bad = fieldNameOf(fa)
						}
					}
					r.Check(bad == "", "LIKE-TO-LIKE", sprintf("%s/%s", fkey(fn), field), c.InstrPos(st), "section "+field+" is built from the sections of that name", "section "+field+" of the node's profile is built from section "+bad+": a node that customises only one section gets the wrong default for the other (prod pods judged by the whole-node thresholds)")
				}
			}
		}
		r.Floor("LIKE-TO-LIKE", "section stores in generateUsageThresholdsFilterProfile", n, 3)
	}

	r.Rule("MAX(period): in nodeInfo.AddOrUpdateNodeMetric every store into the aggregated-usage map under a key that leaves Duration unset is decided by a comparison of two time.Duration values: either such a comparison guards the store, or the stored value is looked up with a duration that comes out of a map whose updates are guarded by one")
	if fn := c.Fn(loadawarePkg, "nodeInfo", "AddOrUpdateNodeMetric"); fn != nil {
		isDurCmp := func(v ssa.Value) bool {
			bo, ok := v.(*ssa.BinOp)
			if !ok {
				return false
			}
			switch bo.Op {
			case token.GTR, token.LSS, token.GEQ, token.LEQ:
				return strings.HasSuffix(bo.X.Type().String(), "time.Duration") && strings.HasSuffix(bo.Y.Type().String(), "time.Duration")
			}
			return false
		}
		guardedByDur := func(in ssa.Instruction) bool {
			for _, g := range an.Guards(in) {
				if isDurCmp(g.Cond) {
					return true
				}
			}
			return false
		}
		// maps whose updates are chosen by a duration comparison
		chosen := map[ssa.Value]bool{}
		var updates []*ssa.MapUpdate
		for _, b := range fn.Blocks {
			for _, in := range b.Instrs {
				if mu, ok := in.(*ssa.MapUpdate); ok {
					updates = append(updates, mu)
					if guardedByDur(mu) {
						for _, m := range cellSources(mu.Map) {
							chosen[m] = true
						}
					}
				}
			}
		}
		n := 0
		for _, mu := range updates {
			if !strings.HasSuffix(mu.Key.Type().String(), "aggUsageKey") {
				continue
			}
			// does the key set Duration ?
			setsDur := false
			for x := range backwardAll(mu.Key) {
				if a, isA := x.(*ssa.Alloc); isA && a.Referrers() != nil {
					for _, ref := range *a.Referrers() {
						if fa, isFA := ref.(*ssa.FieldAddr); isFA && fieldNameOf(fa) == "Duration" && fa.Referrers() != nil {
							for _, r2 := range *fa.Referrers() {
								if _, isSt := r2.(*ssa.Store); isSt {
									setsDur = true
								}
							}
						}
					}
				}
			}
			if setsDur {
				continue
			}
			n++
			ok := guardedByDur(mu)
			if !ok {
				for x := range backwardWithFields(mu.Value) {
					switch y := x.(type) {
					case *ssa.Range:
						for _, m := range cellSources(y.X) {
							if chosen[m] {
								ok = true
							}
						}
					case *ssa.Lookup:
						for _, m := range cellSources(y.X) {
							if chosen[m] {
								ok = true
							}
						}
					}
				}
			}
			r.Check(ok, "MAX", sprintf("%s/default-period#%d", fkey(fn), n), c.InstrPos(mu), "the default period is chosen by comparing durations", "the usage kept for 'no explicit duration' is not chosen by a comparison of durations: it depends on the order in which the periods are listed in the report")
		}
		r.Floor("MAX", "stores under the no-duration key", n, 1)
	}
}

// backwardWithFields: backwardAll, also through the fields of local struct cells (a composite literal's field values).
func backwardWithFields(v ssa.Value) map[ssa.Value]bool {
	out := map[ssa.Value]bool{}
	work := []ssa.Value{v}
	for len(work) > 0 {
		w := work[len(work)-1]
		work = work[:len(work)-1]
		for x := range backwardAll(w) {
			if out[x] {
				continue
			}
			out[x] = true
			if a, isA := x.(*ssa.Alloc); isA && a.Referrers() != nil {
				for _, ref := range *a.Referrers() {
					if fa, isFA := ref.(*ssa.FieldAddr); isFA && fa.Referrers() != nil {
						for _, r2 := range *fa.Referrers() {
							if st, isSt := r2.(*ssa.Store); isSt && !out[st.Val] {
								work = append(work, st.Val)
							}
						}
					}
				}
			}
		}
	}
	return out
}
