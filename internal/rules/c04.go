package rules

import (
	"go/constant"
	"go/token"
	"go/types"
	"sort"
	"strings"

	"golang.org/x/tools/go/ssa"

	"kverif/internal/an"
	"kverif/internal/load"
)

func init() { Registry["C04"] = c04 }

const (
	gangCorePkg = "pkg/scheduler/plugins/coscheduling/core"
	coschedPkg  = "pkg/scheduler/plugins/coscheduling"
)

var gangPartition = []string{"PendingChildren", "WaitingForBindChildren", "BoundChildren"}

func c04(c *Ctx) {
	c04oneSnapshot(c)
	c.R.Rule("CREATE-ONCE: in a get-or-create of a per-key record, the lookup that finds the key absent and the store of the fresh record happen in one hold of the mutex the store runs under (no release of it in between)")
	createOnce(c, c.Fn(gangCorePkg, "GangCache", "getGangFromCacheByGangId"), "the pod the first handler recorded sits on an orphaned gang: it is in none of the pending, waiting or bound sets of the gang the cache hands out")
	c04statusMap(c)
	r := c.R
	r.Decides("every insertion of a member into one of the pending/waiting/bound sets is paired, in the same critical section, with its removal from (or a dominating absence test in) each other set")
	r.Decides("Permit returns Success only if no gang of the group was missing or invalid for permit; the validity test is made on each gang of the group, not only on the pod's own gang")
	r.Decides("the plugin's switch over the core status covers every status constant and releases the group only in the Success case")
	r.Decides("in strict mode (once-satisfied exemption aside) Unreserve and AfterPostFilter reject the whole gang group before returning")
	r.Decides("the four member maps of a gang are accessed only under the gang lock")
	r.Decides("the once-satisfied exemption from rejection applies to the once-satisfied match policy only; every PodGroup add/update event re-initialises the gang from the new object")
	r.Decides("the gang-group records (which carry the irreversible once-satisfied flag) are created, looked up and deleted under the gang GROUP id, never under a single gang's id")
	r.Declines("the counting itself (at least minMember members) and interleavings across several plugin calls")

	// ---- PARTITION
	r.Rule("PARTITION: for each insertion M[k]=pod with M in {PendingChildren,WaitingForBindChildren,BoundChildren} in a method of Gang, for each other set M': delete(M',k) is executed on every path through the insertion, or the insertion is dominated by an absence test of k in M', or the insertion is a MOVE out of a third set M'' (dominated by a presence test of k in M'' whose entry is deleted on every path: the sets are disjoint before, so k was in neither M nor M'); exemptions are listed with a reason")
	exempt := map[string]string{
		"addAssumedPod/WaitingForBindChildren/BoundChildren": "Permit never runs for a pod after its PostBind without a pod deletion in between (scheduler framework contract)",
	}
	usedExempt := map[string]bool{}
	nIns := 0
	for _, fn := range c.PkgFuncs(gangCorePkg) {
		recv := an.Receiver(fn)
		if recv == nil || !isNamedType(recv.Type(), "Gang") {
			continue
		}
		effs := an.Effects(fn, recv, nil)
		for _, e := range effs {
			if e.Op != "mapstore" || !inList(gangPartition, e.Chain.First()) || len(e.Chain.Elems) != 2 {
				continue
			}
			mu := e.Instr.(*ssa.MapUpdate)
			nIns++
			c.R.Func(fkey(fn))
			for _, other := range gangPartition {
				if other == e.Chain.First() {
					continue
				}
				key := sprintf("%s/insert:%s/vs:%s", fkey(fn), e.Chain.First(), other)
				ek := fn.Name() + "/" + e.Chain.First() + "/" + other
				if why, ok := exempt[ek]; ok {
					usedExempt[ek] = true
					r.OK("PARTITION", key, c.InstrPos(mu), "exempt: "+why)
					continue
				}
				how := partitionPaired(fn, recv, mu, other, effs)
				r.Check(how != "", "PARTITION", key, c.InstrPos(mu), how,
					"a member is inserted into "+e.Chain.First()+" without removing it from "+other+" or testing that it is absent there: the pod can be in two sets at once")
			}
		}
	}
	for ek := range exempt {
		if !usedExempt[ek] {
			r.Unknown("PARTITION", "stale-exemption:"+ek, "", "exempted insertion no longer exists")
		}
	}
	r.Floor("PARTITION", "insertions into the partition sets", nIns, 4)

	// ---- Permit
	if fn := c.Fn(gangCorePkg, "PodGroupManager", "Permit"); fn != nil {
		c04permit(c, fn)
	}
	// ---- plugin switch
	if fn := c.Fn(coschedPkg, "Coscheduling", "Permit"); fn != nil {
		c04switch(c, fn)
	}
	// ---- strict mode reject
	c04strict(c)
	c04podgroup(c)
	c04groupKey(c)

	// ---- the irreversible flag
	r.Rule("WHO(once satisfied): GangGroupInfo.setResourceSatisfied / Gang.setResourceSatisfied are called only inside Gang.addBoundPod, inside the Gang wrapper itself, or behind a call of addBoundPod in the same function on every path (the flag is irreversible and lets later members through Permit alone: it may be set only where a member is really bound, never at Permit/Allow time, where the bind can still fail)")
	nSet := 0
	for _, fn := range c.PkgFuncs(gangCorePkg) {
		nIn := 0
		for _, cl := range an.Calls(fn, false) {
			if an.ShortCallee(cl.Common()) != "setResourceSatisfied" {
				continue
			}
			nSet++
			nIn++
			ok := false
			recvT := ""
			if rv := an.Receiver(fn); rv != nil {
				recvT = rv.Type().String()
			}
			switch {
			case strings.HasSuffix(recvT, ".Gang") && (fn.Name() == "addBoundPod" || fn.Name() == "setResourceSatisfied"):
				ok = true
			default:
				for _, b := range an.Calls(fn, false) {
					if an.ShortCallee(b.Common()) == "addBoundPod" && mustPass(b, cl) {
						ok = true
					}
				}
			}
			r.Check(ok, "WHO", sprintf("%s/once-satisfied#%d", fkey(fn), nIn), c.InstrPos(cl), "set only where a member is bound", "the gang group is recorded as 'resources satisfied once' at a point where no member has been bound: if the binding then fails, the stale flag lets single members through Permit and stops the strict-mode rejection")
		}
	}
	r.Floor("WHO", "calls of setResourceSatisfied", nSet, 3)

	// ---- LOCK
	r.Rule("LOCK: Gang.{Children,PendingChildren,WaitingForBindChildren,BoundChildren} are read under Gang.lock and written under the write lock")
	c.RunLock("LOCK", LockCfg{Pkg: gangCorePkg, Type: "Gang", Mutex: "lock",
		Guarded: []string{"Children", "PendingChildren", "WaitingForBindChildren", "BoundChildren"}, MinFuncs: 10})
}

func inList(l []string, s string) bool {
	for _, x := range l {
		if x == s {
			return true
		}
	}
	return false
}

// partitionPaired explains how the insertion mu is kept disjoint from set other ("" if it is not).
func partitionPaired(fn *ssa.Function, recv ssa.Value, mu *ssa.MapUpdate, other string, effs []an.Effect) string {
	kp := an.Path(mu.Key)
	// (a) deletion on every path through the insertion
	for _, e := range effs {
		if e.Op != "mapdelete" || e.Chain.First() != other || len(e.Chain.Elems) != 2 {
			continue
		}
		del := e.Instr.(ssa.CallInstruction)
		if an.Path(del.Common().Args[1]) != kp {
			continue
		}
		db, ib := del.Block(), mu.Block()
		if (db == ib && instrIndex(del) < instrIndex(mu)) || (db != ib && db.Dominates(ib)) {
			return "removed from " + other + " before the insertion on every path"
		}
		reach := an.Explore(fn, an.After(mu), nil, func(in ssa.Instruction) bool { return in == ssa.Instruction(del) })
		if len(reach.Returns()) == 0 {
			return "removed from " + other + " after the insertion on every path"
		}
	}
	// (b) dominating absence test
	for _, g := range an.Guards(mu) {
		if lk := absenceTest(g, recv, other); lk != nil && an.Path(lk.Index) == kp {
			return "dominated by an absence test in " + other
		}
	}
	// (c) a move out of a third set: presence test of k there, and its entry deleted on every path through the insertion
	for _, g := range an.Guards(mu) {
		e, ok := g.Cond.(*ssa.Extract)
		if !ok || e.Index != 1 || !g.Truth {
			continue
		}
		lk, ok := e.Tuple.(*ssa.Lookup)
		if !ok || !lk.CommaOk || an.Path(lk.Index) != kp {
			continue
		}
		third := ""
		for _, ch := range an.Chains(lk.X) {
			if ch.Root == recv && inList(gangPartition, ch.First()) {
				third = ch.First()
			}
		}
		if third == "" || third == other {
			continue
		}
		for _, e2 := range effs {
			if e2.Op != "mapdelete" || e2.Chain.First() != third || len(e2.Chain.Elems) != 2 {
				continue
			}
			del := e2.Instr.(ssa.CallInstruction)
			if an.Path(del.Common().Args[1]) != kp {
				continue
			}
			if instrBefore(del, mu) {
				return "moved out of " + third + " (present there, removed before the insertion)"
			}
			reach := an.Explore(fn, an.After(mu), nil, func(in ssa.Instruction) bool { return in == ssa.Instruction(del) })
			if len(reach.Returns()) == 0 {
				return "moved out of " + third + " (present there, removed on every path)"
			}
		}
	}
	return ""
}

// absenceTest: guard says "k is not in recv.<set>": (lookup == nil)==true, (lookup != nil)==false, or commaok==false.
func absenceTest(g an.Guard, recv ssa.Value, set string) *ssa.Lookup {
	isSet := func(lk *ssa.Lookup) bool {
		for _, ch := range an.Chains(lk.X) {
			if ch.Root == recv && ch.First() == set {
				return true
			}
		}
		return false
	}
	switch x := g.Cond.(type) {
	case *ssa.BinOp:
		if x.Op != token.EQL && x.Op != token.NEQ {
			return nil
		}
		var v ssa.Value
		if an.IsNilConst(x.Y) {
			v = x.X
		} else if an.IsNilConst(x.X) {
			v = x.Y
		} else {
			return nil
		}
		lk, ok := v.(*ssa.Lookup)
		if !ok || !isSet(lk) {
			return nil
		}
		if (x.Op == token.EQL) == g.Truth {
			return lk
		}
	case *ssa.Extract:
		lk, ok := x.Tuple.(*ssa.Lookup)
		if ok && x.Index == 1 && lk.CommaOk && isSet(lk) && !g.Truth {
			return lk
		}
	}
	return nil
}

func isStatusConst(v ssa.Value, want string) bool {
	cst, ok := v.(*ssa.Const)
	return ok && cst.Value != nil && cst.Value.Kind() == constant.String && constant.StringVal(cst.Value) == want
}

func c04permit(c *Ctx, fn *ssa.Function) {
	r := c.R
	r.Rule("PATH: in PodGroupManager.Permit, from behind a group lookup that returned nil, and from behind an isGangValidForPermit() that returned false, no return of Success is reachable; the receiver of isGangValidForPermit is the gang looked up from an element of getGangGroup()")
	const p = "(*" + load.Module + "/" + gangCorePkg + "."
	valid := an.CallsTo(fn, false, p+"Gang).isGangValidForPermit")
	lookups := an.CallsTo(fn, false, p+"GangCache).getGangFromCacheByGangId")
	key := fkey(fn)
	if len(valid) == 0 || len(lookups) == 0 {
		r.Fail("PATH", key+"/group-validation", c.Pos(fn.Pos()), sprintf("Permit no longer validates the gangs of the group (isGangValidForPermit calls: %d, group lookups: %d)", len(valid), len(lookups)))
		return
	}
	successReachable := func(reach *an.Reach) []string {
		var out []string
		for _, ret := range reach.Returns() {
			for _, alt := range reach.Alts(ret) {
				if isStatusConst(alt.Results[1], "Success") {
					out = append(out, c.InstrPos(ret))
				}
			}
		}
		return out
	}
	for i, v := range valid {
		reach := an.Explore(fn, an.After(v), an.Facts{v.Value(): an.False}, nil)
		bad := successReachable(reach)
		r.Check(len(bad) == 0, "PATH", sprintf("%s/invalid-gang=>no-success#%d", key, i+1), c.InstrPos(v), "after an invalid gang only Wait is reachable",
			"after isGangValidForPermit()==false a Success return is still reachable at "+strings.Join(bad, ","))
		// receiver provenance
		recv := v.Common().Args[0]
		okRecv := false
		for _, l := range lookups {
			if recv == l.Value() {
				// its id argument must come from iterating getGangGroup()
				for x := range backwardAll(l.Common().Args[1]) {
					if call, ok := x.(*ssa.Call); ok && an.ShortCallee(&call.Call) == "getGangGroup" {
						okRecv = true
					}
				}
			}
		}
		r.Check(okRecv, "FLOW", sprintf("%s/validated-gang-is-group-element#%d", key, i+1), c.InstrPos(v), "validity is evaluated on the gang looked up for each element of the gang group",
			"the gang whose validity is tested ("+an.Path(recv)+") is not the one looked up from the elements of getGangGroup(): only part of the group is validated")
	}
	for i, l := range lookups {
		reach := an.Explore(fn, an.After(l), an.Facts{l.Value(): an.Nil}, nil)
		bad := successReachable(reach)
		r.Check(len(bad) == 0, "PATH", sprintf("%s/missing-gang=>no-success#%d", key, i+1), c.InstrPos(l), "after a missing gang only Wait is reachable",
			"a gang of the group is missing from the cache but a Success return is still reachable at "+strings.Join(bad, ","))
	}
	// addAssumedPod precedes the validation on every path
	adds := an.CallsTo(fn, false, p+"Gang).addAssumedPod")
	okAdd := len(adds) == 1
	if okAdd {
		for _, v := range valid {
			if !(adds[0].Block() == v.Block() || adds[0].Block().Dominates(v.Block())) {
				okAdd = false
			}
		}
	}
	r.Check(okAdd, "PATH", key+"/assume-before-validate", c.Pos(fn.Pos()), "the pod is counted as waiting before the group is validated", "addAssumedPod does not dominate the group validation")
}

func c04switch(c *Ctx, fn *ssa.Function) {
	r := c.R
	r.Rule("TABLE: the status comparisons in Coscheduling.Permit cover every constant of type core.Status; AllowGangGroup is dominated by status == core.Success; the default (no case) path is unreachable for declared constants")
	pk := c.P.Pkg(gangCorePkg)
	var all []string
	if pk != nil {
		sc := pk.Types.Scope()
		for _, n := range sc.Names() {
			if cst, ok := sc.Lookup(n).(*types.Const); ok {
				if nt, ok := cst.Type().(*types.Named); ok && nt.Obj().Name() == "Status" && nt.Obj().Pkg() == pk.Types {
					all = append(all, constant.StringVal(cst.Val()))
				}
			}
		}
	}
	sort.Strings(all)
	var calls []ssa.CallInstruction
	for _, cl := range an.Calls(fn, false) {
		if an.ShortCallee(cl.Common()) == "Permit" && strings.HasSuffix(an.Path(an.Args(cl.Common())[0]), ".pgMgr") {
			calls = append(calls, cl)
		}
	}
	if len(calls) != 1 || len(all) == 0 {
		r.Fail("TABLE", fkey(fn)+"/status-switch", c.Pos(fn.Pos()), sprintf("cannot find the core Permit call (%d) or the Status constants (%d)", len(calls), len(all)))
		return
	}
	var status ssa.Value
	for _, ref := range *calls[0].Value().Referrers() {
		if e, ok := ref.(*ssa.Extract); ok && e.Index == 1 {
			status = e
		}
	}
	covered := map[string]bool{}
	if status != nil {
		for _, ref := range *status.Referrers() {
			if b, ok := ref.(*ssa.BinOp); ok && b.Op == token.EQL {
				other := b.Y
				if b.Y == status {
					other = b.X
				}
				if cst, ok := other.(*ssa.Const); ok && cst.Value != nil && cst.Value.Kind() == constant.String {
					covered[constant.StringVal(cst.Value)] = true
				}
			}
		}
	}
	var missing []string
	for _, s := range all {
		if !covered[s] {
			missing = append(missing, s)
		}
	}
	r.Check(len(missing) == 0, "TABLE", fkey(fn)+"/status-switch", c.InstrPos(calls[0]), sprintf("all %d status constants have a case", len(all)),
		"status constants without a case: "+strings.Join(missing, ", ")+" (a nil *Status is returned for them, which the framework treats as success: a release without a satisfied group)")
	var allow []ssa.CallInstruction
	for _, cl := range an.Calls(fn, false) {
		if an.ShortCallee(cl.Common()) == "AllowGangGroup" {
			allow = append(allow, cl)
		}
	}
	ok := len(allow) == 1
	if ok {
		ok = false
		for _, g := range an.Guards(allow[0]) {
			if b, isB := g.Cond.(*ssa.BinOp); isB && b.Op == token.EQL && g.Truth && (isStatusConst(b.X, "Success") || isStatusConst(b.Y, "Success")) && (b.X == status || b.Y == status) {
				ok = true
			}
		}
	}
	r.Check(ok, "PATH", fkey(fn)+"/allow-only-on-success", c.Pos(fn.Pos()), "AllowGangGroup only under status == Success", "AllowGangGroup is not (only) called under status == core.Success")
}

// c04podgroup: every PodGroup add/update reaches the gang's (re-)initialisation.
func c04podgroup(c *Ctx) {
	r := c.R
	r.Rule("PATH(podgroup events): in GangCache.onPodGroupAdd/onPodGroupUpdate, for an event that carries a PodGroup whose gang is in the cache, no return is reachable without gang.tryInitByPodGroup(<the new PodGroup>): mode, match policy, gang groups and total number live in annotations, so no update may be skipped on the strength of an unchanged spec")
	for _, name := range []string{"onPodGroupAdd", "onPodGroupUpdate"} {
		fn := c.Fn(gangCorePkg, "GangCache", name)
		if fn == nil {
			continue
		}
		newObj := fn.Params[len(fn.Params)-1]
		facts := an.Facts{}
		var pg ssa.Value
		for _, b := range fn.Blocks {
			for _, in := range b.Instrs {
				switch x := in.(type) {
				case *ssa.TypeAssert:
					if x.X == ssa.Value(newObj) && x.CommaOk {
						facts[extract(x, 1)] = an.True
						pg = extract(x, 0)
					}
				case *ssa.BinOp:
					if call, _ := an.ResultOfCall(x.X); call != nil && an.ShortCallee(&call.Call) == "getGangFromCacheByGangId" && an.IsNilConst(x.Y) {
						if x.Op == token.EQL {
							facts[x] = an.False
						} else if x.Op == token.NEQ {
							facts[x] = an.True
						}
					}
				}
			}
		}
		if pg == nil {
			r.Unknown("PATH", fkey(fn)+"/reaches-init", c.Pos(fn.Pos()), "type assertion of the event object to *PodGroup not found")
			continue
		}
		reach := an.Explore(fn, nil, facts, func(in ssa.Instruction) bool {
			cl, ok := in.(ssa.CallInstruction)
			return ok && an.ShortCallee(cl.Common()) == "tryInitByPodGroup" && cl.Common().Args[1] == pg
		})
		var bad []string
		for _, ret := range reach.Returns() {
			bad = append(bad, c.InstrPos(ret))
		}
		r.Check(len(bad) == 0, "PATH", fkey(fn)+"/reaches-init", c.Pos(fn.Pos()), "every PodGroup event re-initialises the gang from the new object", "a PodGroup event can be dropped before tryInitByPodGroup (return at "+strings.Join(bad, ",")+"): an update that only changes the gang annotations (mode, match policy, groups) is lost for good")
	}
}

// strictModeFact: the truth value of a comparison of getGangMode() with a mode constant when the mode is Strict.
func strictModeFact(b *ssa.BinOp, mode ssa.Value) (an.Abs, bool) {
	other := b.Y
	if other == mode {
		other = b.X
	}
	s, ok := constString(other)
	if !ok || (b.Op != token.EQL && b.Op != token.NEQ) {
		return an.Unknown, false
	}
	eq := s == "Strict"
	if b.Op == token.NEQ {
		eq = !eq
	}
	if eq {
		return an.True, true
	}
	return an.False, true
}

func c04strict(c *Ctx) {
	r := c.R
	r.Rule("PATH: in PodGroupManager.Unreserve, from behind delAssumedPod with {isGangOnceResourceSatisfied()==false, getGangMode()==Strict}, no return is reachable without passing rejectGangGroupById; same in AfterPostFilter from behind the once-satisfied test")
	const p = "(*" + load.Module + "/" + gangCorePkg + "."
	for _, name := range []string{"Unreserve", "AfterPostFilter"} {
		fn := c.Fn(gangCorePkg, "PodGroupManager", name)
		if fn == nil {
			continue
		}
		key := fkey(fn) + "/strict=>reject"
		rej := an.CallsTo(fn, false, p+"PodGroupManager).rejectGangGroupById")
		if len(rej) == 0 {
			r.Fail("PATH", key, c.Pos(fn.Pos()), "rejectGangGroupById is no longer called: a failed member of a strict gang leaves the other members waiting")
			continue
		}
		facts := an.Facts{}
		var start ssa.Instruction
		nMode := 0
		for _, cl := range an.Calls(fn, false) {
			switch an.ShortCallee(cl.Common()) {
			case "isGangOnceResourceSatisfied":
				facts[cl.Value()] = an.False
				if name == "AfterPostFilter" {
					start = cl
				}
			case "getGangMode":
				for _, ref := range *cl.Value().Referrers() {
					if b, ok := ref.(*ssa.BinOp); ok {
						if a, ok := strictModeFact(b, cl.Value()); ok {
							facts[b] = a // the mode is the strict one
							nMode++
						}
					}
				}
			case "delAssumedPod":
				if name == "Unreserve" {
					start = cl
				}
			}
		}
		if start == nil || nMode == 0 {
			r.Fail("PATH", key, c.Pos(fn.Pos()), "cannot find the mode test / the starting point (delAssumedPod resp. once-satisfied test): unknown idiom")
			continue
		}
		isRej := map[ssa.Instruction]bool{}
		for _, x := range rej {
			isRej[x] = true
		}
		reach := an.Explore(fn, an.After(start), facts, func(in ssa.Instruction) bool { return isRej[in] })
		var bad []string
		for _, ret := range reach.Returns() {
			bad = append(bad, c.InstrPos(ret))
		}
		r.Check(len(bad) == 0, "PATH", key, c.InstrPos(start), "in strict mode every path rejects the gang group before returning",
			"in strict mode (group not once-satisfied) a return is reachable without rejecting the gang group, at "+strings.Join(bad, ","))
		// second scenario: the once-satisfied exemption applies to the once-satisfied match policy only
		facts2 := an.Facts{}
		var start2 ssa.Instruction = start
		nPol := 0
		for _, cl := range an.Calls(fn, false) {
			switch an.ShortCallee(cl.Common()) {
			case "getGangMatchPolicy":
				for _, ref := range *cl.Value().Referrers() {
					if b, ok := ref.(*ssa.BinOp); ok && (b.Op == token.EQL || b.Op == token.NEQ) {
						if s, ok := constString(b.Y); ok && strings.Contains(s, "once-satisfied") {
							facts2[b] = an.False
							if b.Op == token.NEQ {
								facts2[b] = an.True
							}
							nPol++
						}
					}
				}
				if name == "AfterPostFilter" && start2 == start {
					start2 = cl
				}
			case "getGangMode":
				for _, ref := range *cl.Value().Referrers() {
					if b, ok := ref.(*ssa.BinOp); ok {
						if a, ok := strictModeFact(b, cl.Value()); ok {
							facts2[b] = a
						}
					}
				}
			}
		}
		if nPol == 0 {
			r.Fail("PATH", key+"/other-match-policies", c.Pos(fn.Pos()), "the once-satisfied exemption is not qualified by a comparison of getGangMatchPolicy() with the once-satisfied policy: for the other match policies a strict gang that was satisfied before is no longer rejected as a whole")
			continue
		}
		reach = an.Explore(fn, an.After(start2), facts2, func(in ssa.Instruction) bool { return isRej[in] })
		bad = nil
		for _, ret := range reach.Returns() {
			bad = append(bad, c.InstrPos(ret))
		}
		r.Check(len(bad) == 0, "PATH", key+"/other-match-policies", c.InstrPos(start2), "with a match policy other than once-satisfied a strict gang is rejected whether or not it was satisfied before",
			"in strict mode with a match policy other than once-satisfied a return is reachable without rejecting the gang group, at "+strings.Join(bad, ","))
	}
}

// c04groupKey: the once-satisfied flag lives in a record keyed by the gang group id.
func c04groupKey(c *Ctx) {
	r := c.R
	r.Rule("KEY-ROLE(gang group): every call of GangCache.getGangGroupInfo / deleteGangGroupInfo passes a key that derives from util.GetGangGroupId(..) or from a GangGroupId field (the id of the whole group); a gang's own id is a different string as soon as the group has two gangs, and a record deleted or looked up under it leaks the once-satisfied flag to a re-created group")
	n := 0
	for _, fn := range c.PkgFuncs(gangCorePkg) {
		for _, cl := range an.Calls(fn, false) {
			sn := an.ShortCallee(cl.Common())
			if sn != "getGangGroupInfo" && sn != "deleteGangGroupInfo" {
				continue
			}
			n++
			key := cl.Common().Args[1]
			ok := false
			for x := range backwardAll(key) {
				switch y := x.(type) {
				case *ssa.Call:
					if an.ShortCallee(&y.Call) == "GetGangGroupId" {
						ok = true
					}
				case *ssa.FieldAddr:
					if fieldNameOf(y) == "GangGroupId" {
						ok = true
					}
				case *ssa.Field:
					if _, f, _, isF := an.FieldOf(y); isF && f == "GangGroupId" {
						ok = true
					}
				}
			}
			r.Check(ok, "KEY-ROLE", sprintf("%s/%s#%d", fkey(fn), sn, n), c.InstrPos(cl), "keyed by the gang group id", "the gang-group record is addressed with "+an.Path(key)+", which is not a gang group id")
		}
	}
	r.Floor("KEY-ROLE", "gang-group record accesses", n, 5)
}
