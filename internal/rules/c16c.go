package rules

import (
	"go/token"
	"go/types"

	"golang.org/x/tools/go/ssa"

	"kverif/internal/an"
)

// c16values: budgets round down; caps are compared without unsigned subtraction.
func c16values(c *Ctx) {
	r := c.R
	r.Rule("ROUND(budgets round down): every call of intstr.GetScaledValueFromIntOrPercent in the migration util package passes the constant false as roundUp (a percentage budget never allows one more than the percentage covers)")
	n := 0
	for _, fn := range c.PkgFuncs("pkg/descheduler/controllers/migration/util") {
		k := 0
		for _, cl := range an.Calls(fn, false) {
			if an.ShortCallee(cl.Common()) != "GetScaledValueFromIntOrPercent" {
				continue
			}
			n++
			k++
			a := cl.Common().Args
			cst, isC := a[len(a)-1].(*ssa.Const)
			r.Check(isC && !isTrueConst(cst), "ROUND", sprintf("%s/round-down#%d", fkey(fn), k), c.InstrPos(cl), "roundUp=false", "a workload budget is rounded up: 10% of 15 replicas allows 2 pods to be unavailable or migrating at once instead of 1")
		}
	}
	r.Floor("ROUND", "scaled budget computations", n, 2)

	r.Rule("UNSIGNED(no subtraction on a cap): in EvictionLimiter no subtraction has an unsigned result unless a dominating test says minuend >= subtrahend (count+1 > cap is total; count > cap-1 wraps around for a cap of zero and never refuses)")
	n = 0
	nCmp := 0
	for _, fn := range c.PkgFuncs("pkg/descheduler/evictions") {
		if fn.Signature.Recv() == nil || !isNamed(fn.Signature.Recv().Type(), "EvictionLimiter") {
			continue
		}
		for _, b := range fn.Blocks {
			for _, in := range b.Instrs {
				bo, ok := in.(*ssa.BinOp)
				if !ok {
					continue
				}
				bt, isB := bo.Type().Underlying().(*types.Basic)
				if bo.Op == token.SUB && isB && bt.Info()&types.IsUnsigned != 0 {
					// a difference that is known not to wrap (a - b under a >= b / a > b) is fine
					same := func(w ssa.Value) func(ssa.Value) bool {
						return func(v ssa.Value) bool {
							if v == w || sameSource(v, w) {
								return true
							}
							kv, okV := constIntOf(v)
							kw, okW := constIntOf(w)
							return okV && okW && kv == kw
						}
					}
					gs := an.Guards(bo)
					if an.Holds(gs, token.GEQ, same(bo.X), same(bo.Y)) || an.Holds(gs, token.GTR, same(bo.X), same(bo.Y)) {
						continue
					}
					n++
					r.Fail("UNSIGNED", sprintf("%s/sub#%d", fkey(fn), n), c.InstrPos(bo), "an unsigned subtraction on a counter or cap: for a cap of zero it wraps to the maximum value and the cap is never reached")
				}
				switch bo.Op {
				case token.GTR, token.GEQ, token.LSS, token.LEQ, token.EQL:
					if xt, okX := bo.X.Type().Underlying().(*types.Basic); okX && xt.Info()&types.IsUnsigned != 0 {
						nCmp++
					}
				}
			}
		}
	}
	r.Floor("UNSIGNED", "unsigned comparisons seen in EvictionLimiter (the scan is alive)", nCmp, 3)
}

func isNamed(t types.Type, name string) bool {
	if p, ok := t.(*types.Pointer); ok {
		t = p.Elem()
	}
	n, ok := t.(*types.Named)
	return ok && n.Obj().Name() == name
}
