package rules

import (
	"go/token"
	"go/types"

	"golang.org/x/tools/go/ssa"

	"kverif/internal/an"
)

// Touch summarises which functions read / write a set of struct fields, transitively through
// static calls, directly invoked closures and interface dispatch (resolved by method name and
// types.Implements over the repo's types).
type Touch struct {
	Reads, Writes map[*ssa.Function]bool
	c             *Ctx
	impls         map[string][]*ssa.Function // method name -> concrete methods in the repo
}

// fieldsOf: "pkgpath.Type" -> field set
func (c *Ctx) NewTouch(fields map[string]map[string]bool) *Touch {
	t := &Touch{Reads: map[*ssa.Function]bool{}, Writes: map[*ssa.Function]bool{}, c: c, impls: map[string][]*ssa.Function{}}
	funcs := c.P.AllFuncs()
	for _, fn := range funcs {
		if fn.Signature.Recv() != nil {
			t.impls[fn.Name()] = append(t.impls[fn.Name()], fn)
		}
		for _, b := range fn.Blocks {
			for _, in := range b.Instrs {
				fa, ok := in.(*ssa.FieldAddr)
				if !ok {
					continue
				}
				owner, f, _, ok := an.FieldOf(fa)
				if !ok || !fields[owner][f] {
					continue
				}
				if isWriteUse(fa, 0) {
					t.Writes[fn] = true
				} else {
					t.Reads[fn] = true
				}
			}
		}
	}
	// propagate to callers
	for changed := true; changed; {
		changed = false
		for _, fn := range funcs {
			for _, cl := range an.Calls(fn, false) {
				for _, callee := range t.Callees(cl) {
					if t.Reads[callee] && !t.Reads[fn] {
						t.Reads[fn] = true
						changed = true
					}
					if t.Writes[callee] && !t.Writes[fn] {
						t.Writes[fn] = true
						changed = true
					}
				}
			}
		}
	}
	return t
}

// Callees resolves a call to the repo functions it may invoke.
func (t *Touch) Callees(cl ssa.CallInstruction) []*ssa.Function {
	cc := cl.Common()
	if f := cc.StaticCallee(); f != nil {
		return []*ssa.Function{f}
	}
	if cc.IsInvoke() {
		it, ok := cc.Value.Type().Underlying().(*types.Interface)
		if !ok {
			return nil
		}
		var out []*ssa.Function
		for _, m := range t.impls[cc.Method.Name()] {
			if types.Implements(m.Signature.Recv().Type(), it) {
				out = append(out, m)
			}
		}
		return out
	}
	return nil
}

func isWriteUse(v ssa.Value, depth int) bool {
	if depth > 3 || v.Referrers() == nil {
		return false
	}
	for _, r := range *v.Referrers() {
		switch x := r.(type) {
		case *ssa.Store:
			if x.Addr == v {
				return true
			}
		case *ssa.MapUpdate:
			if x.Map == v {
				return true
			}
		case *ssa.UnOp:
			if x.Op == token.MUL && isWriteUse(x, depth+1) {
				return true
			}
		case *ssa.Lookup:
			if x.X == v && isWriteUse(x, depth+1) {
				return true
			}
		case *ssa.IndexAddr:
			if x.X == v && isWriteUse(x, depth+1) {
				return true
			}
		case ssa.CallInstruction:
			cc := x.Common()
			if bi, ok := cc.Value.(*ssa.Builtin); ok && bi.Name() == "delete" && len(cc.Args) > 0 && cc.Args[0] == v {
				return true
			}
		}
	}
	return false
}

// Sites returns the instructions of fn (not of its closures) that read resp. write the fields,
// directly or through a call.
func (t *Touch) Sites(fn *ssa.Function, fields map[string]map[string]bool) (reads, writes []ssa.Instruction) {
	for _, b := range fn.Blocks {
		for _, in := range b.Instrs {
			switch x := in.(type) {
			case *ssa.FieldAddr:
				owner, f, _, ok := an.FieldOf(x)
				if ok && fields[owner][f] {
					if isWriteUse(x, 0) {
						writes = append(writes, in)
					} else {
						reads = append(reads, in)
					}
				}
			case ssa.CallInstruction:
				r, w := false, false
				for _, callee := range t.Callees(x) {
					r = r || t.Reads[callee]
					w = w || t.Writes[callee]
				}
				if w {
					writes = append(writes, in)
				} else if r {
					reads = append(reads, in)
				}
			}
		}
	}
	return
}
