package rules

import (
	"go/token"
	"go/types"
	"strings"

	"golang.org/x/tools/go/ssa"

	"kverif/internal/an"
	"kverif/internal/load"
)

func init() { Registry["C15"] = c15 }

const quotaWebhookPkg = "pkg/webhook/elasticquota"

var topoMaps = map[string]bool{"quotaInfoMap": true, "quotaHierarchyInfo": true, "namespaceToQuotaMap": true}

func c15(c *Ctx) {
	c15listErrorRejects(c)
	r := c.R
	r.Decides("no write to the recorded topology (quotaInfoMap, quotaHierarchyInfo, namespaceToQuotaMap) lies on a path that can still return an error: a rejected request leaves the topology unchanged")
	r.Decides("only ValidAddQuota/ValidUpdateQuota/ValidDeleteQuota write the topology; validators and checks write nothing")
	r.Decides("the error of every topology validator/check call is propagated on its non-nil edge")
	r.Decides("an update (which may change the parent link) is recorded only after a validator that walks the ancestor chain of the new parent and rejects when it meets the quota itself (no cycles)")
	r.Decides("the three maps are accessed only under quotaTopology.lock (write lock for writes)")
	r.Decides("for a non-root parent the ancestor walk cannot be skipped; only quotas labelled is-root=true are exempt from the children-min-sum check")
	r.Declines("min-sum arithmetic, key-set agreement of dimensions along the tree, namespace uniqueness as a counting property")
	c15walkComplete(c)
	c15indexFollowsRecord(c)
	c15items(c)
	c15sums(c)
	c15values(c)
	c15selfItemError(c)

	entries := map[string]*ssa.Function{}
	for _, n := range []string{"ValidAddQuota", "ValidUpdateQuota", "ValidDeleteQuota"} {
		entries[n] = c.Fn(quotaWebhookPkg, "quotaTopology", n)
	}

	// ---- TXN
	r.Rule("TXN: in ValidAddQuota/ValidUpdateQuota/ValidDeleteQuota, from behind every write to one of the three maps no return with a possibly non-nil error is reachable")
	nw := 0
	for _, n := range []string{"ValidAddQuota", "ValidUpdateQuota", "ValidDeleteQuota"} {
		fn := entries[n]
		if fn == nil {
			continue
		}
		ws := topoWrites(fn)
		for i, w := range ws {
			nw++
			key := sprintf("%s/write#%d(%s)", fkey(fn), i+1, w.Chain.First())
			reach := an.Explore(fn, an.After(w.Instr), nil, nil)
			var bad []string
			for _, ret := range reach.Returns() {
				for _, alt := range reach.Alts(ret) {
					if reach.EvalAt(alt.Results[len(ret.Results)-1], ret) != an.Nil {
						bad = append(bad, c.InstrPos(ret))
					}
				}
			}
			r.Check(len(bad) == 0, "TXN", key, c.InstrPos(w.Instr), "only nil-error returns are reachable after this write",
				"after this topology write an error return is still reachable at "+strings.Join(bad, ", ")+": a rejected request would leave the topology modified")
		}
	}
	r.Floor("TXN", "topology writes in the three entry points", nw, 12)

	// ---- who may write
	r.Rule("WRITESET: no other function of package webhook/elasticquota writes the three maps of quotaTopology (constructor excepted: fresh object)")
	allowed := map[string]bool{}
	for _, fn := range entries {
		if fn != nil {
			allowed[fkey(fn)] = true
		}
	}
	// informer handlers replay objects that the API server has already admitted (they keep the
	// webhook replicas that did not serve the request in sync); they are not request paths.
	replay := map[string]bool{"OnQuotaAdd": true, "OnQuotaUpdate": true, "OnQuotaDelete": true}
	nf := 0
	for _, fn := range c.PkgFuncs(quotaWebhookPkg) {
		recv := an.Receiver(fn)
		if recv == nil || !isNamedType(recv.Type(), "quotaTopology") {
			continue
		}
		nf++
		if allowed[fkey(fn)] {
			continue
		}
		if replay[fn.Name()] && fn.Signature.Results().Len() == 0 {
			r.OK("WRITESET", fkey(fn), c.Pos(fn.Pos()), "informer handler: replays an object the API server already admitted; cannot reject")
			continue
		}
		ws := topoWrites(fn)
		if len(ws) > 0 {
			r.Fail("WRITESET", fkey(fn), c.InstrPos(ws[0].Instr), "writes "+ws[0].Chain.String()+" outside the three validated entry points: the topology can change without (or before) validation")
		} else {
			r.OK("WRITESET", fkey(fn), c.Pos(fn.Pos()), "no topology write")
		}
	}
	r.Floor("WRITESET", "quotaTopology methods scanned", nf, 15)

	// ---- ERR
	r.Rule("ERR: for every call of a quotaTopology method that returns an error (from within the package), assuming the error is non-nil, every reachable return of the caller carries a non-nil error; a discarded result is a violation")
	ne := 0
	for _, fn := range c.PkgFuncs(quotaWebhookPkg) {
		for _, cl := range an.Calls(fn, false) {
			callee := cl.Common().StaticCallee()
			if callee == nil || callee.Signature.Recv() == nil || !isNamedType(callee.Signature.Recv().Type(), "quotaTopology") {
				continue
			}
			res := callee.Signature.Results()
			if res.Len() == 0 || !isErrorType(res.At(res.Len()-1).Type()) {
				continue
			}
			if !strings.HasPrefix(callee.Name(), "check") && !strings.HasPrefix(callee.Name(), "validate") && !strings.HasPrefix(callee.Name(), "Valid") {
				continue
			}
			ne++
			key := sprintf("%s/call:%s", fkey(fn), callee.Name())
			v := cl.Value()
			var errVal ssa.Value
			if v != nil {
				if res.Len() == 1 {
					errVal = v
				} else {
					for _, ref := range *v.Referrers() {
						if e, ok := ref.(*ssa.Extract); ok && e.Index == res.Len()-1 {
							errVal = e
						}
					}
				}
			}
			if errVal == nil || len(*errVal.Referrers()) == 0 {
				r.Fail("ERR", key, c.InstrPos(cl), "the error result of "+callee.Name()+" is discarded")
				continue
			}
			// caller must return an error type
			cres := fn.Signature.Results()
			if cres.Len() == 0 || !isErrorType(cres.At(cres.Len()-1).Type()) {
				// handlers translate to admission responses: accept if the value is tested
				r.OK("ERR", key, c.InstrPos(cl), "error is consumed by a caller without error result (admission handler)")
				continue
			}
			reach := an.Explore(fn, an.After(cl), an.Facts{errVal: an.NonNil}, nil)
			var bad []string
			for _, ret := range reach.Returns() {
				for _, alt := range reach.Alts(ret) {
					rv := alt.Results[len(ret.Results)-1]
					if rv == errVal || reach.EvalAt(rv, ret) == an.NonNil {
						continue
					}
					bad = append(bad, c.InstrPos(ret))
				}
			}
			r.Check(len(bad) == 0, "ERR", key, c.InstrPos(cl), "a non-nil error always leads to an error return",
				"although "+callee.Name()+" failed, a return with a possibly nil error is reachable at "+strings.Join(bad, ", "))
		}
	}
	r.Floor("ERR", "validator/check call sites", ne, 10)

	// ---- ACYCLIC
	r.Rule("ACYCLIC: the store quotaInfoMap[name]=newInfo in ValidUpdateQuota is unreachable unless validateQuotaTopology returned nil; validateQuotaTopology returns nil for a non-root parent only after a callee containing an ancestor walk (a loop that repeatedly looks up quotaInfoMap by the ParentName of the previous lookup and can return an error from a comparison inside the loop) returned nil; inside that callee, for a non-root parent, no nil return is reachable without entering the walk loop")
	if up := entries["ValidUpdateQuota"]; up != nil {
		c15acyclic(c, up)
	}

	// ---- the root exemption of the min-sum check
	r.Rule("PATH(root exemption): extension.IsTreeRootQuota (which exempts a quota from the children-min-sum check in checkMinQuotaValidate) can return true only when the quota carries the is-root label with value \"true\"")
	if tf := c.Fn("apis/extension", "", "IsTreeRootQuota"); tf != nil {
		f := an.Facts{}
		for _, b := range tf.Blocks {
			for _, in := range b.Instrs {
				bo, ok := in.(*ssa.BinOp)
				if !ok || (bo.Op != token.EQL && bo.Op != token.NEQ) {
					continue
				}
				lk, isL := bo.X.(*ssa.Lookup)
				str, isC := constString(bo.Y)
				if isL && isC && str == "true" && strings.HasSuffix(an.Path(lk.X), ".Labels") {
					if k, ok := constString(lk.Index); ok && strings.HasSuffix(k, "/is-root") {
						if bo.Op == token.EQL {
							f[bo] = an.False
						} else {
							f[bo] = an.True
						}
					}
				}
			}
		}
		reach := an.Explore(tf, nil, f, nil)
		bad := false
		for _, ret := range reach.Returns() {
			for _, alt := range reach.Alts(ret) {
				if reach.EvalAlt(alt, 0) != an.False {
					bad = true
				}
			}
		}
		r.Check(len(f) >= 1 && !bad, "PATH", fkey(tf)+"/only-labelled-roots", c.Pos(tf.Pos()), "true only for quotas labelled is-root=true", sprintf("IsTreeRootQuota can return true for a quota without the is-root label (%d label tests recognised): such a quota skips the check that its children's mins sum to at most its own min", len(f)))
	}

	// ---- the admission entry hands every update to the topology
	r.Rule("PATH(entry): in QuotaMetaChecker.ValidateQuota, for an UPDATE whose old object decodes, no return is reachable without ValidUpdateQuota (no class of update - e.g. of an object that is being deleted but still exists - is admitted unvalidated and unrecorded); CREATE reaches ValidAddQuota and DELETE ValidDeleteQuota")
	if vq := c.Fn(quotaWebhookPkg, "QuotaMetaChecker", "ValidateQuota"); vq != nil {
		for _, opx := range []struct{ op, want string }{{"UPDATE", "ValidUpdateQuota"}, {"CREATE", "ValidAddQuota"}, {"DELETE", "ValidDeleteQuota"}} {
			f := an.Facts{}
			n := 0
			for _, b := range vq.Blocks {
				for _, in := range b.Instrs {
					switch x := in.(type) {
					case *ssa.BinOp:
						if x.Op != token.EQL && x.Op != token.NEQ {
							continue
						}
						if str, isC := constString(x.Y); isC && (str == "UPDATE" || str == "CREATE" || str == "DELETE" || str == "CONNECT") {
							eq := str == opx.op
							if (x.Op == token.EQL) == eq {
								f[x] = an.True
							} else {
								f[x] = an.False
							}
							n++
						}
					case *ssa.Call:
						if an.ShortCallee(&x.Call) == "Decode" && isErrorType(x.Type()) {
							f[x] = an.Nil
						}
					}
				}
			}
			reach := an.Explore(vq, nil, f, func(in ssa.Instruction) bool {
				cl, ok := in.(ssa.CallInstruction)
				return ok && an.ShortCallee(cl.Common()) == opx.want
			})
			r.Check(n >= 1 && len(reach.Returns()) == 0, "PATH", fkey(vq)+"/"+opx.op+"=>"+opx.want, c.Pos(vq.Pos()), "every "+opx.op+" reaches "+opx.want, sprintf("an %s request can be answered without %s (%d returns reachable): it is neither validated nor recorded, and the recorded topology drifts from the admitted objects", opx.op, opx.want, len(reach.Returns())))
		}
	}

	// ---- every check on every path
	r.Rule("PATH: in validateQuotaTopology each of checkIsParentChange, checkTreeID, checkParentQuotaInfo, checkSubAndParentGroupQuotaKey and checkMinQuotaValidate is evaluated on every path to a nil return, except the documented root shortcuts (name == root; parent == root and not a parent)")
	if vfn := c.Fn(quotaWebhookPkg, "quotaTopology", "validateQuotaTopology"); vfn != nil {
		for _, name := range []string{"checkIsParentChange", "checkTreeID", "checkParentQuotaInfo", "checkSubAndParentGroupQuotaKey", "checkMinQuotaValidate"} {
			var call ssa.CallInstruction
			for _, cl := range an.Calls(vfn, false) {
				if an.ShortCallee(cl.Common()) == name {
					call = cl
				}
			}
			key := fkey(vfn) + "/always-checked/" + name
			if call == nil {
				r.Fail("PATH", key, c.Pos(vfn.Pos()), name+" is no longer called by validateQuotaTopology")
				continue
			}
			reach := an.Explore(vfn, nil, nil, func(in ssa.Instruction) bool { return in == ssa.Instruction(call) })
			var bad []string
			for _, ret := range reach.Returns() {
				for _, alt := range reach.Alts(ret) {
					v := alt.Results[0]
					if reach.EvalAt(v, ret) == an.NonNil || guardsSayNonNil(alt.Guards, v) {
						continue
					}
					if call2, _ := an.ResultOfCall(v); call2 != nil {
						continue // returns another check's error
					}
					okRoot := false
					for _, g := range alt.Guards {
						p := an.Path(g.Cond)
						if (strings.Contains(p, "RootQuotaName") || strings.Contains(p, "koordinator-root-quota")) && g.Truth {
							okRoot = true
						}
					}
					if !okRoot {
						bad = append(bad, c.InstrPos(ret))
					}
				}
			}
			r.Check(len(bad) == 0, "PATH", key, c.InstrPos(call), "evaluated on every non-root path", "a nil return at "+strings.Join(bad, ",")+" is reachable without "+name+" (the check was made conditional): e.g. a re-parent with unchanged min would skip the min-sum check against the new parent")
		}
	}

	// ---- one critical section per request
	r.Rule("ATOMIC: in ValidAddQuota/ValidUpdateQuota/ValidDeleteQuota every read and write of the three maps (directly or through a callee) happens with quotaTopology.lock held for writing, and the lock is not released between the first check and the last write")
	touch := c.NewTouch(map[string]map[string]bool{load.Module + "/" + quotaWebhookPkg + ".quotaTopology": topoMaps})
	for _, n := range []string{"ValidAddQuota", "ValidUpdateQuota", "ValidDeleteQuota"} {
		if fn := entries[n]; fn != nil {
			atomicSection(c, "ATOMIC", fn, touch, map[string]map[string]bool{load.Module + "/" + quotaWebhookPkg + ".quotaTopology": topoMaps},
				"the checks and the update of a request are not inside one critical section: a concurrent request can change the topology between the checks and the write (e.g. a child is created under a quota while its deletion is being validated)")
		}
	}

	// ---- LOCK
	r.Rule("LOCK: quotaInfoMap, quotaHierarchyInfo and namespaceToQuotaMap of quotaTopology are read under lock (R/W) and written under the write lock")
	c.RunLock("LOCK", LockCfg{Pkg: quotaWebhookPkg, Type: "quotaTopology", Mutex: "lock",
		Guarded: []string{"quotaInfoMap", "quotaHierarchyInfo", "namespaceToQuotaMap"}, MinFuncs: 10})
}

func isNamedType(t types.Type, name string) bool {
	n := an.NamedOf(t)
	return n != nil && n.Obj().Name() == name
}

func isErrorType(t types.Type) bool {
	return types.Identical(t, types.Universe.Lookup("error").Type())
}

func topoWrites(fn *ssa.Function) []an.Effect {
	recv := an.Receiver(fn)
	if recv == nil {
		return nil
	}
	var out []an.Effect
	for _, e := range an.Effects(fn, recv, map[string]bool{}) {
		if topoMaps[e.Chain.First()] {
			out = append(out, e)
		}
	}
	return out
}

// hasAncestorWalk: fn contains a Lookup on <recv>.quotaInfoMap whose key depends on a phi that in turn
// depends on the lookup's result (parent chain iteration), and an error return inside that loop
// guarded by a comparison that depends on the phi.
func hasAncestorWalk(fn *ssa.Function) (bool, string) {
	cmp := ancestorWalkCmp(fn)
	return cmp != nil, fn.Name()
}

// ancestorWalkCmp returns the cycle test of an ancestor walk in fn (nil when fn has none).
func ancestorWalkCmp(fn *ssa.Function) *ssa.BinOp {
	recv := an.Receiver(fn)
	if recv == nil {
		return nil
	}
	for _, b := range fn.Blocks {
		for _, in := range b.Instrs {
			lk, ok := in.(*ssa.Lookup)
			if !ok {
				continue
			}
			isTopo := false
			for _, ch := range an.Chains(lk.X) {
				if ch.Root == ssa.Value(recv) && ch.First() == "quotaInfoMap" {
					isTopo = true
				}
			}
			if !isTopo {
				continue
			}
			// phis in the backward slice of the key
			fromLookup := an.ForwardReach(lk, nil)
			var cyc *ssa.Phi
			for v := range backwardAll(lk.Index) {
				if p, ok := v.(*ssa.Phi); ok && fromLookup[p] {
					cyc = p
				}
			}
			if cyc == nil {
				continue
			}
			// the walk must follow the ParentName field
			followsParent := false
			for v := range fromLookup {
				switch x := v.(type) {
				case *ssa.FieldAddr:
					if _, f, _, ok := an.FieldOf(x); ok && f == "ParentName" {
						followsParent = true
					}
				case *ssa.Field:
					if _, f, _, ok := an.FieldOf(x); ok && f == "ParentName" {
						followsParent = true
					}
				}
			}
			if !followsParent {
				continue
			}
			// an error return guarded by a comparison on the walking value against a parameter
			fromPhi := an.ForwardReach(cyc, nil)
			for _, alt := range an.ReturnAlts(fn) {
				ret := alt.Ret
				_ = ret
				if len(ret.Results) == 0 {
					continue
				}
				for _, g := range alt.Guards {
					bo, ok := g.Cond.(*ssa.BinOp)
					if !ok || (bo.Op != token.EQL && bo.Op != token.NEQ) {
						continue
					}
					if !(fromPhi[bo.X] || fromPhi[bo.Y] || bo.X == ssa.Value(cyc) || bo.Y == ssa.Value(cyc)) {
						continue
					}
					other := bo.Y
					if fromPhi[bo.Y] || bo.Y == ssa.Value(cyc) {
						other = bo.X
					}
					if !dependsOnParam(other) {
						continue
					}
					if (bo.Op == token.EQL) == g.Truth && !an.IsNilConst(alt.Results[len(alt.Results)-1]) {
						return bo
					}
				}
			}
		}
	}
	return nil
}

func dependsOnParam(v ssa.Value) bool {
	for x := range backwardAll(v) {
		if _, ok := x.(*ssa.Parameter); ok {
			return true
		}
	}
	return false
}

func backwardAll(v ssa.Value) map[ssa.Value]bool {
	seen := map[ssa.Value]bool{}
	var walk func(v ssa.Value)
	walk = func(v ssa.Value) {
		if v == nil || seen[v] {
			return
		}
		seen[v] = true
		if in, ok := v.(ssa.Instruction); ok {
			for _, op := range in.Operands(nil) {
				if op != nil && *op != nil {
					walk(*op)
				}
			}
		}
		// a local cell: whatever was stored into it
		if a, ok := v.(*ssa.Alloc); ok && a.Referrers() != nil {
			for _, ref := range *a.Referrers() {
				if st, ok := ref.(*ssa.Store); ok && st.Addr == ssa.Value(a) {
					walk(st.Val)
				}
			}
		}
	}
	walk(v)
	return seen
}

func c15acyclic(c *Ctx, up *ssa.Function) {
	r := c.R
	const p = "(*" + load.Module + "/" + quotaWebhookPkg + ".quotaTopology)."
	key := fkey(up) + "/parent-link-store"
	var store ssa.Instruction
	for _, w := range topoWrites(up) {
		if w.Chain.First() == "quotaInfoMap" && w.Op == "mapstore" {
			store = w.Instr
		}
	}
	vt := an.CallsTo(up, false, p+"validateQuotaTopology")
	if store == nil || len(vt) != 1 {
		r.Fail("ACYCLIC", key, c.Pos(up.Pos()), sprintf("cannot find the quotaInfoMap store (%v) or the single validateQuotaTopology call (%d) in ValidUpdateQuota", store != nil, len(vt)))
		return
	}
	reach := an.Explore(up, nil, an.Facts{vt[0].Value(): an.NonNil}, nil)
	r.Check(!reach.Reached(store), "ACYCLIC", key, c.InstrPos(store), "the new quota info (incl. parent link) is stored only after validateQuotaTopology succeeded",
		"the parent link is stored although validateQuotaTopology failed")

	// inside validateQuotaTopology: which callees contain an ancestor walk ?
	vfn := c.Fn(quotaWebhookPkg, "quotaTopology", "validateQuotaTopology")
	if vfn == nil {
		return
	}
	key2 := fkey(vfn) + "/ancestor-walk"
	var walkers []ssa.CallInstruction
	seen := map[*ssa.Function]bool{}
	var contains func(f *ssa.Function, depth int) bool
	contains = func(f *ssa.Function, depth int) bool {
		if f == nil || depth > 3 || seen[f] {
			return false
		}
		seen[f] = true
		if ok, _ := hasAncestorWalk(f); ok {
			return true
		}
		for _, cl := range an.Calls(f, false) {
			if callee := cl.Common().StaticCallee(); callee != nil && callee.Pkg == f.Pkg && callee.Signature.Recv() != nil {
				if contains(callee, depth+1) {
					return true
				}
			}
		}
		return false
	}
	for _, cl := range an.Calls(vfn, false) {
		callee := cl.Common().StaticCallee()
		if callee == nil || callee.Pkg != vfn.Pkg {
			continue
		}
		seen = map[*ssa.Function]bool{}
		if contains(callee, 0) {
			walkers = append(walkers, cl)
		}
	}
	if ok, _ := hasAncestorWalk(vfn); ok {
		r.OK("ACYCLIC", key2, c.Pos(vfn.Pos()), "validateQuotaTopology itself walks the ancestor chain")
		return
	}
	if len(walkers) == 0 {
		r.Fail("ACYCLIC", key2, c.Pos(vfn.Pos()), "no validator reachable from validateQuotaTopology walks the ancestor chain of the new parent: a re-parent under one's own descendant (A under root, B under A, then A.parent:=B) is accepted and creates a cycle; the scheduler's getCurToAllParentGroupQuotaInfoNoLock then never terminates")
		return
	}
	// inside the walker: for a non-root parent the cycle test is evaluated before any nil return
	for _, w := range walkers {
		wf := w.Common().StaticCallee()
		cmp := ancestorWalkCmp(wf)
		if cmp == nil {
			continue // the walk sits deeper; covered by the callee's own obligations when anchored
		}
		f := an.Facts{}
		for _, b := range wf.Blocks {
			for _, in := range b.Instrs {
				bo, ok := in.(*ssa.BinOp)
				if !ok || (bo.Op != token.EQL && bo.Op != token.NEQ) {
					continue
				}
				if strings.Contains(an.Path(bo.Y), "koordinator-root-quota") || strings.Contains(an.Path(bo.Y), "RootQuotaName") {
					if _, isParam := bo.X.(*ssa.Parameter); isParam {
						if bo.Op == token.NEQ {
							f[bo] = an.True
						} else {
							f[bo] = an.False
						}
					}
				}
			}
		}
		hdr := an.InnermostLoopHeader(cmp.Block())
		if hdr == nil {
			hdr = cmp.Block()
		}
		rw := an.Explore(wf, nil, f, func(in ssa.Instruction) bool { return in.Block() == hdr })
		var skip []string
		for _, ret := range rw.Returns() {
			for _, alt := range rw.Alts(ret) {
				if rw.EvalAlt(alt, 0) != an.NonNil {
					skip = append(skip, c.InstrPos(ret))
				}
			}
		}
		r.Check(len(f) >= 1 && len(skip) == 0, "ACYCLIC", fkey(wf)+"/walk-not-skippable", c.InstrPos(cmp), "for a non-root parent the ancestor walk is entered before any nil return", sprintf("%s can return nil for a non-root parent (at %s) without having compared any ancestor with the quota: a shortcut (e.g. 'no children yet') lets a quota become its own parent", wf.Name(), strings.Join(skip, ",")))
	}

	// nil return of validateQuotaTopology for a non-root parent requires the walker to have succeeded
	facts := an.Facts{}
	for _, w := range walkers {
		if v := w.Value(); v != nil {
			facts[v] = an.NonNil
		}
	}
	reach2 := an.Explore(vfn, nil, facts, nil)
	var bad []string
	for _, ret := range reach2.Returns() {
		for _, alt := range reach2.Alts(ret) {
			v := alt.Results[0]
			if reach2.EvalAt(v, ret) == an.NonNil || guardsSayNonNil(alt.Guards, v) {
				continue
			}
			// nil return allowed only under the guards "name == root" or "parent == root"
			okRoot := false
			for _, g := range alt.Guards {
				if strings.Contains(an.Path(g.Cond), "RootQuotaName") || strings.Contains(an.Path(g.Cond), `"koordinator-root-quota"`) {
					if rel, ok := an.RelOf(g); ok && rel.Op == token.EQL {
						okRoot = true
					}
				}
			}
			if !okRoot {
				bad = append(bad, c.InstrPos(ret))
			}
		}
	}
	r.Check(len(bad) == 0, "ACYCLIC", key2, c.InstrPos(walkers[0]), "a nil result for a non-root parent requires the ancestor walk to have passed",
		"validateQuotaTopology can return nil although the ancestor walk failed, at "+strings.Join(bad, ", "))
}

// guardsSayNonNil: some guard is "v != nil" (holds).
func guardsSayNonNil(gs []an.Guard, v ssa.Value) bool {
	for _, g := range gs {
		if rel, ok := an.RelOf(g); ok && rel.Op == token.NEQ {
			if (rel.X == v && an.IsNilConst(rel.Y)) || (rel.Y == v && an.IsNilConst(rel.X)) {
				return true
			}
		}
	}
	return false
}
