package rules

import (
	"go/types"
	"sort"

	"golang.org/x/tools/go/ssa"

	"kverif/internal/an"
)

// Round 8, the three changes that were left open at the end of that round.

// c12oldSetFromCgroup: the "old" CPU set that adjustByCPUSet hands to applyBESuppressCPUSet is, in
// every way it can have been computed, derived from a cgroupReader.ReadCPUSet call of this very
// round. The loosening (top-down) pass writes union(old, new); if "old" is a value remembered from
// an earlier round, anything that changed the file in between (kubelet, a restart of the container
// runtime, the static-policy recovery, a partly failed previous round) makes the union too small and
// the root is tightened before its children. Not demanded: which path is read, how the result is
// converted, or where in the function the read happens.
func c12oldSetFromCgroup(c *Ctx) {
	r := c.R
	r.Rule("FRESH(old set is read, not remembered): in CPUSuppress.adjustByCPUSet every alternative of the old-set argument of applyBESuppressCPUSet is derived from a cgroupReader.ReadCPUSet result of the same invocation; none is state of the plugin carried over from an earlier round")
	fn := c.Fn(suppressPkg, "CPUSuppress", "adjustByCPUSet")
	if fn == nil {
		return
	}
	key := fkey(fn) + "/old-set-from-ReadCPUSet"
	n, bad := 0, ""
	for _, cl := range an.Calls(fn, false) {
		if an.ShortCallee(cl.Common()) != "applyBESuppressCPUSet" {
			continue
		}
		args := cl.Common().Args
		if len(args) < 3 {
			continue
		}
		n++
		for _, alt := range cellSources(args[2]) {
			if _, isConst := alt.(*ssa.Const); isConst {
				continue // the nil of a failed read (whether a write may follow it is the ERR rule's business)
			}
			fromRead := derivesFromReadCPUSet(fn, alt, 0)
			if f := ownState(fn, alt); f != "" {
				bad = sprintf("%s: one alternative of the old set is the plugin's own %s", c.InstrPos(cl), f)
			} else if !fromRead {
				bad = sprintf("%s: one alternative of the old set (%s) does not come from ReadCPUSet", c.InstrPos(cl), an.Path(alt))
			}
		}
	}
	if n == 0 {
		r.Unknown("FRESH", key, c.Pos(fn.Pos()), "expected a call of applyBESuppressCPUSet(new, old)")
		return
	}
	r.Check(bad == "", "FRESH", key, c.Pos(fn.Pos()), sprintf("%d apply call(s): the old set always comes from the cgroup file", n),
		"the union of the loosening pass is built from a remembered set, not from what the cgroup holds now ("+bad+"): after any outside change of the file the root is shrunk below what its children still hold")
}

// derivesFromReadCPUSet: v has a cgroupReader.ReadCPUSet result in its backward slice - directly, or
// through an in-package helper all of whose non-constant return alternatives derive from such a
// read themselves (a helper that was split off from the caller).
func derivesFromReadCPUSet(fn *ssa.Function, v ssa.Value, depth int) bool {
	for x := range backwardAll(v) {
		call, ok := x.(*ssa.Call)
		if !ok {
			continue
		}
		if call.Call.IsInvoke() && call.Call.Method.Name() == "ReadCPUSet" {
			return true
		}
		callee := call.Call.StaticCallee()
		if callee == nil || callee.Pkg != fn.Pkg || depth >= 2 || len(callee.Blocks) == 0 {
			continue
		}
		some, all := false, true
		for _, alt := range an.ReturnAlts(callee) {
			for _, res := range alt.Results {
				for _, src := range cellSources(res) {
					if _, isConst := src.(*ssa.Const); isConst {
						continue
					}
					if types.Identical(src.Type(), types.Universe.Lookup("error").Type()) {
						continue
					}
					if derivesFromReadCPUSet(callee, src, depth+1) && ownState(callee, src) == "" {
						some = true
					} else {
						all = false
					}
				}
			}
		}
		if some && all {
			return true
		}
	}
	return false
}

// closuresOf: fn and every function literal nested in it.
func closuresOf(fn *ssa.Function) []*ssa.Function {
	out := []*ssa.Function{fn}
	for _, a := range fn.AnonFuncs {
		out = append(out, closuresOf(a)...)
	}
	return out
}

// c12batchSequential: UpdateBatch and LeveledUpdateBatch apply their updaters in the order they were
// given, one after the other, in the calling goroutine. The two-phase BE cpuset rewrite
// (writeBECgroupsCPUSet) and the leveled rewrite encode "parent before child" / "child before
// parent" in nothing but that order. Decided structurally: no go statement in these functions or
// their function literals, and a function literal that (transitively, within the literal) performs
// an executor write is only ever called directly - it is never handed to another function as a
// value (a work-queue, errgroup or parallelizer) nor started with go/defer-in-goroutine.
func c12batchSequential(c *Ctx) {
	r := c.R
	r.Rule("SEQUENTIAL: in ResourceUpdateExecutorImpl.UpdateBatch and LeveledUpdateBatch there is no go statement, and a function literal that performs a write (update / updateByCache / MergeUpdate / ResourceCache store) is called directly only, never passed to another function: the updaters are applied in slice order by the caller's goroutine")
	isWrite := func(cl ssa.CallInstruction) bool {
		switch an.ShortCallee(cl.Common()) {
		case "update", "updateByCache", "MergeUpdate", "SetDefault", "Set":
			return true
		}
		if cl.Common().IsInvoke() {
			switch cl.Common().Method.Name() {
			case "update", "MergeUpdate":
				return true
			}
		}
		return false
	}
	for _, name := range []string{"UpdateBatch", "LeveledUpdateBatch"} {
		fn := c.Fn(rexPkg, "ResourceUpdateExecutorImpl", name)
		if fn == nil {
			continue
		}
		key := fkey(fn) + "/writes-in-slice-order"
		var bad []string
		nWrites := 0
		writing := map[*ssa.Function]bool{}
		all := closuresOf(fn)
		for _, f := range all {
			for _, b := range f.Blocks {
				for _, in := range b.Instrs {
					switch x := in.(type) {
					case *ssa.Go:
						bad = append(bad, c.InstrPos(x)+": go statement")
					case ssa.CallInstruction:
						if isWrite(x) {
							nWrites++
							for g := f; g != nil && g != fn; g = g.Parent() {
								writing[g] = true
							}
						}
					}
				}
			}
		}
		for _, f := range all {
			for _, b := range f.Blocks {
				for _, in := range b.Instrs {
					mc, ok := in.(*ssa.MakeClosure)
					if !ok {
						continue
					}
					lit, _ := mc.Fn.(*ssa.Function)
					if lit == nil || !writing[lit] {
						continue
					}
					for _, use := range closureUses(mc) {
						switch u := use.(type) {
						case *ssa.Call:
							if u.Call.Value != ssa.Value(mc) && !isLoadOfCellHolding(u.Call.Value, mc) {
								bad = append(bad, c.InstrPos(u)+": a writing function literal is handed to "+an.ShortCallee(&u.Call))
							}
						case *ssa.Defer:
							if u.Call.Value != ssa.Value(mc) && !isLoadOfCellHolding(u.Call.Value, mc) {
								bad = append(bad, c.InstrPos(u)+": a writing function literal is handed to a deferred "+an.ShortCallee(&u.Call))
							}
						case *ssa.Go:
							bad = append(bad, c.InstrPos(u)+": a writing function literal is started with go")
						default:
							bad = append(bad, c.InstrPos(use)+": a writing function literal escapes")
						}
					}
				}
			}
		}
		sort.Strings(bad)
		if nWrites == 0 {
			r.Unknown("SEQUENTIAL", key, c.Pos(fn.Pos()), "expected executor writes (update/updateByCache/MergeUpdate) in this function")
			continue
		}
		msg := ""
		if len(bad) > 0 {
			msg = bad[0]
		}
		r.Check(len(bad) == 0, "SEQUENTIAL", key, c.Pos(fn.Pos()), sprintf("%d write call(s), all made in slice order by the calling goroutine", nWrites),
			"the updaters of a batch are no longer applied one after the other in the order given ("+msg+"): the parent-before-child / child-before-parent order of a hierarchical rewrite is lost, and a child can hold CPUs its parent does not")
	}
}

// closureUses: the instructions that use a closure value, following one level of "stored into a
// local cell and loaded again" (f := func(){...}; f()).
func closureUses(mc *ssa.MakeClosure) []ssa.Instruction {
	var out []ssa.Instruction
	if mc.Referrers() == nil {
		return nil
	}
	for _, ref := range *mc.Referrers() {
		if st, ok := ref.(*ssa.Store); ok && st.Val == ssa.Value(mc) {
			if a, isA := st.Addr.(*ssa.Alloc); isA && a.Referrers() != nil {
				for _, r2 := range *a.Referrers() {
					if ld, isLd := r2.(*ssa.UnOp); isLd && ld.Referrers() != nil {
						out = append(out, *ld.Referrers()...)
					} else if _, isMC := r2.(*ssa.MakeClosure); isMC {
						out = append(out, r2)
					}
				}
				continue
			}
		}
		if _, ok := ref.(*ssa.DebugRef); ok {
			continue
		}
		out = append(out, ref)
	}
	return out
}

// isLoadOfCellHolding: v is a load of a local cell into which mc was stored.
func isLoadOfCellHolding(v ssa.Value, mc *ssa.MakeClosure) bool {
	ld, ok := v.(*ssa.UnOp)
	if !ok {
		return false
	}
	a, ok := ld.X.(*ssa.Alloc)
	if !ok || a.Referrers() == nil {
		return false
	}
	for _, ref := range *a.Referrers() {
		if st, isSt := ref.(*ssa.Store); isSt && st.Val == ssa.Value(mc) {
			return true
		}
	}
	return false
}

// c01forgetMappingFirst: OnQuotaDelete removes the quota -> tree entry before it asks the tree's
// manager to forget the group. The pod handlers resolve a pod's manager through that entry without
// any lock shared with the delete; with the entry still present after the manager has dropped the
// group, a pod event is routed to a manager that silently ignores it, and the pod is accounted in no
// group at all. Decided: every DeleteQuota call of the handler is dominated by a
// deleteQuotaToTreeMap call.
func c01forgetMappingFirst(c *Ctx) {
	r := c.R
	r.Rule("ORDER(unpublish before tear-down): in Plugin.OnQuotaDelete every GroupQuotaManager.DeleteQuota call is preceded on every path by deleteQuotaToTreeMap (the entry through which the pod handlers find the manager goes away first)")
	fn := c.Fn(quotaPluginPkg, "Plugin", "OnQuotaDelete")
	if fn == nil {
		return
	}
	key := fkey(fn) + "/deleteQuotaToTreeMap-before-DeleteQuota"
	var unmap, del []ssa.CallInstruction
	for _, cl := range an.Calls(fn, false) {
		switch an.ShortCallee(cl.Common()) {
		case "deleteQuotaToTreeMap":
			unmap = append(unmap, cl)
		case "DeleteQuota":
			del = append(del, cl)
		}
	}
	if len(unmap) == 0 || len(del) == 0 {
		r.Unknown("ORDER", key, c.Pos(fn.Pos()), sprintf("expected deleteQuotaToTreeMap (%d) and DeleteQuota (%d) calls", len(unmap), len(del)))
		return
	}
	bad := ""
	for _, d := range del {
		ok := false
		for _, u := range unmap {
			if u.Block() == d.Block() && instrIndex(u) < instrIndex(d) || u.Block() != d.Block() && u.Block().Dominates(d.Block()) {
				ok = true
			}
		}
		if !ok {
			bad = c.InstrPos(d)
		}
	}
	r.Check(bad == "", "ORDER", key, c.Pos(fn.Pos()), sprintf("%d DeleteQuota call(s) each preceded by the removal of the quota -> tree entry", len(del)),
		"the manager forgets the group while the quota -> tree entry still names it ("+bad+"): a pod event handled in that window is routed to the manager that no longer knows the group and is dropped; the pod is then counted in no group")
}
