package rules

import (
	"go/types"
	"sort"
	"strings"

	"golang.org/x/tools/go/ssa"

	"kverif/internal/an"
)

// LockCfg is the rule-instance form of an.LockSpec with names instead of resolved objects.
type LockCfg struct {
	Pkg, Type, Mutex string
	Guarded          []string
	WriteOnly        bool
	Mutators         []string
	Exempt           map[string]string // short func key -> reason
	HeldBy           map[string]int
	FreshCtors       []string       // short func keys whose result is a fresh object
	MinFuncs         int            // floor: functions with direct accesses confirmed by hand
	ElemHeldBy       map[string]int // short func key -> slice argument whose elements' locks the wrapper leaves held
	AltHeld          func(fn *ssa.Function, instr ssa.Instruction) bool
	SubGuard         func(addr ssa.Value) bool
}

// RunLock applies the must-lockset discipline and records one obligation per function that
// touches a guarded field (directly) plus one per unmet requirement elsewhere.
func (c *Ctx) RunLock(rule string, cfg LockCfg) *an.LockResult {
	pk := c.P.Pkg(cfg.Pkg)
	if pk == nil {
		c.R.Unknown("ANCHOR", cfg.Pkg, "", "package not found")
		return nil
	}
	tn, _ := pk.Types.Scope().Lookup(cfg.Type).(*types.TypeName)
	if tn == nil {
		c.R.Unknown("ANCHOR", cfg.Pkg+"."+cfg.Type, "", "type not found")
		return nil
	}
	named, _ := tn.Type().(*types.Named)
	st, _ := named.Underlying().(*types.Struct)
	if st == nil {
		c.R.Unknown("ANCHOR", cfg.Pkg+"."+cfg.Type, "", "not a struct type")
		return nil
	}
	have := map[string]bool{}
	for i := 0; i < st.NumFields(); i++ {
		have[st.Field(i).Name()] = true
	}
	spec := &an.LockSpec{Type: named, Mutex: cfg.Mutex, Guarded: map[string]bool{}, WriteOnly: cfg.WriteOnly, MutatorMethods: map[string]bool{}, ExemptFuncs: map[string]string{}, HeldBy: cfg.HeldBy}
	for _, g := range cfg.Guarded {
		if !have[g] {
			c.R.Unknown("ANCHOR", cfg.Pkg+"."+cfg.Type+"."+g, "", "guarded field not found in the struct (renamed or removed)")
			continue
		}
		spec.Guarded[g] = true
	}
	if cfg.Mutex != "" && !have[cfg.Mutex] {
		c.R.Unknown("ANCHOR", cfg.Pkg+"."+cfg.Type+"."+cfg.Mutex, "", "mutex field not found")
		return nil
	}
	for _, m := range cfg.Mutators {
		spec.MutatorMethods[m] = true
	}
	funcs := c.P.AllFuncs()
	byKey := map[string]*ssa.Function{}
	for _, f := range funcs {
		byKey[fkey(f)] = f
	}
	spec.FreshCtors = map[string]bool{}
	for _, k := range cfg.FreshCtors {
		f := byKey[k]
		if f == nil {
			c.R.Unknown("ANCHOR", "lock-fresh-ctor:"+k, "", "constructor not found (stale table entry)")
			continue
		}
		spec.FreshCtors[an.FullName(f)] = true
	}
	for k, why := range cfg.Exempt {
		f := byKey[k]
		if f == nil {
			c.R.Unknown("ANCHOR", "lock-exempt:"+k, "", "exempted function not found (stale exemption)")
			continue
		}
		spec.ExemptFuncs[an.FullName(f)] = why
	}
	spec.AltHeld = cfg.AltHeld
	spec.SubGuard = cfg.SubGuard
	if cfg.ElemHeldBy != nil {
		spec.ElemHeldBy = map[string]int{}
		for k, i := range cfg.ElemHeldBy {
			f := byKey[k]
			if f == nil {
				c.R.Unknown("ANCHOR", "lock-elem-wrapper:"+k, "", "wrapper not found (stale table entry)")
				continue
			}
			spec.ElemHeldBy[an.FullName(f)] = i
		}
	}
	res := an.AnalyzeLock(spec, funcs)
	// group findings per function
	byFn := map[string][]an.LockFinding{}
	for _, f := range res.Findings {
		byFn[fkey(f.Fn)] = append(byFn[fkey(f.Fn)], f)
	}
	var names []string
	seen := map[string]bool{}
	for fn := range res.FuncsSeen {
		names = append(names, fkey(fn))
		seen[fkey(fn)] = true
	}
	for k := range byFn {
		if !seen[k] {
			names = append(names, k)
		}
	}
	sort.Strings(names)
	tname := cfg.Type
	for _, k := range names {
		key := tname + "/" + k
		fn := byKey[k]
		pos := ""
		if fn != nil {
			pos = c.Pos(fn.Pos())
			c.R.Func(k)
		}
		if fs := byFn[k]; len(fs) > 0 {
			var ds []string
			for _, f := range fs {
				ds = append(ds, f.Reason+" at "+c.InstrPos(f.Instr))
			}
			c.R.Fail(rule, key, pos, strings.Join(ds, "; "))
			continue
		}
		how := "every access to guarded fields of " + tname + " is under its lock, on a fresh object, or the requirement is met at every call site"
		if fn != nil {
			if why, ok := spec.ExemptFuncs[an.FullName(fn)]; ok {
				how = "exempt: " + why
			}
		}
		c.R.OK(rule, key, pos, how)
	}
	c.R.Count("lock_accesses", len(res.Accesses))
	c.R.Floor(rule, tname+" functions touching guarded fields", len(res.FuncsSeen), cfg.MinFuncs)
	return res
}
