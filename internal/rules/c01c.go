package rules

import (
	"strings"

	"golang.org/x/tools/go/ssa"

	"kverif/internal/an"
)

// c01values: the object and the figure handed to the accounting are the ones the event is about.
func c01values(c *Ctx) {
	r := c.R
	r.Decides("in the plugin's pod update handler the pod released from the old quota is the OLD version of the pod and the pod charged to the new quota the NEW one (what was charged is what is released, also when the same event changes the requests); a deleted quota takes out of its ancestors the max-capped request it had put in, not the raw one")
	r.Rule("FLOW(old with old): in Plugin.OnPodUpdate every pod handed to a manager's OnPodDelete derives from the oldObj parameter, every pod handed to OnPodAdd from newObj; the manager's OnPodUpdate gets the old version in its old* parameter and the new one in its new* parameter")
	if fn := c.Fn("pkg/scheduler/plugins/elasticquota", "Plugin", "OnPodUpdate"); fn != nil && len(fn.Params) == 3 {
		oldObj, newObj := ssa.Value(fn.Params[1]), ssa.Value(fn.Params[2])
		from := func(v ssa.Value) (o, n bool) {
			back := backwardAll(v)
			return back[oldObj], back[newObj]
		}
		n := 0
		ok, why := true, ""
		for _, cl := range an.Calls(fn, false) {
			a := an.Args(cl.Common())
			switch an.ShortCallee(cl.Common()) {
			case "OnPodDelete":
				if len(a) < 3 {
					continue
				}
				n++
				if o, nw := from(a[len(a)-1]); !o || nw {
					ok, why = false, c.InstrPos(cl)+": OnPodDelete is not given the old version of the pod"
				}
			case "OnPodAdd":
				if len(a) < 3 {
					continue
				}
				n++
				if o, nw := from(a[len(a)-1]); o || !nw {
					ok, why = false, c.InstrPos(cl)+": OnPodAdd is not given the new version of the pod"
				}
			case "OnPodUpdate":
				callee := cl.Common().StaticCallee()
				if callee == nil || len(callee.Params) != len(a) {
					continue
				}
				n++
				for i, p := range callee.Params {
					if !strings.HasSuffix(p.Type().String(), "v1.Pod") {
						continue
					}
					o, nw := from(a[i])
					lower := strings.ToLower(p.Name())
					if strings.HasPrefix(lower, "old") && (!o || nw) || strings.HasPrefix(lower, "new") && (o || !nw) {
						ok, why = false, c.InstrPos(cl)+": OnPodUpdate's parameter "+p.Name()+" gets the other version of the pod"
					}
				}
			}
		}
		r.Check(ok && n >= 3, "FLOW", fkey(fn)+"/old-with-old", c.Pos(fn.Pos()), "release the old version, charge the new one", "the quota is un-charged by another version of the pod than the one that was charged ("+why+"): an event that moves the pod and changes its requests leaves a permanent difference")
	}

	quotaDeleteMirror(c)
}

// quotaDeleteMirror: shared by C01 and C02 (the ancestors' request feeds the runtime division).
func quotaDeleteMirror(c *Ctx) {
	r := c.R
	r.Rule("MIRROR(delete takes out what was put in): in deleteQuotaNoLock the request delta handed to updateGroupDeltaRequestNoLock derives from getLimitRequestNoLock() of the deleted quota (the parent accumulated the request capped by max)")
	if fn := c.Fn(quotaCorePkg, "GroupQuotaManager", "deleteQuotaNoLock"); fn != nil {
		n := 0
		ok := true
		for _, cl := range an.Calls(fn, false) {
			if an.ShortCallee(cl.Common()) != "updateGroupDeltaRequestNoLock" {
				continue
			}
			n++
			a := an.Args(cl.Common())
			limited, raw := false, false
			for x := range backwardAll(a[2]) {
				if call, isC := x.(*ssa.Call); isC && an.ShortCallee(&call.Call) == "getLimitRequestNoLock" {
					limited = true
				}
				if fa, isFA := x.(*ssa.FieldAddr); isFA && fieldNameOf(fa) == "Request" && strings.HasSuffix(an.Path(fa), "CalculateInfo.Request") {
					raw = true
				}
			}
			if !limited || raw {
				ok = false
			}
		}
		r.Check(ok && n >= 1, "MIRROR", fkey(fn)+"/limited-request-out", c.Pos(fn.Pos()), "the capped request is subtracted", "a deleted quota subtracts its raw request from the ancestors although only the max-capped request had been added: the ancestors' request stays understated (clamped at zero) for good")
	}
}

// c02setters: a setter of the per-resource tree compares the field it is about to store.
func c02setters(c *Ctx) {
	r := c.R
	r.Rule("SETTER(compare what you store): in the quotaTree setters (updateMin, updateSharedWeight, updateRequest, updateGuaranteed, ...) a store into a field of the tree node that is guarded by a comparison of a node field with the new value compares THAT field (a guard on another field drops exactly the updates whose new value equals the other field, and the node keeps a stale figure)")
	n := 0
	for _, fn := range c.PkgFuncs(quotaCorePkg) {
		if fn.Signature.Recv() == nil || !strings.HasSuffix(fn.Signature.Recv().Type().String(), "quotaTree") || !strings.HasPrefix(fn.Name(), "update") {
			continue
		}
		for _, b := range fn.Blocks {
			for _, in := range b.Instrs {
				st, ok := in.(*ssa.Store)
				if !ok {
					continue
				}
				fa, ok := st.Addr.(*ssa.FieldAddr)
				if !ok {
					continue
				}
				if _, isP := st.Val.(*ssa.Parameter); !isP {
					continue
				}
				stored := fieldNameOf(fa)
				for _, g := range an.Guards(st) {
					bo, isB := g.Cond.(*ssa.BinOp)
					if !isB || (bo.X != st.Val && bo.Y != st.Val) {
						continue
					}
					other := bo.X
					if other == st.Val {
						other = bo.Y
					}
					cmpField := ""
					for x := range backwardAll(other) {
						if f2, isFA := x.(*ssa.FieldAddr); isFA && cmpField == "" {
							if owner, name, _, okF := an.FieldOf(f2); okF && strings.HasSuffix(owner, "quotaNode") {
								cmpField = name
							}
						}
					}
					if cmpField == "" {
						continue
					}
					n++
					r.Check(cmpField == stored, "SETTER", fkey(fn)+"/"+stored, c.InstrPos(st), "the change test looks at the stored field", "the store into "+stored+" is guarded by a comparison of the new value with the field "+cmpField+": an update to exactly that other value is dropped and the tree node keeps the previous "+stored)
				}
			}
		}
	}
	r.Floor("SETTER", "guarded stores in the quotaTree setters", n, 3)
}
