package rules

import (
	"go/token"
	"go/types"
	"sort"
	"strings"

	"golang.org/x/tools/go/ssa"

	"kverif/internal/an"
	"kverif/internal/load"
)

func init() { Registry["C16"] = c16 }

const (
	evictionsPkg  = "pkg/descheduler/evictions"
	runtimePkg    = "pkg/descheduler/framework/runtime"
	arbitratorPkg = "pkg/descheduler/controllers/migration/arbitrator"
)

var podEvictorCounters = map[string]map[string]bool{
	load.Module + "/" + evictionsPkg + ".PodEvictor": {"nodepodCount": true, "namespacePodCount": true, "totalCount": true},
}
var limiterCounters = map[string]map[string]bool{
	load.Module + "/" + evictionsPkg + ".EvictionLimiter": {"nodePodCount": true, "namespacePodCount": true, "totalCount": true},
}

func c16(c *Ctx) {
	c16handlerReportsOutward(c)
	c16nameIndexIgnoresUID(c)
	r := c.R
	r.Decides("the per-cycle eviction counters of PodEvictor and EvictionLimiter are only accessed under their lock")
	r.Decides("in every eviction operation the cap check and the counter increment happen inside one critical section (no check-then-act window in which concurrent evictors all pass the check)")
	r.Decides("the eviction API call is made only when dry-run is off; a refused eviction (false) is never preceded by a counter write")
	r.Decides("the four migration limits are registered only in the retryable filter chain, each under its own skip gate; a job is failed only by the non-retryable chain; the duplicate-job filter is evaluated before any other filter")
	r.Decides("the four limit filters count running jobs and (while arbitrating) pending jobs that passed arbitration - the same phase contexts in all four; a job is marked passed only after the API update succeeded")
	r.Decides("the waiting collection and the passed-jobs set are accessed only under their mutex")
	r.Decides("no pod is accepted by the arbitrator before the duplicate-job filter ran; the per-workload unavailable count sees inactive replicas")
	r.Declines("the counts themselves: jobs per node/namespace/workload/global per round, unavailable replicas arithmetic")

	// ---- LOCK on counters
	r.Rule("LOCK: PodEvictor.{nodepodCount,namespacePodCount,totalCount} and EvictionLimiter.{nodePodCount,namespacePodCount,totalCount} are read under lock and written under the write lock")
	c.RunLock("LOCK", LockCfg{Pkg: evictionsPkg, Type: "PodEvictor", Mutex: "lock", Guarded: []string{"nodepodCount", "namespacePodCount", "totalCount"}, MinFuncs: 5})
	c.RunLock("LOCK", LockCfg{Pkg: evictionsPkg, Type: "EvictionLimiter", Mutex: "lock", Guarded: []string{"nodePodCount", "namespacePodCount", "totalCount"}, MinFuncs: 8})

	// ---- ATOMIC
	r.Rule("ATOMIC: in PodEvictor.Evict and evictorProxy.Evict there is one mutex held for writing at every site that reads the counters (cap check) and every site that writes them (increment), and it is not released on any path between a check and an increment")
	touchPE := c.NewTouch(podEvictorCounters)
	touchLim := c.NewTouch(limiterCounters)
	if fn := c.Fn(evictionsPkg, "PodEvictor", "Evict"); fn != nil {
		c16atomic(c, fn, touchPE, podEvictorCounters)
	}
	if fn := c.Fn(runtimePkg, "evictorProxy", "Evict"); fn != nil {
		c16atomic(c, fn, touchLim, limiterCounters)
	}

	// ---- PATH dry-run
	r.Rule("PATH: the eviction API call (evictions.EvictPod in PodEvictor.Evict; evictPlugins[0].Evict in evictorProxy.Evict) is dominated by dryRun==false; after a counter write no 'return false' is reachable")
	if fn := c.Fn(evictionsPkg, "PodEvictor", "Evict"); fn != nil {
		c16dryRun(c, fn, func(cl ssa.CallInstruction) bool {
			return an.IsCallTo(cl.Common(), load.Module+"/"+evictionsPkg+".EvictPod")
		}, touchPE, podEvictorCounters)
	}
	if fn := c.Fn(runtimePkg, "evictorProxy", "Evict"); fn != nil {
		c16dryRun(c, fn, func(cl ssa.CallInstruction) bool {
			return cl.Common().IsInvoke() && cl.Common().Method.Name() == "Evict"
		}, touchLim, limiterCounters)
	}

	c16arbitrator(c)

	// ---- LOCK arbitrator state
	r.Rule("LOCK: arbitratorImpl.waitingCollection under arbitratorImpl.mu; filter.arbitratedPodMigrationJobs under filter.arbitratedMapLock")
	c16round(c, arbitratorPkg)
	c16accounting(c, arbitratorPkg)
	c16visitors(c, arbitratorPkg)
	c16values(c)
	c.RunLock("LOCK", LockCfg{Pkg: arbitratorPkg, Type: "arbitratorImpl", Mutex: "mu", Guarded: []string{"waitingCollection"}, MinFuncs: 4})
	c.RunLock("LOCK", LockCfg{Pkg: arbitratorPkg, Type: "filter", Mutex: "arbitratedMapLock", Guarded: []string{"arbitratedPodMigrationJobs"}, MinFuncs: 3})
}

func c16atomic(c *Ctx, fn *ssa.Function, touch *Touch, evictCounters map[string]map[string]bool) {
	r := c.R
	key := fkey(fn) + "/check+increment"
	reads, writes := touch.Sites(fn, evictCounters)
	if len(reads) == 0 || len(writes) == 0 {
		r.Unknown("ATOMIC", key, c.Pos(fn.Pos()), sprintf("expected a cap check (%d sites reading the counters) and an increment (%d sites writing them) in this operation", len(reads), len(writes)))
		return
	}
	locks := an.NewAnyLocks()
	// candidate mutexes: held for writing at every site
	var common map[string]bool
	for _, s := range append(append([]ssa.Instruction{}, reads...), writes...) {
		held := locks.HeldAt(s)
		cur := map[string]bool{}
		for k, w := range held {
			if w {
				cur[k] = true
			}
		}
		if common == nil {
			common = cur
		} else {
			for k := range common {
				if !cur[k] {
					delete(common, k)
				}
			}
		}
	}
	if len(common) == 0 {
		var rs, ws []string
		for _, s := range reads {
			rs = append(rs, c.InstrPos(s))
		}
		for _, s := range writes {
			ws = append(ws, c.InstrPos(s))
		}
		r.Fail("ATOMIC", key, c.Pos(fn.Pos()), "no mutex is held across the cap check (counter reads at "+strings.Join(rs, ", ")+") and the increment (counter writes at "+strings.Join(ws, ", ")+"): concurrent evictions can all pass the check before any of them counts, so the cap is exceeded")
		return
	}
	// not released in between
	isW := map[ssa.Instruction]bool{}
	for _, w := range writes {
		isW[w] = true
	}
	for k := range common {
		ok := true
		for _, rd := range reads {
			reach := an.Explore(fn, an.After(rd), nil, func(in ssa.Instruction) bool { return isW[in] })
			for _, in := range reach.Instrs() {
				if locks.IsUnlockOf(in, k) {
					ok = false
				}
			}
		}
		if ok {
			if why := perCallMutex(c, fn, k, touch, evictCounters); why != "" {
				r.Fail("ATOMIC", key, c.Pos(fn.Pos()), "the mutex "+k+" that brackets the cap check and the increment "+why+": concurrent callers lock different mutexes, so the check-then-count is not atomic")
				return
			}
			r.OK("ATOMIC", key, c.Pos(fn.Pos()), "cap check and increment are inside one critical section of "+k+", a mutex shared by all callers")
			return
		}
	}
	r.Fail("ATOMIC", key, c.Pos(fn.Pos()), "the mutex held at the check is released before the increment")
}

func c16dryRun(c *Ctx, fn *ssa.Function, isAPI func(ssa.CallInstruction) bool, touch *Touch, evictCounters map[string]map[string]bool) {
	r := c.R
	n := 0
	for _, cl := range an.Calls(fn, false) {
		if !isAPI(cl) {
			continue
		}
		n++
		ok := false
		for _, g := range an.Guards(cl) {
			if strings.HasSuffix(an.Path(g.Cond), ".dryRun") && !g.Truth {
				ok = true
			}
		}
		r.Check(ok, "PATH", fkey(fn)+"/api-call-needs-!dryRun", c.InstrPos(cl), "API call dominated by dryRun==false",
			"the eviction API call is not dominated by dryRun==false; guards: "+an.DescribeGuards(an.Guards(cl)))
	}
	if n == 0 {
		r.Unknown("PATH", fkey(fn)+"/api-call-needs-!dryRun", c.Pos(fn.Pos()), "eviction API call not found")
	}
	_, writes := touch.Sites(fn, evictCounters)
	for i, w := range writes {
		reach := an.Explore(fn, an.After(w), nil, nil)
		var bad []string
		for _, ret := range reach.Returns() {
			for _, alt := range reach.Alts(ret) {
				if reach.EvalAlt(alt, 0) != an.True {
					bad = append(bad, c.InstrPos(ret))
				}
			}
		}
		r.Check(len(bad) == 0, "PATH", sprintf("%s/no-refusal-after-count#%d", fkey(fn), i+1), c.InstrPos(w), "after counting, only 'true' is returned",
			"after the counters were incremented a refusal (false) can still be returned at "+strings.Join(bad, ", "))
	}
}

func c16arbitrator(c *Ctx) {
	r := c.R
	const fp = "(*" + load.Module + "/" + arbitratorPkg + ".filter)."
	// duplicate-job filter first
	r.Rule("PATH: in arbitratorImpl.Filter every other filter call is dominated by filterExistingPodMigrationJob(pod)==true, and no return that may accept the pod is reachable before it ran")
	if fn := c.Fn(arbitratorPkg, "arbitratorImpl", "Filter"); fn != nil {
		first := an.CallsTo(fn, false, fp+"filterExistingPodMigrationJob")
		if len(first) != 1 {
			r.Fail("PATH", fkey(fn)+"/duplicate-filter-first", c.Pos(fn.Pos()), "filterExistingPodMigrationJob is not called exactly once")
		} else {
			n := 0
			var bad []string
			for _, cl := range an.Calls(fn, false) {
				if cl == first[0] {
					continue
				}
				name := an.ShortCallee(cl.Common())
				isFilter := name == "reservationFilter" || (cl.Common().StaticCallee() == nil && !cl.Common().IsInvoke() && cl.Common().Value.Type().String() != "")
				if name != "reservationFilter" {
					// dynamic calls of the stored filter funcs
					if cl.Common().StaticCallee() != nil || cl.Common().IsInvoke() {
						isFilter = false
					}
					if _, isB := cl.Common().Value.(*ssa.Builtin); isB {
						isFilter = false
					}
				}
				if !isFilter {
					continue
				}
				n++
				if !an.GuardCall(an.Guards(cl), true, func(cc *ssa.CallCommon) bool { return cc == first[0].Common() }) {
					bad = append(bad, c.InstrPos(cl))
				}
			}
			// no accepting answer without the duplicate-job filter
			reachF := an.Explore(fn, nil, nil, func(in ssa.Instruction) bool { return in == ssa.Instruction(first[0]) })
			early := ""
			for _, ret := range reachF.Returns() {
				for _, alt := range reachF.Alts(ret) {
					if reachF.EvalAlt(alt, 0) != an.False {
						early = c.InstrPos(ret)
					}
				}
			}
			r.Check(early == "", "PATH", fkey(fn)+"/no-accept-before-duplicate-filter", c.InstrPos(first[0]), "no pod is accepted before the duplicate-job filter ran", "Filter can accept a pod (return at "+early+") without filterExistingPodMigrationJob having run: a pod that already has a live migration job gets a second one")
			r.Check(len(bad) == 0 && n >= 3, "PATH", fkey(fn)+"/duplicate-filter-first", c.InstrPos(first[0]), sprintf("%d later filter calls are all dominated by the duplicate-job filter passing", n),
				sprintf("filter calls not dominated by filterExistingPodMigrationJob()==true: %v (filter calls found: %d)", bad, n))
		}
	}

	// the unavailable count sees inactive replicas
	r.Rule("FLOW(unavailable input): in filterMaxMigratingOrUnavailablePerWorkload the pod list handed to getUnavailablePods (which itself tests IsPodActive && IsPodReady) comes from GetPodsForRef called with active=false, so terminating/failed replicas are still in the list and count as unavailable")
	if fn := c.Fn(arbitratorPkg, "filter", "filterMaxMigratingOrUnavailablePerWorkload"); fn != nil {
		var un ssa.CallInstruction
		for _, cl := range an.Calls(fn, false) {
			if an.ShortCallee(cl.Common()) == "getUnavailablePods" {
				un = cl
			}
		}
		key := fkey(fn) + "/unavailable-input"
		if un == nil {
			r.Fail("FLOW", key, c.Pos(fn.Pos()), "getUnavailablePods is no longer called")
		} else {
			call, idx := an.ResultOfCall(un.Common().Args[1])
			selfTests := false
			if g := un.Common().StaticCallee(); g != nil {
				for _, cl := range an.Calls(g, true) {
					if an.ShortCallee(cl.Common()) == "IsPodActive" {
						selfTests = true
					}
				}
			}
			ok := call != nil && idx == 0 && call.Call.IsInvoke() && call.Call.Method.Name() == "GetPodsForRef" && len(call.Call.Args) == 4 && isFalseConst(call.Call.Args[3])
			r.Check(ok || !selfTests, "FLOW", key, c.InstrPos(un), "the list includes inactive replicas (active=false)", "the list handed to getUnavailablePods is pre-filtered to active pods (or does not come from GetPodsForRef(.., false)): terminating and failed replicas are no longer counted as unavailable, so a workload at its limit still passes")
		}
	}

	// a job leaves the waiting collection only as a recorded passed job
	r.Rule("PATH: in arbitratorImpl.updatePassedJob the removal from waitingCollection is not reachable without markJobPassedArbitration (a job that leaves the waiting collection unrecorded counts against no budget)")
	if fn := c.Fn(arbitratorPkg, "arbitratorImpl", "updatePassedJob"); fn != nil {
		var mark ssa.Instruction
		var dels []ssa.Instruction
		for _, cl := range an.Calls(fn, false) {
			if an.ShortCallee(cl.Common()) == "markJobPassedArbitration" {
				mark = cl
			}
			if an.IsBuiltinCall(cl.Value(), "delete") && strings.HasSuffix(an.Path(cl.Common().Args[0]), ".waitingCollection") {
				dels = append(dels, cl)
			}
		}
		// a removal inside a function literal that is called on the spot (an inlined helper with its own defer)
		// counts at the call of the literal
		for _, cl := range an.Calls(fn, false) {
			var lit *ssa.Function
			switch v := cl.Common().Value.(type) {
			case *ssa.MakeClosure:
				lit, _ = v.Fn.(*ssa.Function)
			case *ssa.Function:
				if v.Parent() == fn {
					lit = v
				}
			}
			if lit == nil {
				// ... or inside an in-package helper that was split off (kept as a call when it has a defer of its own)
				if callee := cl.Common().StaticCallee(); callee != nil && callee.Pkg == fn.Pkg && callee != fn && len(callee.Blocks) > 0 {
					lit = callee
				}
			}
			if lit == nil {
				continue
			}
			for _, c2 := range an.Calls(lit, true) {
				if an.IsBuiltinCall(c2.Value(), "delete") && strings.HasSuffix(an.Path(c2.Common().Args[0]), ".waitingCollection") {
					dels = append(dels, cl)
				}
			}
		}
		ok := mark != nil && len(dels) > 0
		for _, d := range dels {
			if !mustPass(mark, d) {
				ok = false
			}
		}
		r.Check(ok, "PATH", fkey(fn)+"/leave-waiting<=recorded", c.Pos(fn.Pos()), "removed from waiting only after being recorded as passed", "the job can be removed from waitingCollection without markJobPassedArbitration: it is then neither waiting nor counted by the limit filters")
	}
	// the duplicate-job lookup tries both indexes
	r.Rule("PATH: in filter.existingPodMigrationJob, as long as nothing was found, no return is reachable without each of the index lookups (by pod UID and by namespace/name): a live job that references the pod by name only (no UID yet) must still be seen")
	if fn := c.Fn(arbitratorPkg, "filter", "existingPodMigrationJob"); fn != nil {
		var lookups []ssa.CallInstruction
		for _, cl := range an.Calls(fn, false) {
			if an.ShortCallee(cl.Common()) == "forEachAvailableMigrationJobs" {
				lookups = append(lookups, cl)
			}
		}
		f := an.Facts{}
		for _, b := range fn.Blocks {
			for _, in := range b.Instrs {
				if u, ok := in.(*ssa.UnOp); ok && u.Op == token.MUL {
					if a, ok := u.X.(*ssa.Alloc); ok {
						if bt, ok := a.Type().(*types.Pointer).Elem().Underlying().(*types.Basic); ok && bt.Kind() == types.Bool {
							f[u] = an.False // nothing found so far
						}
					}
				}
			}
		}
		okAll := len(lookups) >= 2 && len(f) >= 1
		for _, l := range lookups {
			target := l
			reach := an.Explore(fn, nil, f, func(in ssa.Instruction) bool { return in == ssa.Instruction(target) })
			if len(reach.Returns()) > 0 {
				okAll = false
			}
		}
		r.Check(okAll, "PATH", fkey(fn)+"/both-indexes", c.Pos(fn.Pos()), sprintf("%d index lookups are all tried before 'no job' is answered", len(lookups)), sprintf("'no live job' can be answered without trying every index (%d lookups, %d found-flag reads): a job that references the pod by name only is missed, the pod gets a second job and is not counted against the per-node limit", len(lookups), len(f)))
	}

	// limit comparisons
	r.Rule("COMPARE(limits): in each limit filter the refusal test is 'count >= limit' (not '>') with the limit derived from the matching argument (MaxMigratingGlobally / PerNode / PerNamespace; GetMaxMigrating / GetMaxUnavailable for workloads); once that test holds every reachable return is false; the gate-skip shortcut tests the filter's own gate constant")
	for _, lf := range []struct {
		fn      string
		markers []string
		gates   []string
	}{
		{"filterMaxMigratingGlobally", []string{"MaxMigratingGlobally"}, []string{"MaxMigratingGlobally"}},
		{"filterMaxMigratingPerNode", []string{"MaxMigratingPerNode"}, []string{"MaxMigratingPerNode"}},
		{"filterMaxMigratingPerNamespace", []string{"MaxMigratingPerNamespace"}, []string{"MaxMigratingPerNamespace"}},
		{"filterMaxMigratingOrUnavailablePerWorkload", []string{"GetMaxMigrating", "GetMaxUnavailable"}, []string{"MaxMigratingPerWorkload", "MaxUnavailablePerWorkload"}},
	} {
		fn := c.Fn(arbitratorPkg, "filter", lf.fn)
		if fn == nil {
			continue
		}
		for _, marker := range lf.markers {
			rooted := func(v ssa.Value) bool {
				for x := range backwardAll(v) {
					switch y := x.(type) {
					case *ssa.FieldAddr:
						if fieldNameOf(y) == marker {
							return true
						}
					case *ssa.Call:
						if an.ShortCallee(&y.Call) == marker {
							return true
						}
					}
				}
				return false
			}
			var cmps []*ssa.BinOp
			for _, b := range fn.Blocks {
				for _, in := range b.Instrs {
					bo, ok := in.(*ssa.BinOp)
					if !ok {
						continue
					}
					switch bo.Op {
					case token.GEQ, token.GTR, token.LSS, token.LEQ:
						if rooted(bo.Y) && !rooted(bo.X) {
							cmps = append(cmps, bo)
						}
					}
				}
			}
			key := fkey(fn) + "/limit:" + marker
			if len(cmps) != 1 {
				r.Check(false, "COMPARE", key, c.Pos(fn.Pos()), "", sprintf("expected exactly one comparison of a count with the %s limit, found %d", marker, len(cmps)))
				continue
			}
			bo := cmps[0]
			reach := an.Explore(fn, an.After(bo), an.Facts{bo: an.True}, nil)
			allFalse := true
			for _, ret := range reach.Returns() {
				for _, alt := range reach.Alts(ret) {
					if reach.EvalAlt(alt, 0) != an.False {
						allFalse = false
					}
				}
			}
			r.Check(bo.Op == token.GEQ && allFalse, "COMPARE", key, c.InstrPos(bo), "refused when count >= limit", sprintf("the %s test is '%s' and a true outcome leads only to refusal: %v - with '>' one job more than the configured maximum is admitted", marker, bo.Op, allFalse))
		}
		// gate constants
		var seenGates []string
		for _, cl := range an.Calls(fn, false) {
			if an.ShortCallee(cl.Common()) == "isEvictionGateSkipped" {
				if g, ok := constString(cl.Common().Args[1]); ok {
					seenGates = append(seenGates, g)
				}
			}
		}
		sort.Strings(seenGates)
		want := append([]string{}, lf.gates...)
		sort.Strings(want)
		r.Check(strings.Join(seenGates, ",") == strings.Join(want, ","), "COMPARE", fkey(fn)+"/own-gate", c.Pos(fn.Pos()), "skipped only by its own eviction gate", sprintf("the filter is skipped by gate(s) %v, expected %v: skipping a different gate silently disables this limit", seenGates, want))
	}

	// registration table
	r.Rule("TABLE/FLOW: in filter.initFilters the bound methods filterMaxMigratingGlobally/PerNode/PerNamespace/OrUnavailablePerWorkload flow into the closure stored in retryablePodFilter and not into the one stored in nonRetryablePodFilter; each append is dominated by isEvictionGateSkipped(<its gate>)==false")
	if fn := c.Fn(arbitratorPkg, "filter", "initFilters"); fn != nil {
		var retry, nonRetry *ssa.MakeClosure
		for _, b := range fn.Blocks {
			for _, in := range b.Instrs {
				st, ok := in.(*ssa.Store)
				if !ok {
					continue
				}
				_, f, _, ok := an.FieldOf(st.Addr)
				if !ok {
					continue
				}
				mc, _ := an.Origin(st.Val).(*ssa.MakeClosure)
				switch f {
				case "retryablePodFilter":
					retry = mc
				case "nonRetryablePodFilter":
					nonRetry = mc
				}
			}
		}
		if retry == nil || nonRetry == nil {
			r.Fail("TABLE", fkey(fn)+"/chains", c.Pos(fn.Pos()), "cannot find the closures stored into retryablePodFilter / nonRetryablePodFilter")
		} else {
			gates := map[string][]string{
				"filterMaxMigratingGlobally":                 {"MaxMigratingGlobally"},
				"filterMaxMigratingPerNode":                  {"MaxMigratingPerNode"},
				"filterMaxMigratingPerNamespace":             {"MaxMigratingPerNamespace"},
				"filterMaxMigratingOrUnavailablePerWorkload": {"MaxMigratingPerWorkload", "MaxUnavailablePerWorkload"},
			}
			found := map[string]bool{}
			for _, b := range fn.Blocks {
				for _, in := range b.Instrs {
					mc, ok := in.(*ssa.MakeClosure)
					if !ok {
						continue
					}
					bf, _ := mc.Fn.(*ssa.Function)
					if bf == nil {
						continue
					}
					name := strings.TrimSuffix(bf.Name(), "$bound")
					if _, ok := gates[name]; !ok {
						continue
					}
					found[name] = true
					reach := an.ForwardReach(mc, nil)
					key := fkey(fn) + "/limit/" + name
					inRetry, inNon := reach[retry], reach[nonRetry]
					r.Check(inRetry && !inNon, "TABLE", key+"/chain", c.InstrPos(mc), "registered in the retryable chain only",
						sprintf("limit filter reaches retryable chain=%v, non-retryable chain=%v: a job refused for lack of headroom would fail instead of waiting", inRetry, inNon))
					// own skip gate
					okGate := false
					var seen []string
					for _, g := range an.Guards(mc) {
						call, _ := an.ResultOfCall(g.Cond)
						if call == nil || an.ShortCallee(&call.Call) != "isEvictionGateSkipped" || g.Truth {
							continue
						}
						arg := an.Path(call.Call.Args[len(call.Call.Args)-1])
						seen = append(seen, arg)
						for _, want := range gates[name] {
							if strings.Contains(arg, `"`+want+`"`) {
								okGate = true
							}
						}
					}
					if len(gates[name]) == 2 {
						// registered unless both gates are skipped: no single dominating guard; check the append is
						// unreachable when both gates are skipped
						facts := an.Facts{}
						for _, cl := range an.Calls(fn, false) {
							if an.ShortCallee(cl.Common()) == "isEvictionGateSkipped" && cl.Value() != nil {
								arg := an.Path(cl.Common().Args[len(cl.Common().Args)-1])
								for _, want := range gates[name] {
									if strings.Contains(arg, `"`+want+`"`) {
										facts[cl.Value()] = an.True
									}
								}
							}
						}
						okGate = len(facts) == 2 && !an.Explore(fn, nil, facts, nil).Reached(mc)
					}
					r.Check(okGate, "TABLE", key+"/gate", c.InstrPos(mc), "registered under its own skip gate", "not registered under its own skip gate; gates seen: "+strings.Join(seen, ","))
				}
			}
			for name := range gates {
				if !found[name] {
					r.Fail("TABLE", fkey(fn)+"/limit/"+name, c.Pos(fn.Pos()), "limit filter is no longer registered in initFilters")
				}
			}
		}
	}

	// filtering: isFailed only from the non-retryable chain
	r.Rule("PATH: in arbitratorImpl.filtering, assuming every call of the nonRetryablePodFilter value returns true, no return with isFailed==true is reachable")
	if fn := c.Fn(arbitratorPkg, "arbitratorImpl", "filtering"); fn != nil {
		facts := an.Facts{}
		n := 0
		for _, cl := range an.Calls(fn, false) {
			if cl.Common().StaticCallee() != nil || cl.Common().IsInvoke() || cl.Value() == nil {
				continue
			}
			if strings.HasSuffix(an.Path(cl.Common().Value), ".nonRetryablePodFilter") {
				facts[cl.Value()] = an.True
				n++
			}
		}
		reach := an.Explore(fn, nil, facts, nil)
		var bad []string
		for _, ret := range reach.Returns() {
			for _, alt := range reach.Alts(ret) {
				if reach.EvalAlt(alt, 0) != an.False {
					bad = append(bad, c.InstrPos(ret))
				}
			}
		}
		r.Check(n == 1 && len(bad) == 0, "PATH", fkey(fn)+"/isFailed-only-nonretryable", c.Pos(fn.Pos()), "a job fails only when the non-retryable chain refuses it",
			sprintf("with the non-retryable chain passing (calls found: %d) a return with isFailed possibly true is reachable at %v", n, bad))
	}

	// updatePassedJob: mark only after successful update
	r.Rule("PATH: in arbitratorImpl.updatePassedJob, markJobPassedArbitration is dominated by the error of client.Update being nil")
	if fn := c.Fn(arbitratorPkg, "arbitratorImpl", "updatePassedJob"); fn != nil {
		marks := an.CallsTo(fn, false, fp+"markJobPassedArbitration")
		ok := len(marks) == 1 && an.GuardErrNil(an.Guards(marks[0]), func(cc *ssa.CallCommon) bool { return cc.IsInvoke() && cc.Method.Name() == "Update" })
		pos := c.Pos(fn.Pos())
		if len(marks) == 1 {
			pos = c.InstrPos(marks[0])
		}
		r.Check(ok, "PATH", fkey(fn)+"/mark-after-persist", pos, "marked passed only after the API update succeeded", "the job is marked as passed without (or before) a successful API update")
	}

	// per-job pairing of phase and arbitration requirement
	r.Rule("PATH: in forEachAvailableMigrationJobs the phase and the checkArbitration flag are read from the same phase context element, inside the loop over the jobs (per job: a Running job always counts, a Pending job counts only if it passed arbitration); checkJobPassedArbitration is consulted only under that element's flag")
	if fn := c.Fn(arbitratorPkg, "filter", "forEachAvailableMigrationJobs"); fn != nil {
		var handlerCall ssa.CallInstruction
		for _, cl := range an.Calls(fn, false) {
			if cl.Common().StaticCallee() == nil && !cl.Common().IsInvoke() {
				if p, ok := cl.Common().Value.(*ssa.Parameter); ok && p.Name() == "handler" {
					handlerCall = cl
				}
			}
		}
		key := fkey(fn) + "/phase-flag-pairing"
		if handlerCall == nil {
			r.Unknown("PATH", key, c.Pos(fn.Pos()), "handler call not found")
		} else {
			jobsHdr := an.InnermostLoopHeader(handlerCall.Block())
			bases := map[string]map[string]bool{}
			inLoop := true
			for _, b := range fn.Blocks {
				for _, in := range b.Instrs {
					fa, ok := in.(*ssa.FieldAddr)
					if !ok {
						continue
					}
					owner, f, base, ok := an.FieldOf(fa)
					if !ok || !strings.HasSuffix(owner, ".phaseContext") || (f != "phase" && f != "checkArbitration") {
						continue
					}
					// only reads
					isRead := false
					for _, ref := range *fa.Referrers() {
						if u, ok := ref.(*ssa.UnOp); ok && u.X == ssa.Value(fa) {
							isRead = true
						}
					}
					if !isRead {
						continue
					}
					k := an.Path(base)
					if bases[k] == nil {
						bases[k] = map[string]bool{}
					}
					bases[k][f] = true
					if jobsHdr == nil || !(jobsHdr.Dominates(b) && an.ForwardReachBlocks(b)[jobsHdr]) {
						inLoop = false
					}
				}
			}
			paired := false
			for _, fs := range bases {
				if fs["phase"] && fs["checkArbitration"] {
					paired = true
				}
			}
			var chk ssa.CallInstruction
			for _, cl := range an.Calls(fn, false) {
				if an.ShortCallee(cl.Common()) == "checkJobPassedArbitration" {
					chk = cl
				}
			}
			guarded := false
			if chk != nil {
				for _, g := range an.Guards(chk) {
					if strings.HasSuffix(an.Path(g.Cond), ".checkArbitration") && g.Truth {
						guarded = true
					}
				}
			}
			r.Check(paired && inLoop && guarded, "PATH", key, c.InstrPos(handlerCall), "phase and arbitration requirement are paired per context, per job",
				sprintf("the pairing of phase and checkArbitration is lost (read from one element: %v, evaluated per job: %v, arbitration consulted only under the element's flag: %v): e.g. Running jobs are only counted if they are in the in-memory passed set, which is empty after a restart", paired, inLoop, guarded))
		}
	}

	// SIBLING: phase contexts
	r.Rule("SIBLING: the four limit filters build, under checkPodArbitrating(pod)==true, the same phase contexts {Running,false},{Pending,true}")
	vec := map[string]string{}
	for _, name := range []string{"filterMaxMigratingGlobally", "filterMaxMigratingPerNode", "filterMaxMigratingPerNamespace", "filterMaxMigratingOrUnavailablePerWorkload"} {
		fn := c.Fn(arbitratorPkg, "filter", name)
		if fn == nil {
			continue
		}
		vec[name] = phaseContexts(fn)
	}
	var names []string
	for n := range vec {
		names = append(names, n)
	}
	sort.Strings(names)
	const want = "Pending:true,Running:false"
	for _, n := range names {
		r.Check(vec[n] == want, "SIBLING", "arbitrator.filter."+n+"/phase-contexts", "", "phase contexts under arbitration: "+vec[n],
			"phase contexts under checkPodArbitrating are {"+vec[n]+"}, the siblings use {"+want+"}")
	}
	r.Floor("SIBLING", "limit filters compared", len(names), 4)
}

// phaseContexts extracts the (phase, checkArbitration) literals stored under checkPodArbitrating()==true,
// following one level of in-package helper calls.
func phaseContexts(fn *ssa.Function) string {
	var out []string
	var scan func(f *ssa.Function, needGuard bool, depth int)
	scan = func(f *ssa.Function, needGuard bool, depth int) {
		phase := map[ssa.Value]string{} // element address -> phase
		check := map[ssa.Value]string{}
		for _, b := range f.Blocks {
			for _, in := range b.Instrs {
				st, ok := in.(*ssa.Store)
				if !ok {
					continue
				}
				owner, fld, base, ok := an.FieldOf(st.Addr)
				if !ok || !strings.HasSuffix(owner, ".phaseContext") {
					continue
				}
				if needGuard && !an.GuardCall(an.Guards(st), true, func(cc *ssa.CallCommon) bool { return an.ShortCallee(cc) == "checkPodArbitrating" }) {
					continue
				}
				cst, _ := st.Val.(*ssa.Const)
				if cst == nil || cst.Value == nil {
					continue
				}
				switch fld {
				case "phase":
					phase[base] = strings.Trim(cst.Value.ExactString(), `"`)
				case "checkArbitration":
					check[base] = cst.Value.ExactString()
				}
			}
		}
		for b, p := range phase {
			ca := check[b]
			if ca == "" {
				ca = "false"
			}
			out = append(out, p+":"+ca)
		}
		if depth < 1 {
			for _, cl := range an.Calls(f, false) {
				callee := cl.Common().StaticCallee()
				if callee != nil && callee.Pkg == f.Pkg && callee.Signature.Recv() != nil && strings.Contains(strings.ToLower(callee.Name()), "phasecontext") {
					scan(callee, needGuard, depth+1)
				}
			}
		}
	}
	scan(fn, true, 0)
	sort.Strings(out)
	return strings.Join(out, ",")
}

// atomicSection: every site of fn that reads or writes the fields (directly or through callees) is under one mutex
// held for writing, which is not released between the first and the last site.
func atomicSection(c *Ctx, rule string, fn *ssa.Function, touch *Touch, fields map[string]map[string]bool, failMsg string) {
	r := c.R
	key := fkey(fn) + "/one-critical-section"
	reads, writes := touch.Sites(fn, fields)
	sites := append(append([]ssa.Instruction{}, reads...), writes...)
	if len(writes) == 0 || len(sites) < 2 {
		r.Unknown(rule, key, c.Pos(fn.Pos()), sprintf("expected reads and writes of the guarded state in this operation (reads %d, writes %d)", len(reads), len(writes)))
		return
	}
	locks := an.NewAnyLocks()
	var common map[string]bool
	for _, s := range sites {
		cur := map[string]bool{}
		for k, w := range locks.HeldAt(s) {
			if w {
				cur[k] = true
			}
		}
		if common == nil {
			common = cur
		} else {
			for k := range common {
				if !cur[k] {
					delete(common, k)
				}
			}
		}
	}
	if len(common) == 0 {
		r.Fail(rule, key, c.Pos(fn.Pos()), failMsg+" (no mutex is write-held at all "+sprintf("%d", len(sites))+" sites)")
		return
	}
	for k := range common {
		released := false
		for _, in := range an.Explore(fn, an.After(sites[0]), nil, nil).Instrs() {
			if locks.IsUnlockOf(in, k) {
				// an unlock that is followed by another site
				r2 := an.Explore(fn, an.After(in), nil, nil)
				for _, s := range sites {
					if r2.Reached(s) {
						released = true
					}
				}
			}
		}
		if !released {
			r.OK(rule, key, c.Pos(fn.Pos()), "all "+sprintf("%d", len(sites))+" sites are inside one critical section of "+k)
			return
		}
	}
	r.Fail(rule, key, c.Pos(fn.Pos()), failMsg+" (the lock is released and re-acquired between sites)")
}

// perCallMutex explains (non-empty) when the mutex with lock key k used in fn lives in an object that is created
// afresh per use (allocated in a function that returns it and has two or more call sites outside test-helper
// packages) and that object is not the owner of the guarded counters.
func perCallMutex(c *Ctx, fn *ssa.Function, k string, touch *Touch, counters map[string]map[string]bool) string {
	var owner *types.Named
	for _, cl := range an.Calls(fn, false) {
		f := cl.Common().StaticCallee()
		if f == nil || f.Pkg == nil || f.Pkg.Pkg.Path() != "sync" || len(cl.Common().Args) == 0 {
			continue
		}
		fa, ok := cl.Common().Args[0].(*ssa.FieldAddr)
		if !ok || an.BaseKey(fa) != k {
			continue
		}
		owner = an.NamedOf(fa.X.Type())
	}
	if owner == nil || owner.Obj().Pkg() == nil {
		return ""
	}
	oname := owner.Obj().Pkg().Path() + "." + owner.Obj().Name()
	if _, isCounterOwner := counters[oname]; isCounterOwner {
		return ""
	}
	// allocation sites of the owner type
	for _, af := range c.P.AllFuncs() {
		allocates := false
		for _, b := range af.Blocks {
			for _, in := range b.Instrs {
				if a, ok := in.(*ssa.Alloc); ok && a.Heap {
					if n := an.NamedOf(a.Type()); n != nil && n.Obj() == owner.Obj() {
						// returned directly?
						for _, ref := range *a.Referrers() {
							switch x := ref.(type) {
							case *ssa.Return:
								allocates = true
							case *ssa.MakeInterface:
								for _, r2 := range *x.Referrers() {
									if _, ok := r2.(*ssa.Return); ok {
										allocates = true
									}
								}
							}
						}
					}
				}
			}
		}
		if !allocates {
			continue
		}
		sites := 0
		for _, cf := range c.P.AllFuncs() {
			pk := cf.Pkg
			for f := cf; pk == nil && f != nil; f = f.Parent() {
				pk = f.Pkg
			}
			if pk != nil && strings.HasSuffix(pk.Pkg.Path(), "/testing") {
				continue
			}
			for _, cl := range an.Calls(cf, false) {
				for _, callee := range touch.Callees(cl) {
					if callee == af {
						sites++
					}
				}
			}
		}
		if sites >= 2 {
			return sprintf("lives in a %s, which is created afresh by %s (%d call sites) for every caller", owner.Obj().Name(), fkey(af), sites)
		}
	}
	return ""
}
