package rules

import (
	"strings"

	"golang.org/x/tools/go/ssa"

	"kverif/internal/an"
)

// c06noSkip: every CPU of a recorded cpuset enters the ledger.
func c06noSkip(c *Ctx) {
	r := c.R
	r.Rule("LOOP(no skip): in NodeAllocation.addPodAllocation every iteration over the CPUs of the request reaches the store into allocatedCPUs (a CPU the current topology does not know is still held by the pod; skipping it offers it again once the topology is complete)")
	fn := c.Fn(numaPkg, "NodeAllocation", "addPodAllocation")
	if fn == nil {
		return
	}
	n, ok := 0, true
	for _, b := range fn.Blocks {
		for _, in := range b.Instrs {
			mu, isMU := in.(*ssa.MapUpdate)
			if !isMU || !strings.HasSuffix(an.Path(mu.Map), ".allocatedCPUs") {
				continue
			}
			hdr := an.InnermostLoopHeader(mu.Block())
			if hdr == nil || len(hdr.Succs) != 2 {
				continue
			}
			n++
			for _, body := range hdr.Succs {
				if !(body == mu.Block() || body.Dominates(mu.Block())) && !an.ForwardReachBlocks(body)[mu.Block()] {
					continue
				}
				if !an.ForwardReachBlocks(body)[hdr] {
					continue
				}
				reach := an.Explore(fn, &an.Start{Block: body, Index: 0}, nil, func(x ssa.Instruction) bool { return x == ssa.Instruction(mu) })
				if reach.BlockReached(hdr) || len(reach.Returns()) > 0 {
					ok = false
				}
			}
		}
	}
	r.Check(ok && n >= 1, "LOOP", fkey(fn)+"/every-cpu-recorded", c.Pos(fn.Pos()), "no CPU of the request is skipped", "an iteration over the request's CPUs can end without recording the CPU: it stays free in the ledger although the pod holds it")
}

// c19releaseKnownOnly: a release is accepted only for a pod that is recorded.
func c19releaseKnownOnly(c *Ctx) {
	r := c.R
	r.Rule("PATH(release needs a record): in nodeDevice.isValid, with add == false and the pod absent from the allocate set, every return is false (a replayed release of a pod that holds nothing - a terminated pod whose device was handed on - must not subtract from the current holder)")
	fn := c.Fn(devPkg, "nodeDevice", "isValid")
	if fn == nil {
		return
	}
	facts := an.Facts{}
	for _, p := range fn.Params {
		if p.Name() == "add" || (p == fn.Params[len(fn.Params)-1] && strings.HasSuffix(p.Type().String(), "bool")) {
			facts[p] = an.False
		}
	}
	nLk := 0
	for _, b := range fn.Blocks {
		for _, in := range b.Instrs {
			if lk, ok := in.(*ssa.Lookup); ok && lk.CommaOk && strings.HasSuffix(lk.Index.Type().String(), "NamespacedName") {
				if e := extract(lk, 1); e != nil {
					facts[e] = an.False
					nLk++
				}
			}
		}
	}
	reach := an.Explore(fn, nil, facts, nil)
	bad := ""
	for _, ret := range reach.Returns() {
		for _, alt := range reach.Alts(ret) {
			if reach.EvalAlt(alt, 0) != an.False {
				bad = c.InstrPos(ret)
			}
		}
	}
	r.Check(nLk >= 1 && len(facts) >= 2 && bad == "", "PATH", fkey(fn)+"/release-needs-record", c.Pos(fn.Pos()), "an unknown pod's release is refused", "a release is accepted for a pod that is not in the allocate set ("+bad+"): the amounts are subtracted from whoever holds the device now, and the device looks free")
}

// c12failurePaths: the cache records only what was written; no-merge needs containment; no rewrite without the old set.
func c12failurePaths(c *Ctx) {
	r := c.R
	r.Rule("PATH(cache only after success): in LeveledUpdateBatch, from behind update() or MergeUpdate() having returned a non-nil error, ResourceCache.SetDefault is not reached within the same iteration (an ignorable error - cgroup not there yet - wrote nothing; caching the target makes the next rounds skip the file)")
	if fn := c.Fn(rexPkg, "ResourceUpdateExecutorImpl", "LeveledUpdateBatch"); fn != nil {
		n := 0
		for _, cl := range an.Calls(fn, false) {
			if !cl.Common().IsInvoke() {
				continue
			}
			m := cl.Common().Method.Name()
			var errV ssa.Value
			switch m {
			case "update":
				errV = cl.Value()
			case "MergeUpdate":
				errV = extract(cl.Value(), 1)
			default:
				continue
			}
			if errV == nil {
				continue
			}
			n++
			hdr := an.InnermostLoopHeader(cl.Block())
			reach := an.Explore(fn, an.After(cl), an.Facts{errV: an.NonNil}, func(in ssa.Instruction) bool {
				return hdr != nil && in.Block() == hdr
			})
			bad := ""
			for _, in := range reach.Instrs() {
				if c2, ok := in.(ssa.CallInstruction); ok && an.ShortCallee(c2.Common()) == "SetDefault" {
					bad = c.InstrPos(c2)
				}
			}
			r.Check(bad == "", "PATH", sprintf("%s/%s-failed=>not-cached", fkey(fn), m), c.InstrPos(cl), "a failed write is not cached", "after "+m+"() failed the updater is still stored in the cache ("+bad+"): the file keeps its old content while the cache says the target was written")
		}
		r.Floor("PATH", "write calls in LeveledUpdateBatch", n, 2)
	}
	r.Rule("PATH(no-merge needs containment): in MergeConditionIfCPUSetIsLooser a return (_, false, nil) - 'the top-down pass need not touch this file' - happens only under Equals(old) or IsSubsetOf(old) being true")
	if fn := c.Fn(rexPkg, "", "MergeConditionIfCPUSetIsLooser"); fn != nil {
		reach := an.Explore(fn, nil, nil, nil)
		bad := ""
		n := 0
		for _, ret := range reach.Returns() {
			for _, alt := range reach.Alts(ret) {
				if len(alt.Results) != 3 || reach.EvalAlt(alt, 1) != an.False || reach.EvalAlt(alt, 2) == an.NonNil {
					continue
				}
				n++
				contained := false
				for _, g := range append(append([]an.Guard{}, alt.Guards...), an.Guards(alt.Ret)...) {
					if call, _ := an.ResultOfCall(g.Cond); call != nil && g.Truth {
						if sn := an.ShortCallee(&call.Call); sn == "Equals" || sn == "IsSubsetOf" {
							contained = true
						}
					}
				}
				if !contained {
					bad = c.InstrPos(ret)
				}
			}
		}
		r.Check(bad == "" && n >= 1, "PATH", fkey(fn)+"/no-merge-needs-containment", c.Pos(fn.Pos()), "no-merge only for equal or contained sets", "the top-down pass is skipped for a set that is neither equal to nor contained in the old one ("+bad+"): with two empty levels the child is written before its parent")
	}
	r.Rule("ERR(no rewrite without the old set): in CPUSuppress.adjustByCPUSet, once cgroupReader.ReadCPUSet returned an error, no apply*/write* method of the plugin is reachable (without the old set the loosening union is just the new set and the root is tightened before its children)")
	if fn := c.Fn(suppressPkg, "CPUSuppress", "adjustByCPUSet"); fn != nil {
		var rd ssa.CallInstruction
		for _, cl := range an.Calls(fn, false) {
			if cl.Common().IsInvoke() && cl.Common().Method.Name() == "ReadCPUSet" {
				rd = cl
			}
		}
		if rd == nil {
			r.Fail("ERR", fkey(fn)+"/read-failed=>no-write", c.Pos(fn.Pos()), "ReadCPUSet is not called")
			return
		}
		facts := an.Facts{}
		if e := extract(rd.Value(), 1); e != nil {
			facts[e] = an.NonNil
		}
		reach := an.Explore(fn, an.After(rd), facts, nil)
		bad := ""
		for _, in := range reach.Instrs() {
			if c2, ok := in.(ssa.CallInstruction); ok {
				if sn := an.ShortCallee(c2.Common()); strings.HasPrefix(sn, "apply") || strings.HasPrefix(sn, "write") {
					bad = c.InstrPos(c2)
				}
			}
		}
		r.Check(len(facts) == 1 && bad == "", "ERR", fkey(fn)+"/read-failed=>no-write", c.InstrPos(rd), "an unreadable root cpuset ends the round", "the cpuset is rewritten although the current root cpuset could not be read ("+bad+"): the union with the old set is empty and the root is shrunk while the pods still hold the old CPUs")
	}
}
