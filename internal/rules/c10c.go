package rules

import (
	"go/token"

	"golang.org/x/tools/go/ssa"

	"kverif/internal/an"
)

// c10floor: the 'at least two CPUs' floor is applied to the number of CPUs, not to a value in another unit.
func c10floor(c *Ctx) {
	r := c.R
	r.Rule("UNIT(floor of two): in adjustByCPUSet the value compared with beMinCPUSetCores (and replaced by it) is a CPU count - it derives from the division by 1000 / math.Ceil of the milli value - never the milli value itself")
	fn := c.Fn(suppressPkg, "CPUSuppress", "adjustByCPUSet")
	if fn == nil {
		return
	}
	n, ok := 0, true
	for _, b := range fn.Blocks {
		for _, in := range b.Instrs {
			var other ssa.Value
			switch x := in.(type) {
			case *ssa.BinOp:
				if x.Op != token.LSS && x.Op != token.LEQ && x.Op != token.GTR && x.Op != token.GEQ {
					continue
				}
				if k, isK := constIntOf(x.Y); isK && k == 2 {
					other = x.X
				} else if k, isK := constIntOf(x.X); isK && k == 2 {
					other = x.Y
				}
			case *ssa.Call:
				// the builtin form of the clamp: max(cpus, 2)
				if an.IsBuiltinCall(x, "max") && len(x.Call.Args) == 2 {
					if k, isK := constIntOf(x.Call.Args[1]); isK && k == 2 {
						other = x.Call.Args[0]
					} else if k, isK := constIntOf(x.Call.Args[0]); isK && k == 2 {
						other = x.Call.Args[1]
					}
				}
			}
			if other == nil {
				continue
			}
			n++
			milli, cores := false, false
			for x := range backwardAll(other) {
				if call, isC := x.(*ssa.Call); isC {
					switch an.ShortCallee(&call.Call) {
					case "MilliValue":
						milli = true
					case "Ceil":
						cores = true
					}
				}
				if d, isD := x.(*ssa.BinOp); isD && d.Op == token.QUO {
					cores = true
				}
			}
			if milli && !cores {
				ok = false
			}
		}
	}
	r.Check(ok && n >= 1, "UNIT", fkey(fn)+"/floor-in-cpus", c.Pos(fn.Pos()), "the floor compares a CPU count", "the floor of two CPUs is compared with a milli-CPU value: a budget between 2m and 1000m passes the test and the BE cpuset is written with a single CPU")
}
