package rules

import (
	"go/token"
	"go/types"
	"sort"
	"strings"

	"golang.org/x/tools/go/ssa"

	"kverif/internal/an"
)

// c18classify: which nodes become sources and destinations.
func c18classify(c *Ctx, pkg string) {
	r := c.R
	r.Decides("a node enters the overloaded class only where the high-threshold filter said so (and the low filter did not), the prod-overloaded class only where the prod-high filter said so, and a destination class only where the matching low filter(s) said so, each filter evaluated on the node's own usage and its own thresholds; the four filters pair the right predicate with the right usage and threshold (overutilized = some resource strictly above its threshold, underutilized = none above); the call site hands the filters over in the order classifyNodes expects")
	fn := c.Fn(pkg, "", "classifyNodes")
	if fn == nil {
		return
	}
	key := fkey(fn)
	// parameters: nodeUsages, nodeThresholds, low, high, prodLow, prodHigh
	const (
		pLow      = 2
		pHigh     = 3
		pProdLow  = 4
		pProdHigh = 5
	)
	r.Rule("CLASSIFY: in classifyNodes every append feeding return slot k is guarded by the filter outcomes of that class - low: low filter true; high: high filter true and low filter false; prodLow: prodLow filter true, prodHigh filter false; prodHigh: prodHigh filter true; bothLow: low and prodLow true, prodHigh false - where a filter is the call of the function-typed parameter at that position, with the loop's node usage and nodeThresholds[<that usage>.node.Name]")
	filterOf := func(v ssa.Value) (int, *ssa.Call) {
		cl, ok := v.(*ssa.Call)
		if !ok {
			return -1, nil
		}
		for i := pLow; i <= pProdHigh; i++ {
			if isParamOf(fn, cl.Call.Value, i) {
				return i, cl
			}
		}
		return -1, nil
	}
	want := map[int]map[int]bool{ // slot -> param -> required outcome
		0: {pLow: true},
		1: {pHigh: true, pLow: false},
		2: {pProdLow: true, pProdHigh: false},
		3: {pProdHigh: true},
		4: {pLow: true, pProdLow: true, pProdHigh: false},
	}
	// appends feeding each slot
	slotAppends := map[int][]*ssa.Call{}
	for _, alt := range an.ReturnAlts(fn) {
		for k, res := range alt.Results {
			for x := range backwardAll(res) {
				if cl, ok := x.(*ssa.Call); ok && an.IsBuiltinCall(cl, "append") {
					dup := false
					for _, o := range slotAppends[k] {
						if o == cl {
							dup = true
						}
					}
					if !dup {
						slotAppends[k] = append(slotAppends[k], cl)
					}
				}
			}
		}
	}
	names := []string{"low", "high", "prodLow", "prodHigh", "bothLow"}
	nApp := 0
	for k := 0; k < 5; k++ {
		ok := len(slotAppends[k]) > 0
		var why []string
		for _, ap := range slotAppends[k] {
			nApp++
			got := map[int]bool{}
			argsOK := true
			for _, g := range an.Guards(ap) {
				v, neg := an.StripNot(g.Cond)
				if i, cl := filterOf(v); i >= 0 {
					got[i] = g.Truth != neg
					// arguments: the loop's usage and its own thresholds
					as := cl.Call.Args
					if len(as) == 2 {
						lk, isLk := localFieldSource(firstSource(as[1])).(*ssa.Lookup)
						own := false
						if isLk && isParamOf(fn, lk.X, 1) {
							for x := range backwardAll(lk.Index) {
								if x == firstSource(as[0]) {
									own = true
								}
							}
						}
						if !own {
							argsOK = false
						}
					}
				}
			}
			for p, w := range want[k] {
				if g, has := got[p]; !has || g != w {
					ok = false
					why = append(why, sprintf("%s: filter #%d must be %v (known: %v, value %v)", c.InstrPos(ap), p-1, w, has, g))
				}
			}
			if !argsOK {
				ok = false
				why = append(why, c.InstrPos(ap)+": a filter is evaluated with thresholds of another node")
			}
		}
		sort.Strings(why)
		r.Check(ok, "CLASSIFY", key+"/class/"+names[k], c.Pos(fn.Pos()), sprintf("%d append(s), each under the class's filter outcomes", len(slotAppends[k])), sprintf("nodes can enter class %s without the required filter outcomes (%d appends; %s)", names[k], len(slotAppends[k]), strings.Join(why, "; ")))
	}
	r.Floor("CLASSIFY", "appends into the five classes", nApp, 6)

	// ---- the filters
	r.Rule("TABLE(filters): lowThresholdFilter = isNodeUnderutilized(usage.usage, threshold.lowResourceThreshold), prodLowThresholdFilter = isNodeUnderutilized(usage.prodUsage, threshold.prodLowResourceThreshold), highThresholdFilter = isNodeOverutilized(usage.usage, threshold.highResourceThreshold), prodHighThresholdFilter = isNodeOverutilized(usage.prodUsage, threshold.prodHighResourceThreshold): predicate, usage field and threshold field per filter; a true result only from that call")
	type ft struct{ name, pred, usage, thr string }
	for _, t := range []ft{
		{"lowThresholdFilter", "isNodeUnderutilized", "usage", "lowResourceThreshold"},
		{"prodLowThresholdFilter", "isNodeUnderutilized", "prodUsage", "prodLowResourceThreshold"},
		{"highThresholdFilter", "isNodeOverutilized", "usage", "highResourceThreshold"},
		{"prodHighThresholdFilter", "isNodeOverutilized", "prodUsage", "prodHighResourceThreshold"},
	} {
		f := c.Fn(pkg, "", t.name)
		if f == nil {
			continue
		}
		var call *ssa.Call
		n := 0
		for _, cl := range an.Calls(f, false) {
			if cc, ok := cl.(*ssa.Call); ok && strings.HasPrefix(an.ShortCallee(&cc.Call), "isNode") && strings.HasSuffix(an.ShortCallee(&cc.Call), "utilized") {
				call = cc
				n++
			}
		}
		ok, why := n == 1, sprintf("%d predicate calls", n)
		if ok {
			fieldOf := func(v ssa.Value) string {
				if ld, isLd := firstSource(v).(*ssa.UnOp); isLd {
					if _, fname, _, ok := an.FieldOf(ld.X); ok {
						return fname
					}
				}
				if fl, isF := firstSource(v).(*ssa.Field); isF {
					if st, ok := fl.X.Type().Underlying().(*types.Struct); ok {
						return st.Field(fl.Field).Name()
					}
				}
				return an.Path(v)
			}
			u, th := fieldOf(call.Call.Args[0]), fieldOf(call.Call.Args[1])
			pred := an.ShortCallee(&call.Call)
			// a true result only from the predicate
			fromPred := true
			for _, alt := range an.ReturnAlts(f) {
				res := alt.Results[0]
				if k, isC := res.(*ssa.Const); isC {
					if isTrueConst(k) {
						fromPred = false
					}
					continue
				}
				cl, _ := an.ResultOfCall(firstSource(res))
				if cl != call {
					fromPred = false
				}
			}
			ok = pred == t.pred && strings.HasSuffix(u, t.usage) && u == t.usage && th == t.thr && fromPred
			why = sprintf("predicate %s (want %s), usage field %s (want %s), threshold field %s (want %s), true only from the predicate=%v", pred, t.pred, u, t.usage, th, t.thr, fromPred)
		}
		r.Check(ok, "TABLE", fkey(f)+"/pairing", c.Pos(f.Pos()), t.pred+"("+t.usage+", "+t.thr+")", "the filter pairs the wrong predicate, usage or threshold: "+why)
	}

	// ---- the predicates
	r.Rule("PATH(predicates): in isNodeOverutilized a resource is recorded only where usage.Cmp(threshold) is positive (either operand order) and the result is len(recorded) > 0; in isNodeUnderutilized false is returned only where usage.Cmp(threshold) is positive; usage comes from the first parameter, threshold from the second")
	for _, name := range []string{"isNodeOverutilized", "isNodeUnderutilized"} {
		f := c.Fn(pkg, "", name)
		if f == nil {
			continue
		}
		isUsage := func(v ssa.Value) bool {
			for x := range backwardAll(v) {
				if lk, ok := x.(*ssa.Lookup); ok && isParamOf(f, lk.X, 0) {
					return true
				}
			}
			return false
		}
		isThr := func(v ssa.Value) bool {
			for x := range backwardAll(v) {
				if rg, ok := x.(*ssa.Range); ok && isParamOf(f, rg.X, 1) {
					return true
				}
				if lk, ok := x.(*ssa.Lookup); ok && isParamOf(f, lk.X, 1) {
					return true
				}
			}
			return false
		}
		ok, n := true, 0
		why := ""
		if name == "isNodeOverutilized" {
			for _, b := range f.Blocks {
				for _, in := range b.Instrs {
					mu, isMU := in.(*ssa.MapUpdate)
					if !isMU {
						continue
					}
					n++
					poss := cmpPossible(an.Guards(mu), isUsage, isThr)
					if poss == nil || poss[-1] || poss[0] {
						ok = false
						why = sprintf("%s: a resource is recorded as over its threshold where usage.Cmp(threshold) may be %v", c.InstrPos(mu), keysInt(poss))
					}
				}
			}
			// the flag
			for _, alt := range an.ReturnAlts(f) {
				bo, isBo := firstSource(alt.Results[1]).(*ssa.BinOp)
				flag := false
				if isBo {
					if cl, isCl := bo.X.(*ssa.Call); isCl && an.IsBuiltinCall(cl, "len") && firstSource(cl.Call.Args[0]) == firstSource(alt.Results[0]) {
						if k, isC := constIntOf(bo.Y); isC && ((bo.Op == token.GTR && k == 0) || (bo.Op == token.GEQ && k == 1) || (bo.Op == token.NEQ && k == 0)) {
							flag = true
						}
					}
				}
				if !flag {
					ok = false
					why += " the flag is not len(recorded) > 0"
				}
			}
		} else {
			for _, alt := range an.ReturnAlts(f) {
				k, isC := alt.Results[0].(*ssa.Const)
				if !isC {
					ok = false
					why = "a non-constant result"
					continue
				}
				if isTrueConst(k) {
					continue
				}
				n++
				poss := cmpPossible(alt.Guards, isUsage, isThr)
				if poss == nil || poss[-1] || poss[0] {
					ok = false
					why = sprintf("%s: 'not underutilized' is returned where usage.Cmp(threshold) may be %v", c.InstrPos(alt.Ret), keysInt(poss))
				}
			}
		}
		r.Check(ok && n >= 1, "PATH", fkey(f)+"/strictly-above", c.Pos(f.Pos()), "decided by usage > threshold", sprintf("the predicate does not decide by 'usage strictly above threshold' (%d sites): %s", n, why))
	}

	// ---- the call site
	r.Rule("FLOW(call site): processOneNodePool passes lowThresholdFilter, highThresholdFilter, prodLowThresholdFilter, prodHighThresholdFilter to classifyNodes in parameter order")
	if caller := c.Fn(pkg, "LowNodeLoad", "processOneNodePool"); caller != nil {
		n := 0
		for _, cl := range an.Calls(caller, false) {
			if cl.Common().StaticCallee() != fn {
				continue
			}
			n++
			wantNames := []string{"lowThresholdFilter", "highThresholdFilter", "prodLowThresholdFilter", "prodHighThresholdFilter"}
			ok := true
			var got []string
			for i, w := range wantNames {
				a := firstSource(cl.Common().Args[pLow+i])
				nm := ""
				if f, isF := a.(*ssa.Function); isF {
					nm = f.Name()
				}
				got = append(got, nm)
				if nm != w {
					ok = false
				}
			}
			r.Check(ok, "FLOW", fkey(caller)+"/filters-in-order", c.InstrPos(cl), "filters handed over in parameter order", sprintf("classifyNodes receives %v where it expects %v", got, wantNames))
		}
		r.Floor("FLOW", "calls of classifyNodes", n, 1)
	}
}

// localFieldSource: a value read back from a field of a struct local of the function is what was stored there, when the
// field is stored exactly once.
func localFieldSource(v ssa.Value) ssa.Value {
	var a *ssa.Alloc
	field := -1
	switch x := v.(type) {
	case *ssa.UnOp:
		if fa, ok := x.X.(*ssa.FieldAddr); ok && x.Op == token.MUL {
			a, _ = fa.X.(*ssa.Alloc)
			field = fa.Field
		}
	case *ssa.Field:
		// a field of the whole struct value loaded from the local
		if ld, ok := x.X.(*ssa.UnOp); ok && ld.Op == token.MUL {
			a, _ = ld.X.(*ssa.Alloc)
			field = x.Field
		}
	}
	if a == nil {
		return v
	}
	if res := localFieldStored(a, field, 0); res != nil {
		return firstSource(res)
	}
	return v
}

// localFieldStored: the single value stored into field #field of the struct local a (followed through one copy of a
// whole struct from another local).
func localFieldStored(a *ssa.Alloc, field, depth int) ssa.Value {
	if a.Referrers() == nil || depth > 3 {
		return nil
	}
	var vals []ssa.Value
	var whole []ssa.Value
	for _, ref := range *a.Referrers() {
		if st, ok := ref.(*ssa.Store); ok && st.Addr == ssa.Value(a) {
			whole = append(whole, st.Val)
			continue
		}
		f2, ok := ref.(*ssa.FieldAddr)
		if !ok || f2.Field != field || f2.Referrers() == nil {
			continue
		}
		for _, r2 := range *f2.Referrers() {
			if st, ok := r2.(*ssa.Store); ok && st.Addr == ssa.Value(f2) {
				vals = append(vals, st.Val)
			}
		}
	}
	switch {
	case len(whole) == 0 && len(vals) == 1:
		return vals[0]
	case len(whole) == 1 && len(vals) == 0:
		if ld, ok := whole[0].(*ssa.UnOp); ok && ld.Op == token.MUL {
			if b, ok := ld.X.(*ssa.Alloc); ok {
				return localFieldStored(b, field, depth+1)
			}
		}
	}
	return nil
}

// c18bases: one capacity base for every percentage, and every source node of a pool is marked processed.
func c18bases(c *Ctx, pkg string) {
	r := c.R
	r.Decides("every percentage and threshold of the balancer is computed against the same capacity base: node.Status.Allocatable is read in GetNodeRawAllocatableFromNode only (on amplified nodes the raw and the amplified allocatable differ by the amplification ratio, so a mean taken over one base and thresholds over the other classify nodes below the true mean as overloaded); every overloaded node a pool looked at is recorded as processed, whatever its usage afterwards (a later overlapping pool would start over from the same, not yet refreshed metric and evict again)")
	r.Rule("WHO(capacity base): in package descheduler/framework/plugins/loadaware the field NodeStatus.Allocatable is loaded in GetNodeRawAllocatableFromNode only; all other functions obtain capacity through that accessor")
	nAcc := 0
	for _, fn := range c.PkgFuncs(pkg) {
		for _, cl := range an.Calls(fn, false) {
			if an.ShortCallee(cl.Common()) == "GetNodeRawAllocatableFromNode" {
				nAcc++
			}
		}
		if fn.Name() == "GetNodeRawAllocatableFromNode" {
			continue
		}
		n := 0
		for _, b := range fn.Blocks {
			for _, in := range b.Instrs {
				fa, ok := in.(*ssa.FieldAddr)
				if !ok {
					continue
				}
				o, f, _, ok := an.FieldOf(fa)
				if !ok || f != "Allocatable" || !strings.HasSuffix(o, "NodeStatus") {
					continue
				}
				n++
				r.Fail("WHO", sprintf("%s/raw-capacity#%d", fkey(fn), n), c.InstrPos(fa), "node.Status.Allocatable is read directly instead of GetNodeRawAllocatableFromNode(node): on a node with amplified resources this percentage is taken over another base than the thresholds it is compared with")
			}
		}
	}
	r.Floor("WHO", "capacity reads through GetNodeRawAllocatableFromNode (the scan is alive)", nAcc, 5)

	r.Rule("PATH(processed): in LowNodeLoad.processOneNodePool, behind evictPodsFromSourceNodes, processedNodes.Insert(<node name>) is reached in every iteration of a loop over the overloaded class, with no condition in front of it")
	if fn := c.Fn(pkg, "LowNodeLoad", "processOneNodePool"); fn != nil {
		var ins ssa.CallInstruction
		for _, cl := range an.Calls(fn, false) {
			if an.ShortCallee(cl.Common()) == "Insert" && isParamOrDerived(fn, an.Args(cl.Common())[0], "processedNodes") {
				ins = cl
			}
		}
		key := fkey(fn) + "/every-source-node-processed"
		if ins == nil {
			r.Fail("PATH", key, c.Pos(fn.Pos()), "the overloaded nodes of the pool are no longer recorded as processed")
			return
		}
		hdr := an.InnermostLoopHeader(ins.Block())
		ok := hdr != nil
		why := "the insert is not inside a loop"
		if ok {
			start := &an.Start{Block: hdr.Succs[0], Index: 0}
			reach := an.Explore(fn, start, nil, func(in ssa.Instruction) bool { return in == ssa.Instruction(ins) })
			ok = !reach.BlockReached(hdr) && len(reach.Returns()) == 0 && loopClosed(hdr)
			why = "an iteration can end without the insert (a condition sits in front of it)"
			// the loop ranges over the overloaded class of classifyNodes
			over := false
			for x := range backwardAll(variadicFirst(ins)) {
				if e, isE := x.(*ssa.Extract); isE && e.Index == 1 {
					if cl, isC := e.Tuple.(*ssa.Call); isC && an.ShortCallee(&cl.Call) == "classifyNodes" {
						over = true
					}
				}
			}
			if !over {
				ok = false
				why = "the loop does not range over the overloaded class"
			}
		}
		r.Check(ok, "PATH", key, c.InstrPos(ins), "every overloaded node of the pool is recorded", "not every overloaded node is recorded as processed: "+why)
	}
}

// isParamOrDerived: v is the parameter with that name (or loaded from its spill cell).
func isParamOrDerived(fn *ssa.Function, v ssa.Value, name string) bool {
	for _, s := range cellSources(v) {
		if p, ok := s.(*ssa.Parameter); ok && p.Name() == name {
			return true
		}
	}
	return false
}

// variadicFirst: the first element passed in the variadic tail of the call.
func variadicFirst(cl ssa.CallInstruction) ssa.Value {
	as := cl.Common().Args
	if es := variadicElems(as[len(as)-1]); len(es) > 0 {
		return es[0]
	}
	return as[len(as)-1]
}

// c18names: the resource list of a pool covers every resource that has a threshold of any kind.
func c18names(c *Ctx, pkg string) {
	r := c.R
	r.Rule("TABLE(one resource list): processOneNodePool takes the pool's resource list (the one handed to getNodeThresholds) from the keys of result(s) of newThresholds; over those results, newThresholds completes the map for the names of ALL FOUR configured threshold maps (the keys of the stores into it derive from low, high, lowProd and highProd) - a resource with only a prod threshold still is a resource of the pool, else it silently does not count when a node is judged underused")
	pool := c.Fn(pkg, "LowNodeLoad", "processOneNodePool")
	nt := c.Fn(pkg, "", "newThresholds")
	if pool == nil || nt == nil {
		return
	}
	var mapParams []*ssa.Parameter
	for _, p := range nt.Params {
		if _, ok := p.Type().Underlying().(*types.Map); ok {
			mapParams = append(mapParams, p)
		}
	}
	// which results define the resource list
	used := map[int]bool{}
	for _, cl := range an.Calls(pool, false) {
		if an.ShortCallee(cl.Common()) != "getNodeThresholds" {
			continue
		}
		for _, a := range cl.Common().Args {
			if _, ok := a.Type().Underlying().(*types.Slice); !ok {
				continue
			}
			for x := range backwardAll(a) {
				if ex, ok := x.(*ssa.Extract); ok {
					if call, ok := ex.Tuple.(*ssa.Call); ok && call.Call.StaticCallee() == nt {
						used[ex.Index] = true
					}
				}
			}
		}
	}
	covered := map[*ssa.Parameter]bool{}
	nStores := 0
	for i := range used {
		if i >= len(mapParams) {
			continue
		}
		covered[mapParams[i]] = true
		for _, b := range nt.Blocks {
			for _, in := range b.Instrs {
				mu, ok := in.(*ssa.MapUpdate)
				if !ok || !backwardAll(mu.Map)[mapParams[i]] {
					continue
				}
				nStores++
				back := backwardAll(mu.Key)
				for _, p := range mapParams {
					if back[p] {
						covered[p] = true
					}
				}
			}
		}
	}
	var missing []string
	for _, p := range mapParams {
		if !covered[p] {
			missing = append(missing, p.Name())
		}
	}
	r.Check(len(mapParams) == 4 && len(used) > 0 && nStores > 0 && len(missing) == 0, "TABLE", fkey(nt)+"/one-resource-list", c.Pos(nt.Pos()), "the maps defining the pool's resource list are completed over the names of all four threshold maps", sprintf("the pool's resource list misses the resources configured only in %v: their thresholds are never computed and a node above them counts as underused", missing))
}

// c18mark: a mark is judged on the state after the expiry roll-over.
func c18mark(c *Ctx) {
	r := c.R
	r.Rule("FLOW(state after roll-over): in BasicDetector.Mark the state handed to onNormality / onAbnormalities is the result of currentState(now) (the state after an expired anomaly has been rolled over), not a reading of the field taken before")
	fn := c.Fn(anomalyPkg, "BasicDetector", "Mark")
	if fn == nil {
		return
	}
	n, ok := 0, true
	for _, cl := range an.Calls(fn, false) {
		sn := an.ShortCallee(cl.Common())
		if sn != "onNormality" && sn != "onAbnormalities" {
			continue
		}
		n++
		a := an.Args(cl.Common())
		srcs := cellSources(a[1])
		if len(srcs) == 0 {
			ok = false
		}
		for _, s := range srcs {
			call, _ := an.ResultOfCall(s)
			if call == nil || an.ShortCallee(&call.Call) != "currentState" {
				ok = false
			}
		}
	}
	r.Check(ok && n >= 2, "FLOW", fkey(fn)+"/state-after-rollover", c.Pos(fn.Pos()), "the mark is dispatched on currentState(now)", "a mark is dispatched on a state read before the expiry roll-over: an anomaly that has timed out is re-entered by the first abnormal mark, without the required consecutive rounds")
}
