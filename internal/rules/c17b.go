package rules

import (
	"go/token"
	"sort"
	"strings"

	"golang.org/x/tools/go/ssa"

	"kverif/internal/an"
	"kverif/internal/load"
)

// c17more: who may change a job's phase, the stale-object gate, and the two abort predicates.
func c17more(c *Ctx) {
	r := c.R
	r.Decides("every function of the migration controller that assigns Status.Phase is reachable (through static in-package calls) from doMigrate only, which returns at once for a terminal job; doMigrate itself runs only for an object that is not older than the one recorded after the previous round, and the object is recorded again after every round; a reservation that succeeded for another pod (or for none that is known) aborts the job; a reservation scheduled onto the pod's own node aborts the job")
	const rp = "(*" + load.Module + "/" + migrationPkg + ".Reconciler)."

	// ---- who may write the phase
	r.Rule("WHO(phase): in package controllers/migration every function containing a store to <job>.Status.Phase has, walking the static in-package callers upward, doMigrate as its only root; none of the functions on the way is used as a function value; doMigrate is called from Reconcile only")
	fns := c.PkgFuncs(migrationPkg)
	callers := map[*ssa.Function]map[*ssa.Function]bool{}
	addrTaken := map[*ssa.Function]bool{}
	inPkg := map[*ssa.Function]bool{}
	for _, f := range fns {
		inPkg[f] = true
	}
	for _, f := range fns {
		for _, b := range f.Blocks {
			for _, in := range b.Instrs {
				if ci, ok := in.(ssa.CallInstruction); ok {
					if cal := ci.Common().StaticCallee(); cal != nil && inPkg[cal] {
						if callers[cal] == nil {
							callers[cal] = map[*ssa.Function]bool{}
						}
						callers[cal][f] = true
					}
				}
				for _, op := range in.Operands(nil) {
					if op == nil || *op == nil {
						continue
					}
					if g, ok := (*op).(*ssa.Function); ok && inPkg[g] {
						if ci, isCall := in.(ssa.CallInstruction); isCall && ci.Common().Value == ssa.Value(g) {
							continue
						}
						addrTaken[g] = true
					}
				}
			}
		}
	}
	doMigrate := c.Fn(migrationPkg, "Reconciler", "doMigrate")
	nW := 0
	for _, f := range fns {
		writes := false
		for _, b := range f.Blocks {
			for _, in := range b.Instrs {
				if st, ok := in.(*ssa.Store); ok {
					if o, fld, base, ok := an.FieldOf(st.Addr); ok && fld == "Phase" && strings.HasSuffix(o, "PodMigrationJobStatus") {
						if _, fresh := rootOf(base).(*ssa.Alloc); !fresh { // a job object being built is not a recorded job
							writes = true
						}
					}
				}
			}
		}
		if !writes {
			continue
		}
		nW++
		roots := map[string]bool{}
		taken := ""
		seen := map[*ssa.Function]bool{}
		var up func(g *ssa.Function)
		up = func(g *ssa.Function) {
			if seen[g] {
				return
			}
			seen[g] = true
			if addrTaken[g] {
				taken = g.Name()
			}
			if g == doMigrate {
				roots[g.Name()] = true
				return
			}
			if len(callers[g]) == 0 {
				roots[g.Name()] = true
				return
			}
			for cl := range callers[g] {
				up(cl)
			}
		}
		up(f)
		var rs []string
		for k := range roots {
			rs = append(rs, k)
		}
		sort.Strings(rs)
		r.Check(len(rs) == 1 && rs[0] == "doMigrate" && taken == "", "WHO", fkey(f)+"/phase-writer-under-doMigrate", c.Pos(f.Pos()), "reachable from doMigrate only",
			sprintf("this function assigns the job's phase and is reachable from %v (used as a function value: %q): a path that does not pass doMigrate's terminal-phase exit can move a finished job to another phase", rs, taken))
	}
	r.Floor("WHO", "functions assigning Status.Phase", nW, 10)
	if doMigrate != nil {
		var cs []string
		for cl := range callers[doMigrate] {
			cs = append(cs, cl.Name())
		}
		sort.Strings(cs)
		r.Check(len(cs) == 1 && cs[0] == "Reconcile" && !addrTaken[doMigrate], "WHO", fkey(doMigrate)+"/called-from-Reconcile-only", c.Pos(doMigrate.Pos()), "Reconcile is the only caller", sprintf("doMigrate is called from %v (function value: %v)", cs, addrTaken[doMigrate]))
	}

	// ---- the stale-object gate
	r.Rule("PATH(stale object): in Reconciler.Reconcile doMigrate(job) is reached only when assumedCache.isNewOrSameObj(job) returned true for the same object, and from behind doMigrate no return is reachable without assumedCache.assume(job); isNewOrSameObj returns false when the object's version compares below the recorded one")
	if fn := c.Fn(migrationPkg, "Reconciler", "Reconcile"); fn != nil && doMigrate != nil {
		key := fkey(fn)
		dm := an.CallsTo(fn, false, rp+"doMigrate")
		var gate, assume ssa.CallInstruction
		for _, cl := range an.Calls(fn, false) {
			switch an.ShortCallee(cl.Common()) {
			case "isNewOrSameObj":
				gate = cl
			case "assume":
				assume = cl
			}
		}
		ok, why := len(dm) == 1 && gate != nil && assume != nil, sprintf("doMigrate calls=%d, gate=%v, assume=%v", len(dm), gate != nil, assume != nil)
		if ok {
			job := dm[0].Common().Args[2]
			same := firstSource(gate.Common().Args[1]) == firstSource(job) && firstSource(assume.Common().Args[1]) == firstSource(job)
			reach := an.Explore(fn, an.After(gate), an.Facts{gate.Value(): an.False}, nil)
			gated := !reach.Reached(dm[0])
			r2 := an.Explore(fn, an.After(dm[0]), nil, func(in ssa.Instruction) bool { return in == ssa.Instruction(assume) })
			recorded := len(r2.Returns()) == 0
			ok = same && gated && recorded
			why = sprintf("gate, doMigrate and assume see the same object=%v, doMigrate unreachable when the gate says stale=%v, assume not skippable after doMigrate=%v", same, gated, recorded)
		}
		r.Check(ok, "PATH", key+"/stale-object-gate", c.Pos(fn.Pos()), "a stale copy of the job is not processed; every processed copy is recorded", "the stale-object protection is broken ("+why+"): a reconcile on an informer copy that does not yet show the Evicting condition evicts the pod a second time")
	}
	if fn := c.Fn(migrationPkg, "assumedCache", "isNewOrSameObj"); fn != nil {
		// the comparison new < stored leads to false
		var cmp *ssa.BinOp
		for _, b := range fn.Blocks {
			for _, in := range b.Instrs {
				bo, ok := in.(*ssa.BinOp)
				if !ok || (bo.Op != token.LSS && bo.Op != token.GTR && bo.Op != token.LEQ && bo.Op != token.GEQ) {
					continue
				}
				cx, _ := an.ResultOfCall(firstSource(bo.X))
				cy, _ := an.ResultOfCall(firstSource(bo.Y))
				if cx != nil && cy != nil && an.ShortCallee(&cx.Call) == "getObjVersion" && an.ShortCallee(&cy.Call) == "getObjVersion" {
					cmp = bo
				}
			}
		}
		ok, why := cmp != nil, "no comparison of the two versions"
		if ok {
			cx, _ := an.ResultOfCall(firstSource(cmp.X))
			// which side is the incoming object
			xNew := isParamOf(fn, cx.Call.Args[1], 0) || func() bool {
				for x := range backwardAll(cx.Call.Args[1]) {
					if isParamOf(fn, x, 0) {
						return true
					}
				}
				return false
			}()
			// assume "new < stored"
			truth := an.False
			switch {
			case xNew && (cmp.Op == token.LSS || cmp.Op == token.LEQ), !xNew && (cmp.Op == token.GTR || cmp.Op == token.GEQ):
				truth = an.True
			}
			reach := an.Explore(fn, an.After(cmp), an.Facts{cmp: truth}, nil)
			for _, ret := range reach.Returns() {
				for _, alt := range reach.Alts(ret) {
					if reach.EvalAlt(alt, 0) != an.False {
						ok = false
						why = "with the incoming version below the recorded one a result other than false is reachable"
					}
				}
			}
		}
		r.Check(ok, "PATH", fkey(fn)+"/older=>false", c.Pos(fn.Pos()), "an older copy is refused", "isNewOrSameObj does not refuse an older copy: "+why)
	}

	// ---- bound by another pod
	r.Rule("PATH(bound by another): in abortJobIfReservationBoundByAnotherPod, with the reservation read and succeeded: when it has no bound pod, or a bound pod whose UID differs from the job's pod, every return reports aborted==true")
	if fn := c.Fn(migrationPkg, "Reconciler", "abortJobIfReservationBoundByAnotherPod"); fn != nil {
		key := fkey(fn)
		var get, succ, bound *ssa.Call
		for _, cl := range an.Calls(fn, false) {
			call, ok := cl.(*ssa.Call)
			if !ok {
				continue
			}
			switch {
			case call.Call.IsInvoke() && call.Call.Method.Name() == "GetReservation":
				get = call
			case an.ShortCallee(&call.Call) == "IsReservationSucceeded":
				succ = call
			case call.Call.IsInvoke() && call.Call.Method.Name() == "GetBoundPod":
				bound = call
			}
		}
		var uidCmp *ssa.BinOp
		for _, b := range fn.Blocks {
			for _, in := range b.Instrs {
				if bo, ok := in.(*ssa.BinOp); ok && (bo.Op == token.EQL || bo.Op == token.NEQ) && strings.HasSuffix(an.Path(bo.X), ".UID") && strings.HasSuffix(an.Path(bo.Y), ".UID") {
					uidCmp = bo
				}
			}
		}
		if get == nil || succ == nil || bound == nil || uidCmp == nil {
			r.Fail("PATH", key+"/other-pod=>abort", c.Pos(fn.Pos()), sprintf("GetReservation=%v IsReservationSucceeded=%v GetBoundPod=%v UID comparison=%v: a step of the test is gone", get != nil, succ != nil, bound != nil, uidCmp != nil))
		} else {
			base := an.Facts{extract(get, 1): an.Nil, extract(get, 0): an.NonNil, succ: an.True}
			// the guards that lead into the test hold (reservation options present)
			for _, g := range an.Guards(get) {
				if g.Truth {
					base[g.Cond] = an.True
				} else {
					base[g.Cond] = an.False
				}
			}
			allTrue := func(extra an.Facts) bool {
				f := an.Facts{}
				for k, v := range base {
					f[k] = v
				}
				for k, v := range extra {
					f[k] = v
				}
				reach := an.Explore(fn, nil, f, nil)
				n := 0
				for _, ret := range reach.Returns() {
					for _, alt := range reach.Alts(ret) {
						n++
						if reach.EvalAlt(alt, 0) != an.True {
							return false
						}
					}
				}
				return n > 0
			}
			differ := an.False
			if uidCmp.Op == token.NEQ {
				differ = an.True
			}
			ok1 := allTrue(an.Facts{bound: an.NonNil, uidCmp: differ, fn.Params[3]: an.NonNil})
			ok2 := allTrue(an.Facts{bound: an.Nil, fn.Params[3]: an.NonNil})
			ok3 := allTrue(an.Facts{fn.Params[3]: an.Nil})
			r.Check(ok1 && ok2 && ok3, "PATH", key+"/other-pod=>abort", c.InstrPos(succ), "a reservation consumed by somebody else aborts the job", sprintf("a succeeded reservation that is not bound to the job's pod does not always abort the job (other UID=%v, no bound pod=%v, job's pod unknown=%v): the pod would be evicted although its reservation is gone", ok1, ok2, ok3))
		}
	}

	// ---- same node
	r.Rule("PATH(same node): in abortJobIfReserveOnSameNode, with the pod read successfully and the reservation's node non-empty and equal to the pod's node, every return reports aborted==true")
	if fn := c.Fn(migrationPkg, "Reconciler", "abortJobIfReserveOnSameNode"); fn != nil {
		key := fkey(fn)
		f := an.Facts{}
		nCmp := 0
		var getErr ssa.Value
		for _, b := range fn.Blocks {
			for _, in := range b.Instrs {
				switch x := in.(type) {
				case *ssa.Call:
					if x.Call.IsInvoke() && x.Call.Method.Name() == "Get" && getErr == nil {
						getErr = x
					}
				case *ssa.BinOp:
					if x.Op != token.EQL && x.Op != token.NEQ {
						continue
					}
					px, py := an.Path(x.X), an.Path(x.Y)
					node := strings.Contains(px, "GetScheduledNodeName") || strings.Contains(py, "GetScheduledNodeName")
					if !node {
						continue
					}
					if s, isC := constString(x.Y); isC && s == "" {
						// node != ""
						if x.Op == token.NEQ {
							f[x] = an.True
						} else {
							f[x] = an.False
						}
						nCmp++
					} else if strings.HasSuffix(px, ".Spec.NodeName") || strings.HasSuffix(py, ".Spec.NodeName") {
						if x.Op == token.EQL {
							f[x] = an.True
						} else {
							f[x] = an.False
						}
						nCmp++
					}
				}
			}
		}
		ok := nCmp >= 2 && getErr != nil
		if ok {
			f[getErr] = an.Nil
			reach := an.Explore(fn, nil, f, nil)
			n := 0
			for _, ret := range reach.Returns() {
				for _, alt := range reach.Alts(ret) {
					n++
					if reach.EvalAlt(alt, 0) != an.True {
						ok = false
					}
				}
			}
			ok = ok && n > 0
		}
		r.Check(ok, "PATH", key+"/same-node=>abort", c.Pos(fn.Pos()), "a reservation on the pod's own node aborts the job", sprintf("a reservation scheduled onto the node the pod runs on does not abort the job (%d node comparisons recognised, pod read found=%v): the pod is evicted and can only come back to the same node", nCmp, getErr != nil))
	}
}
