package rules

import (
	"strings"

	"golang.org/x/tools/go/ssa"

	"kverif/internal/an"
)

// c15values: key checks compare like with like; the pod lookup for a delete is cluster-wide.
func c15values(c *Ctx) {
	r := c.R
	r.Rule("LIKE-TO-LIKE(keys): every call checkQuotaKeyIncluded(a, b) / checkQuotaKeySame(a, b) in the quota webhook compares the same figure of the two quotas (Min with Min, Max with Max)")
	n := 0
	for _, fn := range c.PkgFuncs(quotaWebhookPkg) {
		k := 0
		for _, cl := range an.Calls(fn, false) {
			sn := an.ShortCallee(cl.Common())
			if sn != "checkQuotaKeyIncluded" && sn != "checkQuotaKeySame" {
				continue
			}
			a := cl.Common().Args
			fa, fb := lastField(a[0]), lastField(a[1])
			if fa == "" && fb == "" {
				continue
			}
			n++
			k++
			r.Check(fa == fb, "LIKE-TO-LIKE", sprintf("%s/%s#%d", fkey(fn), sn, k), c.InstrPos(cl), "same figure on both sides: "+fa, "the resource keys of "+fa+" are checked against those of "+fb+": the dimension rule between parent and child is not enforced for this figure")
		}
	}
	r.Floor("LIKE-TO-LIKE", "key checks between parent and child", n, 4)

	r.Rule("SCOPE(pods of a quota): in ValidDeleteQuota the ListOptions of the pod lookup set no Namespace (pods bind to a quota by label from any namespace)")
	if fn := c.Fn(quotaWebhookPkg, "quotaTopology", "ValidDeleteQuota"); fn != nil {
		nOpts, ok := 0, true
		for _, b := range fn.Blocks {
			for _, in := range b.Instrs {
				st, isS := in.(*ssa.Store)
				if !isS {
					continue
				}
				owner, field, _, isF := an.FieldOf(st.Addr)
				if !isF || !strings.HasSuffix(owner, "client.ListOptions") {
					continue
				}
				nOpts++
				if field == "Namespace" {
					ok = false
				}
			}
		}
		r.Check(ok && nOpts >= 1, "SCOPE", fkey(fn)+"/cluster-wide-pod-lookup", c.Pos(fn.Pos()), "the pod lookup is not restricted to a namespace", "the lookup that decides whether the quota still has pods is restricted to one namespace: pods in other namespaces are not seen and a quota with pods is deleted")
	}
}

// lastField: the name of the field a value is loaded from ("" when it is not a field load).
func lastField(v ssa.Value) string {
	for _, s := range cellSources(v) {
		if ld, ok := s.(*ssa.UnOp); ok {
			if fa, ok := ld.X.(*ssa.FieldAddr); ok {
				return fieldNameOf(fa)
			}
		}
		if f, ok := s.(*ssa.Field); ok {
			return fieldOfStruct(f)
		}
	}
	return ""
}
