package rules

import (
	"go/token"
	"strings"

	"golang.org/x/tools/go/ssa"

	"kverif/internal/an"
)

// c04statusMap: only 'no gang' and 'gang complete' let a pod through Permit.
func c04statusMap(c *Ctx) {
	r := c.R
	r.Rule("TABLE(status mapping): in Coscheduling.Permit the framework status Success is returned only for the core statuses Success and PodGroupNotSpecified: with the core status assumed to be any other constant the switch compares with (PodGroupNotFound, Wait, ...) no Success return is reachable")
	fn := c.Fn("pkg/scheduler/plugins/coscheduling", "Coscheduling", "Permit")
	if fn == nil {
		return
	}
	// the comparisons of the core status with its constants
	cmps := map[string][]*ssa.BinOp{}
	for _, b := range fn.Blocks {
		for _, in := range b.Instrs {
			bo, ok := in.(*ssa.BinOp)
			if !ok || bo.Op != token.EQL {
				continue
			}
			if s, isS := constString(bo.Y); isS && strings.HasSuffix(bo.X.Type().String(), "core.Status") {
				cmps[s] = append(cmps[s], bo)
			}
		}
	}
	n := 0
	for k := range cmps {
		if k == "Success" || k == "PodGroup not specified" {
			continue
		}
		n++
		facts := an.Facts{}
		for k2, list := range cmps {
			for _, bo := range list {
				facts[bo] = an.False
				if k2 == k {
					facts[bo] = an.True
				}
			}
		}
		reach := an.Explore(fn, nil, facts, nil)
		bad := ""
		for _, ret := range reach.Returns() {
			for _, v := range reach.Values(ret.Results[0]) {
				if statusKind(v) == "success" {
					bad = c.InstrPos(ret)
				}
			}
		}
		r.Check(bad == "", "TABLE", fkey(fn)+"/status/"+strings.ReplaceAll(k, " ", "-"), c.Pos(fn.Pos()), "not a releasing status", "core status '"+k+"' is mapped to Success ("+bad+"): a member whose gang is unknown to the cache leaves Permit alone, with no count checked")
	}
	r.Floor("TABLE", "non-releasing core statuses compared in Permit", n, 2)
}

// c09noPartialApply: a node strategy annotation is applied as a whole or not at all.
func c09noPartialApply(c *Ctx) {
	r := c.R
	r.Rule("EFFECT(no partial apply): in sloconfig.UpdateColocationStrategyForNode the strategy parameter is never handed to a decoder (json/yaml Unmarshal) - an annotation with one mistyped field would already have overwritten the fields before it; the annotation is decoded into an object of its own (GetColocationStrategyOnNode) and merged only when that succeeded")
	fn := c.Fn("pkg/util/sloconfig", "", "UpdateColocationStrategyForNode")
	if fn == nil {
		return
	}
	bad := ""
	own := false
	for _, cl := range an.Calls(fn, false) {
		name := an.CalleeName(cl.Common())
		if strings.HasSuffix(name, ".Unmarshal") || strings.HasSuffix(name, ".Decode") {
			for _, a := range cl.Common().Args {
				if backwardAll(a)[ssa.Value(fn.Params[0])] {
					bad = c.InstrPos(cl)
				}
			}
		}
		if an.ShortCallee(cl.Common()) == "GetColocationStrategyOnNode" {
			own = true
			// the merge happens only when the decode succeeded
			if e := extract(cl.Value(), 1); e != nil {
				reach := an.Explore(fn, an.After(cl), an.Facts{e: an.NonNil}, nil)
				for _, in := range reach.Instrs() {
					if st, isSt := in.(*ssa.Store); isSt && st.Addr == ssa.Value(fn.Params[0]) {
						bad = c.InstrPos(st)
					}
				}
			}
		}
	}
	r.Check(bad == "" && own, "EFFECT", fkey(fn)+"/no-partial-apply", c.Pos(fn.Pos()), "decoded apart, merged on success only", "the effective strategy can be modified by an annotation that is rejected ("+bad+"): the fields decoded before the error stay, and the published amounts follow a configuration nobody accepted")
}

// c18lowReset: underused nodes are recorded as normal before the round can end; the freshness test is not skippable.
func c18lowReset(c *Ctx) {
	r := c.R
	r.Rule("ORDER(normal before the round ends): in processOneNodePool every resetNodesAsNormal(<a destination class of classifyNodes>, ..) call dominates the comparison of the number of underused nodes with args.NumberOfNodes (a round that ends there still records that a formerly anomalous node is under the low thresholds)")
	if fn := c.Fn(deschedLoadPkg, "LowNodeLoad", "processOneNodePool"); fn != nil {
		var gate *ssa.BinOp
		for _, b := range fn.Blocks {
			for _, in := range b.Instrs {
				if bo, ok := in.(*ssa.BinOp); ok && (bo.Op == token.LEQ || bo.Op == token.LSS || bo.Op == token.GTR || bo.Op == token.GEQ) {
					if strings.Contains(an.Path(bo.X)+an.Path(bo.Y), "NumberOfNodes") {
						gate = bo
					}
				}
			}
		}
		n, ok := 0, gate != nil
		for _, cl := range an.Calls(fn, false) {
			if an.ShortCallee(cl.Common()) != "resetNodesAsNormal" {
				continue
			}
			isDest := false
			for x := range backwardAll(cl.Common().Args[0]) {
				if ex, isE := x.(*ssa.Extract); isE && (ex.Index == 0 || ex.Index == 2 || ex.Index == 4) {
					if call, isC := ex.Tuple.(*ssa.Call); isC && an.ShortCallee(&call.Call) == "classifyNodes" {
						isDest = true
					}
				}
			}
			if !isDest {
				continue
			}
			n++
			if gate != nil && !(cl.Block() == gate.Block() && instrIndex(cl) < instrIndex(gate)) && !(cl.Block() != gate.Block() && cl.Block().Dominates(gate.Block())) {
				ok = false
			}
		}
		r.Check(ok && n >= 3, "ORDER", fkey(fn)+"/low-nodes-normal-first", c.Pos(fn.Pos()), "destination classes are recorded as normal before the NumberOfNodes exit", "the underused nodes are recorded as normal only after the NumberOfNodes exit: a round that ends there leaves a node that dropped under the low thresholds in its anomaly state, and its next overloaded round evicts at once")
	}
	r.Rule("PATH(freshness not skippable): in getNodeUsage, with an expiration configured (parameter non-nil) and the metric status present, no store into the result map is reachable from behind the lister Get without isNodeMetricExpired having been evaluated (a missing update time is for isNodeMetricExpired to judge - it says expired)")
	if fn := c.Fn(deschedLoadPkg, "", "getNodeUsage"); fn != nil {
		var get ssa.CallInstruction
		for _, cl := range an.Calls(fn, false) {
			if cl.Common().IsInvoke() && cl.Common().Method.Name() == "Get" {
				get = cl
			}
		}
		var exp ssa.Value
		for _, p := range fn.Params {
			if strings.HasSuffix(p.Type().String(), "*int64") {
				exp = p
			}
		}
		if get == nil || exp == nil {
			r.Unknown("PATH", fkey(fn)+"/freshness-not-skippable", c.Pos(fn.Pos()), "lister Get or the expiration parameter not found")
			return
		}
		facts := an.Facts{exp: an.NonNil}
		if e := extract(get.Value(), 1); e != nil {
			facts[e] = an.Nil
		}
		reach := an.Explore(fn, an.After(get), facts, func(in ssa.Instruction) bool {
			cl, ok := in.(ssa.CallInstruction)
			return ok && an.ShortCallee(cl.Common()) == "isNodeMetricExpired"
		})
		bad := ""
		for _, in := range reach.Instrs() {
			if mu, ok := in.(*ssa.MapUpdate); ok && strings.HasSuffix(mu.Value.Type().String(), "NodeUsage") {
				bad = c.InstrPos(mu)
			}
		}
		r.Check(bad == "", "PATH", fkey(fn)+"/freshness-not-skippable", c.InstrPos(get), "every recorded usage passed the freshness test", "a node's usage can be recorded without the freshness test ("+bad+"): a metric object without an update time counts as fresh")
	}
}

// c17abortedWithError: the callers look at the error only when told the job was aborted.
func c17abortedWithError(c *Ctx) {
	r := c.R
	r.Rule("ERR(error implies aborted): in abortJobIfReservationBoundByAnotherPod every return that may carry a non-nil error returns aborted == true (evictPod and waitForPendingPodScheduled read the error only then; an error returned with false is a failed safety check taken for a pass)")
	fn := c.Fn(migrationPkg, "Reconciler", "abortJobIfReservationBoundByAnotherPod")
	if fn == nil {
		return
	}
	reach := an.Explore(fn, nil, nil, nil)
	bad := ""
	n := 0
	for _, ret := range reach.Returns() {
		for _, alt := range reach.Alts(ret) {
			if len(alt.Results) != 2 {
				continue
			}
			n++
			if reach.EvalAlt(alt, 1) == an.Nil {
				continue
			}
			if reach.EvalAlt(alt, 0) != an.True {
				bad = c.InstrPos(ret)
			}
		}
	}
	r.Check(bad == "" && n >= 3, "ERR", fkey(fn)+"/error=>aborted", c.Pos(fn.Pos()), "an error is always reported as aborted", "an error is returned with aborted == false ("+bad+"): the caller ignores it and evicts although the reservation could not be checked")
}
