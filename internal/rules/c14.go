package rules

import (
	"go/token"
	"strings"

	"golang.org/x/tools/go/ssa"

	"kverif/internal/an"
)

func init() { Registry["C14"] = c14 }

const batchHookPkg = "pkg/koordlet/runtimehooks/hooks/batchresource"

type hookFacts struct {
	extractor string // callee + list field
	convert   string // conversion callee
	post      string // canonical post-conversion expression with the converted amount abstracted
	field     string // response field written
	disabled  string // value written when cfs quota is disabled
	guards    string
}

func hookSummary(c *Ctx, fn *ssa.Function) hookFacts {
	var h hookFacts
	var conv *ssa.Call
	for _, cl := range an.Calls(fn, false) {
		switch n := an.ShortCallee(cl.Common()); n {
		case "GetBatchMilliCPUFromResourceList", "GetBatchMemoryFromResourceList":
			arg := an.Path(cl.Common().Args[0])
			f := arg[strings.LastIndex(arg, ".")+1:]
			h.extractor = n + "(" + f + ")"
		case "MilliCPUToShares", "MilliCPUToQuota":
			h.convert = n
			conv, _ = cl.(*ssa.Call)
		}
	}
	var fields []string
	for _, b := range fn.Blocks {
		for _, in := range b.Instrs {
			st, ok := in.(*ssa.Store)
			if !ok {
				continue
			}
			owner, f, _, ok := an.FieldOf(st.Addr)
			if !ok || !strings.HasSuffix(owner, ".Resources") || !strings.Contains(an.Path(st.Addr), ".Response.Resources.") {
				continue
			}
			fields = append(fields, f)
			p := an.Path(st.Val)
			isDisabled := false
			for _, g := range an.Guards(st) {
				if strings.Contains(an.Path(g.Cond), "GetCFSQuotaScaleRatio") && !g.Truth {
					isDisabled = true
				}
			}
			if isDisabled {
				h.disabled = p
				continue
			}
			if conv != nil {
				p = an.PathSubst(st.Val, map[ssa.Value]string{conv: "$converted"})
			}
			h.post = p
			var gs []string
			for _, g := range an.Guards(st) {
				gp := an.Path(g.Cond)
				switch {
				case strings.Contains(gp, "isPodQoSBEByAttr") && g.Truth:
					gs = append(gs, "isBE")
				case strings.HasSuffix(gp, ".ExtendedResources == nil)") && !g.Truth:
					gs = append(gs, "hasSpec")
				case strings.Contains(gp, "GetCFSQuotaScaleRatio") && g.Truth:
					gs = append(gs, "quotaEnabled")
				case strings.Contains(gp, "== nil") && !g.Truth:
					gs = append(gs, "ctxNonNil")
				}
			}
			h.guards = strings.Join(gs, ",")
		}
	}
	if len(fields) > 0 {
		h.field = fields[len(fields)-1]
	}
	return h
}

func c14(c *Ctx) {
	r := c.R
	summaryAnnotation(c)
	c14readers(c)
	c14agg(c)
	c14contexts(c)
	c14ratio(c)
	c14sentinel(c)
	extSpecParseError(c)
	r.Decides("pod-level and container-level setters use the same extractor on the same list (Requests for shares, Limits for quota and memory), the same conversion, the same post-conversion adjustment (division by the scale ratio above 1, nothing else), the same response field and the same disabled-quota value")
	r.Decides("every write of the response is dominated by the pod being BE and an extended resource spec being present")
	r.Decides("the CPU normalization ratio read from the node is always handed to the rule, also when the annotation is gone (-1)")
	r.Decides("the extended-resource-spec annotation the node agent reads is rewritten whenever it differs from the spec computed from the pod, using an equality that cannot call a superset equal")
	r.Declines("the conversions' arithmetic, 'pod no tighter than a container' numerically, rounding")

	r.Rule("SIBLING: for each pair SetPodX/SetContainerX (X in CPUShares, CFSQuota, MemoryLimit): equal extractor(list), conversion, post-conversion expression, response field, disabled value")
	for _, x := range []string{"CPUShares", "CFSQuota", "MemoryLimit"} {
		pf := c.Fn(batchHookPkg, "plugin", "SetPod"+x)
		cf := c.Fn(batchHookPkg, "plugin", "SetContainer"+x)
		if pf == nil || cf == nil {
			continue
		}
		ph, ch := hookSummary(c, pf), hookSummary(c, cf)
		key := "batchresource.SetPod" + x + "~SetContainer" + x
		r.Check(ph.extractor == ch.extractor && ph.extractor != "", "SIBLING", key+"/extractor", c.Pos(cf.Pos()), "both read "+ph.extractor, "pod level reads "+ph.extractor+" but container level reads "+ch.extractor)
		r.Check(ph.convert == ch.convert, "SIBLING", key+"/conversion", c.Pos(cf.Pos()), "both convert with '"+ph.convert+"'", "pod level converts with "+ph.convert+" but container level with "+ch.convert)
		r.Check(ph.field == ch.field && ph.field == x, "SIBLING", key+"/response-field", c.Pos(cf.Pos()), "both write Response.Resources."+x, "pod level writes "+ph.field+", container level writes "+ch.field)
		if x != "MemoryLimit" {
			// normalise receiver names
			np := strings.ReplaceAll(ph.post, "podCtx", "ctx")
			nc := strings.ReplaceAll(ch.post, "containerCtx", "ctx")
			r.Check(np == nc && np != "", "SIBLING", key+"/post-conversion", c.Pos(cf.Pos()), "same adjustment after the conversion: "+np, "after the conversion the pod level computes "+np+" but the container level "+nc+" (e.g. a clamp or ratio applied on one level only makes the pod cgroup tighter than a container)")
		}
		if x == "CFSQuota" {
			r.Check(ph.disabled == ch.disabled && ph.disabled != "", "SIBLING", key+"/disabled-value", c.Pos(cf.Pos()), "both write "+ph.disabled+" when cfs quota is disabled", "disabled-quota values differ: "+ph.disabled+" vs "+ch.disabled)
		}
		for lvl, h := range map[string]hookFacts{"SetPod" + x: ph, "SetContainer" + x: ch} {
			ok := strings.Contains(h.guards, "isBE") && strings.Contains(h.guards, "hasSpec")
			if !ok {
				// the same, asked of the explorer (the two conditions may be folded into one value, e.g. a spec that
				// is nil for a pod that is not BE): with the pod assumed not BE, and with the request's extended
				// spec assumed nil, no store into Response.Resources is reachable
				hf := pf
				if strings.HasPrefix(lvl, "SetContainer") {
					hf = cf
				}
				ok = writeNeedsBEAndSpec(hf)
			}
			r.Check(ok, "PATH", "batchresource."+lvl+"/write<=BE+spec", "", "response written only for BE pods with an extended spec", "the response is written without the guards isPodQoSBEByAttr()==true and spec != nil (guards: "+h.guards+"): non-BE pods would be touched")
		}
	}

	r.Rule("PATH: in parseRuleForNodeMeta, once GetCPUNormalizationRatio returned without error, no return is reachable without calling rule.UpdateCPUNormalizationRatio(ratio)")
	if fn := c.Fn(batchHookPkg, "plugin", "parseRuleForNodeMeta"); fn != nil {
		var get, upd ssa.CallInstruction
		for _, cl := range an.Calls(fn, false) {
			switch an.ShortCallee(cl.Common()) {
			case "GetCPUNormalizationRatio":
				get = cl
			case "UpdateCPUNormalizationRatio":
				upd = cl
			}
		}
		key := fkey(fn) + "/ratio-always-applied"
		if get == nil || upd == nil {
			r.Fail("PATH", key, c.Pos(fn.Pos()), "ratio read or rule update not found")
		} else {
			errV := extract(get.Value(), 1)
			reach := an.Explore(fn, an.After(get), an.Facts{errV: an.Nil}, func(in ssa.Instruction) bool { return in == ssa.Instruction(upd) })
			ok := len(reach.Returns()) == 0 && upd.Common().Args[1] == extract(get.Value(), 0)
			r.Check(ok, "PATH", key, c.InstrPos(upd), "every successfully read ratio (including 'unset') reaches the rule", "a successfully read ratio can be dropped before UpdateCPUNormalizationRatio (e.g. when the annotation was removed): quotas keep being divided by the stale ratio")
		}
	}
}

// c14readers: a declared batch amount is what the readers return.
func c14readers(c *Ctx) {
	r := c.R
	r.Rule("PATH(readers): in util.GetBatchMilliCPUFromResourceList / GetBatchMemoryFromResourceList, when the batch entry is present every return is a value read from that quantity (Value()/MilliValue()); the 'not declared' value -1 is returned only when the entry is absent (a present quantity in a form such as 1.5Gi must not read as unlimited)")
	for _, name := range []string{"GetBatchMilliCPUFromResourceList", "GetBatchMemoryFromResourceList"} {
		fn := c.Fn("pkg/util", "", name)
		if fn == nil {
			continue
		}
		f := an.Facts{}
		for _, b := range fn.Blocks {
			for _, in := range b.Instrs {
				if e, ok := in.(*ssa.Extract); ok && e.Index == 1 {
					if lk, ok := e.Tuple.(*ssa.Lookup); ok && lk.CommaOk {
						f[e] = an.True
					}
				}
			}
		}
		reach := an.Explore(fn, nil, f, nil)
		bad := ""
		for _, ret := range reach.Returns() {
			for _, v := range reach.Values(ret.Results[0]) {
				fromQ := false
				for x := range backwardAll(v) {
					if call, ok := x.(*ssa.Call); ok {
						switch an.ShortCallee(&call.Call) {
						case "Value", "MilliValue":
							fromQ = true
						}
					}
				}
				// other extraction methods (AsInt64, AsDec..) are partial: they must not be the only source
				if _, isConst := v.(*ssa.Const); isConst || !fromQ {
					bad = c.InstrPos(ret)
				}
			}
		}
		r.Check(len(f) == 1 && bad == "", "PATH", fkey(fn)+"/present=>its-value", c.Pos(fn.Pos()), "a present entry is returned through Value()/MilliValue()", "with the batch entry present a return at "+bad+" yields something else than the quantity's Value()/MilliValue() (e.g. the 'not declared' constant): the container becomes unlimited although it declares an amount")
	}
}

// writeNeedsBEAndSpec: no store into Response.Resources.* is reachable when isPodQoSBEByAttr says no, nor when the
// ExtendedResources of the request are nil.
func writeNeedsBEAndSpec(fn *ssa.Function) bool {
	var be []ssa.Value
	var spec []ssa.Value
	for _, cl := range an.Calls(fn, false) {
		if an.ShortCallee(cl.Common()) == "isPodQoSBEByAttr" {
			be = append(be, cl.Value())
		}
	}
	for _, b := range fn.Blocks {
		for _, in := range b.Instrs {
			if ld, ok := in.(*ssa.UnOp); ok && ld.Op == token.MUL && strings.HasSuffix(an.Path(ld), ".Request.ExtendedResources") {
				spec = append(spec, ld)
			}
		}
	}
	if len(be) == 0 || len(spec) == 0 {
		return false
	}
	writes := func(r *an.Reach) bool {
		for _, in := range r.Instrs() {
			if st, ok := in.(*ssa.Store); ok && strings.Contains(an.Path(st.Addr), ".Response.Resources.") {
				return true
			}
		}
		return false
	}
	f1 := an.Facts{}
	for _, v := range be {
		f1[v] = an.False
	}
	f2 := an.Facts{}
	for _, v := range spec {
		f2[v] = an.Nil
	}
	return !writes(an.Explore(fn, nil, f1, nil)) && !writes(an.Explore(fn, nil, f2, nil))
}
