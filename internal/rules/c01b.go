package rules

import (
	"go/token"
	"go/types"
	"strings"

	"golang.org/x/tools/go/ssa"

	"kverif/internal/an"
	"kverif/internal/load"
)

// sameSource: both values come from the same single origin once local cells (and captured ones) are looked through.
func sameSource(a, b ssa.Value) bool {
	if sameVal(a, b) {
		return true
	}
	sa, sb := cellSources(a), cellSources(b)
	return len(sa) == 1 && len(sb) == 1 && (sa[0] == sb[0] || sameVal(sa[0], sb[0]))
}

// fullScan: addr is &s[i] inside a loop that visits every position of s exactly once: "for i := 0; i < len(s); i++",
// "for i := range s" (rotated range-index form) or "for i := len(s)-1; i >= 0; i--". It returns the value that plays
// the role of the loop variable in the body and the loop header.
func fullScan(addr *ssa.IndexAddr) (idx ssa.Value, hdr *ssa.BasicBlock, ok bool) {
	isLenOf := func(v ssa.Value) bool {
		srcs := cellSources(v)
		for _, s := range srcs {
			c, isCall := s.(*ssa.Call)
			if !isCall || !an.IsBuiltinCall(c, "len") || !sameSource(c.Call.Args[0], addr.X) {
				return false
			}
		}
		return len(srcs) > 0
	}
	inBody := func(h *ssa.BasicBlock) bool {
		return h.Succs[0] == addr.Block() || h.Succs[0].Dominates(addr.Block())
	}
	cond := func(h *ssa.BasicBlock) *ssa.BinOp {
		if len(h.Instrs) == 0 {
			return nil
		}
		ifi, isIf := h.Instrs[len(h.Instrs)-1].(*ssa.If)
		if !isIf {
			return nil
		}
		bo, _ := ifi.Cond.(*ssa.BinOp)
		return bo
	}
	condUp := func(h *ssa.BasicBlock, v ssa.Value) bool {
		bo := cond(h)
		if bo == nil {
			return false
		}
		// the body is the true successor of "v < len(s)"
		if !(bo.Op == token.LSS && bo.X == v && isLenOf(bo.Y)) && !(bo.Op == token.GTR && bo.Y == v && isLenOf(bo.X)) {
			return false
		}
		return inBody(h)
	}
	step := func(v ssa.Value, phi *ssa.Phi, op token.Token) bool {
		bo, isBo := v.(*ssa.BinOp)
		if !isBo || bo.Op != op || bo.X != ssa.Value(phi) {
			return false
		}
		k, isC := constIntOf(bo.Y)
		return isC && k == 1
	}
	// plain form: the index is the phi
	if phi, isPhi := addr.Index.(*ssa.Phi); isPhi && len(phi.Edges) == 2 {
		init, next := phi.Edges[0], phi.Edges[1]
		if k, isC := constIntOf(init); isC && k == 0 && step(next, phi, token.ADD) && condUp(phi.Block(), phi) {
			return phi, phi.Block(), true
		}
		// descending: i := len(s)-1; i >= 0; i--
		if step(next, phi, token.SUB) {
			okInit := false
			if bo, isBo := init.(*ssa.BinOp); isBo && bo.Op == token.SUB && isLenOf(bo.X) {
				if k, isC := constIntOf(bo.Y); isC && k == 1 {
					okInit = true
				}
			}
			okCond := false
			if bo := cond(phi.Block()); bo != nil && bo.X == ssa.Value(phi) {
				if k, isC := constIntOf(bo.Y); isC && ((bo.Op == token.GEQ && k == 0) || (bo.Op == token.GTR && k == -1)) {
					okCond = true
				}
			}
			if okInit && okCond && inBody(phi.Block()) {
				return phi, phi.Block(), true
			}
		}
	}
	// range form: the index is phi+1, the phi starts at -1 and every back edge carries the index
	if bo, isBo := addr.Index.(*ssa.BinOp); isBo {
		if phi, isPhi := bo.X.(*ssa.Phi); isPhi && step(bo, phi, token.ADD) && len(phi.Edges) >= 2 {
			k, isC := constIntOf(phi.Edges[0])
			all := isC && k == -1
			for _, e := range phi.Edges[1:] {
				if e != ssa.Value(bo) {
					all = false
				}
			}
			if all && condUp(phi.Block(), bo) {
				return bo, phi.Block(), true
			}
		}
	}
	return nil, nil, false
}

// isParamOf: v is the parameter with that index (receiver excluded), possibly read back from its spill cell.
func isParamOf(fn *ssa.Function, v ssa.Value, i int) bool {
	ps := fn.Params
	if fn.Signature.Recv() != nil {
		ps = ps[1:]
	}
	if i >= len(ps) {
		return false
	}
	for _, s := range cellSources(v) {
		if s != ssa.Value(ps[i]) {
			return false
		}
	}
	return true
}

// selfFlag: v is "idx == <param k>" (either operand order).
func selfFlag(fn *ssa.Function, v, idx ssa.Value, k int) bool {
	bo, ok := v.(*ssa.BinOp)
	if !ok || bo.Op != token.EQL {
		return false
	}
	return (bo.X == idx && isParamOf(fn, bo.Y, k)) || (bo.Y == idx && isParamOf(fn, bo.X, k))
}

// c01walk: the leaf-to-root walks visit every group of the path with the right amounts.
func c01walk(c *Ctx) {
	r := c.R
	r.Decides("the used delta is added to every group on the leaf-to-root path (full ascending scan, no early exit), with the caller's amounts and the self flag on exactly the group the pods belong to; the request walk adds the current delta to every group up to and including the root, hands the same delta to the child-request figure, recomputes Request from ChildRequest (raised to min, never lowered, only for groups that do not lend) and continues with new-minus-old; the accumulators add the same amount to a figure and to its Self twin, the twin only under the flag; the getters report the figure they are named after; the tree rebuild saves, per group, the figures that were fed in from below (leaf: child request/used; parent: its own pods' figures), before clearing them, and replays each saved map into the matching walk under the same name")
	r.Rule("WALK(used): in updateGroupDeltaUsedNoLock the call addUsedNonNegativeNoLock is made on s[i] for a full ascending scan of the path s, its amounts are the function's own parameters and its flag is i == selfQuotaIndex; nothing leaves the loop body before the call")
	r.Rule("WALK(request): in recursiveUpdateGroupTreeWithDeltaRequest addRequestNonNegativeNoLock is called on s[i] for a full ascending scan with (current delta, the non-preemptible parameter, i == selfQuotaIndex) and is not skippable from the top of the body (the root's figure is updated before the walk stops there); addChildRequestNonNegativeNoLock gets the same current delta; the current delta is the parameter on entry and Subtract(new limit, old limit) on every later round; the value stored into Request is decided by FLOW(request recompute)")
	const gp = "(*" + load.Module + "/" + quotaCorePkg + ".GroupQuotaManager)."
	const qp = "(*" + load.Module + "/" + quotaCorePkg + ".QuotaInfo)."

	scanCall := func(fn *ssa.Function, cl ssa.CallInstruction) (idx ssa.Value, hdr *ssa.BasicBlock, ok bool) {
		recv := cl.Common().Args[0]
		for _, s := range cellSources(recv) {
			ld, isLd := s.(*ssa.UnOp)
			if !isLd || ld.Op != token.MUL {
				return nil, nil, false
			}
			ia, isIA := ld.X.(*ssa.IndexAddr)
			if !isIA {
				return nil, nil, false
			}
			i2, h2, ok2 := fullScan(ia)
			if !ok2 || (idx != nil && idx != i2) {
				return nil, nil, false
			}
			idx, hdr = i2, h2
		}
		return idx, hdr, idx != nil
	}
	// from the top of the loop body the call cannot be bypassed: neither the header nor a return is reachable without it
	unskippable := func(fn *ssa.Function, hdr *ssa.BasicBlock, cl ssa.CallInstruction) bool {
		start := &an.Start{Block: hdr.Succs[0], Index: 0}
		reach := an.Explore(fn, start, nil, func(in ssa.Instruction) bool { return in == ssa.Instruction(cl) })
		return !reach.BlockReached(hdr) && len(reach.Returns()) == 0
	}

	if fn := c.Fn(quotaCorePkg, "GroupQuotaManager", "updateGroupDeltaUsedNoLock"); fn != nil {
		calls := an.CallsTo(fn, false, qp+"addUsedNonNegativeNoLock")
		key := fkey(fn) + "/walk"
		if len(calls) != 1 {
			r.Fail("WALK", key, c.Pos(fn.Pos()), sprintf("expected one call to addUsedNonNegativeNoLock, found %d", len(calls)))
		} else {
			cl := calls[0]
			a := cl.Common().Args
			idx, hdr, scan := scanCall(fn, cl)
			amounts := isParamOf(fn, a[1], 1) && isParamOf(fn, a[2], 2)
			flag := scan && selfFlag(fn, a[3], idx, 3)
			through := scan && unskippable(fn, hdr, cl)
			// no exit from the loop other than the header test: no block of the loop returns or jumps out
			closed := scan && loopClosed(hdr)
			r.Check(scan && amounts && flag && through && closed, "WALK", key, c.InstrPos(cl), "every group on the path receives the caller's used delta, self flag on position selfQuotaIndex",
				sprintf("the used walk is broken: full ascending scan of the path=%v, amounts are the caller's=%v, flag is i==selfQuotaIndex=%v, call not skippable=%v, no early exit from the loop=%v — an ancestor would miss (or a wrong group would book as its own) the used amount", scan, amounts, flag, through, closed))
		}
	}

	if fn := c.Fn(quotaCorePkg, "GroupQuotaManager", "recursiveUpdateGroupTreeWithDeltaRequest"); fn != nil {
		key := fkey(fn) + "/walk"
		adds := an.CallsTo(fn, false, qp+"addRequestNonNegativeNoLock")
		childs := an.CallsTo(fn, false, qp+"addChildRequestNonNegativeNoLock")
		if len(adds) != 1 || len(childs) != 1 {
			r.Fail("WALK", key, c.Pos(fn.Pos()), sprintf("expected one addRequestNonNegativeNoLock and one addChildRequestNonNegativeNoLock, found %d/%d", len(adds), len(childs)))
		} else {
			add, child := adds[0], childs[0]
			a := add.Common().Args
			idx, hdr, scan := scanCall(fn, add)
			flag := scan && selfFlag(fn, a[3], idx, 3)
			np := isParamOf(fn, a[2], 1)
			through := scan && unskippable(fn, hdr, add)
			// the current delta: a merge at the loop header of the parameter (entry) and Subtract(new, old) (back edges)
			cur := false
			if phi, ok := a[1].(*ssa.Phi); ok && scan && phi.Block() == hdr {
				cur = true
				for i, e := range phi.Edges {
					pred := hdr.Preds[i]
					if hdr.Dominates(pred) { // back edge
						// the value carried up: Subtract(new limit, old limit) - possibly handed over through the
						// result of an extracted iteration body, whose 'stop here' exits carry nil
						nSub := 0
						for _, src := range cellSources(e) {
							if an.IsNilConst(src) {
								continue
							}
							cl, _ := an.ResultOfCall(src)
							if cl == nil || an.CalleeName(&cl.Call) != "k8s.io/apiserver/pkg/quota/v1.Subtract" {
								cur = false
								continue
							}
							nc, _ := an.ResultOfCall(firstSource(cl.Call.Args[0]))
							oc, _ := an.ResultOfCall(firstSource(cl.Call.Args[1]))
							if nc == nil || oc == nil || an.ShortCallee(&nc.Call) != "getLimitRequestNoLock" || an.ShortCallee(&oc.Call) != "getLimitRequestNoLock" {
								cur = false
							}
							nSub++
						}
						if nSub == 0 {
							cur = false
						}
					} else if !isParamOf(fn, e, 0) {
						cur = false
					}
				}
			}
			sameDelta := child.Common().Args[1] == a[1] && sameVal(child.Common().Args[0], a[0])
			r.Check(scan && flag && np && through && cur && sameDelta, "WALK", key, c.InstrPos(add), "every group up to the root receives the current request delta; the child-request figure gets the same delta; the delta continues as new-minus-old",
				sprintf("the request walk is broken: full ascending scan=%v, flag is i==selfQuotaIndex=%v, non-preemptible amount is the caller's=%v, add not skippable (root included)=%v, current delta = parameter then Subtract(new,old)=%v, child request gets the same delta on the same group=%v", scan, flag, np, through, cur, sameDelta))

		}
	}

	// ---- Request := copy(ChildRequest) raised to Min, wherever package core recomputes it
	r.Rule("FLOW(request recompute): every store to CalculateInfo.Request in package core that is neither the accumulator (Add of itself), the reset (fresh empty list) nor the root's re-summation takes a copy of ChildRequest of the same group; Min enters it only under AllowLentResource == false, either entry-wise where Min compares greater or the entry is missing, or through quotav1.Max(copy, Min); no other figure flows in")
	nRecompute := 0
	for _, fn := range c.PkgFuncs(quotaCorePkg) {
		if fn.Name() == "resetRootQuotaUsedAndRequest" {
			continue
		}
		nFn := 0
		for _, b := range fn.Blocks {
			for _, in := range b.Instrs {
				st, ok := in.(*ssa.Store)
				if !ok {
					continue
				}
				o, f, _, ok := an.FieldOf(st.Addr)
				if !ok || !strings.HasSuffix(o, "QuotaCalculateInfo") || f != "Request" {
					continue
				}
				if cl, _ := an.ResultOfCall(st.Val); cl != nil && an.CalleeName(&cl.Call) == "k8s.io/apiserver/pkg/quota/v1.Add" {
					continue // accumulator, see MIRROR(accumulators)
				}
				if _, isMake := an.Origin(st.Val).(*ssa.MakeMap); isMake {
					continue // reset
				}
				if _, _, base, ok := an.FieldOf(st.Addr); ok {
					if _, fresh := rootOf(base).(*ssa.Alloc); fresh {
						continue // a new object is being built (copy constructors), not a tracked group
					}
				}
				nRecompute++
				nFn++
				c01recompute(c, fn, st, nFn)
			}
		}
	}
	r.Floor("FLOW", "recomputations of CalculateInfo.Request", nRecompute, 2)

	// ---- the quota -> tree index the pod handlers route by
	r.Rule("PATH(quota->tree index): in Plugin.OnQuotaDelete, for an event that carries the quota object, deleteQuotaToTreeMap(quota.Name) is reached on every path, whether or not the tree's manager still exists (updateQuotaToTreeMap never overwrites an entry, so a stale one routes the quota's pods to a manager that is gone); Plugin.OnQuotaAdd reaches updateQuotaToTreeMap before it can return for a live quota")
	if fn := c.Fn(quotaPluginPkg, "Plugin", "OnQuotaDelete"); fn != nil {
		f := an.Facts{}
		obj := fn.Params[len(fn.Params)-1]
		for _, b := range fn.Blocks {
			for _, in := range b.Instrs {
				ta, ok := in.(*ssa.TypeAssert)
				if !ok || ta.X != ssa.Value(obj) || !strings.HasSuffix(ta.AssertedType.String(), ".ElasticQuota") {
					continue
				}
				if ta.CommaOk {
					f[extract(ta, 1)] = an.True
					f[extract(ta, 0)] = an.NonNil
				} else {
					f[ta] = an.NonNil
				}
			}
		}
		var del ssa.CallInstruction
		reach := an.Explore(fn, nil, f, func(in ssa.Instruction) bool {
			if cl, ok := in.(ssa.CallInstruction); ok && an.ShortCallee(cl.Common()) == "deleteQuotaToTreeMap" {
				del = cl
				return true
			}
			return false
		})
		nameOK := del != nil && strings.HasSuffix(an.Path(del.Common().Args[1]), ".Name")
		r.Check(len(f) > 0 && del != nil && len(reach.Returns()) == 0 && nameOK, "PATH", fkey(fn)+"/index-entry-removed", c.Pos(fn.Pos()), "the index entry is removed for every delete event",
			sprintf("a quota delete can finish without removing the quota's entry from the quota->tree index (assertion recognised=%v, call found=%v, removes quota.Name=%v): pods of a re-created quota of that name are routed to a manager that no longer exists", len(f) > 0, del != nil, nameOK))
	}
	if fn := c.Fn(quotaPluginPkg, "Plugin", "OnQuotaAdd"); fn != nil {
		f := an.Facts{}
		obj := fn.Params[len(fn.Params)-1]
		for _, b := range fn.Blocks {
			for _, in := range b.Instrs {
				switch x := in.(type) {
				case *ssa.TypeAssert:
					if x.X == ssa.Value(obj) && x.CommaOk {
						f[extract(x, 1)] = an.True
						f[extract(x, 0)] = an.NonNil
					}
				case *ssa.BinOp:
					// DeletionTimestamp == nil
					if an.IsNilConst(x.Y) && strings.HasSuffix(an.Path(x.X), ".DeletionTimestamp") {
						if x.Op == token.NEQ {
							f[x] = an.False
						} else if x.Op == token.EQL {
							f[x] = an.True
						}
					}
				}
			}
		}
		found := false
		reach := an.Explore(fn, nil, f, func(in ssa.Instruction) bool {
			if cl, ok := in.(ssa.CallInstruction); ok && an.ShortCallee(cl.Common()) == "updateQuotaToTreeMap" {
				found = true
				return true
			}
			return false
		})
		r.Check(found && len(reach.Returns()) == 0, "PATH", fkey(fn)+"/index-entry-added", c.Pos(fn.Pos()), "a live quota is always entered into the index", "a live quota can be added without being entered into the quota->tree index")
	}

	quotaHandover(c)

	// ---- a delete releases what the event says, not what was remembered at add time
	r.Rule("FLOW(delete uses the event's object): in Plugin.OnPodDelete the pod handed to handlePodDelete comes only from the type assertions on the event object (the pod itself or the tombstone's .Obj): the quota's pod cache holds the version seen at add time (updates are booked as deltas), so releasing by a cached version leaves the difference behind in used/request of the group and its ancestors")
	if fn := c.Fn(quotaPluginPkg, "Plugin", "OnPodDelete"); fn != nil {
		n := 0
		for _, cl := range an.Calls(fn, false) {
			if an.ShortCallee(cl.Common()) != "handlePodDelete" {
				continue
			}
			n++
			ok := true
			why := ""
			for _, s := range cellSources(cl.Common().Args[1]) {
				switch x := s.(type) {
				case *ssa.TypeAssert:
				case *ssa.Extract:
					if _, isTA := x.Tuple.(*ssa.TypeAssert); !isTA {
						ok, why = false, an.Path(s)
					}
				case *ssa.Const:
				default:
					ok, why = false, an.Path(s)
				}
			}
			r.Check(ok, "FLOW", fkey(fn)+"/releases-the-event-object", c.InstrPos(cl), "the released pod is the event's object", "the pod released on delete can be another object than the one the event carries ("+why+"): a remembered add-time version releases the wrong amounts")
		}
		r.Floor("FLOW", "handlePodDelete calls in OnPodDelete", n, 1)
	}

	// ---- the walks cannot be skipped on the strength of the amounts
	r.Rule("WALK(entry): in updateGroupDeltaRequestNoLock, with a non-empty leaf-to-root path, recursiveUpdateGroupTreeWithDeltaRequest is reached on every path - also for a zero delta (the tree rebuild clears Request/ChildRequest and relies on this call to re-derive the min-raised request of groups without pods and hand it to the ancestors); in updateGroupDeltaUsedNoLock likewise the used walk")
	for _, t := range []struct{ fn, sink string }{{"updateGroupDeltaRequestNoLock", "recursiveUpdateGroupTreeWithDeltaRequest"}, {"updateGroupDeltaUsedNoLock", "addUsedNonNegativeNoLock"}} {
		fn := c.Fn(quotaCorePkg, "GroupQuotaManager", t.fn)
		if fn == nil {
			continue
		}
		f := an.Facts{}
		for _, b := range fn.Blocks {
			for _, in := range b.Instrs {
				bo, ok := in.(*ssa.BinOp)
				if !ok {
					continue
				}
				isLen := false
				for _, s := range cellSources(bo.X) {
					if cl, isC := s.(*ssa.Call); isC && an.IsBuiltinCall(cl, "len") && strings.HasSuffix(cl.Call.Args[0].Type().String(), "QuotaInfo") {
						isLen = true
					}
				}
				if !isLen {
					continue
				}
				if k, isC := constIntOf(bo.Y); isC && k == 0 {
					switch bo.Op {
					case token.LEQ, token.EQL:
						f[bo] = an.False
					case token.GTR, token.NEQ:
						f[bo] = an.True
					}
				}
				// the loop test i < len: the path is not empty, the first iteration runs (left to the explorer's counter folding)
			}
		}
		found := false
		want := t.sink
		reach := an.Explore(fn, nil, f, func(in ssa.Instruction) bool {
			if cl, ok := in.(ssa.CallInstruction); ok && an.ShortCallee(cl.Common()) == want {
				found = true
				return true
			}
			return false
		})
		escaped := false
		for range reach.Returns() {
			escaped = true
		}
		// the used walk sits in a loop whose test the explorer cannot decide: no exit may be reachable before the loop of the
		// walk is entered (what happens inside the loop is WALK(used))
		if t.fn == "updateGroupDeltaUsedNoLock" {
			escaped, found = true, false
			for _, cl := range an.Calls(fn, false) {
				if an.ShortCallee(cl.Common()) != want {
					continue
				}
				found = true
				if hdr := an.InnermostLoopHeader(cl.Block()); hdr != nil {
					r2 := an.Explore(fn, nil, f, func(in ssa.Instruction) bool { return in.Block() == hdr })
					escaped = len(r2.Returns()) > 0
				}
			}
		}
		r.Check(len(f) > 0 && found && !escaped, "WALK", fkey(fn)+"/not-skippable", c.Pos(fn.Pos()), "the walk runs for every non-empty path", "the walk can be skipped for a group with a non-empty path (an exit that depends on the amounts, e.g. 'nothing to propagate'): after a tree rebuild a non-lending group without pods keeps request {} instead of min, and its ancestors lose that share")
	}

	// ---- what may be replayed as a request / used delta
	r.Rule("FLOW(no derived figure is replayed): no amount handed to updateGroupDeltaRequestNoLock derives from a load of CalculateInfo.Request (the min-raised, derived figure: replaying it books the raise as a child request that never goes away) and none handed to updateGroupDeltaUsedNoLock derives from a request figure; a 'children' share is Subtract(F, SelfF) with F the figure fed from below (ChildRequest / NonPreemptibleRequest / Used / NonPreemptibleUsed) and SelfF its own Self twin")
	nReplay := 0
	for _, fn := range c.PkgFuncs(quotaCorePkg) {
		nIn := 0
		for _, cl := range an.Calls(fn, false) {
			sn := an.ShortCallee(cl.Common())
			if sn != "updateGroupDeltaRequestNoLock" && sn != "updateGroupDeltaUsedNoLock" {
				continue
			}
			nReplay++
			nIn++
			a := cl.Common().Args
			bad := ""
			for i := 2; i <= 3 && i < len(a); i++ {
				for x := range backwardAll(a[i]) {
					ld, ok := x.(*ssa.UnOp)
					if !ok || ld.Op != token.MUL {
						continue
					}
					o, f, _, ok := an.FieldOf(ld.X)
					if !ok || !strings.HasSuffix(o, "QuotaCalculateInfo") {
						continue
					}
					if sn == "updateGroupDeltaRequestNoLock" && (f == "Request" || strings.Contains(f, "Used")) {
						bad = f
					}
					if sn == "updateGroupDeltaUsedNoLock" && strings.Contains(f, "Request") {
						bad = f
					}
				}
				// a children share: Subtract(F, SelfF)
				if sub, _ := an.ResultOfCall(firstSource(a[i])); sub != nil && an.CalleeName(&sub.Call) == "k8s.io/apiserver/pkg/quota/v1.Subtract" {
					fld := func(v ssa.Value) string {
						if ld, ok := firstSource(v).(*ssa.UnOp); ok && ld.Op == token.MUL {
							if o, f, _, ok := an.FieldOf(ld.X); ok && strings.HasSuffix(o, "QuotaCalculateInfo") {
								return f
							}
						}
						return ""
					}
					f0, f1 := fld(sub.Call.Args[0]), fld(sub.Call.Args[1])
					if f0 != "" && f1 != "" {
						twin := map[string]string{"ChildRequest": "SelfRequest", "NonPreemptibleRequest": "SelfNonPreemptibleRequest", "Used": "SelfUsed", "NonPreemptibleUsed": "SelfNonPreemptibleUsed"}
						if twin[f0] != f1 {
							bad = f0 + " - " + f1
						}
					}
				}
			}
			r.Check(bad == "", "FLOW", sprintf("%s/replay-source#%d", fkey(fn), nIn), c.InstrPos(cl), "only figures fed from below are replayed", sprintf("the amount replayed by %s derives from %s: a derived (min-raised / aggregated) or unrelated figure is booked again", sn, bad))
		}
	}
	r.Floor("FLOW", "request/used replays in package core", nReplay, 8)

	// ---- the lock wrapper the per-quota discipline relies on
	r.Rule("LOCK(wrapper): scopedLockForQuotaInfo takes the write lock of list[i] for a full scan of its slice argument with no early exit and returns a closure; that closure releases list[i] for a full scan of the same slice and takes no lock; every caller invokes the returned func exactly by a defer (so the locks are held to the caller's exit)")
	if fn := c.Fn(quotaCorePkg, "GroupQuotaManager", "scopedLockForQuotaInfo"); fn != nil {
		lockScan := func(f *ssa.Function, op string) (n int, ok bool, slice ssa.Value) {
			ok = true
			for _, cl := range an.Calls(f, false) {
				cal := cl.Common().StaticCallee()
				if cal == nil || cal.Pkg == nil || cal.Pkg.Pkg.Path() != "sync" {
					continue
				}
				if cal.Name() != op {
					if cal.Name() == "Lock" || cal.Name() == "RLock" || cal.Name() == "Unlock" || cal.Name() == "RUnlock" {
						ok = false
					}
					continue
				}
				n++
				fa, isFA := cl.Common().Args[0].(*ssa.FieldAddr)
				if !isFA {
					ok = false
					continue
				}
				var ia *ssa.IndexAddr
				for _, src := range cellSources(fa.X) {
					if ld, isLd := src.(*ssa.UnOp); isLd && ld.Op == token.MUL {
						ia, _ = ld.X.(*ssa.IndexAddr)
					}
				}
				if ia == nil {
					ok = false
					continue
				}
				_, hdr, scan := fullScan(ia)
				if !scan || !loopClosed(hdr) {
					ok = false
					continue
				}
				if srcs := cellSources(ia.X); len(srcs) == 1 {
					slice = srcs[0]
				} else {
					ok = false
				}
			}
			return
		}
		nL, okL, sliceL := lockScan(fn, "Lock")
		var clo *ssa.Function
		for _, alt := range an.ReturnAlts(fn) {
			if mc, isMC := an.Origin(alt.Results[0]).(*ssa.MakeClosure); isMC {
				if f, isF := mc.Fn.(*ssa.Function); isF && (clo == nil || clo == f) {
					clo = f
					continue
				}
			}
			okL = false
		}
		nU, okU := 0, false
		var sliceU ssa.Value
		// the same slice under another (named) type is the same slice
		strip := func(v ssa.Value) ssa.Value {
			for v != nil {
				if ct, isCT := v.(*ssa.ChangeType); isCT {
					v = ct.X
					continue
				}
				if srcs := cellSources(v); len(srcs) == 1 && srcs[0] != v {
					v = srcs[0]
					continue
				}
				break
			}
			return v
		}
		if clo != nil {
			if clo.Synthetic != "" && len(clo.FreeVars) == 1 {
				// a bound method value (return scope.unlock): the method is the release function, its receiver the slice
				var target *ssa.Function
				for _, cl := range an.Calls(clo, false) {
					if cal := cl.Common().StaticCallee(); cal != nil && len(cal.Blocks) > 0 {
						target = cal
					}
				}
				for _, alt := range an.ReturnAlts(fn) {
					if mc, isMC := an.Origin(alt.Results[0]).(*ssa.MakeClosure); isMC && target != nil && len(mc.Bindings) == 1 {
						nU, okU, sliceU = lockScan(target, "Unlock")
						if len(target.Params) >= 1 && strip(sliceU) == ssa.Value(target.Params[0]) {
							sliceU = mc.Bindings[0]
						}
					}
				}
			} else {
				nU, okU, sliceU = lockScan(clo, "Unlock")
			}
		}
		sliceL, sliceU = strip(sliceL), strip(sliceU)
		isParam := len(fn.Params) == 2 && sliceL == ssa.Value(fn.Params[1])
		r.Check(nL == 1 && okL && clo != nil && nU == 1 && okU && isParam && sliceU == sliceL, "LOCK", fkey(fn)+"/wrapper", c.Pos(fn.Pos()), "locks every element of the argument, the returned func unlocks every element",
			sprintf("the lock wrapper is broken: Lock sites=%d all in a full scan of the argument=%v (argument=%v), returns a closure=%v, Unlock sites in it=%d all in a full scan=%v of the same slice=%v", nL, okL, isParam, clo != nil, nU, okU, sliceU == sliceL))
		nCall := 0
		for _, f := range c.P.AllFuncs() {
			for _, cl := range an.CallsTo(f, false, gp+"scopedLockForQuotaInfo") {
				nCall++
				v := cl.Value()
				deferred := 0
				other := false
				if v != nil && v.Referrers() != nil {
					for _, ref := range *v.Referrers() {
						if d, isD := ref.(*ssa.Defer); isD && d.Call.Value == ssa.Value(v) {
							deferred++
						} else {
							other = true
						}
					}
				}
				_, isCall := cl.(*ssa.Call)
				r.Check(isCall && deferred == 1 && !other, "LOCK", sprintf("%s/unlock-deferred", fkey(f)), c.InstrPos(cl), "the returned unlock is deferred",
					sprintf("the func returned by scopedLockForQuotaInfo is not simply deferred (is a plain call=%v, deferred %d times, other uses=%v): the locks are taken at the wrong time or never released", isCall, deferred, other))
			}
		}
		r.Floor("LOCK", "callers of scopedLockForQuotaInfo", nCall, 5)
	}

	// ---- the root's figures are re-summed from the two special groups
	r.Rule("TABLE(root reset): in resetRootQuotaUsedAndRequest the value stored into each figure F of the root derives from Get<F>() results only (never from a getter of another figure), from as many getter calls as every other figure (one per special group), and nothing else")
	if fn := c.Fn(quotaCorePkg, "GroupQuotaManager", "resetRootQuotaUsedAndRequest"); fn != nil {
		counts := map[string]int{}
		for _, b := range fn.Blocks {
			for _, in := range b.Instrs {
				st, ok := in.(*ssa.Store)
				if !ok {
					continue
				}
				o, f, _, ok := an.FieldOf(st.Addr)
				if !ok || !strings.HasSuffix(o, "QuotaCalculateInfo") {
					continue
				}
				wrong := ""
				n := 0
				for x := range backwardAll(st.Val) {
					cl, ok := x.(*ssa.Call)
					if !ok {
						continue
					}
					sn := an.ShortCallee(&cl.Call)
					if strings.HasPrefix(sn, "Get") && cl.Call.StaticCallee() != nil && cl.Call.StaticCallee().Signature.Recv() != nil && isNamedType(cl.Call.StaticCallee().Signature.Recv().Type(), "QuotaInfo") {
						if sn == "Get"+f {
							n++
						} else {
							wrong = sn
						}
					}
				}
				counts[f] = n
				r.Check(wrong == "" && n >= 1, "TABLE", fkey(fn)+"/root/"+f, c.InstrPos(st), sprintf("%s of the root = sum of %d Get%s()", f, n, f),
					sprintf("the root's %s is re-summed from %d Get%s() call(s) and from %q: the root reports another figure of the system/default groups after a tree reset", f, n, f, wrong))
			}
		}
		even := len(counts) >= 4
		for _, n := range counts {
			for _, m := range counts {
				if n != m {
					even = false
				}
			}
		}
		r.Check(even, "TABLE", fkey(fn)+"/root/coverage", c.Pos(fn.Pos()), sprintf("%d figures, each summed over the same number of groups", len(counts)), sprintf("the root's figures are summed over different numbers of groups: %v", counts))
	}

	// ---- accumulators
	r.Rule("MIRROR(accumulators): in addRequestNonNegativeNoLock / addUsedNonNegativeNoLock every figure F is assigned quotav1.Add(F, p) with p a parameter; F and SelfF receive the same parameter; the plain and the non-preemptible figure receive different parameters (first and second); SelfF is written only under the flag parameter and F never under it")
	for _, name := range []string{"addRequestNonNegativeNoLock", "addUsedNonNegativeNoLock"} {
		fn := c.Fn(quotaCorePkg, "QuotaInfo", name)
		if fn == nil {
			continue
		}
		type acc struct {
			param int
			flag  bool
			st    *ssa.Store
		}
		accs := map[string]acc{}
		bad := ""
		for _, b := range fn.Blocks {
			for _, in := range b.Instrs {
				st, ok := in.(*ssa.Store)
				if !ok {
					continue
				}
				o, f, _, ok := an.FieldOf(st.Addr)
				if !ok || !strings.HasSuffix(o, "QuotaCalculateInfo") {
					continue
				}
				cl, _ := an.ResultOfCall(st.Val)
				if cl == nil || an.CalleeName(&cl.Call) != "k8s.io/apiserver/pkg/quota/v1.Add" {
					bad = sprintf("%s is assigned something else than quotav1.Add(..) at %s", f, c.InstrPos(st))
					continue
				}
				// one operand is the figure itself, the other a parameter
				self, param := false, -1
				for _, arg := range cl.Call.Args {
					if ld, ok := arg.(*ssa.UnOp); ok && ld.Op == token.MUL {
						if o2, f2, _, ok := an.FieldOf(ld.X); ok && o2 == o && f2 == f {
							self = true
							continue
						}
					}
					for i := 0; i < 3; i++ {
						if isParamOf(fn, arg, i) {
							param = i
						}
					}
				}
				if !self || param < 0 {
					bad = sprintf("%s = Add(..) at %s is not (the figure itself, a parameter)", f, c.InstrPos(st))
					continue
				}
				flag := false
				for _, g := range an.Guards(st) {
					if isParamOf(fn, g.Cond, 2) && g.Truth {
						flag = true
					}
				}
				if _, dup := accs[f]; dup {
					bad = sprintf("%s is accumulated twice", f)
				}
				accs[f] = acc{param, flag, st}
			}
		}
		key := fkey(fn) + "/figures"
		ok := bad == "" && len(accs) == 4
		var why []string
		if bad != "" {
			why = append(why, bad)
		}
		nNP := 0
		for f, a := range accs {
			isSelf := strings.HasPrefix(f, "Self")
			isNP := strings.Contains(f, "NonPreemptible")
			if isNP {
				nNP++
			}
			if isSelf != a.flag {
				ok = false
				why = append(why, sprintf("%s: written under the flag=%v", f, a.flag))
			}
			if (isNP && a.param != 1) || (!isNP && a.param != 0) {
				ok = false
				why = append(why, sprintf("%s receives parameter #%d", f, a.param+1))
			}
			if isSelf {
				if tw, has := accs[strings.TrimPrefix(f, "Self")]; !has || tw.param != a.param {
					ok = false
					why = append(why, sprintf("%s and its twin receive different amounts", f))
				}
			}
		}
		if nNP != 2 {
			ok = false
		}
		r.Check(ok, "MIRROR", key, c.Pos(fn.Pos()), sprintf("%d figures: F and SelfF get the same parameter, SelfF only under the flag", len(accs)),
			sprintf("the accumulator books a wrong amount: %d figures found (4 expected); %s", len(accs), strings.Join(why, "; ")))
	}

	// ---- getters
	r.Rule("TABLE(getters): every QuotaInfo.Get<F>() whose name matches a QuotaCalculateInfo field F returns a value that derives from that field and from no other field of QuotaCalculateInfo")
	nG := 0
	for _, fn := range c.PkgFuncs(quotaCorePkg) {
		if fn.Signature.Recv() == nil || !isNamedType(fn.Signature.Recv().Type(), "QuotaInfo") || !strings.HasPrefix(fn.Name(), "Get") {
			continue
		}
		want := strings.TrimPrefix(fn.Name(), "Get")
		if !hasField(fn.Signature.Recv().Type(), "CalculateInfo", want) || fn.Signature.Results().Len() != 1 {
			continue
		}
		nG++
		got := map[string]bool{}
		for _, alt := range an.ReturnAlts(fn) {
			for x := range backwardAll(alt.Results[0]) {
				if ld, ok := x.(*ssa.UnOp); ok && ld.Op == token.MUL {
					if o, f, _, ok := an.FieldOf(ld.X); ok && strings.HasSuffix(o, "QuotaCalculateInfo") {
						got[f] = true
					}
				}
			}
		}
		r.Check(len(got) == 1 && got[want], "TABLE", fkey(fn)+"/reports-own-figure", c.Pos(fn.Pos()), "returns "+want,
			sprintf("%s reports %v instead of %s: what callers read (summaries, admission, the plugin's status sync) is another figure than the one maintained", fn.Name(), keysOf(got), want))
	}
	r.Floor("TABLE", "QuotaInfo getters of calculated figures", nG, 10)

	// ---- saved figures at rebuild
	r.Rule("TABLE(rebuild): in rebuildAllGroupQuotaNoLock each saved map is identified by the replay argument it feeds (request / non-preemptible request of updateGroupDeltaRequestNoLock, used / non-preemptible used of updateGroupDeltaUsedNoLock); what is saved for a parent group is the matching Self figure, for a leaf the figure fed from below (ChildRequest or SelfRequest; Used or SelfUsed; likewise non-preemptible) and never the derived Request; every save precedes clearForResetNoLock; save key, replay name and replay lookups use one name per round")
	if fn := c.Fn(quotaCorePkg, "GroupQuotaManager", "rebuildAllGroupQuotaNoLock"); fn != nil {
		role := map[ssa.Value]string{} // saved map -> role
		names := true
		nReplay := 0
		for _, cl := range an.Calls(fn, false) {
			sn := an.ShortCallee(cl.Common())
			var roles [2]string
			switch sn {
			case "updateGroupDeltaRequestNoLock":
				roles = [2]string{"request", "npRequest"}
			case "updateGroupDeltaUsedNoLock":
				roles = [2]string{"used", "npUsed"}
			default:
				continue
			}
			nReplay++
			a := cl.Common().Args
			for i := 0; i < 2; i++ {
				lk, ok := an.Origin(a[2+i]).(*ssa.Lookup)
				if !ok {
					names = false
					continue
				}
				if prev, dup := role[lk.X]; dup && prev != roles[i] {
					names = false
				}
				role[lk.X] = roles[i]
				if lk.Index != a[1] {
					names = false
				}
			}
		}
		allowed := map[string][2][]string{ // role -> {leaf, parent}
			"request":   {{"ChildRequest", "SelfRequest"}, {"SelfRequest"}},
			"npRequest": {{"NonPreemptibleRequest", "SelfNonPreemptibleRequest"}, {"SelfNonPreemptibleRequest"}},
			"used":      {{"Used", "SelfUsed"}, {"SelfUsed"}},
			"npUsed":    {{"NonPreemptibleUsed", "SelfNonPreemptibleUsed"}, {"SelfNonPreemptibleUsed"}},
		}
		clears := an.CallsTo(fn, false, qp+"clearForResetNoLock")
		nSave := 0
		saved := map[string]bool{}
		for _, b := range fn.Blocks {
			for _, in := range b.Instrs {
				mu, ok := in.(*ssa.MapUpdate)
				if !ok || role[mu.Map] == "" {
					continue
				}
				nSave++
				ro := role[mu.Map]
				// which figure
				got := map[string]bool{}
				for x := range backwardAll(mu.Value) {
					if ld, ok := x.(*ssa.UnOp); ok && ld.Op == token.MUL {
						if o, f, _, ok := an.FieldOf(ld.X); ok && strings.HasSuffix(o, "QuotaCalculateInfo") {
							got[f] = true
						}
					}
				}
				// leaf or parent arm
				arm := -1
				for _, g := range an.Guards(mu) {
					v, neg := an.StripNot(g.Cond)
					if ld, ok := v.(*ssa.UnOp); ok && ld.Op == token.MUL {
						if _, f, _, ok := an.FieldOf(ld.X); ok && f == "IsParent" {
							if g.Truth != neg {
								arm = 1
							} else {
								arm = 0
							}
						}
					}
				}
				okFig := false
				if len(got) == 1 {
					for f := range got {
						if arm >= 0 {
							for _, w := range allowed[ro][arm] {
								if w == f {
									okFig = true
								}
							}
						} else { // saved regardless of the kind: only a figure valid for both
							for _, w := range allowed[ro][1] {
								if w == f {
									okFig = true
								}
							}
						}
					}
				}
				early := true
				for _, cl := range clears {
					if instrBefore(cl, mu) {
						early = false
					}
				}
				armName := map[int]string{-1: "any", 0: "leaf", 1: "parent"}[arm]
				saved[ro+"/"+armName] = true
				r.Check(okFig && early, "TABLE", sprintf("%s/saved/%s/%s", fkey(fn), ro, armName), c.InstrPos(mu), sprintf("%v saved before the clear", keysOf(got)),
					sprintf("the figure saved for the replay of %s (%s group) is %v (allowed: %v), saved before clearForResetNoLock=%v — after a tree reset the group's totals are rebuilt from the wrong figure (a derived or aggregated figure is counted again on top of the children's own replay)", ro, armName, keysOf(got), allowedFor(allowed[ro], arm), early))
			}
		}
		cover := true
		for ro := range allowed {
			if !(saved[ro+"/any"] || (saved[ro+"/leaf"] && saved[ro+"/parent"])) {
				cover = false
			}
		}
		if len(role) == 0 && nReplay == 2 && len(clears) >= 1 {
			// The figures are not kept in parallel maps that the replay reads back with a lookup per argument (for
			// instance one map of structs). The per-role clauses above are written for the parallel-map shape; for
			// another container they are not decided (claimed less, not approximated): what remains decided is that
			// both replay calls and the clear are there, and - by the PATH(replay) rule - that the replay is
			// unconditional.
			r.OK("TABLE", fkey(fn)+"/saved/wiring", c.Pos(fn.Pos()), "save/replay does not use four parallel maps: per-role wiring NOT decided for this shape; two replay calls and the clear are present")
			return
		}
		r.Check(names && nReplay == 2 && len(role) == 4 && cover && len(clears) >= 1, "TABLE", fkey(fn)+"/saved/wiring", c.Pos(fn.Pos()), "four saved maps, each replayed into its own argument under the name it is looked up with; leaf and parent groups both saved",
			sprintf("the save/replay wiring is broken: replay lookups use the replayed name and one role per map=%v, replay calls=%d, saved maps=%d, every role saved for leaf and parent groups=%v, clear calls=%d", names, nReplay, len(role), cover, len(clears)))
		r.Floor("TABLE", "saves in rebuildAllGroupQuotaNoLock", nSave, 8)
	}
}

func allowedFor(a [2][]string, arm int) []string {
	if arm == 0 {
		return a[0]
	}
	return a[1]
}

// rootOf strips field selections and loads down to the pointer the access starts from.
func rootOf(v ssa.Value) ssa.Value {
	for {
		switch x := v.(type) {
		case *ssa.FieldAddr:
			v = x.X
		case *ssa.UnOp:
			if x.Op != token.MUL {
				return v
			}
			if _, isFA := x.X.(*ssa.FieldAddr); !isFA {
				return v
			}
			v = x.X
		default:
			return v
		}
	}
}

// derivesFrom: v is w, a load of the cell w was loaded from, or the address of that cell (method receivers).
func derivesFrom(v, w ssa.Value) bool {
	if v == w {
		return true
	}
	cell := func(x ssa.Value) ssa.Value {
		if ld, ok := x.(*ssa.UnOp); ok && ld.Op == token.MUL {
			return ld.X
		}
		return x
	}
	return cell(v) == cell(w)
}

// loopClosed: no block of the natural loop headed by hdr leaves the loop except hdr itself (no break, no return).
func loopClosed(hdr *ssa.BasicBlock) bool {
	in := map[*ssa.BasicBlock]bool{hdr: true}
	// blocks of the loop: those dominated by hdr that can reach a back edge
	var backs []*ssa.BasicBlock
	for _, p := range hdr.Preds {
		if hdr.Dominates(p) {
			backs = append(backs, p)
		}
	}
	var up func(b *ssa.BasicBlock)
	up = func(b *ssa.BasicBlock) {
		if in[b] {
			return
		}
		in[b] = true
		for _, p := range b.Preds {
			up(p)
		}
	}
	for _, b := range backs {
		up(b)
	}
	for b := range in {
		if b == hdr {
			continue
		}
		if len(b.Succs) == 0 {
			return false
		}
		for _, s := range b.Succs {
			if !in[s] {
				return false
			}
		}
	}
	return len(backs) > 0
}

// cmpPossible: the values recv.Cmp(arg) can have under the guards (nil if no guard compares such a call); isA/isB decide
// which operand is which, the mirrored call is understood.
func cmpPossible(gs []an.Guard, isA, isB func(ssa.Value) bool) map[int64]bool {
	poss := map[int64]bool{-1: true, 0: true, 1: true}
	found := false
	for _, g := range gs {
		rel, ok := an.RelOf(g)
		if !ok {
			continue
		}
		call, _ := an.ResultOfCall(rel.X)
		k, isC := constIntOf(rel.Y)
		if call == nil || !isC || an.ShortCallee(&call.Call) != "Cmp" || len(call.Call.Args) != 2 {
			continue
		}
		sign := int64(0)
		switch {
		case isA(call.Call.Args[0]) && isB(call.Call.Args[1]):
			sign = 1
		case isB(call.Call.Args[0]) && isA(call.Call.Args[1]):
			sign = -1
		}
		if sign == 0 {
			continue
		}
		found = true
		for v := range poss {
			x := v * sign
			holds := false
			switch rel.Op {
			case token.EQL:
				holds = x == k
			case token.NEQ:
				holds = x != k
			case token.LSS:
				holds = x < k
			case token.LEQ:
				holds = x <= k
			case token.GTR:
				holds = x > k
			case token.GEQ:
				holds = x >= k
			}
			if !holds {
				delete(poss, v)
			}
		}
	}
	if !found {
		return nil
	}
	return poss
}

func hasField(recv types.Type, via, field string) bool {
	if p, ok := recv.(*types.Pointer); ok {
		recv = p.Elem()
	}
	st, ok := recv.Underlying().(*types.Struct)
	if !ok {
		return false
	}
	for i := 0; i < st.NumFields(); i++ {
		if st.Field(i).Name() == via {
			if s2, ok := st.Field(i).Type().Underlying().(*types.Struct); ok {
				for j := 0; j < s2.NumFields(); j++ {
					if s2.Field(j).Name() == field {
						return true
					}
				}
			}
		}
	}
	return false
}

// c01recompute: one store "CalculateInfo.Request = <recomputed>".
func c01recompute(c *Ctx, fn *ssa.Function, st *ssa.Store, n int) {
	r := c.R
	key := sprintf("%s/request-from-child-request#%d", fkey(fn), n)
	_, _, stBase, _ := an.FieldOf(st.Addr)
	loadsOf := func(v ssa.Value) (fields map[string]bool, sameGroup bool) {
		fields, sameGroup = map[string]bool{}, true
		for x := range backwardAll(v) {
			if ld, ok := x.(*ssa.UnOp); ok && ld.Op == token.MUL {
				if o, f, base, ok := an.FieldOf(ld.X); ok && strings.HasSuffix(o, "QuotaCalculateInfo") {
					fields[f] = true
					if !sameVal(rootOf(base), rootOf(stBase)) {
						sameGroup = false
					}
				}
			}
		}
		return
	}
	notLending := func(in ssa.Instruction) bool {
		for _, g := range an.Guards(in) {
			v, neg := an.StripNot(g.Cond)
			if ld, ok := v.(*ssa.UnOp); ok && ld.Op == token.MUL {
				if _, f, base, ok := an.FieldOf(ld.X); ok && f == "AllowLentResource" && g.Truth == neg && sameVal(rootOf(base), rootOf(stBase)) {
					return true
				}
			}
		}
		return false
	}
	fields, same := loadsOf(st.Val)
	fromChild := fields["ChildRequest"]
	var other []string
	for f := range fields {
		if f != "ChildRequest" && f != "Min" {
			other = append(other, f)
		}
	}
	// Min may flow in through quotav1.Max(copy, Min) only
	raiseOK, nRaise := true, 0
	var why []string
	viaMax := map[ssa.Value]bool{}
	for x := range backwardAll(st.Val) {
		cl, ok := x.(*ssa.Call)
		if !ok || an.CalleeName(&cl.Call) != "k8s.io/apiserver/pkg/quota/v1.Max" {
			continue
		}
		nRaise++
		fa, _ := loadsOf(cl.Call.Args[0])
		fb, _ := loadsOf(cl.Call.Args[1])
		shape := (fa["ChildRequest"] && !fa["Min"] && fb["Min"] && len(fb) == 1) || (fb["ChildRequest"] && !fb["Min"] && fa["Min"] && len(fa) == 1)
		lend := notLending(cl)
		if !shape || !lend {
			raiseOK = false
			why = append(why, sprintf("%s: Max(copy of ChildRequest, Min)=%v under !AllowLentResource=%v", c.InstrPos(cl), shape, lend))
		}
		for y := range backwardAll(cl) {
			viaMax[y] = true
		}
	}
	// or entry-wise into the copy
	maps := map[ssa.Value]bool{}
	for _, s := range cellSources(st.Val) {
		maps[s] = true
	}
	for _, b := range fn.Blocks {
		for _, in := range b.Instrs {
			mu, ok := in.(*ssa.MapUpdate)
			if !ok {
				continue
			}
			hit := false
			for _, s := range cellSources(mu.Map) {
				if maps[s] {
					hit = true
				}
			}
			if !hit {
				continue
			}
			nRaise++
			fromMin := false
			for x := range backwardAll(mu.Value) {
				if rg, ok := x.(*ssa.Range); ok {
					if fs, sg := loadsOf(rg.X); fs["Min"] && len(fs) == 1 && sg {
						fromMin = true
					}
				}
			}
			gs := an.Guards(mu)
			missing := false
			for _, g := range gs {
				if isCommaOk(g.Cond) && !g.Truth {
					missing = true
				}
			}
			poss := cmpPossible(gs, func(v ssa.Value) bool { return derivesFrom(v, mu.Value) }, func(v ssa.Value) bool {
				for x := range backwardAll(v) {
					if lk, ok := x.(*ssa.Lookup); ok && lk.CommaOk {
						return true
					}
				}
				return false
			})
			greater := poss != nil && !poss[-1] && !poss[0]
			lend := notLending(mu)
			if !(fromMin && lend && (missing || greater)) {
				raiseOK = false
				why = append(why, sprintf("%s: from Min=%v, under !AllowLentResource=%v, entry missing=%v, Min greater=%v", c.InstrPos(mu), fromMin, lend, missing, greater))
			}
		}
	}
	// a Min load that reaches the stored value outside Max (and outside the entry-wise form, where it does not reach it at all)
	minDirect := false
	for x := range backwardAll(st.Val) {
		if ld, ok := x.(*ssa.UnOp); ok && ld.Op == token.MUL && !viaMax[x] {
			if _, f, _, ok := an.FieldOf(ld.X); ok && f == "Min" {
				minDirect = true
			}
		}
	}
	r.Check(fromChild && same && len(other) == 0 && raiseOK && nRaise >= 1 && !minDirect, "FLOW", key, c.InstrPos(st), "Request = copy of ChildRequest, raised to Min only for non-lending groups and only where Min is greater",
		sprintf("the recomputed Request is wrong: derives from ChildRequest=%v of the same group=%v, other figures mixed in=%v, %d raise sites, all well-formed=%v (%s), Min assigned directly=%v", fromChild, same, other, nRaise, raiseOK, strings.Join(why, "; "), minDirect))
}

// quotaHandover: a re-parented quota takes its pod records along (shared by C01 and C03).
func quotaHandover(c *Ctx) {
	r := c.R
	r.Rule("HANDOVER(pod records): in updateQuotaNoLockWhenParentChange the new QuotaInfo's PodCache is assigned the saved old QuotaInfo's PodCache (the PodInfo records with their isAssigned marks), before the new info is stored into quotaInfoMap, and the new info is not re-filled through addPodIfNotPresent (which creates unassigned records while Used/SelfUsed are carried over: the next event of such a pod charges it a second time)")
	if fn := c.Fn(quotaCorePkg, "GroupQuotaManager", "updateQuotaNoLockWhenParentChange"); fn != nil {
		var st *ssa.Store
		refill := false
		for _, b := range fn.Blocks {
			for _, in := range b.Instrs {
				switch x := in.(type) {
				case *ssa.Store:
					if _, f, base, ok := an.FieldOf(x.Addr); ok && f == "PodCache" {
						if cl, _ := an.ResultOfCall(firstSource(rootOf(base))); cl != nil && an.ShortCallee(&cl.Call) == "NewQuotaInfoFromQuota" {
							if ld, isLd := x.Val.(*ssa.UnOp); isLd && ld.Op == token.MUL {
								if _, f2, b2, ok := an.FieldOf(ld.X); ok && f2 == "PodCache" {
									if c2, _ := an.ResultOfCall(firstSource(rootOf(b2))); c2 != nil && an.ShortCallee(&c2.Call) == "DeepCopy" {
										st = x
									}
								}
							}
						}
					}
				case *ssa.Call:
					if an.ShortCallee(&x.Call) == "addPodIfNotPresent" {
						refill = true
					}
				}
			}
		}
		before := false
		if st != nil {
			for _, b := range fn.Blocks {
				for _, in := range b.Instrs {
					if mu, ok := in.(*ssa.MapUpdate); ok && strings.HasSuffix(an.Path(mu.Map), ".quotaInfoMap") {
						if cl, _ := an.ResultOfCall(firstSource(mu.Value)); cl != nil && an.ShortCallee(&cl.Call) == "NewQuotaInfoFromQuota" {
							before = mustPass(st, mu)
						}
					}
				}
			}
		}
		r.Check(st != nil && before && !refill, "HANDOVER", fkey(fn)+"/pod-records", c.Pos(fn.Pos()), "the pod records (with their assigned marks) move to the new info", sprintf("the re-parented quota does not take over the old pod records (PodCache handed over=%v, before the new info is recorded=%v, re-filled through addPodIfNotPresent=%v): pods lose their assigned mark while their used amount is carried over", st != nil, before, refill))
	}

}
