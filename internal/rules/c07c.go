package rules

import (
	"strings"

	"golang.org/x/tools/go/ssa"

	"kverif/internal/an"
)

// c07values: an allocation travels with the pod it was parsed from; a device with zero capacity is no device.
func c07values(c *Ctx) {
	r := c.R
	r.Decides("in the deviceshare pod handlers the allocation handed to updateCacheUsed was parsed from the annotations of the very pod handed over with it (what is released is what that version of the pod held); removeZeroDevice keeps a device only when its resource list is not all-zero")
	r.Rule("PAIR(allocation with its pod): in nodeDeviceCache.updatePod and deletePod every updateCacheUsed(alloc, pod, _) has alloc derived from GetDeviceAllocations(<that pod>.Annotations) and from no other pod's annotations")
	n := 0
	for _, name := range []string{"updatePod", "deletePod"} {
		fn := c.Fn(devPkg, "nodeDeviceCache", name)
		if fn == nil {
			continue
		}
		for _, cl := range an.Calls(fn, true) {
			if an.ShortCallee(cl.Common()) != "updateCacheUsed" {
				continue
			}
			a := an.Args(cl.Common())
			if len(a) < 4 {
				continue
			}
			n++
			alloc, pod := a[1], a[2]
			own, foreign := false, false
			for x := range backwardAll(alloc) {
				call, isC := x.(*ssa.Call)
				if !isC || an.ShortCallee(&call.Call) != "GetDeviceAllocations" || len(call.Call.Args) != 1 {
					continue
				}
				// the annotations argument: a field of which pod ?
				isOwn := false
				for y := range backwardAll(call.Call.Args[0]) {
					if sameSource(y, pod) {
						isOwn = true
					}
				}
				if isOwn {
					own = true
				} else {
					foreign = true
				}
			}
			r.Check(own && !foreign, "PAIR", sprintf("%s/updateCacheUsed#%d", fkey(fn), n), c.InstrPos(cl), "allocation and pod belong together", "updateCacheUsed is given the allocation of one version of the pod together with another version of the pod: the amounts of the old record stay in use (or the new ones are taken out) and the ledger no longer equals the sum of the recorded allocations")
		}
	}
	r.Floor("PAIR", "updateCacheUsed calls in the pod handlers", n, 3)

	r.Rule("PATH(zero device): in removeZeroDevice an entry is copied only under quotav1.IsZero(<its resources>) == false")
	if fn := c.Fn(devPkg, "", "removeZeroDevice"); fn != nil {
		n, ok := 0, true
		for _, b := range fn.Blocks {
			for _, in := range b.Instrs {
				mu, isMU := in.(*ssa.MapUpdate)
				if !isMU {
					continue
				}
				n++
				gated := false
				for _, g := range an.Guards(mu) {
					call, _ := an.ResultOfCall(g.Cond)
					if call != nil && !g.Truth && strings.HasSuffix(an.CalleeName(&call.Call), "quota/v1.IsZero") && len(call.Call.Args) == 1 && sameSource(call.Call.Args[0], mu.Value) {
						gated = true
					}
				}
				if !gated {
					ok = false
				}
			}
		}
		r.Check(ok && n >= 1, "PATH", fkey(fn)+"/not-all-zero", c.Pos(fn.Pos()), "only devices with some capacity are kept", "a device whose resources are all zero (reported healthy but empty) is kept: it counts in the partition mask and a whole device is handed out on it")
	}
}
