package rules

import (
	"go/ast"
	"go/token"
	"go/types"
	"strings"

	"golang.org/x/tools/go/packages"
	"golang.org/x/tools/go/ssa"

	"kverif/internal/an"
)

func init() { Registry["C02"] = c02 }

func c02(c *Ctx) {
	c02changeDetectComplete(c)
	r := c.R
	r.Decides("the division is computed in integers only (no floating-point value anywhere in the call tree) and is a pure function of its inputs (the call tree uses only math/bits, sort, builtins and in-package helpers; no global state)")
	r.Decides("the remainder sort ends in a comparison on the quota name (total order: independent of map iteration order); every +1 of the residual distribution is paired with a -1 of the residual under residual > 0")
	r.Decides("in the first pass a sibling's runtime is set to its request or to its effective minimum max(min, guarantee), never to the raw min; in the iteration a sibling is capped at its request exactly when it reached it and the surplus is recycled; each delta is applied to the sibling it was computed for")
	r.Decides("the top-down refresh hands each level's own runtime down as the total for the next level (also to the min-scaling), not a loop-invariant total")
	r.Decides("every change of max/min/weight/request/guarantee reaches the per-resource tree node on every iteration (update or insert) and bumps the version; the per-parent sums of the min scaling are keyed by the parent name and the per-quota records by the quota name")
	r.Declines("the arithmetic claims themselves: min guarantee, request cap, conservation, proportionality for concrete numbers (would need a relational numeric argument)")

	fns := map[string]*ssa.Function{}
	for _, n := range []string{"redistribution", "iterationForRedistribution"} {
		fns[n] = c.Fn(quotaCorePkg, "quotaTree", n)
	}
	fns["computeHamiltonDeltas"] = c.Fn(quotaCorePkg, "", "computeHamiltonDeltas")

	// ---- TYPE + EFFECT over the call tree
	r.Rule("TYPE/EFFECT: no plain integer product of two run-time values (only bits.Mul64, or a product dominated by LeadingZeros64(x)+LeadingZeros64(y) >= 64 on its own operands), no SSA value of floating-point type and no call outside {math/bits, sort, builtins, package core helpers in the tree} in redistribution, iterationForRedistribution, computeHamiltonDeltas and their in-package callees (closures included); no access to package-level variables")
	seen := map[*ssa.Function]bool{}
	var tree []*ssa.Function
	var walk func(f *ssa.Function)
	walk = func(f *ssa.Function) {
		if f == nil || seen[f] || len(f.Blocks) == 0 {
			return
		}
		seen[f] = true
		tree = append(tree, f)
		for _, a := range f.AnonFuncs {
			walk(a)
		}
		for _, cl := range an.Calls(f, false) {
			if callee := cl.Common().StaticCallee(); callee != nil && callee.Pkg == f.Pkg && callee.Pkg != nil {
				walk(callee)
			}
			// an in-package function handed over as a value (a named comparator) is part of the tree
			for _, a := range cl.Common().Args {
				if fv, isF := a.(*ssa.Function); isF && fv.Pkg == f.Pkg && fv.Pkg != nil {
					walk(fv)
				}
			}
		}
	}
	for _, f := range fns {
		walk(f)
	}
	for _, f := range tree {
		var floats, foreign, globals, products []string
		for _, b := range f.Blocks {
			for _, in := range b.Instrs {
				if bo, ok := in.(*ssa.BinOp); ok && bo.Op == token.MUL {
					_, cx := bo.X.(*ssa.Const)
					_, cy := bo.Y.(*ssa.Const)
					if bt, isB := bo.Type().Underlying().(*types.Basic); isB && bt.Info()&types.IsInteger != 0 && !cx && !cy && !fitsGuard(bo) {
						products = append(products, c.InstrPos(in))
					}
				}
				if v, ok := in.(ssa.Value); ok {
					if bt, ok := v.Type().Underlying().(*types.Basic); ok && bt.Info()&types.IsFloat != 0 {
						floats = append(floats, c.InstrPos(in))
					}
				}
				if cl, ok := in.(ssa.CallInstruction); ok {
					n := an.CalleeName(cl.Common())
					okCall := strings.HasPrefix(n, "builtin.") || strings.HasPrefix(n, "math/bits.") || strings.HasPrefix(n, "sort.") || strings.HasPrefix(n, "slices.") || strings.HasPrefix(n, "cmp.") || n == "strings.Compare" || strings.Contains(n, "/elasticquota/core.") || strings.Contains(n, "/elasticquota/core)")
					if cl.Common().StaticCallee() == nil && !cl.Common().IsInvoke() {
						if _, isB := cl.Common().Value.(*ssa.Builtin); isB {
							okCall = true
						}
					}
					if !okCall {
						foreign = append(foreign, n+"@"+c.InstrPos(in))
					}
				}
				for _, op := range in.Operands(nil) {
					if op != nil && *op != nil {
						if g, ok := (*op).(*ssa.Global); ok {
							globals = append(globals, g.Name()+"@"+c.InstrPos(in))
						}
					}
				}
			}
		}
		r.Check(len(floats) == 0, "TYPE", fkey(f)+"/integers-only", c.Pos(f.Pos()), "no floating-point value", "floating-point values appear at "+strings.Join(floats, ",")+": the split is no longer exact for 64-bit-scale values")
		r.Check(len(products) == 0, "TYPE", fkey(f)+"/no-plain-64-bit-product", c.Pos(f.Pos()), "products of two run-time values go through bits.Mul64", "a plain integer product of two run-time values is formed at "+strings.Join(products, ",")+" without a dominating test LeadingZeros64(x)+LeadingZeros64(y) >= 64 on its own two operands: weight x total exceeds 64 bits for memory-scale values (the 128-bit bits.Mul64/Div64 pair exists for that reason)")
		r.Check(len(foreign) == 0 && len(globals) == 0, "EFFECT", fkey(f)+"/pure", c.Pos(f.Pos()), "only bits/sort/builtins/in-package helpers, no globals", "the division consults something outside its inputs: calls "+strings.Join(foreign, ",")+" globals "+strings.Join(globals, ","))
	}
	r.Floor("TYPE", "functions in the division call tree", len(tree), 3)

	// ---- SORT(c): last key is the name
	r.Rule("SORT(c): the comparator of the sort in computeHamiltonDeltas is a key chain whose last comparison is on the field filled from quotaNode.quotaName")
	sites := c.SortSites(func(pk *packages.Package) bool { return strings.HasSuffix(pk.PkgPath, quotaCorePkg) })
	found := false
	for _, s := range sites {
		if !strings.HasSuffix(s.Encl, ".computeHamiltonDeltas") {
			continue
		}
		found = true
		keys, tail := comparatorKeys(s.Pkg.TypesInfo, s.Lit)
		lastKey := ""
		if ret, ok := s.Lit.Body.List[len(s.Lit.Body.List)-1].(*ast.ReturnStmt); ok && len(ret.Results) == 1 {
			if be, ok := ret.Results[0].(*ast.BinaryExpr); ok && (be.Op == token.LSS || be.Op == token.GTR) {
				lastKey = selName(be.X)
			}
		}
		_ = tail
		// the comparator touches the elements through comparisons only: evaluate it for all nine orderings of
		// (remainder, name); that decides the order it defines however the tests are arranged
		if holds, decided := lessIsLexicographic(s.Pkg.TypesInfo, s.Lit, []string{"remainder", "name"}, []bool{true, false}); decided {
			r.Check(holds, "SORT", s.Encl+"/name-tiebreak", c.Pos(s.Call.Pos()), "order: remainder descending, then name ascending (all 9 orderings of the two keys evaluated)", "the remainder sort is not 'larger remainder first, equal remainders by name' for some ordering of the two keys: equal remainders are then ordered by map iteration order, or the remainder order is wrong")
			continue
		}
		r.Check(lastKey == "name" && len(keys) >= 1 && strings.HasPrefix(keys[0], "remainder"), "SORT", s.Encl+"/name-tiebreak", c.Pos(s.Call.Pos()), "order: "+strings.Join(keys, ",")+" then name", "the remainder sort does not end in the name tiebreak (keys: "+strings.Join(keys, ",")+", last: "+lastKey+"): equal remainders are ordered by map iteration order")
	}
	if !found {
		// the other sort idiom: slices.SortFunc / SortStableFunc with a three-way comparator (literal or named function)
		for _, pk := range c.P.Pkgs {
			if !strings.HasSuffix(pk.PkgPath, quotaCorePkg) {
				continue
			}
			decls := map[types.Object]*ast.FuncDecl{}
			for _, f := range pk.Syntax {
				for _, d := range f.Decls {
					if fd, ok := d.(*ast.FuncDecl); ok && fd.Body != nil {
						decls[pk.TypesInfo.Defs[fd.Name]] = fd
					}
				}
			}
			for _, fd := range decls {
				if fd.Name.Name != "computeHamiltonDeltas" || fd.Recv != nil {
					continue
				}
				ast.Inspect(fd.Body, func(x ast.Node) bool {
					call, ok := x.(*ast.CallExpr)
					if !ok || len(call.Args) != 2 {
						return true
					}
					sel, ok := call.Fun.(*ast.SelectorExpr)
					if !ok {
						return true
					}
					obj, ok := pk.TypesInfo.Uses[sel.Sel].(*types.Func)
					if !ok || obj.Pkg() == nil || obj.Pkg().Path() != "slices" || (obj.Name() != "SortFunc" && obj.Name() != "SortStableFunc") {
						return true
					}
					var body *ast.BlockStmt
					var ftype *ast.FuncType
					switch a := ast.Unparen(call.Args[1]).(type) {
					case *ast.FuncLit:
						body, ftype = a.Body, a.Type
					case *ast.Ident:
						if d := decls[pk.TypesInfo.Uses[a]]; d != nil {
							body, ftype = d.Body, d.Type
						}
					}
					if body == nil {
						return true
					}
					found = true
					keys, last := threeWayKeys(body, ftype)
					r.Check(last == "name" && len(keys) >= 1 && strings.HasPrefix(keys[0], "remainder"), "SORT", "pkg/scheduler/plugins/elasticquota/core.computeHamiltonDeltas/name-tiebreak", c.Pos(call.Pos()), "order: "+strings.Join(keys, ",")+" then name", "the remainder sort does not end in the name tiebreak (keys: "+strings.Join(keys, ",")+", last: "+last+"): equal remainders are ordered by map iteration order")
					return true
				})
			}
		}
	}
	if !found {
		r.Unknown("SORT", "computeHamiltonDeltas/name-tiebreak", "", "sort site not found")
	}
	if f := fns["computeHamiltonDeltas"]; f != nil {
		// name field filled from quotaName
		ok := false
		for _, b := range f.Blocks {
			for _, in := range b.Instrs {
				if st, ok2 := in.(*ssa.Store); ok2 {
					if _, fld, _, ok3 := an.FieldOf(st.Addr); ok3 && fld == "name" && strings.HasSuffix(an.Path(st.Val), ".quotaName") {
						ok = true
					}
				}
			}
		}
		r.Check(ok, "FLOW", fkey(f)+"/name-from-quotaName", c.Pos(f.Pos()), "tiebreak key is the unique quota name", "the tiebreak key is not filled from quotaNode.quotaName")
		// paired +1 / -1
		r.Rule("PATH: in computeHamiltonDeltas the block that increments a delta also decrements the residual and is dominated by residual > 0")
		var inc, dec *ssa.BinOp
		for _, b := range f.Blocks {
			for _, in := range b.Instrs {
				bo, ok := in.(*ssa.BinOp)
				if !ok {
					continue
				}
				if k, isC := constIntOf(bo.Y); isC && k == 1 {
					if bo.Op == token.ADD && strings.Contains(an.Path(bo.X), "[") && strings.Contains(an.Path(bo.X), ".index") {
						inc = bo
					}
					if bo.Op == token.SUB {
						if _, isPhi := bo.X.(*ssa.Phi); isPhi {
							dec = bo
						}
					}
				}
			}
		}
		paired := inc != nil && dec != nil && inc.Block() == dec.Block()
		guarded := false
		if paired {
			guarded = an.ImpliesPositive(an.Guards(inc), func(v ssa.Value) bool { return v == dec.X })
		}
		r.Check(paired && guarded, "PATH", fkey(f)+"/residual-paired", c.Pos(f.Pos()), "each distributed unit is taken from the residual", sprintf("the residual distribution is not unit-exact: +1 and -1 in the same block=%v, under residual>0=%v", paired, guarded))
	}

	// ---- first pass sources
	if f := fns["redistribution"]; f != nil {
		r.Rule("FLOW: every store to quotaNode.runtimeQuota in redistribution takes node.request and/or a value merged from both node.min and node.guarantee (the effective minimum; min never without guarantee), and nothing else")
		n := 0
		seenSrc := map[string]bool{}
		for _, b := range f.Blocks {
			for _, in := range b.Instrs {
				st, ok := in.(*ssa.Store)
				if !ok {
					continue
				}
				if _, fld, _, ok := an.FieldOf(st.Addr); !ok || fld != "runtimeQuota" {
					continue
				}
				// one store may stand for several assignments (the amount chosen first, stored once): the sources are
				// request and/or the effective minimum - min never without guarantee
				n++
				src := map[string]bool{}
				var leaves func(v ssa.Value, d int)
				leaves = func(v ssa.Value, d int) {
					for _, l := range an.Sources(v, nil) {
						// the builtin forms of the clamp are merges too
						if call, isC := l.(*ssa.Call); isC && d < 4 && (an.IsBuiltinCall(call, "max") || an.IsBuiltinCall(call, "min")) {
							for _, a := range call.Call.Args {
								leaves(a, d+1)
							}
							continue
						}
						p := an.Path(l)
						src[p[strings.LastIndex(p, ".")+1:]] = true
					}
				}
				leaves(st.Val, 0)
				ok2 := len(src) > 0 && src["min"] == src["guarantee"]
				for k := range src {
					if k != "request" && k != "min" && k != "guarantee" {
						ok2 = false
					}
					seenSrc[k] = true
				}
				r.Check(ok2, "FLOW", sprintf("%s/runtime-source#%d", fkey(f), n), c.InstrPos(st), "runtime <- request or max(min, guarantee)", "runtimeQuota is set from "+strings.Join(keysOf(src), "+")+": a sibling with guarantee above min would be cut to its raw min (or given something other than request / effective minimum)")
			}
		}
		r.Floor("FLOW", "runtimeQuota stores in redistribution", n, 1)
		r.Check(seenSrc["request"] && seenSrc["min"] && seenSrc["guarantee"], "FLOW", fkey(f)+"/runtime-sources-complete", c.Pos(f.Pos()), "request and the effective minimum both occur", "the first pass no longer uses both the request and the effective minimum")
	}
	if f := fns["iterationForRedistribution"]; f != nil {
		r.Rule("PATH/FLOW: in iterationForRedistribution the store runtimeQuota = request is dominated by (runtimeQuota < request)==false and the surplus runtimeQuota - request is added to the recycled amount in the same arm; deltas[i] is applied to nodes[i]; the recursion is dominated by recycled > 0")
		var cap *ssa.Store
		for _, b := range f.Blocks {
			for _, in := range b.Instrs {
				if st, ok := in.(*ssa.Store); ok {
					if _, fld, _, ok := an.FieldOf(st.Addr); ok && fld == "runtimeQuota" && strings.HasSuffix(an.Path(st.Val), ".request") {
						cap = st
					}
				}
			}
		}
		okCap := false
		if cap != nil {
			for _, g := range an.Guards(cap) {
				// runtime >= request holds: written as !(runtime < request), runtime >= request or request <= runtime
				rel, isRel := an.RelOf(g)
				if !isRel {
					continue
				}
				rq, rr := strings.HasSuffix(an.Path(rel.X), ".runtimeQuota") && strings.HasSuffix(an.Path(rel.Y), ".request"), strings.HasSuffix(an.Path(rel.Y), ".runtimeQuota") && strings.HasSuffix(an.Path(rel.X), ".request")
				if (rq && rel.Op == token.GEQ) || (rr && rel.Op == token.LEQ) {
					okCap = true
				}
			}
		}
		surplus := false
		if cap != nil {
			for _, in := range cap.Block().Instrs {
				if bo, ok := in.(*ssa.BinOp); ok && bo.Op == token.SUB && strings.HasSuffix(an.Path(bo.X), ".runtimeQuota") && strings.HasSuffix(an.Path(bo.Y), ".request") {
					surplus = true
				}
			}
		}
		r.Check(okCap && surplus, "PATH", fkey(f)+"/cap-at-request", c.Pos(f.Pos()), "a sibling is capped at its request when it reached it and the surplus is recycled", sprintf("cap at request under !(runtime < request)=%v, surplus recycled in the same arm=%v", okCap, surplus))
		// same index
		same := false
		indexOf := func(v ssa.Value) ssa.Value {
			for x := range backwardAll(v) {
				if ia, ok := x.(*ssa.IndexAddr); ok {
					return ia.Index
				}
			}
			return nil
		}
		for _, b := range f.Blocks {
			for _, in := range b.Instrs {
				if bo, ok := in.(*ssa.BinOp); ok && bo.Op == token.ADD && strings.HasSuffix(an.Path(bo.X), ".runtimeQuota") && strings.Contains(an.Path(bo.Y), "computeHamiltonDeltas") {
					ix, iy := indexOf(bo.X), indexOf(bo.Y)
					if ix != nil && ix == iy {
						same = true
					}
				}
			}
		}
		r.Check(same, "FLOW", fkey(f)+"/delta-to-own-node", c.Pos(f.Pos()), "deltas[i] goes to nodes[i]", "a delta is applied to a different sibling than it was computed for")
	}

	// ---- refresh passes each level's runtime down
	if f := c.Fn(quotaCorePkg, "GroupQuotaManager", "refreshRuntimeNoLock"); f != nil {
		r.Rule("FLOW: in refreshRuntimeNoLock the total handed to getScaledMinQuota is a loop-carried value that is re-defined in every iteration from the current level's CalculateInfo.Runtime (the same value that is set as the sub-tree's cluster total)")
		var scaled ssa.CallInstruction
		for _, cl := range an.Calls(f, false) {
			if an.ShortCallee(cl.Common()) == "getScaledMinQuota" {
				scaled = cl
			}
		}
		if scaled == nil {
			r.Fail("FLOW", fkey(f)+"/level-total", c.Pos(f.Pos()), "getScaledMinQuota call not found")
		} else {
			tot := scaled.Common().Args[1]
			phi, isPhi := tot.(*ssa.Phi)
			fromRuntime := false
			if isPhi {
				// every value that comes round the loop must be the level's runtime: a merge that lets the old total
				// through on some path (re-definition under a condition) is not a re-definition in every iteration
				fromRuntime = true
				nBack := 0
				rootSkip := func(pred, blk *ssa.BasicBlock) bool {
					gs := an.BlockGuards(pred)
					if pi, ok := pred.Instrs[len(pred.Instrs)-1].(*ssa.If); ok && len(pred.Succs) == 2 && pred.Succs[0] != pred.Succs[1] {
						pc, neg := an.StripNot(pi.Cond)
						t := pred.Succs[0] == blk
						if neg {
							t = !t
						}
						gs = append(gs, an.Guard{Cond: pc, Truth: t, If: pi})
					}
					for _, g := range gs {
						if rel, ok := an.RelOf(g); ok && rel.Op == token.EQL && strings.Contains(an.Path(rel.Y), "koordinator-root-quota") {
							return true
						}
					}
					return false
				}
				var leaves func(v ssa.Value, pred, blk *ssa.BasicBlock, seen map[ssa.Value]bool) bool
				leaves = func(v ssa.Value, pred, blk *ssa.BasicBlock, seen map[ssa.Value]bool) bool {
					if v == ssa.Value(phi) {
						// carried over unchanged: only the root level (whose total is the cluster total) may do that
						return rootSkip(pred, blk)
					}
					if seen[v] {
						return true
					}
					seen[v] = true
					if p2, ok := v.(*ssa.Phi); ok {
						for k2, e := range p2.Edges {
							if !leaves(e, p2.Block().Preds[k2], p2.Block(), seen) {
								return false
							}
						}
						return true
					}
					// (a nil total is what a failed level hands back together with "not ok"; the caller returns on it)
					return strings.Contains(an.Path(v), ".Runtime") || an.IsNilConst(v)
				}
				for k, e := range phi.Edges {
					pred := phi.Block().Preds[k]
					if !(phi.Block() == pred || phi.Block().Dominates(pred)) {
						continue // loop entry
					}
					nBack++
					if !leaves(e, pred, phi.Block(), map[ssa.Value]bool{}) {
						fromRuntime = false
					}
				}
				if nBack == 0 {
					fromRuntime = false
				}
			}
			r.Check(isPhi && fromRuntime, "FLOW", fkey(f)+"/level-total", c.InstrPos(scaled), "min scaling sees the parent's runtime of each level", "the total handed to the min scaling is "+an.Path(tot)+", not the level's own runtime carried down the loop: below the first level the minimums are scaled against the cluster total and children can be handed more than their parent owns")
		}
	}
	c02tree(c)
	c02scale(c)
}

// c02tree: every change of an input reaches the per-resource quota tree the division reads.
func c02tree(c *Ctx) {
	r := c.R
	r.Rule("SIBLING(update-or-insert): in each of updateOneGroup{MaxQuota,MinQuota,SharedWeight,Request,Guaranteed}, every iteration over the resource keys either updates the existing tree node or inserts a new one (no iteration leaves the node as it was), the update call is guarded by the existence test only, and the version counter is incremented on every path")
	for _, t := range []struct{ fn, upd string }{
		{"updateOneGroupMaxQuota", ""}, {"updateOneGroupMinQuota", "updateMin"}, {"updateOneGroupSharedWeight", "updateSharedWeight"},
		{"updateOneGroupRequest", "updateRequest"}, {"updateOneGroupGuaranteed", "updateGuaranteed"},
	} {
		fn := c.Fn(quotaCorePkg, "RuntimeQuotaCalculator", t.fn)
		if fn == nil {
			continue
		}
		key := fkey(fn)
		var hdr *ssa.BasicBlock
		for _, b := range fn.Blocks {
			for _, in := range b.Instrs {
				if _, ok := in.(*ssa.Next); ok {
					hdr = b
				}
			}
		}
		isTreeOp := func(in ssa.Instruction) bool {
			cl, ok := in.(ssa.CallInstruction)
			if !ok || cl.Common().StaticCallee() == nil {
				return false
			}
			n := an.ShortCallee(cl.Common())
			if !strings.HasSuffix(an.FullName(cl.Common().StaticCallee()), "quotaTree)."+n) {
				return false
			}
			return n == "insert" || (strings.HasPrefix(n, "update") && (t.upd == "" || n == t.upd))
		}
		if hdr == nil {
			r.Unknown("SIBLING", key+"/every-key", c.Pos(fn.Pos()), "range loop over the resource keys not found")
			continue
		}
		var body *ssa.BasicBlock
		if ifi, ok := hdr.Instrs[len(hdr.Instrs)-1].(*ssa.If); ok {
			body = ifi.Block().Succs[0]
		}
		if body == nil {
			r.Unknown("SIBLING", key+"/every-key", c.Pos(fn.Pos()), "loop body not found")
			continue
		}
		reach := an.Explore(fn, &an.Start{Block: body, Index: 0}, nil, isTreeOp)
		r.Check(!reach.BlockReached(hdr) && len(reach.Returns()) == 0, "SIBLING", key+"/every-key", c.Pos(fn.Pos()), "each resource key's node is updated or inserted", "an iteration can finish without updating or inserting the tree node (the division keeps reading the previous value while the calculator's cache says nothing is left to do)")
		// version bump
		reach = an.Explore(fn, nil, nil, func(in ssa.Instruction) bool {
			st, ok := in.(*ssa.Store)
			if !ok {
				return false
			}
			_, f, _, ok := an.FieldOf(st.Addr)
			return ok && f == "globalRuntimeVersion"
		})
		r.Check(len(reach.Returns()) == 0, "SIBLING", key+"/version-bump", c.Pos(fn.Pos()), "globalRuntimeVersion is incremented", "the function can return without incrementing globalRuntimeVersion: cached runtimes are not recomputed")
	}
}

// c02scale: the per-parent sums of the min-scaling are keyed by the parent, the per-quota records by the quota.
func c02scale(c *Ctx) {
	r := c.R
	c02exact(c)
	c02setters(c)
	c02failurePaths(c)
	quotaDeleteMirror(c)
	r.Rule("KEY-ROLE(min scaling): in ScaleMinQuotaManager.{update,remove,getScaledMinQuota} every keyed access to enableScaleSubsSumMinQuotaMap/disableScaleSubsSumMinQuotaMap uses the parent-name parameter and every keyed access to originalMinQuotaMap/quotaEnableMinQuotaScaleMap uses the quota's own name parameter (the sums belong to the parent; a quota's own name indexes the sums of ITS children)")
	role := map[string]int{"enableScaleSubsSumMinQuotaMap": 0, "disableScaleSubsSumMinQuotaMap": 0, "originalMinQuotaMap": 1, "quotaEnableMinQuotaScaleMap": 1}
	n := 0
	for _, name := range []string{"update", "remove", "getScaledMinQuota"} {
		fn := c.Fn(quotaCorePkg, "ScaleMinQuotaManager", name)
		if fn == nil {
			continue
		}
		var strs []*ssa.Parameter
		for _, p := range fn.Params {
			if b, ok := p.Type().Underlying().(*types.Basic); ok && b.Kind() == types.String {
				strs = append(strs, p)
			}
		}
		if len(strs) != 2 {
			r.Unknown("KEY-ROLE", fkey(fn)+"/params", c.Pos(fn.Pos()), "expected (parent name, quota name) string parameters")
			continue
		}
		var bad []string
		check := func(m, k ssa.Value, in ssa.Instruction) {
			_, f, _, ok := an.FieldOf(mapField(m))
			if !ok {
				return
			}
			want, tracked := role[f]
			if !tracked {
				return
			}
			n++
			if k != ssa.Value(strs[want]) {
				bad = append(bad, sprintf("%s[%s] at %s", f, an.Path(k), c.InstrPos(in)))
			}
		}
		for _, b := range fn.Blocks {
			for _, in := range b.Instrs {
				switch x := in.(type) {
				case *ssa.Lookup:
					check(x.X, x.Index, in)
				case *ssa.MapUpdate:
					check(x.Map, x.Key, in)
				case ssa.CallInstruction:
					if bi, ok := x.Common().Value.(*ssa.Builtin); ok && bi.Name() == "delete" {
						check(x.Common().Args[0], x.Common().Args[1], in)
					}
				}
			}
		}
		r.Check(len(bad) == 0, "KEY-ROLE", fkey(fn)+"/keys", c.Pos(fn.Pos()), "sum maps keyed by the parent, records keyed by the quota", "wrong key role: "+strings.Join(bad, "; ")+" (expected "+strs[0].Name()+" for the per-parent sums and "+strs[1].Name()+" for the per-quota records)")
	}
	r.Floor("KEY-ROLE", "keyed accesses in ScaleMinQuotaManager", n, 20)

	r.Rule("EXACT-CMP(deficit test): in getScaledMinQuota a dimension is put on the need-scale list under a test made with Quantity.Cmp (exact), not under a comparison of two rounded readings (Value() rounds a milli-CPU total up to whole cores, which hides a deficit smaller than one core)")
	if fn := c.Fn(quotaCorePkg, "ScaleMinQuotaManager", "getScaledMinQuota"); fn != nil {
		rounded := func(v ssa.Value) bool {
			for x := range backwardAll(v) {
				if call, ok := x.(*ssa.Call); ok {
					switch an.CalleeName(&call.Call) {
					case "(*k8s.io/apimachinery/pkg/api/resource.Quantity).Value", "(*k8s.io/apimachinery/pkg/api/resource.Quantity).MilliValue", "(*k8s.io/apimachinery/pkg/api/resource.Quantity).ScaledValue":
						return true
					}
				}
			}
			return false
		}
		na := 0
		for _, cl := range an.Calls(fn, false) {
			call, ok := cl.(*ssa.Call)
			if !ok || !an.IsBuiltinCall(call, "append") || !strings.HasSuffix(call.Type().String(), "ResourceName") {
				continue
			}
			na++
			exact, lossy := false, false
			for _, g := range an.Guards(call) {
				rel, isRel := an.RelOf(g)
				if !isRel {
					continue
				}
				if c2, _ := an.ResultOfCall(rel.X); c2 != nil && an.ShortCallee(&c2.Call) == "Cmp" {
					exact = true
				}
				if rounded(rel.X) && rounded(rel.Y) {
					lossy = true
				}
			}
			r.Check(exact && !lossy, "EXACT-CMP", fkey(fn)+"/deficit-test", c.InstrPos(call), "the deficit test uses Quantity.Cmp", sprintf("the deficit test is not an exact Quantity.Cmp (Cmp-based: %v, compares two rounded readings: %v): a CPU total of 99500m against minimums summing to 100 cores reads as 100 >= 100 and the minimums are not scaled", exact, lossy))
		}
		r.Floor("EXACT-CMP", "need-scale insertions", na, 1)
	}
}

// c02exact: change detection and deficit tests compare exactly; only short dimensions are rescaled.
func c02exact(c *Ctx) {
	exactCmpPackage(c)
	c02exactRest(c)
}

// exactCmpPackage: shared by C01 (the request handed up is capped exactly) and C02.
func exactCmpPackage(c *Ctx) { exactCmpIn(c, quotaCorePkg, "elasticquota/core", 10) }

// exactCmpIn: the package-wide form of EXACT-CMP for any package that compares resource quantities.
func exactCmpIn(c *Ctx, pkgRel, label string, floor int) {
	r := c.R
	r.Rule("EXACT-CMP(package): in package " + label + " no comparison has a Quantity.Value() reading on both sides (Value() rounds up to whole units, so two CPU amounts inside one core compare equal: a change-detection guard built on it drops sub-core request changes and the runtime keeps depending on history); quantities are compared by Cmp/Equal")
	isValue := func(v ssa.Value) bool {
		cl, _ := an.ResultOfCall(firstSource(v))
		if cl == nil {
			return false
		}
		switch an.CalleeName(&cl.Call) {
		case "(*k8s.io/apimachinery/pkg/api/resource.Quantity).Value", "(k8s.io/apimachinery/pkg/api/resource.Quantity).Value":
			return true
		}
		return false
	}
	nExact := 0
	for _, fn := range c.PkgFuncs(pkgRel) {
		n := 0
		for _, b := range fn.Blocks {
			for _, in := range b.Instrs {
				switch x := in.(type) {
				case *ssa.BinOp:
					switch x.Op {
					case token.EQL, token.NEQ, token.LSS, token.LEQ, token.GTR, token.GEQ:
						if isValue(x.X) && isValue(x.Y) {
							n++
							r.Fail("EXACT-CMP", sprintf("%s/value-vs-value#%d", fkey(fn), n), c.InstrPos(x), "two quantities are compared through Value(): amounts that differ by less than one whole unit (e.g. 1500m and 1800m CPU) compare equal")
						}
					}
				case *ssa.Call:
					switch an.ShortCallee(&x.Call) {
					case "Cmp", "Equal", "Equals":
						nExact++
					}
				}
			}
		}
	}
	r.Floor("EXACT-CMP", "exact quantity comparisons seen in package "+label+" (the scan is alive)", nExact, floor)
}

func c02exactRest(c *Ctx) {
	r := c.R
	r.Rule("MEMO(version tests are equalities): in package elasticquota/core every comparison that involves QuotaInfo.RuntimeVersion or a calculator's globalRuntimeVersion / getVersion() is == or != (a parent's calculator is replaced on re-creation and its counter restarts: 'at least as new' keeps a child's stale runtime until the new counter catches up)")
	nVer := 0
	for _, fn := range c.PkgFuncs(quotaCorePkg) {
		nIn := 0
		for _, b := range fn.Blocks {
			for _, in := range b.Instrs {
				bo, ok := in.(*ssa.BinOp)
				if !ok {
					continue
				}
				switch bo.Op {
				case token.EQL, token.NEQ, token.LSS, token.LEQ, token.GTR, token.GEQ:
				default:
					continue
				}
				isVer := func(v ssa.Value) bool {
					p := an.Path(v)
					return strings.HasSuffix(p, ".RuntimeVersion") || strings.HasSuffix(p, ".globalRuntimeVersion") || strings.Contains(p, "getVersion(")
				}
				if !isVer(bo.X) && !isVer(bo.Y) {
					continue
				}
				nVer++
				nIn++
				r.Check(bo.Op == token.EQL || bo.Op == token.NEQ, "MEMO", sprintf("%s/version-test#%d", fkey(fn), nIn), c.InstrPos(bo), "compared for (in)equality", "a runtime version is compared by order ("+bo.Op.String()+"): versions of different calculators are not ordered, a stale runtime survives the re-creation of the parent")
			}
		}
	}
	r.Floor("MEMO", "runtime version tests", nVer, 2)

	r.Rule("ORDER(store before its consumer): wherever a function of package core assigns CalculateInfo.Guaranteed (resp. Request) of a group and also calls the parent calculator's needUpdateOneGroupGuaranteed/updateOneGroupGuaranteed (resp. ...Request) for that group, the assignment precedes the call on every path (the calculator reads the field: fed before the store, it keeps the old guarantee and nothing heals it until the next allocation change)")
	nOrd := 0
	for _, fn := range c.PkgFuncs(quotaCorePkg) {
		for _, t := range []struct{ field, consumer string }{{"Guaranteed", "OneGroupGuaranteed"}, {"Request", "OneGroupRequest"}} {
			var stores []*ssa.Store
			for _, b := range fn.Blocks {
				for _, in := range b.Instrs {
					if st, ok := in.(*ssa.Store); ok {
						if o, f, _, ok := an.FieldOf(st.Addr); ok && f == t.field && strings.HasSuffix(o, "QuotaCalculateInfo") {
							stores = append(stores, st)
						}
					}
				}
			}
			if len(stores) == 0 {
				continue
			}
			for _, cl := range an.Calls(fn, false) {
				sn := an.ShortCallee(cl.Common())
				if !strings.HasSuffix(sn, t.consumer) || cl.Common().StaticCallee() == nil || cl.Common().StaticCallee().Signature.Recv() == nil || !isNamedType(cl.Common().StaticCallee().Signature.Recv().Type(), "RuntimeQuotaCalculator") {
					continue
				}
				q := cl.Common().Args[1]
				for _, st := range stores {
					_, _, base, _ := an.FieldOf(st.Addr)
					if !sameVal(rootOf(base), q) && firstSource(rootOf(base)) != firstSource(q) {
						continue
					}
					nOrd++
					r.Check(mustPass(st, cl), "ORDER", sprintf("%s/%s-stored-before-%s", fkey(fn), t.field, sn), c.InstrPos(cl), "the field is assigned before the calculator reads it", "the parent calculator is fed ("+sn+") before CalculateInfo."+t.field+" of the group is assigned on some path: it computes with the previous value")
				}
			}
		}
	}
	r.Floor("ORDER", "store/consumer pairs", nOrd, 3)

	r.Rule("SCALE(only short dimensions): in ScaleMinQuotaManager.getScaledMinQuota every entry written into the returned scaled minimum is keyed by an element of a list whose every append is guarded by total.Cmp(children's min sum) < 0 for the appended dimension (a dimension with head-room keeps its declared min; rescaling it would blow the minimum up to the whole total)")
	if fn := c.Fn(quotaCorePkg, "ScaleMinQuotaManager", "getScaledMinQuota"); fn != nil {
		key := fkey(fn) + "/only-short-dimensions"
		// the returned maps
		ret := map[ssa.Value]bool{}
		for _, alt := range an.ReturnAlts(fn) {
			for _, s := range cellSources(alt.Results[1]) {
				ret[s] = true
			}
		}
		isTotal := func(v ssa.Value) bool {
			for x := range backwardAll(v) {
				if isParamOf(fn, x, 0) {
					return true
				}
			}
			return false
		}
		isSum := func(v ssa.Value) bool {
			for x := range backwardAll(v) {
				if cl, ok := x.(*ssa.Call); ok && an.CalleeName(&cl.Call) == "k8s.io/apiserver/pkg/quota/v1.Add" {
					return true
				}
			}
			return false
		}
		n, ok := 0, true
		why := ""
		for _, b := range fn.Blocks {
			for _, in := range b.Instrs {
				mu, isMU := in.(*ssa.MapUpdate)
				if !isMU {
					continue
				}
				hit := false
				for _, s := range cellSources(mu.Map) {
					if ret[s] {
						hit = true
					}
				}
				if !hit {
					continue
				}
				n++
				// the key: an element of a list
				var list ssa.Value
				for x := range backwardAll(mu.Key) {
					if ia, isIA := x.(*ssa.IndexAddr); isIA {
						list = ia.X
					}
				}
				if list == nil {
					ok = false
					why = c.InstrPos(mu) + ": the dimension written is not taken from the list of short dimensions"
					continue
				}
				na := 0
				for x := range backwardAll(list) {
					ap, isAp := x.(*ssa.Call)
					if !isAp || !an.IsBuiltinCall(ap, "append") {
						continue
					}
					na++
					poss := cmpPossible(an.Guards(ap), isTotal, isSum)
					if poss == nil || poss[0] || poss[1] {
						ok = false
						why = sprintf("%s: a dimension is listed where total.Cmp(sum) may be %v", c.InstrPos(ap), keysInt(poss))
					}
				}
				if na == 0 {
					ok = false
					why = c.InstrPos(mu) + ": the list the dimension comes from is not built by guarded appends"
				}
			}
		}
		r.Check(ok && n >= 1, "SCALE", key, c.Pos(fn.Pos()), sprintf("%d writes, all for dimensions listed under total < sum", n), sprintf("the scaled minimum is rewritten for dimensions that are not short (%d writes; %s)", n, why))
	}
}

// mapField returns the address of the field a map value was loaded from (or the value itself).
func mapField(m ssa.Value) ssa.Value {
	if u, ok := m.(*ssa.UnOp); ok && u.Op == token.MUL {
		return u.X
	}
	return m
}

// fitsGuard: the product x*y is dominated by "LeadingZeros64(x) + LeadingZeros64(y) >= 64" (or > 63) on its own operands,
// which is exactly the condition for the product to fit into 64 bits.
func fitsGuard(prod *ssa.BinOp) bool {
	strip := func(v ssa.Value) ssa.Value {
		for {
			switch x := v.(type) {
			case *ssa.Convert:
				v = x.X
			case *ssa.ChangeType:
				v = x.X
			default:
				return v
			}
		}
	}
	px, py := strip(prod.X), strip(prod.Y)
	lzArg := func(v ssa.Value) ssa.Value {
		call, ok := strip(v).(*ssa.Call)
		if !ok || an.CalleeName(&call.Call) != "math/bits.LeadingZeros64" {
			return nil
		}
		return strip(call.Call.Args[0])
	}
	for _, g := range an.Guards(prod) {
		rel, ok := an.RelOf(g)
		if !ok {
			continue
		}
		sum, isSum := rel.X.(*ssa.BinOp)
		k, isC := constIntOf(rel.Y)
		if !isSum || sum.Op != token.ADD || !isC {
			continue
		}
		if !((rel.Op == token.GEQ && k >= 64) || (rel.Op == token.GTR && k >= 63)) {
			continue
		}
		a, b := lzArg(sum.X), lzArg(sum.Y)
		if a == nil || b == nil {
			continue
		}
		if (a == px && b == py) || (a == py && b == px) {
			return true
		}
	}
	return false
}

// threeWayKeys reads a three-way comparator "func(a, b T) int": a chain of "if a.k != b.k { return <compare of .k> }"
// (or "if c := cmp.Compare(a.k, b.k); c != 0 { return c }") closed by "return <compare of a.last, b.last>". It returns
// the field names of the guarded keys in order and the field of the closing comparison ("" when the shape is different).
func threeWayKeys(body *ast.BlockStmt, ft *ast.FuncType) (keys []string, last string) {
	fieldOfCompare := func(e ast.Expr) string {
		call, ok := ast.Unparen(e).(*ast.CallExpr)
		if !ok || len(call.Args) != 2 {
			return ""
		}
		x, y := selName(call.Args[0]), selName(call.Args[1])
		if x == "" || x != y {
			return ""
		}
		return x
	}
	for i, st := range body.List {
		switch s := st.(type) {
		case *ast.IfStmt:
			if s.Else != nil || len(s.Body.List) != 1 {
				return nil, ""
			}
			ret, ok := s.Body.List[0].(*ast.ReturnStmt)
			if !ok || len(ret.Results) != 1 {
				return nil, ""
			}
			k := ""
			if s.Init != nil {
				if as, ok := s.Init.(*ast.AssignStmt); ok && len(as.Rhs) == 1 {
					k = fieldOfCompare(as.Rhs[0])
				}
			} else if be, ok := ast.Unparen(s.Cond).(*ast.BinaryExpr); ok && be.Op == token.NEQ {
				if x, y := selName(be.X), selName(be.Y); x != "" && x == y && fieldOfCompare(ret.Results[0]) == x {
					k = x
				}
			}
			if k == "" {
				return nil, ""
			}
			keys = append(keys, k)
		case *ast.ReturnStmt:
			if i != len(body.List)-1 || len(s.Results) != 1 {
				return nil, ""
			}
			last = fieldOfCompare(s.Results[0])
		default:
			return nil, ""
		}
	}
	return keys, last
}
