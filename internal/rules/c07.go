package rules

import (
	"go/token"
	"sort"
	"strings"

	"golang.org/x/tools/go/ssa"

	"kverif/internal/an"
)

func init() { Registry["C07"] = c07 }

const devPkg = "pkg/scheduler/plugins/deviceshare"

func c07(c *Ctx) {
	c.R.Rule("CREATE-ONCE: in a get-or-create of a per-key record, the lookup that finds the key absent and the store of the fresh record happen in one hold of the mutex the store runs under (no release of it in between)")
	createOnce(c, c.Fn(devPkg, "nodeDeviceCache", "getNodeDevice"), "the allocations (or the inventory) recorded in the replaced node entry are lost: a device owned by a live pod is reported free")
	r := c.R
	c07inventory(c)
	c07values(c)
	r.Rule("PATH(tombstone): the delete handler treats a cache.DeletedFinalStateUnknown (delivered by value) like the object inside it: both reach the release, and no assertion to the pointer type exists")
	c.Tombstone("PATH", devPkg, "nodeDeviceCache", "onPodDelete", "deletePod")
	r.Decides("after every write of a device type's total or used ledger the free ledger is recomputed before the atomic section ends (free = total - used is re-established)")
	r.Decides("the add and remove arms of the used ledger, the per-pod allocation set and the VF allocations are duals on the same amounts; the duplicate-event guard protects both arms; values stored into the ledgers are fresh copies (no aliasing between ledgers and per-pod records)")
	r.Decides("a device is handed out only if it has non-zero resources and request <= free; allocation fails exactly when fewer than the desired number were found; the topology-aware GPU allocator requires request <= free and membership in the filtered device totals")
	r.Decides("the node device ledgers are accessed only under nodeDevice.lock")
	r.Decides("a pod delete that arrives as a tombstone (by value) reaches deletePod like a plain delete; no assertion to the pointer tombstone type")
	r.Decides("the candidate view used for allocation (calcFreeWithPreemptible, filter) writes nothing into the shared ledgers; a preemption credit can raise a device's free amount at most to total - max(0, used - credit); with required (reserved) amounts the view contains only the required minors, each capped by min(free, required)")
	r.Declines("the sums themselves and 'fails only if no feasible set exists' (combinatorial)")

	c07typestate(c)
	c07mirror(c)
	c07alloc(c)
	c07free(c)
	c07events(c)

	r.Rule("LOCK(write side): every write of nodeDevice.{deviceTotal,deviceFree,deviceUsed,allocateSet,vfAllocations} happens under nodeDevice.lock held for writing or on an object just created by newNodeDevice (filter works on such a copy); helpers pass the requirement to their callers. Reads are not claimed: allocators reach the object through a struct field, which access-path locksets cannot relate to the lock taken by the plugin")
	c.RunLock("LOCK", LockCfg{Pkg: devPkg, Type: "nodeDevice", Mutex: "lock", WriteOnly: true,
		Guarded: []string{"deviceTotal", "deviceFree", "deviceUsed", "allocateSet", "vfAllocations"}, MinFuncs: 8,
		FreshCtors: []string{"pkg/scheduler/plugins/deviceshare.newNodeDevice"},
		Exempt:     map[string]string{"pkg/scheduler/plugins/deviceshare.newNodeDevice": "constructor: the object is not shared yet"}})
}

// c07typestate: dirty/clean discipline of deviceFree.
func c07typestate(c *Ctx) {
	r := c.R
	r.Rule("TYPESTATE(dirty/clean): a store into nodeDevice.deviceTotal or nodeDevice.deviceUsed (or a call of a helper that leaves them dirty) must be followed, on every path to a return, by resetDeviceFree/resetDeviceTotal; helpers that leave the ledger dirty are allowed only if every caller cleans after the call")
	var methods []*ssa.Function
	for _, fn := range c.PkgFuncs(devPkg) {
		if recv := an.Receiver(fn); recv != nil && isNamedType(recv.Type(), "nodeDevice") {
			methods = append(methods, fn)
		}
	}
	cleaners := map[string]bool{"resetDeviceFree": true, "resetDeviceTotal": true}
	leavesDirty := map[*ssa.Function]bool{}
	dirtySites := func(fn *ssa.Function) []ssa.Instruction {
		var out []ssa.Instruction
		recv := an.Receiver(fn)
		for _, e := range an.Effects(fn, recv, nil) {
			if f := e.Chain.First(); f == "deviceTotal" || f == "deviceUsed" {
				out = append(out, e.Instr)
			}
		}
		for _, cl := range an.Calls(fn, false) {
			if f := cl.Common().StaticCallee(); f != nil && leavesDirty[f] {
				out = append(out, cl)
			}
		}
		return out
	}
	isCleaner := func(in ssa.Instruction) bool {
		cl, ok := in.(ssa.CallInstruction)
		return ok && cleaners[an.ShortCallee(cl.Common())]
	}
	dirtyExit := func(fn *ssa.Function) ssa.Instruction {
		for _, s := range dirtySites(fn) {
			reach := an.Explore(fn, an.After(s), nil, isCleaner)
			if len(reach.Returns()) > 0 {
				return s
			}
		}
		return nil
	}
	for changed := true; changed; {
		changed = false
		for _, fn := range methods {
			if cleaners[fn.Name()] || leavesDirty[fn] {
				continue
			}
			if dirtyExit(fn) != nil {
				leavesDirty[fn] = true
				changed = true
			}
		}
	}
	// callers inside the package
	callers := map[*ssa.Function][]*ssa.Function{}
	for _, fn := range c.PkgFuncs(devPkg) {
		for _, cl := range an.Calls(fn, true) {
			if f := cl.Common().StaticCallee(); f != nil {
				callers[f] = append(callers[f], fn)
			}
		}
	}
	n := 0
	var names []*ssa.Function
	for _, fn := range methods {
		if len(dirtySites(fn)) > 0 && !cleaners[fn.Name()] {
			names = append(names, fn)
		}
	}
	sort.Slice(names, func(i, j int) bool { return fkey(names[i]) < fkey(names[j]) })
	for _, fn := range names {
		n++
		key := fkey(fn) + "/ends-clean"
		if !leavesDirty[fn] {
			r.OK("TYPESTATE", key, c.Pos(fn.Pos()), "every write of total/used is followed by a recomputation of free")
			continue
		}
		// allowed only as a helper whose every caller is a nodeDevice method (which is then checked itself)
		okHelper := len(callers[fn]) > 0
		for _, cf := range callers[fn] {
			p := cf
			for p.Parent() != nil {
				p = p.Parent()
			}
			if recv := an.Receiver(p); recv == nil || !isNamedType(recv.Type(), "nodeDevice") {
				okHelper = false
			}
		}
		site := dirtyExit(fn)
		r.Check(okHelper, "TYPESTATE", key, c.InstrPos(site), "helper leaves the ledger dirty; all callers are nodeDevice methods that recompute free afterwards",
			"total/used is written at "+c.InstrPos(site)+" and a return is reachable without resetDeviceFree: free no longer equals total minus used")
	}
	r.Floor("TYPESTATE", "nodeDevice methods writing total/used", n, 2)
}

func c07mirror(c *Ctx) {
	r := c.R
	r.Rule("MIRROR: in updateDeviceUsed the add arm stores Add(used[minor], allocation.Resources) and the remove arm SubtractWithNonNegativeResult(used[minor], allocation.Resources); updateAllocateSet stores a deep copy per minor on add and deletes the pod on remove; updateCacheVFAllocations calls updateVFAllocations on add and removeVFAllocations otherwise; in updateCacheUsed every ledger update is dominated by isValid(...)==true")
	armOf := func(fn *ssa.Function, in ssa.Instruction) string {
		var add ssa.Value
		for _, p := range fn.Params {
			if p.Name() == "add" {
				add = p
			}
		}
		for _, g := range an.Guards(in) {
			if g.Cond == add {
				if g.Truth {
					return "add"
				}
				return "remove"
			}
		}
		return ""
	}
	if fn := c.Fn(devPkg, "nodeDevice", "updateDeviceUsed"); fn != nil {
		got := map[string]string{}
		for _, cl := range an.Calls(fn, false) {
			n := an.ShortCallee(cl.Common())
			if n == "Add" || n == "SubtractWithNonNegativeResult" {
				a := cl.Common().Args
				got[armOf(fn, cl)] = n + "|" + an.ValueSummary(a[1])
			}
		}
		okA := strings.HasPrefix(got["add"], "Add|") && strings.HasSuffix(got["add"], ".Resources")
		okR := strings.HasPrefix(got["remove"], "SubtractWithNonNegativeResult|") && strings.HasSuffix(got["remove"], ".Resources")
		same := strings.SplitN(got["add"], "|", 2)[len(strings.SplitN(got["add"], "|", 2))-1] == strings.SplitN(got["remove"], "|", 2)[len(strings.SplitN(got["remove"], "|", 2))-1]
		r.Check(okA && okR && same, "MIRROR", fkey(fn)+"/add~remove", c.Pos(fn.Pos()), "used: Add <-> SubtractWithNonNegativeResult of allocation.Resources", sprintf("the used ledger is not updated by dual operations on the same amount: add arm %q, remove arm %q", got["add"], got["remove"]))
	}
	if fn := c.Fn(devPkg, "nodeDevice", "updateAllocateSet"); fn != nil {
		var addOK, remOK bool
		for _, e := range an.Effects(fn, an.Receiver(fn), nil) {
			if e.Chain.First() != "allocateSet" || len(e.Chain.Elems) != 3 {
				continue
			}
			switch {
			case e.Op == "mapstore" && armOf(fn, e.Instr) == "add":
				addOK = true
			case e.Op == "mapdelete" && armOf(fn, e.Instr) == "remove":
				remOK = true
			}
		}
		r.Check(addOK && remOK, "MIRROR", fkey(fn)+"/add~remove", c.Pos(fn.Pos()), "allocateSet: store on add <-> delete on remove", sprintf("allocateSet arms are not duals: store under add=%v, delete under remove=%v", addOK, remOK))
	}
	if fn := c.Fn(devPkg, "nodeDevice", "updateCacheVFAllocations"); fn != nil {
		got := map[string]string{}
		for _, cl := range an.Calls(fn, false) {
			switch n := an.ShortCallee(cl.Common()); n {
			case "updateVFAllocations", "removeVFAllocations":
				got[armOf(fn, cl)] = n
			}
		}
		r.Check(got["add"] == "updateVFAllocations" && got["remove"] == "removeVFAllocations", "MIRROR", fkey(fn)+"/add~remove", c.Pos(fn.Pos()), "VF allocations: update on add <-> remove otherwise", sprintf("VF allocation arms: add->%q remove->%q", got["add"], got["remove"]))
	}
	if fn := c.Fn(devPkg, "nodeDevice", "updateCacheUsed"); fn != nil {
		n := 0
		ok := true
		for _, cl := range an.Calls(fn, false) {
			switch an.ShortCallee(cl.Common()) {
			case "updateDeviceUsed", "updateAllocateSet", "resetDeviceFree":
				n++
				if !an.GuardCall(an.Guards(cl), true, func(cc *ssa.CallCommon) bool { return an.ShortCallee(cc) == "isValid" }) {
					ok = false
				}
			}
		}
		r.Check(ok && n == 3, "PATH", fkey(fn)+"/isValid-guards-both-arms", c.Pos(fn.Pos()), "duplicate add / unknown remove events change nothing", "a ledger update in updateCacheUsed is not dominated by isValid()==true: a duplicate event would be counted twice")
		// same flag passed down
		for _, cl := range an.Calls(fn, false) {
			switch an.ShortCallee(cl.Common()) {
			case "isValid", "updateDeviceUsed", "updateAllocateSet":
				a := cl.Common().Args
				r.Check(an.Path(a[len(a)-1]) == "add", "FLOW", fkey(fn)+"/same-flag/"+an.ShortCallee(cl.Common()), c.InstrPos(cl), "the add flag is passed through unchanged", "the add/remove flag passed to "+an.ShortCallee(cl.Common())+" is "+an.Path(a[len(a)-1]))
			}
		}
	}
	// fresh copies
	r.Rule("ALIAS: a ResourceList stored into a deviceResources map by deviceResources.append / updateAllocateSet comes from DeepCopy() (or a fresh arithmetic result), never directly from the input map or the allocation record")
	for _, x := range []struct{ recv, name string }{{"deviceResources", "append"}, {"nodeDevice", "updateAllocateSet"}, {"deviceResources", "DeepCopy"}, {"nodeDevice", "updateDeviceUsed"}} {
		aliasStoresFresh(c, x.recv, x.name)
	}
}

// aliasStoresFresh: every ResourceList stored into a map by the named deviceshare function is a fresh value (DeepCopy, the
// result of quota arithmetic, a new map) or the element just read from the same map - never the caller's / the record's own map.
func aliasStoresFresh(c *Ctx, recv, name string) {
	r := c.R
	fn := c.Fn(devPkg, recv, name)
	if fn == nil {
		return
	}
	n := 0
	for _, b := range fn.Blocks {
		for _, in := range b.Instrs {
			mu, ok := in.(*ssa.MapUpdate)
			if !ok || !strings.Contains(mu.Value.Type().String(), "ResourceList") {
				continue
			}
			n++
			fresh := false
			src := an.Path(mu.Value)
			if call, _ := an.ResultOfCall(mu.Value); call != nil {
				switch an.ShortCallee(&call.Call) {
				case "DeepCopy", "Add", "Subtract", "SubtractWithNonNegativeResult":
					fresh = true
				}
			}
			if _, isNew := an.Origin(mu.Value).(*ssa.MakeMap); isNew {
				fresh = true
			}
			// re-storing the element that was just read from the same map (in-place update) is not an alias
			if lk := lookupOf(mu.Value); lk != nil && lk.X == mu.Map {
				fresh = true
			}
			r.Check(fresh, "ALIAS", sprintf("%s/store#%d", fkey(fn), n), c.InstrPos(mu), "stored value is a fresh copy", "a ResourceList taken from "+src+" is stored without DeepCopy: the ledger and the source record share one map, a later in-place addition corrupts the other")
		}
	}
	if n == 0 {
		r.Unknown("ALIAS", fkey(fn)+"/stores", c.Pos(fn.Pos()), "no ResourceList store found: unknown idiom")
	}
}

func lookupOf(v ssa.Value) *ssa.Lookup {
	switch x := v.(type) {
	case *ssa.Lookup:
		return x
	case *ssa.Extract:
		if lk, ok := x.Tuple.(*ssa.Lookup); ok && x.Index == 0 {
			return lk
		}
	}
	return nil
}

func c07alloc(c *Ctx) {
	r := c.R
	r.Rule("PATH: in defaultAllocateDevices every append to the result is dominated by IsZero(device resources)==false and LessThanOrEqual(request, device free)==true; the Unschedulable return is taken exactly under len(allocations) < desiredCount")
	if fn := c.Fn(devPkg, "", "defaultAllocateDevices"); fn != nil {
		key := fkey(fn)
		var appends []*ssa.Call
		for _, cl := range an.Calls(fn, false) {
			if call, ok := cl.(*ssa.Call); ok && an.IsBuiltinCall(call, "append") && strings.Contains(call.Type().String(), "DeviceAllocation") {
				appends = append(appends, call)
			}
		}
		if len(appends) == 0 {
			r.Fail("PATH", key+"/candidate-append", c.Pos(fn.Pos()), "no append to the allocation result found")
		}
		for i, ap := range appends {
			var nonZero, fits bool
			for _, g := range an.Guards(ap) {
				if call, _ := an.ResultOfCall(g.Cond); call != nil {
					switch an.ShortCallee(&call.Call) {
					case "IsZero":
						nonZero = nonZero || !g.Truth
					case "LessThanOrEqual":
						if g.Truth && an.Path(call.Call.Args[0]) == "podRequestPerInstance" {
							fits = true
						}
					}
				}
			}
			r.Check(nonZero && fits, "PATH", sprintf("%s/candidate-append#%d", key, i+1), c.InstrPos(ap), "device admitted only if non-zero and request <= free",
				sprintf("a device is admitted without both tests: non-zero resources=%v, request<=free=%v (an unhealthy zero-capacity device passes LessThanOrEqual vacuously)", nonZero, fits))
		}
		// failure iff short
		okFail := false
		for _, alt := range an.ReturnAlts(fn) {
			ret := alt.Ret
			_ = ret
			if an.IsNilConst(alt.Results[1]) {
				continue
			}
			for _, g := range alt.Guards {
				p := an.Path(g.Cond)
				if g.Truth && strings.Contains(p, "builtin.len(") && strings.Contains(p, "< desiredCount") {
					okFail = true
				}
			}
		}
		r.Check(okFail, "PATH", key+"/fails-iff-short", c.Pos(fn.Pos()), "fails under len(allocations) < desiredCount", "the failure return is not guarded by len(allocations) < desiredCount")
	}
	r.Rule("FLOW: in allocateFromScope the per-device 'satisfied' flag derives from LessThanOrEqual(requestsPerGPU, allocateContext.deviceFree[minor]) and from membership of the minor in allocateContext.deviceTotal (the filtered totals without zero devices)")
	if fn := c.Fn(devPkg, "", "allocateFromScope"); fn != nil {
		var last *ssa.Store
		for _, b := range fn.Blocks {
			for _, in := range b.Instrs {
				if st, ok := in.(*ssa.Store); ok {
					if _, f, _, ok := an.FieldOf(st.Addr); ok && f == "satisfied" {
						last = st
					}
				}
			}
		}
		if last == nil {
			r.Unknown("FLOW", fkey(fn)+"/satisfied", c.Pos(fn.Pos()), "store to the 'satisfied' flag not found")
			return
		}
		var le, member bool
		// the flag is accumulated through the field: include earlier stores
		vals := []ssa.Value{last.Val}
		for _, b := range fn.Blocks {
			for _, in := range b.Instrs {
				if st, ok := in.(*ssa.Store); ok {
					if _, f, _, ok := an.FieldOf(st.Addr); ok && f == "satisfied" {
						vals = append(vals, st.Val)
					}
				}
			}
		}
		for _, v := range vals {
			for x := range backwardAll(v) {
				if call, ok := x.(*ssa.Call); ok && an.ShortCallee(&call.Call) == "LessThanOrEqual" && strings.Contains(an.Path(call.Call.Args[1]), ".deviceFree[") {
					le = true
				}
				if e, ok := x.(*ssa.Extract); ok && e.Index == 1 {
					if lk, ok := e.Tuple.(*ssa.Lookup); ok && lk.CommaOk && strings.HasSuffix(an.Path(lk.X), ".deviceTotal") {
						member = true
					}
				}
			}
		}
		r.Check(le && member, "FLOW", fkey(fn)+"/satisfied", c.InstrPos(last), "satisfied = request<=free AND minor in filtered totals",
			sprintf("the device test lost a conjunct: request<=free=%v, membership in deviceTotal=%v (an idle unhealthy GPU has an empty free list and passes LessThanOrEqual vacuously)", le, member))
	}
}

// c07free: the candidate view is a pure, bounded function of the ledgers.
func c07free(c *Ctx) {
	r := c.R
	r.Rule("EFFECT+FLOW(candidate view): nodeDevice.calcFreeWithPreemptible and nodeDevice.filter write nothing reachable from the receiver; every entry stored into the merged free map is SubtractWithNonNegativeResult(deviceTotal[minor], SubtractWithNonNegativeResult(deviceUsed[minor], preemptible[minor])) or a DeepCopy of deviceFree[minor]; with required amounts every returned entry is MinResourceList(free, required[minor]) for a minor found in the required map")
	for _, name := range []string{"calcFreeWithPreemptible", "filter"} {
		fn := c.Fn(devPkg, "nodeDevice", name)
		if fn == nil {
			continue
		}
		es := an.DeepEffects(fn, an.Receiver(fn), nil, 2)
		r.Check(len(es) == 0, "EFFECT", fkey(fn)+"/no-shared-write", c.Pos(fn.Pos()), "no write into the shared ledgers", name+" writes state reachable from the shared nodeDevice ("+strings.Join(effStrings(es), "; ")+"): a dry run (Filter, preemption simulation) would change the real ledgers")
	}
	fn := c.Fn(devPkg, "nodeDevice", "calcFreeWithPreemptible")
	if fn == nil {
		return
	}
	key := fkey(fn)
	isSub := func(v ssa.Value) *ssa.Call {
		call, ok := v.(*ssa.Call)
		if ok && an.ShortCallee(&call.Call) == "SubtractWithNonNegativeResult" {
			return call
		}
		return nil
	}
	nCredit, nCopy, nMin := 0, 0, 0
	var bad []string
	for _, b := range fn.Blocks {
		for _, in := range b.Instrs {
			mu, ok := in.(*ssa.MapUpdate)
			if !ok {
				continue
			}
			v := mu.Value
			if outer := isSub(v); outer != nil {
				inner := isSub(outer.Call.Args[1])
				if strings.Contains(an.Path(outer.Call.Args[0]), ".deviceTotal[") && inner != nil && strings.Contains(an.Path(inner.Call.Args[0]), ".deviceUsed[") {
					nCredit++
					continue
				}
				bad = append(bad, c.InstrPos(mu)+": "+an.Path(v))
				continue
			}
			if call, ok := v.(*ssa.Call); ok {
				switch an.ShortCallee(&call.Call) {
				case "DeepCopy":
					nCopy++
					continue
				case "MinResourceList":
					// second operand: the required amount looked up with comma-ok true
					okReq := false
					for _, g := range an.Guards(mu) {
						if isCommaOk(g.Cond) && g.Truth {
							okReq = true
						}
					}
					if okReq {
						nMin++
						continue
					}
				}
			}
			bad = append(bad, c.InstrPos(mu)+": "+an.Path(v))
		}
	}
	r.Check(len(bad) == 0 && nCredit == 1 && nCopy >= 1 && nMin == 1, "FLOW", key+"/bounded-entries", c.Pos(fn.Pos()), "credit bounded by total, copies of free, required cap", sprintf("an entry of the candidate free view is not one of the three bounded forms (credit forms: %d, copies: %d, required caps: %d; other: %s)", nCredit, nCopy, nMin, strings.Join(bad, "; ")))
	// with required amounts, only the capped map is returned
	f := an.Facts{}
	for _, b := range fn.Blocks {
		for _, in := range b.Instrs {
			if bo, ok := in.(*ssa.BinOp); ok && bo.Op == token.GTR {
				if call, ok := bo.X.(*ssa.Call); ok && an.IsBuiltinCall(call, "len") && strings.Contains(an.Path(call.Call.Args[0]), "requiredDeviceResources") {
					f[bo] = an.True
				}
			}
		}
	}
	reach := an.Explore(fn, nil, f, nil)
	okRet := len(f) == 1
	// the capped view: the map that receives the MinResourceList entries
	capped := map[ssa.Value]bool{}
	for _, b := range fn.Blocks {
		for _, in := range b.Instrs {
			if mu, ok := in.(*ssa.MapUpdate); ok {
				if call, ok := mu.Value.(*ssa.Call); ok && an.ShortCallee(&call.Call) == "MinResourceList" {
					capped[mu.Map] = true
				}
			}
		}
	}
	for _, ret := range reach.Returns() {
		for _, v := range reach.Values(ret.Results[0]) {
			if !capped[v] {
				okRet = false
			}
		}
	}
	r.Check(okRet, "PATH", key+"/required=>capped-view", c.Pos(fn.Pos()), "with required amounts only the capped view is returned", "with required (reserved) device amounts the uncapped free view can be returned: a pod allocating from a reservation could take more than the reservation holds")
}

// c07events: what the informer handler releases and what the GPU allocator may consider.
func c07events(c *Ctx) {
	r := c.R
	r.Rule("PATH(release of the old version): in nodeDeviceCache.updatePod the release updateCacheUsed(<old allocations>, oldPod, false) is dominated by oldPod != nil and oldPod.Spec.NodeName != \"\" (an unassigned old version holds nothing in the cache; its annotation may be stale and would be subtracted from another pod's device)")
	if fn := c.Fn(devPkg, "nodeDeviceCache", "updatePod"); fn != nil {
		old := fn.Params[1]
		n := 0
		for _, cl := range an.Calls(fn, false) {
			if an.ShortCallee(cl.Common()) != "updateCacheUsed" || !isFalseConst(cl.Common().Args[3]) || cl.Common().Args[2] != ssa.Value(old) {
				continue
			}
			n++
			nonNil, assigned := false, false
			for _, g := range an.Guards(cl) {
				rel, ok := an.RelOf(g)
				if !ok || rel.Op != token.NEQ {
					continue
				}
				if rel.X == ssa.Value(old) && an.IsNilConst(rel.Y) {
					nonNil = true
				}
				if str, isC := constString(rel.Y); isC && str == "" && strings.HasSuffix(an.Path(rel.X), ".Spec.NodeName") {
					for x := range backwardAll(rel.X) {
						if x == ssa.Value(old) {
							assigned = true
						}
					}
				}
			}
			r.Check(nonNil && assigned, "PATH", fkey(fn)+"/release-old<=old-was-assigned", c.InstrPos(cl), "only an assigned old version is released", sprintf("the old version's allocations are released without the tests oldPod != nil (%v) and oldPod.Spec.NodeName != \"\" (%v): a stale annotation on a pod that was never accounted is subtracted from whoever holds those devices", nonNil, assigned))
		}
		r.Floor("PATH", "old-version releases in updatePod", n, 1)
	}
	r.Rule("FLOW(usable GPUs): the deviceTotal handed to the GPU allocation context comes from removeZeroDevice(..) (unhealthy devices report an empty resource list, and LessThanOrEqual(request, {}) holds vacuously, so membership in the filtered totals is what keeps them out)")
	if fn := c.Fn(devPkg, "GPUAllocator", "Allocate"); fn != nil {
		n := 0
		for _, b := range fn.Blocks {
			for _, in := range b.Instrs {
				st, ok := in.(*ssa.Store)
				if !ok {
					continue
				}
				owner, f, _, isF := an.FieldOf(st.Addr)
				if !isF || f != "deviceTotal" || !strings.HasSuffix(owner, "AllocateContext") {
					continue
				}
				n++
				call, _ := an.ResultOfCall(st.Val)
				r.Check(call != nil && an.ShortCallee(&call.Call) == "removeZeroDevice", "FLOW", fkey(fn)+"/context-total-without-zero-devices", c.InstrPos(st), "zero-capacity devices are filtered out of the context", "AllocateContext.deviceTotal is filled from "+an.Path(st.Val)+" instead of removeZeroDevice(..): an unhealthy GPU can be chosen")
			}
		}
		r.Floor("FLOW", "AllocateContext.deviceTotal stores", n, 1)
	}
}
