package rules

import (
	"go/types"
	"sort"
	"strings"

	"golang.org/x/tools/go/ssa"

	"kverif/internal/an"
)

// Round 8 (concurrency / life cycle): get-or-create of a per-key record.
//
// createOnce decides, for one get-or-create function over a map field of its receiver, that the
// lookup which decides "absent" and the store of the fresh record happen in ONE hold of the mutex
// the store runs under. A lookup under one hold (typically a read-locked fast path) followed by a
// store under a later hold lets two callers both see "absent" and both store; the second store
// replaces the record the first caller is already writing into, and everything the first caller
// accounted is lost (a pod on no list of its gang, an allocation on no node record, a quota group in
// no manager).
//
// What is NOT demanded: a particular lock type or mode for the fast path, a particular spelling of
// the absence test, or that the record is built under the lock. Stores with no lookup of the same
// field anywhere in the function (plain setters) and stores under no mutex of their own (the caller
// holds it) are not decided here.
func createOnce(c *Ctx, fn *ssa.Function, lost string) {
	r := c.R
	if fn == nil {
		return
	}
	locks := an.NewAnyLocks()
	var stores []*ssa.MapUpdate
	lookups := map[string][]*ssa.Lookup{}
	for _, b := range fn.Blocks {
		for _, in := range b.Instrs {
			switch v := in.(type) {
			case *ssa.MapUpdate:
				if lastField(v.Map) != "" {
					stores = append(stores, v)
				}
			case *ssa.Lookup:
				if _, ok := v.X.Type().Underlying().(*types.Map); ok {
					if f := lastField(v.X); f != "" {
						lookups[f] = append(lookups[f], v)
					}
				}
			}
		}
	}
	n := 0
	for k, st := range stores {
		f := lastField(st.Map)
		key := sprintf("%s/%s#%d/lookup-and-store-in-one-hold", fkey(fn), f, k)
		if len(lookups[f]) == 0 {
			continue
		}
		heldS := locks.HeldAt(st)
		var wkeys []string
		for m, w := range heldS {
			if w {
				wkeys = append(wkeys, m)
			}
		}
		sort.Strings(wkeys)
		if len(wkeys) == 0 {
			continue
		}
		n++
		ok := false
		for _, lk := range lookups[f] {
			heldL := locks.HeldAt(lk)
			for _, m := range wkeys {
				if _, h := heldL[m]; !h {
					continue
				}
				reach := an.Explore(fn, an.After(lk), nil, func(in ssa.Instruction) bool { return in == ssa.Instruction(st) })
				if !reach.Reached(st) {
					continue
				}
				released := false
				for _, in := range reach.Instrs() {
					if locks.IsUnlockOf(in, m) {
						// only a release on a path that goes on to the store counts
						if an.Explore(fn, an.After(in), nil, func(x ssa.Instruction) bool { return x == ssa.Instruction(st) }).Reached(st) {
							released = true
						}
					}
				}
				if !released {
					ok = true
				}
			}
		}
		r.Check(ok, "CREATE-ONCE", key, c.InstrPos(st), sprintf("the store into %s is preceded, in the same hold of %s, by a lookup of %s", f, strings.Join(wkeys, ","), f),
			sprintf("the fresh record is stored into %s under %s, but no lookup of %s is made in that same hold (the deciding lookup ran under an earlier hold that was released): two callers that both saw the key absent both store, the second record replaces the first, and %s", f, strings.Join(wkeys, ","), f, lost))
	}
	if n == 0 {
		r.Unknown("CREATE-ONCE", fkey(fn)+"/lookup-and-store-in-one-hold", c.Pos(fn.Pos()), "expected a guarded lookup-then-store of a per-key record under a mutex in this get-or-create function")
	}
}

// exclusiveCheckAct decides that, in fn, the check sites and the act sites all run under one mutex
// that is held in WRITE mode and is not released between a check and an act. It is used where the
// scheduling cycle does a check-then-act on state that informer handlers change under the READ
// mode of the same mutex: in read mode the two interleave, and the act is applied to a state the
// check no longer describes (a request subtracted twice, used kept for a deleted pod).
// Not demanded: which mutex it is, or how it is spelled.
func exclusiveCheckAct(c *Ctx, fn *ssa.Function, check, act string, lost string) {
	r := c.R
	if fn == nil {
		return
	}
	key := fkey(fn) + "/" + check + "=>" + act + "/exclusive"
	var checks, acts []ssa.Instruction
	for _, cl := range an.Calls(fn, false) {
		switch an.ShortCallee(cl.Common()) {
		case check:
			checks = append(checks, cl)
		case act:
			acts = append(acts, cl)
		}
	}
	if len(checks) == 0 || len(acts) == 0 {
		r.Unknown("EXCLUSIVE", key, c.Pos(fn.Pos()), sprintf("expected a check (%s, %d sites) followed by an act (%s, %d sites)", check, len(checks), act, len(acts)))
		return
	}
	locks := an.NewAnyLocks()
	var common map[string]bool
	for _, s := range append(append([]ssa.Instruction{}, checks...), acts...) {
		cur := map[string]bool{}
		for k, w := range locks.HeldAt(s) {
			if w {
				cur[k] = true
			}
		}
		if common == nil {
			common = cur
			continue
		}
		for k := range common {
			if !cur[k] {
				delete(common, k)
			}
		}
	}
	isAct := map[ssa.Instruction]bool{}
	for _, a := range acts {
		isAct[a] = true
	}
	ok := false
	for k := range common {
		released := false
		for _, ch := range checks {
			reach := an.Explore(fn, an.After(ch), nil, func(in ssa.Instruction) bool { return isAct[in] })
			for _, in := range reach.Instrs() {
				if locks.IsUnlockOf(in, k) {
					released = true
				}
			}
		}
		if !released {
			ok = true
		}
	}
	r.Check(ok, "EXCLUSIVE", key, c.InstrPos(acts[0]), sprintf("%d check and %d act sites run under one write-held mutex, not released in between", len(checks), len(acts)),
		sprintf("no mutex is held in write mode across the check (%s) and the act (%s): the pod informer handlers run under the read mode of the hierarchy lock, so a pod event for the same pod can run between the two, and %s", check, act, lost))
}

// rootedAtReceiver: v is reached from the function's receiver (parameter 0) through field
// selections and loads only.
func rootedAtReceiver(fn *ssa.Function, v ssa.Value) bool {
	if len(fn.Params) == 0 {
		return false
	}
	for d := 0; d < 8; d++ {
		switch x := v.(type) {
		case *ssa.FieldAddr:
			v = x.X
		case *ssa.Field:
			v = x.X
		case *ssa.UnOp:
			v = x.X
		case *ssa.Parameter:
			return x == fn.Params[0]
		default:
			for _, s := range cellSources(v) {
				if p, ok := s.(*ssa.Parameter); ok && p == fn.Params[0] {
					return true
				}
			}
			return false
		}
	}
	return false
}

// ownState: the value is the receiver's own state handed on as it is - a field of the receiver
// loaded (a map, slice or pointer shared with the owner), the address of such a field, or a local
// struct filled by a plain copy of such a field (a shallow copy: the maps and pointers inside stay
// shared). Returns the field's name, or "".
func ownState(fn *ssa.Function, v ssa.Value) string {
	for _, s := range cellSources(v) {
		switch x := s.(type) {
		case *ssa.UnOp:
			if fa, ok := x.X.(*ssa.FieldAddr); ok && rootedAtReceiver(fn, fa) {
				return fieldNameOf(fa)
			}
		case *ssa.FieldAddr:
			if rootedAtReceiver(fn, x) {
				return "&" + fieldNameOf(x)
			}
		case *ssa.Alloc:
			if x.Referrers() == nil {
				continue
			}
			for _, ref := range *x.Referrers() {
				if st, ok := ref.(*ssa.Store); ok && st.Addr == ssa.Value(x) {
					if ld, ok := st.Val.(*ssa.UnOp); ok {
						if fa, ok := ld.X.(*ssa.FieldAddr); ok && rootedAtReceiver(fn, fa) {
							return "copy of " + fieldNameOf(fa)
						}
					}
				}
			}
		}
	}
	return ""
}

// freshResult decides that result k of fn is never the receiver's own state (see ownState): the
// callers keep using - or change - what they get after the owner's lock is released.
func freshResult(c *Ctx, fn *ssa.Function, k int, lost string) {
	r := c.R
	if fn == nil {
		return
	}
	key := sprintf("%s/result%d-is-a-copy", fkey(fn), k)
	bad, n := "", 0
	for _, alt := range an.ReturnAlts(fn) {
		if k >= len(alt.Results) {
			continue
		}
		n++
		if f := ownState(fn, alt.Results[k]); f != "" {
			bad = sprintf("%s: result %d is the owner's own %s", c.InstrPos(alt.Ret), k, f)
		}
	}
	if n == 0 {
		r.Unknown("FRESH", key, c.Pos(fn.Pos()), "no return found")
		return
	}
	r.Check(bad == "", "FRESH", key, c.Pos(fn.Pos()), sprintf("%d return alternatives hand out a copy", n), "the owner's state is handed out without a copy ("+bad+"): "+lost)
}

// freshCloneField decides that Clone-like fn never stores the receiver's own map into the named
// field of the object it builds.
func freshCloneField(c *Ctx, fn *ssa.Function, field string, lost string) {
	r := c.R
	if fn == nil {
		return
	}
	key := fkey(fn) + "/" + field + "-is-a-copy"
	bad, n := "", 0
	for _, b := range fn.Blocks {
		for _, in := range b.Instrs {
			st, ok := in.(*ssa.Store)
			if !ok {
				continue
			}
			fa, ok := st.Addr.(*ssa.FieldAddr)
			if !ok || fieldNameOf(fa) != field || rootedAtReceiver(fn, fa) {
				continue
			}
			n++
			if f := ownState(fn, st.Val); f != "" {
				bad = sprintf("%s: the clone's %s is the source's own %s", c.InstrPos(st), field, f)
			}
		}
	}
	if n == 0 {
		r.Unknown("FRESH", key, c.Pos(fn.Pos()), "expected the clone's "+field+" to be set in this function")
		return
	}
	r.Check(bad == "", "FRESH", key, c.Pos(fn.Pos()), sprintf("%d stores give the clone its own %s", n, field), "the clone shares the source's map ("+bad+"): "+lost)
}

// c04oneSnapshot: the member counts that isGangValidForPermit combines into one comparison are read
// in one hold of the gang lock. Two counts obtained through accessors that each take and release
// the lock themselves belong to different moments: a pod moved from waiting to bound by PostBind
// between the two reads is counted twice, and the gang is released one real holder short.
func c04oneSnapshot(c *Ctx) {
	r := c.R
	r.Rule("SNAPSHOT: no comparison returned by Gang.isGangValidForPermit combines two member-set counts that were each read by a separately locked accessor (a callee that takes the gang lock itself and reads PendingChildren/WaitingForBindChildren/BoundChildren)")
	fn := c.Fn(gangCorePkg, "Gang", "isGangValidForPermit")
	if fn == nil {
		return
	}
	selfLockedCount := func(f *ssa.Function) bool {
		if f == nil || f.Signature.Recv() == nil || len(f.Blocks) == 0 {
			return false
		}
		locksIt, reads := false, false
		for _, cl := range an.Calls(f, false) {
			if sc := cl.Common().StaticCallee(); sc != nil && sc.Pkg != nil && sc.Pkg.Pkg.Path() == "sync" && (sc.Name() == "RLock" || sc.Name() == "Lock") {
				locksIt = true
			}
		}
		for _, b := range f.Blocks {
			for _, in := range b.Instrs {
				if fa, ok := in.(*ssa.FieldAddr); ok {
					for _, m := range gangPartition {
						if fieldNameOf(fa) == m {
							reads = true
						}
					}
				}
			}
		}
		return locksIt && reads
	}
	bad, n := "", 0
	for _, b := range fn.Blocks {
		for _, in := range b.Instrs {
			cmp, ok := in.(*ssa.BinOp)
			if !ok {
				continue
			}
			switch cmp.Op.String() {
			case ">=", ">", "<=", "<":
			default:
				continue
			}
			n++
			var calls []string
			for v := range backwardAll(cmp) {
				if cl, ok := v.(*ssa.Call); ok && selfLockedCount(cl.Common().StaticCallee()) {
					calls = append(calls, an.ShortCallee(cl.Common())+"@"+c.InstrPos(cl))
				}
			}
			sort.Strings(calls)
			if len(calls) >= 2 {
				bad = c.InstrPos(cmp) + ": " + strings.Join(calls, " + ")
			}
		}
	}
	if n == 0 {
		r.Unknown("SNAPSHOT", fkey(fn)+"/counts-in-one-hold", c.Pos(fn.Pos()), "expected the comparison of member counts with the minimum in this function")
		return
	}
	r.Check(bad == "", "SNAPSHOT", fkey(fn)+"/counts-in-one-hold", c.Pos(fn.Pos()), sprintf("%d comparisons, none combines separately locked member counts", n), "member counts read under separate holds of the gang lock are combined ("+bad+"): a pod moving from waiting to bound between the reads is counted twice and the gang is released one holder short")
}

// c08retryLooksUpAgain: the retry in podAssignCache.assign exists because the node entry can be
// emptied, marked deleted and removed between the lookup and the add; the deleted mark is permanent,
// so a retry on the SAME entry fails again and the pod's estimate is silently dropped.
func c08retryLooksUpAgain(c *Ctx) {
	r := c.R
	r.Rule("RETRY(look up again): every AddOrUpdatePod call inside the retry loop of podAssignCache.assign is made on an entry that a getOrCreateNodeInfo call inside the loop can have produced (an entry looked up once before the loop stays deleted on the retry)")
	fn := c.Fn(loadawarePkg, "podAssignCache", "assign")
	if fn == nil {
		return
	}
	n := 0
	for _, cl := range an.Calls(fn, false) {
		if an.ShortCallee(cl.Common()) != "AddOrUpdatePod" || cl.Common().IsInvoke() || len(cl.Common().Args) == 0 || !inLoopBody(cl.Block()) {
			continue
		}
		n++
		fresh, srcs := false, 0
		for _, s := range cellSources(cl.Common().Args[0]) {
			var call *ssa.Call
			switch x := s.(type) {
			case *ssa.Extract:
				call, _ = x.Tuple.(*ssa.Call)
			case *ssa.Call:
				call = x
			}
			if call == nil || an.ShortCallee(call.Common()) != "getOrCreateNodeInfo" {
				continue
			}
			srcs++
			if inLoopBody(call.Block()) {
				fresh = true
			}
		}
		key := sprintf("%s/AddOrUpdatePod#%d/entry-looked-up-in-the-loop", fkey(fn), n)
		if srcs == 0 {
			r.Unknown("RETRY", key, c.InstrPos(cl), "cannot tell where the entry of this add comes from")
			continue
		}
		r.Check(fresh, "RETRY", key, c.InstrPos(cl), "the entry is looked up inside the retry loop", "the entry is looked up once, before the loop: when a concurrent delete marks it deleted, the retry is made on the same dead entry, fails again, and the pod's estimate is missing from the node's load")
	}
	r.Floor("RETRY", "AddOrUpdatePod calls in the retry loop of assign", n, 1)
}

// c20handlerExclusive: the ConfigMap event handler applies a new configuration with the cache lock
// held in WRITE mode. The lazy initialisation (IsCfgAvailable) fetches a ConfigMap version and
// applies it inside a read-mode hold; only the handler's write mode keeps an event from being
// applied in the middle of it, after which the older version the initialisation holds would be
// applied on top of the newer one and stay.
func c20handlerExclusive(c *Ctx) {
	r := c.R
	r.Rule("EXCLUSIVE(event handler): in syncNodeSLOSpecIfChanged every syncConfig call runs with a mutex held in write mode")
	fn := c.Fn(nodesloPkg, "SLOCfgHandlerForConfigMapEvent", "syncNodeSLOSpecIfChanged")
	if fn == nil {
		return
	}
	locks := an.NewAnyLocks()
	n := 0
	for _, cl := range an.Calls(fn, false) {
		if an.ShortCallee(cl.Common()) != "syncConfig" {
			continue
		}
		n++
		w := false
		for _, isW := range locks.HeldAt(cl) {
			if isW {
				w = true
			}
		}
		r.Check(w, "EXCLUSIVE", sprintf("%s/syncConfig#%d/write-mode", fkey(fn), n), c.InstrPos(cl), "the new configuration is applied under a write-held mutex", "the event handler applies the new configuration without a write-mode hold: the lazy initialisation, which fetches and applies a ConfigMap version inside a read-mode hold, can run around it and put the older version back; no later event repairs it")
	}
	r.Floor("EXCLUSIVE", "syncConfig calls in the event handler", n, 1)
}
