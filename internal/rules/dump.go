package rules

import (
	"fmt"

	"golang.org/x/tools/go/ssa"

	"kverif/internal/an"
	"kverif/internal/load"
)

// Dump is a developer aid that prints what the engines see for one function.
func Dump(p *load.Program, what, rel, recv, name string) {
	if recv == "-" {
		recv = ""
	}
	fn := p.Func(rel, recv, name)
	if fn == nil {
		fmt.Println("not found")
		return
	}
	switch what {
	case "effects":
		muts := map[string]bool{}
		for _, m := range []string{"Insert", "Delete", "Add", "Sub", "Set", "Store"} {
			muts[m] = true
		}
		var root ssa.Value
		if r := an.Receiver(fn); r != nil {
			root = r
		} else if len(fn.Params) > 0 {
			root = fn.Params[0]
		}
		for _, e := range an.Effects(fn, root, muts) {
			fmt.Printf("%s  @%s\n", e, p.Pos(e.Instr.Pos()))
		}
	case "calls":
		for _, c := range an.Calls(fn, true) {
			fmt.Printf("%s  %s  guards: %s\n", p.Pos(c.Pos()), an.CalleeName(c.Common()), an.DescribeGuards(an.Guards(c)))
		}
	case "ssa":
		fn.WriteTo(fmtOut{})
	}
}

type fmtOut struct{}

func (fmtOut) Write(b []byte) (int, error) { fmt.Print(string(b)); return len(b), nil }

// DumpDiv prints all integer divisions in a package (developer aid).
func DumpDiv(p *load.Program, rel string) {
	for _, fn := range p.AllFuncs() {
		pkg := fn.Pkg
		for f := fn; pkg == nil && f != nil; f = f.Parent() {
			pkg = f.Pkg
		}
		if pkg == nil || pkg.Pkg.Path() != load.Module+"/"+rel {
			continue
		}
		for _, d := range an.IntDivisions(fn) {
			fmt.Printf("%s  %s  divisor=%s  proof=%q\n", p.Pos(d.Instr.Pos()), load.FuncName(fn), an.Path(d.Divisor), d.Proof)
		}
	}
}
