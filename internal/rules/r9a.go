package rules

import (
	"go/token"
	"go/types"
	"sort"
	"strings"

	"golang.org/x/tools/go/ssa"

	"kverif/internal/an"
)

// Round 9 (histories of events; non-default modes).

// loopBlocks: the blocks of the natural loop(s) with header hdr: hdr plus every block that reaches a
// back edge source of hdr without passing through hdr.
func loopBlocks(hdr *ssa.BasicBlock) map[*ssa.BasicBlock]bool {
	out := map[*ssa.BasicBlock]bool{hdr: true}
	var st []*ssa.BasicBlock
	for _, p := range hdr.Preds {
		if hdr.Dominates(p) {
			st = append(st, p)
		}
	}
	for len(st) > 0 {
		b := st[len(st)-1]
		st = st[:len(st)-1]
		if out[b] {
			continue
		}
		out[b] = true
		st = append(st, b.Preds...)
	}
	return out
}

// naturalLoopHeader: the header of the innermost natural loop that contains b (nil if none). Unlike
// an.InnermostLoopHeader it does not mistake a block behind an inner loop (but inside the outer one)
// for a member of the inner loop.
func naturalLoopHeader(b *ssa.BasicBlock) *ssa.BasicBlock {
	var best *ssa.BasicBlock
	bestN := 0
	for h := b; h != nil; h = h.Idom() {
		isHeader := false
		for _, p := range h.Preds {
			if h.Dominates(p) {
				isHeader = true
			}
		}
		if !isHeader {
			continue
		}
		l := loopBlocks(h)
		if l[b] && (best == nil || len(l) < bestN) {
			best, bestN = h, len(l)
		}
	}
	return best
}

// c15walkComplete: the ancestor walk that rejects a cycle compares EVERY ancestor of the new parent
// with the quota, up to and including the one that hangs directly off the root. Decided on the loop
// that contains the cycle comparison: the loop is left only
//   - from behind the comparison of the current ancestor (the exit is dominated by the comparison's
//     block: error return, "no further ancestor", "next is the root", ...), or
//   - by an iteration bound (an integer comparison), or
//   - because there is no ancestor to compare (a nil test or the comma-ok of a map lookup).
//
// An exit taken before the current ancestor was compared - e.g. a loop condition "while the
// ancestor's parent is not the root" - skips the top-level quota: a -> c -> b -> a is accepted when a
// hangs off the root.
func c15walkComplete(c *Ctx) {
	r := c.R
	r.Rule("ACYCLIC(walk complete): the loop of the ancestor walk is left only after the current ancestor was compared with the quota, by an integer iteration bound, or because no ancestor is left (nil / lookup miss); no other condition ends the walk before the comparison")
	vfn := c.Fn(quotaWebhookPkg, "quotaTopology", "validateQuotaTopology")
	if vfn == nil {
		return
	}
	var walkers []*ssa.Function
	seen := map[*ssa.Function]bool{}
	var visit func(f *ssa.Function, d int)
	visit = func(f *ssa.Function, d int) {
		if f == nil || seen[f] || d > 3 || f.Pkg != vfn.Pkg {
			return
		}
		seen[f] = true
		if ancestorWalkCmp(f) != nil {
			walkers = append(walkers, f)
		}
		for _, cl := range an.Calls(f, false) {
			visit(cl.Common().StaticCallee(), d+1)
		}
	}
	visit(vfn, 0)
	if len(walkers) == 0 {
		r.Unknown("ACYCLIC", fkey(vfn)+"/walk-complete", c.Pos(vfn.Pos()), "no ancestor walk found below validateQuotaTopology")
		return
	}
	for _, wf := range walkers {
		cmp := ancestorWalkCmp(wf)
		key := fkey(wf) + "/walk-complete"
		hdr := naturalLoopHeader(cmp.Block())
		if hdr == nil {
			r.Unknown("ACYCLIC", key, c.InstrPos(cmp), "the cycle comparison is not inside a loop")
			continue
		}
		loop := loopBlocks(hdr)
		var bad []string
		nExit := 0
		for b := range loop {
			for _, s := range b.Succs {
				if loop[s] {
					continue
				}
				nExit++
				if b == cmp.Block() || cmp.Block().Dominates(b) {
					continue
				}
				ifi, ok := b.Instrs[len(b.Instrs)-1].(*ssa.If)
				if !ok {
					bad = append(bad, c.InstrPos(b.Instrs[len(b.Instrs)-1])+": unconditional exit before the comparison")
					continue
				}
				cond, _ := an.StripNot(ifi.Cond)
				if exitIsBoundOrAbsent(cond) {
					continue
				}
				bad = append(bad, c.InstrPos(ifi)+": "+an.Path(cond))
			}
		}
		sort.Strings(bad)
		r.Check(len(bad) == 0 && nExit > 0, "ACYCLIC", key, c.InstrPos(cmp), sprintf("%d loop exits: each behind the comparison, an iteration bound, or 'no ancestor left'", nExit),
			"the ancestor walk can end before the current ancestor was compared with the quota ("+strings.Join(bad, "; ")+"): the quota that hangs directly off the root is never compared, and moving it below its own descendant is accepted (a -> c -> b -> a)")
	}
}

// exitIsBoundOrAbsent: an integer comparison (iteration bound), a nil test, or the ok of a map lookup / type assertion.
func exitIsBoundOrAbsent(cond ssa.Value) bool {
	// a flag variable: every value it can hold is a constant or itself an "absent" test (found := true; ...; x, found = m[k])
	if srcs := cellSources(cond); len(srcs) > 1 || (len(srcs) == 1 && srcs[0] != cond) {
		for _, s := range srcs {
			if _, isConst := s.(*ssa.Const); isConst {
				continue
			}
			if !exitIsBoundOrAbsent(s) {
				return false
			}
		}
		return true
	}
	switch x := cond.(type) {
	case *ssa.BinOp:
		if an.IsNilConst(x.X) || an.IsNilConst(x.Y) {
			return x.Op == token.EQL || x.Op == token.NEQ
		}
		if b, ok := x.X.Type().Underlying().(*types.Basic); ok && b.Info()&types.IsInteger != 0 {
			switch x.Op {
			case token.LSS, token.LEQ, token.GTR, token.GEQ:
				return true
			}
		}
	case *ssa.Extract:
		if x.Index == 1 {
			switch t := x.Tuple.(type) {
			case *ssa.Lookup:
				return t.CommaOk
			case *ssa.TypeAssert:
				return t.CommaOk
			}
		}
	}
	return false
}

// c15indexFollowsRecord: when ValidUpdateQuota moves a quota in the children index, the parent whose
// child set loses the quota is the parent RECORDED in the topology (quotaInfoMap), not the parent
// named by the request's old object. The old object of an admission request is whatever the API
// server holds; the topology holds what the webhook accepted last - after an accepted but
// never-persisted re-parent the two differ, and deleting from the set named by the request leaves
// the quota in the set of the parent it was recorded under: that parent can never be deleted, and
// the real parent can be deleted with a child below it.
func c15indexFollowsRecord(c *Ctx) {
	r := c.R
	r.Rule("INDEX(delete what was recorded): in quotaTopology.ValidUpdateQuota the parent key of every delete from quotaHierarchyInfo derives from a quotaInfoMap lookup (the recorded info), never from the request's old object alone")
	fn := c.Fn(quotaWebhookPkg, "quotaTopology", "ValidUpdateQuota")
	if fn == nil {
		return
	}
	key := fkey(fn) + "/children-index-delete-key"
	recv := an.Receiver(fn)
	n, bad := 0, ""
	for _, cl := range an.Calls(fn, false) {
		if !an.IsBuiltinCall(cl.Value(), "delete") && !isBuiltinDelete(cl) {
			continue
		}
		args := cl.Common().Args
		if len(args) != 2 {
			continue
		}
		// delete(qt.quotaHierarchyInfo[K], name): args[0] is a lookup in quotaHierarchyInfo
		lk, ok := args[0].(*ssa.Lookup)
		if !ok {
			continue
		}
		isIdx := false
		for _, ch := range an.Chains(lk.X) {
			if ch.Root == ssa.Value(recv) && ch.First() == "quotaHierarchyInfo" {
				isIdx = true
			}
		}
		if !isIdx {
			continue
		}
		n++
		for _, alt := range cellSources(lk.Index) {
			fromRecord := false
			for x := range backwardAll(alt) {
				if l2, ok := x.(*ssa.Lookup); ok {
					for _, ch := range an.Chains(l2.X) {
						if ch.Root == ssa.Value(recv) && ch.First() == "quotaInfoMap" {
							fromRecord = true
						}
					}
				}
			}
			if !fromRecord {
				bad = sprintf("%s: key %s", c.InstrPos(cl), an.Path(alt))
			}
		}
	}
	if n == 0 {
		r.Unknown("INDEX", key, c.Pos(fn.Pos()), "expected a delete from quotaHierarchyInfo[oldParent] in ValidUpdateQuota")
		return
	}
	r.Check(bad == "", "INDEX", key, c.Pos(fn.Pos()), sprintf("%d delete(s) from the children index keyed by the recorded parent", n),
		"the quota is removed from the child set of a parent that was not read from the topology's own record ("+bad+"): after an accepted but never-persisted re-parent the request's old object names another parent than the record, the quota stays in the recorded parent's set, and a parent with a child can be deleted")
}

func isBuiltinDelete(cl ssa.CallInstruction) bool {
	b, ok := cl.Common().Value.(*ssa.Builtin)
	return ok && b.Name() == "delete"
}

// c10reservedIsMax: helpers.GetNodeResourceReserved (the reservation the BE budget subtracts) is the
// per-resource maximum of the kubelet's and the annotation's reservation. Decided on the return
// alternatives: each is either the result of quota.Max over values derived from BOTH sources, or one
// source alone on a path where a dominating test says the other source is absent (nil annotations,
// an empty list). A single source returned after a whole-list comparison drops, per resource, the
// larger figure of the other list: LessThanOrEqual looks only at the resources named on both
// sides, so {cpu:2} vs {memory:4Gi} "is covered" and the CPU reservation becomes zero.
func c10reservedIsMax(c *Ctx) {
	r := c.R
	r.Rule("MAX(per resource): every return alternative of helpers.GetNodeResourceReserved is quota.Max over both reservation sources, or a single source under a dominating test that the other one is absent (nil / empty)")
	fn := c.Fn("pkg/koordlet/qosmanager/helpers", "", "GetNodeResourceReserved")
	if fn == nil {
		return
	}
	key := fkey(fn) + "/max-of-both-sources"
	srcOf := func(v ssa.Value) (kubelet, anno bool) {
		for x := range backwardAll(v) {
			if call, ok := x.(*ssa.Call); ok {
				switch an.ShortCallee(&call.Call) {
				case "GetNodeReservationFromKubelet":
					kubelet = true
				case "GetNodeReservationFromAnnotation":
					anno = true
				}
			}
		}
		return
	}
	// a guard that says "the source is absent": x == nil / len(x) == 0 (holding), where x derives from the source
	absent := func(gs []an.Guard, wantAnno bool) bool {
		for _, g := range gs {
			bo, ok := g.Cond.(*ssa.BinOp)
			if !ok {
				continue
			}
			holdsEq := (bo.Op == token.EQL && g.Truth) || (bo.Op == token.NEQ && !g.Truth) || (bo.Op == token.LEQ && g.Truth) || (bo.Op == token.GTR && !g.Truth)
			if !holdsEq {
				continue
			}
			var subj ssa.Value
			if an.IsNilConst(bo.Y) || isZeroInt(bo.Y) {
				subj = bo.X
			} else if (an.IsNilConst(bo.X) || isZeroInt(bo.X)) && (bo.Op == token.EQL || bo.Op == token.NEQ) {
				subj = bo.Y
			}
			if subj == nil {
				continue
			}
			k, a := srcOf(subj)
			mentionsAnnotations := false
			for x := range backwardAll(subj) {
				if fa, ok := x.(*ssa.FieldAddr); ok && fieldNameOf(fa) == "Annotations" {
					mentionsAnnotations = true
				}
			}
			if wantAnno && (a || mentionsAnnotations) && !k {
				return true
			}
			if !wantAnno && k && !a {
				return true
			}
		}
		return false
	}
	n, bad := 0, ""
	for _, alt := range an.ReturnAlts(fn) {
		if len(alt.Results) == 0 {
			continue
		}
		for _, src := range cellSources(alt.Results[0]) {
			n++
			viaMax := false
			if call, ok := src.(*ssa.Call); ok && an.ShortCallee(&call.Call) == "Max" {
				viaMax = true
			}
			k, a := srcOf(src)
			switch {
			case viaMax && k && a:
			case !viaMax && k && !a && absent(alt.Guards, true):
			case !viaMax && a && !k && absent(alt.Guards, false):
			default:
				bad = sprintf("%s: returns %s (kubelet source: %v, annotation source: %v, through Max: %v)", c.InstrPos(alt.Ret), an.Path(src), k, a, viaMax)
			}
		}
	}
	if n == 0 {
		r.Unknown("MAX", key, c.Pos(fn.Pos()), "no return alternative found")
		return
	}
	r.Check(bad == "", "MAX", key, c.Pos(fn.Pos()), sprintf("%d return alternative(s): the larger reservation per resource", n),
		"the node reservation handed to the suppress budget is not the per-resource maximum of the two sources ("+bad+"): when the sources disagree across resources (annotation reserves only memory, kubelet reserves CPU) the CPU reservation is lost and the BE budget is too large")
}

func isZeroInt(v ssa.Value) bool {
	c, ok := v.(*ssa.Const)
	if !ok || c.Value == nil {
		return false
	}
	return c.Value.String() == "0"
}
