package rules

import (
	"go/token"
	"sort"
	"strings"

	"golang.org/x/tools/go/ssa"

	"kverif/internal/an"
)

func init() { Registry["C19"] = c19 }

const (
	devsharePkg = "pkg/scheduler/plugins/deviceshare"
)

// fieldsStored returns the field names of struct type (suffix match) stored in fn.
func fieldsStored(fn *ssa.Function, typeSuffix string) map[string]bool {
	out := map[string]bool{}
	for _, b := range fn.Blocks {
		for _, in := range b.Instrs {
			if st, ok := in.(*ssa.Store); ok {
				if owner, f, _, ok := an.FieldOf(st.Addr); ok && strings.HasSuffix(owner, typeSuffix) {
					out[f] = true
				}
			}
		}
	}
	return out
}

func fieldsRead(fn *ssa.Function, typeSuffix string) map[string]bool {
	out := map[string]bool{}
	for _, b := range fn.Blocks {
		for _, in := range b.Instrs {
			var v ssa.Value
			switch x := in.(type) {
			case *ssa.FieldAddr:
				v = x
			case *ssa.Field:
				v = x
			default:
				continue
			}
			owner, f, _, ok := an.FieldOf(v)
			if !ok || !strings.HasSuffix(owner, typeSuffix) {
				continue
			}
			isStoreOnly := true
			for _, ref := range *v.Referrers() {
				if st, ok := ref.(*ssa.Store); !ok || st.Addr != v {
					isStoreOnly = false
				}
			}
			if !isStoreOnly {
				out[f] = true
			}
		}
	}
	return out
}

func keysOf(m map[string]bool) []string {
	var out []string
	for k := range m {
		out = append(out, k)
	}
	sort.Strings(out)
	return out
}

func c19(c *Ctx) {
	c.R.Rule("ALIAS(device ledger): a ResourceList stored into the used ledger by nodeDevice.updateDeviceUsed is a fresh value, never the allocation's own map (which Reserve hands on to PreBind: a second pod on the same device would rewrite what the first pod persists)")
	aliasStoresFresh(c, "nodeDevice", "updateDeviceUsed")
	numaReleaseWritesBack(c)
	quotaAssignByState(c)
	c.R.Rule("FRESH(allocated view): NodeAllocation.getAvailableCPUs hands out a copy of the allocated-CPU details on every return, never the record's own map (callers use it after the lock is released)")
	freshResult(c, c.Fn(numaPkg, "NodeAllocation", "getAvailableCPUs"), 1, "the scheduling cycle reads the view after the node lock is released while informer events rewrite it, so the view no longer matches the available set returned with it")
	c.R.Rule("EXCLUSIVE: ReservePod / UnreservePod test the pod's assigned flag and update used under one mutex held in write mode, not released in between (the pod informer handlers change the same state under its read mode)")
	exclusiveCheckAct(c, c.Fn(quotaCorePkg, "GroupQuotaManager", "ReservePod"), "CheckPodIsAssigned", "updatePodUsedNoLock", "used keeps the request of a pod that was deleted in between, in the group and every ancestor")
	exclusiveCheckAct(c, c.Fn(quotaCorePkg, "GroupQuotaManager", "UnreservePod"), "CheckPodIsAssigned", "updatePodUsedNoLock", "the request of a pod deleted in between is subtracted twice, in the group and every ancestor")
	c.R.Rule("CREATE-ONCE: in a get-or-create of a per-key record, the lookup that finds the key absent and the store of the fresh record happen in one hold of the mutex the store runs under (no release of it in between)")
	createOnce(c, c.Fn(numaPkg, "resourceManager", "getOrCreateNodeAllocation"), "the CPU set the first caller recorded lands in an orphaned node record: the CPUs of a live pod are reported free after a restart replay")
	r := c.R
	c19forward(c)
	c19deviceUpdate(c)
	c19values(c)
	c19releaseKnownOnly(c)
	r.Decides("every persisted allocation annotation is written and read back with one key and one Go type, and that type survives JSON encoding by structural induction (exported, tagged, no interface/func/chan, no lossy custom marshaler)")
	r.Decides("the key written at pre-bind by each plugin is read on that plugin's pod informer path")
	r.Decides("the allocation record rebuilt from the annotations sets every field the allocating path sets, and reads every field the pre-bind path persisted; a persisted allocation is dropped by the rebuild only when it is completely empty")
	r.Decides("owner objects are replayed before pods: the reservation handler is registered before the pod handler, the quota handler before the pod handler; an update event of a pod with a reservation assignment is always replayed into the reservation ledger")
	r.Decides("a successful pre-bind always writes the allocation the scheduler accounted; the restore handler rebuilds the allocation for every event of a bound pod that carries one; the quota manager's pod-event steps (incl. the migration out of the default quota used when a pod is replayed before its quota) come in matching pairs")
	r.Declines("equality of the live and the rebuilt caches over histories, duplicate/update event orderings")

	quotaPairing(c)

	// ---- CODEC
	r.Rule("CODEC: for each annotation key in apis/extension the json.Marshal argument type stored under it equals the json.Unmarshal target type read from it, and the type is round-trip safe by structural induction over go/types")
	dom := "scheduling.koordinator.sh"
	quick := map[string]bool{dom + "/resource-status": true, dom + "/resource-spec": true, dom + "/device-allocated": true, dom + "/reservation-allocated": true}
	if c.Thorough() {
		// every codec of the scheduling domain (annotations the scheduler puts on pods and reservations); node-level
		// annotations (e.g. the amplification ratio, deliberately rounded to two digits) are outside the property
		all := map[string]bool{}
		for _, u := range c.CodecUses("apis/extension") {
			if strings.HasPrefix(u.Key, dom+"/") {
				all[u.Key] = true
			}
		}
		paired := map[string]int{}
		for _, u := range c.CodecUses("apis/extension") {
			if all[u.Key] {
				if u.Write {
					paired[u.Key] |= 1
				} else {
					paired[u.Key] |= 2
				}
			}
		}
		for k, v := range paired {
			if v != 3 {
				delete(all, k) // one side lives outside apis/extension: not decidable here
			}
		}
		n := c.RunCodec("CODEC", "apis/extension", all)
		r.Floor("CODEC", "scheduling-domain annotation codecs with both sides in apis/extension", n, 8)
	} else {
		n := c.RunCodec("CODEC", "apis/extension", quick)
		r.Floor("CODEC", "allocation annotation codecs", n, 4)
	}

	// ---- CALL
	r.Rule("CALL: SetResourceStatus is called from nodenumaresource preBindObject and GetResourceStatus is reachable from its podEventHandler.updatePod; SetDeviceAllocations from deviceshare preBindObject and GetDeviceAllocations from nodeDeviceCache.updatePod; SetReservationAllocated from reservation PreBind path and GetReservationAllocated from its podEventHandler.updatePod")
	for _, x := range []struct{ pkg, wRecv, wFn, setter, rRecv, rFn, getter string }{
		{numaPkg, "Plugin", "preBindObject", "SetResourceStatus", "podEventHandler", "updatePod", "GetResourceStatus"},
		{devsharePkg, "Plugin", "preBindObject", "SetDeviceAllocations", "nodeDeviceCache", "updatePod", "GetDeviceAllocations"},
		{resvPkg, "Plugin", "PreBind", "SetReservationAllocated", "podEventHandler", "updatePod", "GetReservationAllocated"},
	} {
		w := c.Fn(x.pkg, x.wRecv, x.wFn)
		rd := c.Fn(x.pkg, x.rRecv, x.rFn)
		if w == nil || rd == nil {
			continue
		}
		r.Check(Reaches(w, x.setter, 3), "CALL", fkey(w)+"/persists:"+x.setter, c.Pos(w.Pos()), "allocation persisted at pre-bind", x.setter+" is no longer reachable from the pre-bind path: the allocation is not persisted")
		r.Check(Reaches(rd, x.getter, 3), "CALL", fkey(rd)+"/restores:"+x.getter, c.Pos(rd.Pos()), "allocation read back on the informer path", x.getter+" is no longer reachable from the pod event handler: the persisted allocation is never restored after a restart")
	}
	// handlers wired to informer callbacks
	for _, x := range []struct{ pkg, recv string }{{numaPkg, "podEventHandler"}, {resvPkg, "podEventHandler"}} {
		for _, cb := range []string{"OnAdd", "OnUpdate"} {
			f := c.Fn(x.pkg, x.recv, cb)
			if f != nil {
				r.Check(Reaches(f, "updatePod", 2), "CALL", fkey(f)+"/reaches-updatePod", c.Pos(f.Pos()), "informer callback reaches the restore function", cb+" no longer reaches updatePod")
			}
		}
	}
	if f := c.Fn(quotaPluginPkg, "Plugin", "OnPodAdd"); f != nil {
		r.Check(Reaches(f, "OnPodAdd", 3), "CALL", fkey(f)+"/reaches-core-OnPodAdd", c.Pos(f.Pos()), "quota assignment restored from pod add events (fail-over branch)", "the plugin's OnPodAdd no longer reaches GroupQuotaManager.OnPodAdd")
	}

	// ---- SIBLING: literal field sets
	r.Rule("SIBLING: podEventHandler.updatePod (nodenumaresource) stores every PodAllocation field that resourceManager.Allocate stores, and reads every ResourceStatus field that preBindObject stores")
	alloc := c.Fn(numaPkg, "resourceManager", "Allocate")
	restore := c.Fn(numaPkg, "podEventHandler", "updatePod")
	prebind := c.Fn(numaPkg, "Plugin", "preBindObject")
	if alloc != nil && restore != nil && prebind != nil {
		a, b := fieldsStored(alloc, ".PodAllocation"), fieldsStored(restore, ".PodAllocation")
		var missing []string
		for f := range a {
			if !b[f] {
				missing = append(missing, f)
			}
		}
		sort.Strings(missing)
		r.Check(len(missing) == 0 && len(a) >= 5, "SIBLING", "nodenumaresource.Allocate~updatePod/PodAllocation-fields", c.Pos(restore.Pos()), "restore sets {"+strings.Join(keysOf(b), ",")+"}",
			"the allocation rebuilt from annotations does not set field(s) "+strings.Join(missing, ",")+" that the allocating path sets {"+strings.Join(keysOf(a), ",")+"}")
		w, rd := fieldsStored(prebind, "extension.ResourceStatus"), fieldsRead(restore, "extension.ResourceStatus")
		missing = nil
		for f := range w {
			if !rd[f] {
				missing = append(missing, f)
			}
		}
		r.Check(len(missing) == 0 && len(w) >= 2, "SIBLING", "nodenumaresource.preBindObject~updatePod/ResourceStatus-fields", c.Pos(restore.Pos()), "restore reads {"+strings.Join(keysOf(rd), ",")+"}",
			"persisted field(s) "+strings.Join(missing, ",")+" of ResourceStatus are never read back by the restore path")
		// early return only when completely empty
		r.Rule("PATH: in nodenumaresource podEventHandler.updatePod a return taken because the persisted allocation is empty requires both len(NUMANodeResources)==0 and cpus.IsEmpty()")
		var upd ssa.CallInstruction
		for _, cl := range an.Calls(restore, false) {
			if cl.Common().IsInvoke() && cl.Common().Method.Name() == "Update" {
				upd = cl
			}
		}
		bad := ""
		n := 0
		for _, alt := range an.ReturnAlts(restore) {
			ret := alt.Ret
			_ = ret
			noCPU, noNUMA := false, false
			for _, g := range alt.Guards {
				p := an.Path(g.Cond)
				if g.Truth && strings.Contains(p, "IsEmpty") {
					noCPU = true
				}
				if g.Truth && strings.Contains(p, "NUMANodeResources") && strings.Contains(p, "== 0") {
					noNUMA = true
				}
			}
			if noCPU || noNUMA {
				n++
				if !(noCPU && noNUMA) {
					bad = c.InstrPos(ret)
				}
			}
		}
		r.Check(upd != nil && bad == "" && n >= 1, "PATH", fkey(restore)+"/drop-only-if-empty", c.Pos(restore.Pos()), "a persisted allocation is skipped only when it has neither CPUs nor NUMA amounts",
			"the restore path returns at "+bad+" when only one of cpuset / per-NUMA amounts is empty: a NUMA-only (or cpuset-only) allocation is not rebuilt after a restart and its resources look free")
	}

	// ---- persist on every successful pre-bind; restore on every informative event
	r.Rule("PATH(persist): in the nodenumaresource and deviceshare preBindObject, with the pre-filter state valid, not skipped and an allocation present, no return of a nil (success) status is reachable without SetResourceStatus / SetDeviceAllocations of the state's allocation (what the scheduler accounted is what is written; an annotation already on the object is no reason to skip)")
	for _, x := range []struct{ pkg, setter string }{{numaPkg, "SetResourceStatus"}, {devsharePkg, "SetDeviceAllocations"}} {
		f := c.Fn(x.pkg, "Plugin", "preBindObject")
		if f == nil {
			continue
		}
		facts := an.Facts{}
		for _, b := range f.Blocks {
			for _, in := range b.Instrs {
				switch v := in.(type) {
				case *ssa.Call:
					if an.ShortCallee(&v.Call) == "IsSuccess" {
						facts[v] = an.True
					}
				case *ssa.UnOp:
					if v.Op == token.MUL && strings.HasSuffix(an.Path(v), ".skip") {
						facts[v] = an.False
					}
				case *ssa.BinOp:
					px := an.Path(v.X)
					if an.IsNilConst(v.Y) && (strings.HasSuffix(px, ".allocationResult") || strings.HasSuffix(px, ".allocation")) {
						if v.Op == token.EQL {
							facts[v] = an.False
						} else if v.Op == token.NEQ {
							facts[v] = an.True
						}
					}
				}
			}
		}
		reach := an.Explore(f, nil, facts, func(in ssa.Instruction) bool {
			cl, ok := in.(ssa.CallInstruction)
			return ok && an.ShortCallee(cl.Common()) == x.setter
		})
		var bad []string
		for _, ret := range reach.Returns() {
			for _, alt := range reach.Alts(ret) {
				v := alt.Results[0]
				if call, _ := an.ResultOfCall(v); call != nil {
					if sn := an.ShortCallee(&call.Call); sn == "NewStatus" || sn == "AsStatus" {
						continue
					}
				}
				if reach.EvalAt(v, ret) == an.NonNil {
					continue
				}
				bad = append(bad, c.InstrPos(ret))
			}
		}
		r.Check(len(facts) >= 3 && len(bad) == 0, "PATH", fkey(f)+"/success=>"+x.setter, c.Pos(f.Pos()), "a successful pre-bind always persists the accounted allocation", sprintf("preBindObject can succeed (return at %s) without %s although the cycle state holds an allocation (%d preconditions recognised): after a restart the ledgers are rebuilt from something else than what was accounted", strings.Join(bad, ","), x.setter, len(facts)))
	}
	r.Rule("PATH(restore): in nodenumaresource podEventHandler.updatePod, for a bound, not terminated pod whose annotations parse and carry a non-empty allocation, no return is reachable without resourceManager.Update(node, allocation) - whatever the previous version of the pod looked like")
	if f := c.Fn(numaPkg, "podEventHandler", "updatePod"); f != nil {
		facts := an.Facts{}
		pod := f.Params[len(f.Params)-1]
		for _, b := range f.Blocks {
			for _, in := range b.Instrs {
				switch v := in.(type) {
				case *ssa.Call:
					switch an.ShortCallee(&v.Call) {
					case "IsPodTerminated":
						facts[v] = an.False
					case "IsEmpty":
						facts[v] = an.False
					}
					if e := extract(v, 1); e != nil && isErrorType(e.Type()) {
						facts[e] = an.Nil
					}
				case *ssa.BinOp:
					if s2, isC := constString(v.Y); isC && s2 == "" && strings.HasSuffix(an.Path(v.X), ".Spec.NodeName") {
						rooted := false
						for x := range backwardAll(v.X) {
							if x == ssa.Value(pod) {
								rooted = true
							}
						}
						if rooted {
							if v.Op == token.EQL {
								facts[v] = an.False
							} else if v.Op == token.NEQ {
								facts[v] = an.True
							}
						}
					}
				}
			}
		}
		reach := an.Explore(f, nil, facts, func(in ssa.Instruction) bool {
			cl, ok := in.(ssa.CallInstruction)
			return ok && cl.Common().IsInvoke() && cl.Common().Method.Name() == "Update"
		})
		var bad []string
		for _, ret := range reach.Returns() {
			bad = append(bad, c.InstrPos(ret))
		}
		r.Check(len(facts) >= 4 && len(bad) == 0, "PATH", fkey(f)+"/bound-pod=>Update", c.Pos(f.Pos()), "every informative event of a bound pod rebuilds its allocation", "the restore path can return (at "+strings.Join(bad, ",")+") for a bound pod with a persisted allocation without resourceManager.Update: an event whose annotations equal the previous version (e.g. the bind itself after a restart) no longer repairs a cache that misses the allocation")
	}

	r.Rule("FLOW(write-back): in nodenumaresource appendResourceSpecIfMissed the spec handed to SetResourceSpec is the one parsed from the object's own annotation (GetResourceSpec), with fields filled in - never a newly built ResourceSpec, which would drop what the user declared (e.g. the CPU exclusive policy the rebuild after a restart reads back)")
	if f := c.Fn(numaPkg, "", "appendResourceSpecIfMissed"); f != nil {
		n := 0
		for _, cl := range an.Calls(f, false) {
			if an.ShortCallee(cl.Common()) != "SetResourceSpec" {
				continue
			}
			n++
			ok := true
			var srcs []string
			for _, v := range an.Sources(cl.Common().Args[1], nil) {
				call, idx := an.ResultOfCall(v)
				if call == nil || an.ShortCallee(&call.Call) != "GetResourceSpec" || idx != 0 {
					ok = false
					srcs = append(srcs, an.Path(v))
				}
			}
			r.Check(ok, "FLOW", fkey(f)+"/writes-back-the-parsed-spec", c.InstrPos(cl), "the parsed spec is written back", "the spec written back can be "+strings.Join(srcs, ", ")+" instead of the object's own parsed spec: fields the user declared are lost from the persisted annotation")
		}
		if n == 0 {
			r.Unknown("FLOW", fkey(f)+"/writes-back-the-parsed-spec", c.Pos(f.Pos()), "SetResourceSpec call not found")
		}
	}

	// ---- registration order
	r.Rule("PATH: in reservation.New registerReservationEventHandler precedes registerPodEventHandler; in elasticquota.New the quota informer sync (ForceSyncFromInformerWithReplace) precedes the pod informer sync")
	if fn := c.Fn(resvPkg, "", "New"); fn != nil {
		var a, b ssa.CallInstruction
		for _, cl := range an.Calls(fn, false) {
			switch an.ShortCallee(cl.Common()) {
			case "registerReservationEventHandler":
				a = cl
			case "registerPodEventHandler":
				b = cl
			}
		}
		r.Check(a != nil && b != nil && mustPass(a, b), "PATH", fkey(fn)+"/reservations-before-pods", c.Pos(fn.Pos()), "reservations are replayed before pods", "the pod handler is registered before (or without) the reservation handler: pods whose reservation is not cached yet are dropped on restart")
	}
	if fn := c.Fn(quotaPluginPkg, "", "New"); fn != nil {
		var quota, pod ssa.CallInstruction
		for _, cl := range an.Calls(fn, false) {
			switch an.ShortCallee(cl.Common()) {
			case "ForceSyncFromInformerWithReplace":
				quota = cl
			case "ForceSyncFromInformer":
				if strings.Contains(strings.ToLower(an.Path(cl.Common().Args[2])), "pods(") {
					pod = cl
				}
			}
		}
		r.Check(quota != nil && pod != nil && mustPass(quota, pod), "PATH", fkey(fn)+"/quotas-before-pods", c.Pos(fn.Pos()), "quotas are replayed before pods", "the pod informer is synced before (or without) the quota informer")
	}
	// reservation ledger replay (shared with C05)
	c05events(c)
}
