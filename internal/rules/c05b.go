package rules

import (
	"go/token"
	"strings"

	"golang.org/x/tools/go/ssa"

	"kverif/internal/an"
)

const resvUtilPkg = "pkg/util/reservation"

// c05owners: the owner matchers and the node a rolled-back reservation is forgotten on.
func c05owners(c *Ctx) {
	r := c.R
	r.Decides("an owner specification field that is set and differs from the pod's (object reference: UID, name, namespace, API version; controller reference: UID, name, kind, API version, namespace, and the controller flag incl. a pod reference that leaves the flag unset) makes that matcher report no match; a rolled-back reserve pod's reservation is forgotten with the node it was assumed on, so the per-node indexes are cleaned")
	r.Rule("PATH(owner fields): in reservation.MatchObjectRef / MatchReservationControllerReference, for each compared field f: assuming the specification's f is set (len > 0, resp. Controller != nil) and differs from the pod's (==false; resp. the pod's flag is nil, or both set and unequal), every return is false")
	rooted := func(fn *ssa.Function, v ssa.Value, p int) bool {
		for x := range backwardAll(v) {
			if isParamOf(fn, x, p) {
				return true
			}
		}
		return false
	}
	fieldLoad := func(v ssa.Value) (string, bool) {
		if ld, ok := v.(*ssa.UnOp); ok && ld.Op == token.MUL {
			if _, f, _, ok := an.FieldOf(ld.X); ok {
				return f, true
			}
		}
		return "", false
	}
	allFalse := func(fn *ssa.Function, f an.Facts) bool {
		reach := an.Explore(fn, nil, f, nil)
		n := 0
		for _, ret := range reach.Returns() {
			for _, alt := range reach.Alts(ret) {
				n++
				if reach.EvalAlt(alt, 0) != an.False {
					return false
				}
			}
		}
		return n > 0
	}
	type m struct {
		fn     string
		spec   int // parameter index of the specification
		fields []string
	}
	for _, t := range []m{
		{"MatchObjectRef", 1, []string{"UID", "Name", "Namespace", "APIVersion"}},
		{"MatchReservationControllerReference", 1, []string{"UID", "Name", "Kind", "APIVersion", "Namespace"}},
	} {
		fn := c.Fn(resvUtilPkg, "", t.fn)
		if fn == nil {
			continue
		}
		base := an.Facts{fn.Params[t.spec]: an.NonNil}
		for _, fld := range t.fields {
			f := an.Facts{}
			for k, v := range base {
				f[k] = v
			}
			nSet, nDiff := 0, 0
			for _, b := range fn.Blocks {
				for _, in := range b.Instrs {
					bo, ok := in.(*ssa.BinOp)
					if !ok {
						continue
					}
					// len(spec.f) OP 0
					if cl, isCall := bo.X.(*ssa.Call); isCall && an.IsBuiltinCall(cl, "len") {
						if name, ok := fieldLoad(cl.Call.Args[0]); ok && name == fld && rooted(fn, cl.Call.Args[0], t.spec) {
							if k, isC := constIntOf(bo.Y); isC && k == 0 {
								switch bo.Op {
								case token.EQL, token.LEQ:
									f[bo] = an.False
									nSet++
								case token.GTR, token.NEQ:
									f[bo] = an.True
									nSet++
								}
							}
						}
						continue
					}
					if bo.Op != token.EQL && bo.Op != token.NEQ {
						continue
					}
					nx, okx := fieldLoad(bo.X)
					ny, oky := fieldLoad(bo.Y)
					if okx && oky && nx == fld && ny == fld && rooted(fn, bo.X, t.spec) != rooted(fn, bo.Y, t.spec) {
						if bo.Op == token.EQL {
							f[bo] = an.False
						} else {
							f[bo] = an.True
						}
						nDiff++
					}
				}
			}
			ok := nSet >= 1 && nDiff >= 1 && allFalse(fn, f)
			r.Check(ok, "PATH", fkey(fn)+"/differs=>no-match/"+fld, c.Pos(fn.Pos()), "a set field that differs means no match", sprintf("with the specification's %s set and different from the pod's the matcher can still report a match ('is set' tests found=%d, comparisons found=%d): the reservation serves a pod that is not its owner", fld, nSet, nDiff))
		}
		if t.fn != "MatchReservationControllerReference" {
			continue
		}
		// the controller flag
		var specFlag, podFlag []ssa.Value
		for _, b := range fn.Blocks {
			for _, in := range b.Instrs {
				if name, ok := fieldLoad(valueOf(in)); ok && name == "Controller" {
					if rooted(fn, valueOf(in), t.spec) {
						specFlag = append(specFlag, valueOf(in))
					} else {
						podFlag = append(podFlag, valueOf(in))
					}
				}
			}
		}
		f1 := an.Facts{fn.Params[t.spec]: an.NonNil}
		for _, v := range specFlag {
			f1[v] = an.NonNil
		}
		for _, v := range podFlag {
			f1[v] = an.Nil
		}
		ok1 := len(specFlag) > 0 && len(podFlag) > 0 && allFalse(fn, f1)
		// both set and unequal: the comparison of the two dereferenced flags
		f2 := an.Facts{fn.Params[t.spec]: an.NonNil}
		for _, v := range specFlag {
			f2[v] = an.NonNil
		}
		for _, v := range podFlag {
			f2[v] = an.NonNil
		}
		nCmp := 0
		for _, b := range fn.Blocks {
			for _, in := range b.Instrs {
				bo, ok := in.(*ssa.BinOp)
				if !ok || (bo.Op != token.EQL && bo.Op != token.NEQ) {
					continue
				}
				deref := func(v ssa.Value) bool {
					ld, ok := v.(*ssa.UnOp)
					if !ok || ld.Op != token.MUL {
						return false
					}
					name, ok := fieldLoad(ld.X)
					return ok && name == "Controller"
				}
				if deref(bo.X) && deref(bo.Y) {
					if bo.Op == token.EQL {
						f2[bo] = an.False
					} else {
						f2[bo] = an.True
					}
					nCmp++
				}
			}
		}
		ok2 := nCmp > 0 && allFalse(fn, f2)
		r.Check(ok1 && ok2, "PATH", fkey(fn)+"/differs=>no-match/Controller", c.Pos(fn.Pos()), "a required controller flag must be present and equal on the pod's reference", sprintf("with the specification's controller flag set, a pod reference that leaves the flag unset (no match=%v) or sets it differently (no match=%v) can still match", ok1, ok2))
	}

	// ---- forget on the node it was assumed on
	r.Rule("FLOW(forget with node): in Plugin.Unreserve the object handed to reservationCache.forgetReservation carries Status.NodeName = the nodeName parameter on every path (built with it, or copied and assigned before the call): DeleteReservation cleans the per-node indexes by that field, and a pending reservation read from the lister has none")
	if fn := c.Fn(resvPkg, "Plugin", "Unreserve"); fn != nil {
		nodeIdx := fn.Signature.Params().Len() - 1
		n := 0
		for _, cl := range an.Calls(fn, false) {
			if an.ShortCallee(cl.Common()) != "forgetReservation" {
				continue
			}
			n++
			ok := true
			var why []string
			for _, src := range cellSources(cl.Common().Args[1]) {
				set := false
				for _, st := range nestedFieldStores(fn, src, []string{"Status", "NodeName"}) {
					if !isParamOf(fn, st.Val, nodeIdx) {
						continue
					}
					// on the way from where the object comes into being to the call the assignment cannot be bypassed
					var start *an.Start
					if in, isIn := src.(ssa.Instruction); isIn {
						start = an.After(in)
					}
					reach := an.Explore(fn, start, nil, func(in ssa.Instruction) bool { return in == ssa.Instruction(st) })
					if !reach.Reached(cl) {
						set = true
					}
				}
				if !set {
					ok = false
					why = append(why, "an object that reaches the call ("+an.Path(src)+") does not get Status.NodeName = nodeName before it")
				}
			}
			r.Check(ok, "FLOW", fkey(fn)+"/forget-with-node", c.InstrPos(cl), "forgotten with the node of this cycle", "the rolled-back reservation is forgotten without its node: "+strings.Join(why, "; ")+" - the per-node index keeps a reservation that is no longer assumed there")
		}
		r.Floor("FLOW", "forgetReservation calls in Unreserve", n, 1)
	}
}

// c05deleteByEvent: the per-node clean-up of a deleted reservation goes by the node of the object handed in.
func c05deleteByEvent(c *Ctx) {
	r := c.R
	r.Decides("reservationCache.DeleteReservation cleans the per-node indexes under the node name of the object it is given (Unreserve hands over the node the reservation was assumed on; the cached object can meanwhile have been overwritten by an update that carries no node, e.g. an expiry)")
	r.Rule("FLOW(delete by the given node): in reservationCache.DeleteReservation the node name passed to deleteReservationOnNode and used to index matchableOnNode / allocatedOnNode is read from the parameter's Status.NodeName only (never from the cached ReservationInfo)")
	fn := c.Fn(resvPkg, "reservationCache", "DeleteReservation")
	if fn == nil {
		return
	}
	okSrc := func(v ssa.Value) (bool, string) {
		for _, s := range cellSources(v) {
			ld, isLd := s.(*ssa.UnOp)
			if !isLd || ld.Op != token.MUL {
				return false, an.Path(s)
			}
			_, f, base, ok := an.FieldOf(ld.X)
			if !ok || f != "NodeName" || !isParamOf(fn, rootOf(base), 0) {
				return false, an.Path(s)
			}
		}
		return true, ""
	}
	n, ok := 0, true
	why := ""
	for _, cl := range an.Calls(fn, false) {
		if an.ShortCallee(cl.Common()) == "deleteReservationOnNode" {
			n++
			if g, w := okSrc(cl.Common().Args[1]); !g {
				ok, why = false, w
			}
		}
	}
	for _, b := range fn.Blocks {
		for _, in := range b.Instrs {
			lk, isLk := in.(*ssa.Lookup)
			if !isLk {
				continue
			}
			p := an.Path(lk.X)
			if strings.HasSuffix(p, ".matchableOnNode") || strings.HasSuffix(p, ".allocatedOnNode") {
				n++
				if g, w := okSrc(lk.Index); !g {
					ok, why = false, w
				}
			}
		}
	}
	r.Check(ok && n >= 3, "FLOW", fkey(fn)+"/by-the-given-node", c.Pos(fn.Pos()), "indexes cleaned under the given object's node", sprintf("the per-node clean-up goes by another node name than the given object's (%s; %d uses examined): after an update without node overwrote the cached object, the roll-back cleans node \"\" and the index keeps a reservation that no longer exists", why, n))
}

func valueOf(in ssa.Instruction) ssa.Value {
	v, _ := in.(ssa.Value)
	return v
}

// nestedFieldStores: the stores into obj.<path[0]>.<path[1]>... made in fn, also when an inner struct is assembled in a
// local composite literal and copied into place as a whole.
func nestedFieldStores(fn *ssa.Function, obj ssa.Value, path []string) []*ssa.Store {
	cur := map[ssa.Value]bool{obj: true}
	for i, name := range path {
		next := map[ssa.Value]bool{}
		var out []*ssa.Store
		for _, b := range fn.Blocks {
			for _, in := range b.Instrs {
				fa, ok := in.(*ssa.FieldAddr)
				if !ok || !cur[fa.X] {
					continue
				}
				if _, f, _, ok := an.FieldOf(fa); !ok || f != name {
					continue
				}
				if i == len(path)-1 {
					if fa.Referrers() != nil {
						for _, ref := range *fa.Referrers() {
							if st, ok := ref.(*ssa.Store); ok && st.Addr == ssa.Value(fa) {
								out = append(out, st)
							}
						}
					}
					continue
				}
				next[fa] = true
				// an inner struct copied in as a whole from a local
				if fa.Referrers() != nil {
					for _, ref := range *fa.Referrers() {
						if st, ok := ref.(*ssa.Store); ok && st.Addr == ssa.Value(fa) {
							if ld, ok := st.Val.(*ssa.UnOp); ok && ld.Op == token.MUL {
								if a, ok := ld.X.(*ssa.Alloc); ok {
									next[a] = true
								}
							}
						}
					}
				}
			}
		}
		if i == len(path)-1 {
			return out
		}
		cur = next
	}
	return nil
}
