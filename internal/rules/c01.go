package rules

import (
	"go/token"
	"sort"
	"strings"

	"golang.org/x/tools/go/ssa"

	"kverif/internal/an"
	"kverif/internal/load"
)

func init() { Registry["C01"] = c01 }

const quotaCorePkg = "pkg/scheduler/plugins/elasticquota/core"

// podOp is one accounting step on (quota, pod).
type podOp struct {
	kind string // cacheAdd cacheDel reqAdd reqDel reqUpd usedAdd usedDel usedUpd assignT assignF assignV
	q, p ssa.Value
	flag ssa.Value
	call ssa.CallInstruction
}

func sameVal(a, b ssa.Value) bool {
	if a == b {
		return true
	}
	pa, pb := an.Path(a), an.Path(b)
	return pa == pb && !strings.Contains(pa, "φ") && !strings.Contains(pa, "(")
}

func podOps(fn *ssa.Function) []podOp {
	var out []podOp
	for _, cl := range an.Calls(fn, false) {
		f := cl.Common().StaticCallee()
		if f == nil || f.Signature.Recv() == nil || !isNamedType(f.Signature.Recv().Type(), "GroupQuotaManager") {
			continue
		}
		a := cl.Common().Args // receiver first
		switch f.Name() {
		case "updatePodCacheNoLock":
			k := "cacheV"
			if isTrueConst(a[3]) {
				k = "cacheAdd"
			} else if isFalseConst(a[3]) {
				k = "cacheDel"
			}
			out = append(out, podOp{kind: k, q: a[1], p: a[2], flag: a[3], call: cl})
		case "updatePodRequestNoLock", "updatePodUsedNoLock":
			pre := "req"
			if f.Name() == "updatePodUsedNoLock" {
				pre = "used"
			}
			switch {
			case an.IsNilConst(a[2]) && !an.IsNilConst(a[3]):
				out = append(out, podOp{kind: pre + "Add", q: a[1], p: a[3], call: cl})
			case !an.IsNilConst(a[2]) && an.IsNilConst(a[3]):
				out = append(out, podOp{kind: pre + "Del", q: a[1], p: a[2], call: cl})
			default:
				out = append(out, podOp{kind: pre + "Upd", q: a[1], p: a[3], call: cl})
			}
		case "updatePodIsAssignedNoLock":
			k := "assignV"
			if isTrueConst(a[3]) {
				k = "assignT"
			} else if isFalseConst(a[3]) {
				k = "assignF"
			}
			out = append(out, podOp{kind: k, q: a[1], p: a[2], flag: a[3], call: cl})
		}
	}
	return out
}

func isFalseConst(v ssa.Value) bool {
	cst, ok := v.(*ssa.Const)
	return ok && cst.Value != nil && cst.Value.String() == "false"
}

func c01(c *Ctx) {
	quotaAssignByState(c)
	c.R.Rule("EXCLUSIVE: ReservePod / UnreservePod test the pod's assigned flag and update used under one mutex held in write mode, not released in between (the pod informer handlers change the same state under its read mode)")
	exclusiveCheckAct(c, c.Fn(quotaCorePkg, "GroupQuotaManager", "ReservePod"), "CheckPodIsAssigned", "updatePodUsedNoLock", "used keeps the request of a pod that was deleted in between, in the group and every ancestor")
	exclusiveCheckAct(c, c.Fn(quotaCorePkg, "GroupQuotaManager", "UnreservePod"), "CheckPodIsAssigned", "updatePodUsedNoLock", "the request of a pod deleted in between is subtracted twice, in the group and every ancestor")
	c.R.Rule("CREATE-ONCE: in a get-or-create of a per-key record, the lookup that finds the key absent and the store of the fresh record happen in one hold of the mutex the store runs under (no release of it in between)")
	createOnce(c, c.Fn(quotaPluginPkg, "Plugin", "GetOrCreateGroupQuotaManagerForTree"), "the quota groups registered in the replaced manager are orphaned: every later pod event for them is dropped and their used is never counted")
	c01forgetMappingFirst(c)
	r := c.R
	r.Rule("PATH(tombstone): the delete handler treats a cache.DeletedFinalStateUnknown (delivered by value) like the object inside it: both reach the release, and no assertion to the pointer type exists")
	c.Tombstone("PATH", quotaPluginPkg, "Plugin", "OnPodDelete", "handlePodDelete")
	r.Decides("in every pod-event entry point, adding a pod to a quota's cache is always followed by adding its request, removing it is always preceded by removing its request (and used), and never followed by them; marking a pod assigned is always followed by adding its used, un-marking is preceded by removing it")
	r.Decides("every delta handed up the tree is new-minus-old around the mutation (bracket), and a request delta applied starting at a quota's parent is computed from the quota's max-limited request")
	r.Decides("the tree rebuild replays the saved request/used of every quota unconditionally")
	r.Decides("quotaInfoMap / runtimeQuotaCalculatorMap / quotaTopoNodeMap are written only under hierarchyUpdateLock held for writing and read under it")
	r.Decides("clearForResetNoLock resets every incrementally accumulated figure; the plugin's pod handlers hand every event to each affected tree's manager that exists")
	r.Declines("that the leaf-to-root deltas add up to the recomputed totals (clamping at zero, min-raise, hand-over arithmetic); read-side races on QuotaInfo")

	quotaPairing(c)

	// ---- bracket
	r.Rule("PATH+FLOW(bracket): every quotav1.Subtract(new, old) whose operands are two getLimitRequestNoLock() results of one quota has the old call before and the new call after a mutation of that quota (setMax/addRequest/Request store); for Guaranteed: old is loaded before and new is the value stored")
	nB := 0
	for _, fn := range c.PkgFuncs(quotaCorePkg) {
		for _, cl := range an.Calls(fn, false) {
			if an.CalleeName(cl.Common()) != "k8s.io/apiserver/pkg/quota/v1.Subtract" {
				continue
			}
			a := cl.Common().Args
			nc, _ := an.ResultOfCall(a[0])
			oc, _ := an.ResultOfCall(a[1])
			if nc == nil || oc == nil || an.ShortCallee(&nc.Call) != "getLimitRequestNoLock" || an.ShortCallee(&oc.Call) != "getLimitRequestNoLock" {
				continue
			}
			nB++
			key := sprintf("%s/limit-request-bracket#%d", fkey(fn), nB)
			sameQ := sameVal(nc.Call.Args[0], oc.Call.Args[0])
			before := (oc.Block() == nc.Block() && instrIndex(oc) < instrIndex(nc)) || (oc.Block() != nc.Block() && oc.Block().Dominates(nc.Block()))
			// a mutation in between
			mut := false
			for _, m := range an.Calls(fn, false) {
				switch an.ShortCallee(m.Common()) {
				case "setMaxNoLock", "addRequestNonNegativeNoLock", "addChildRequestNonNegativeNoLock", "setMinNoLock":
					if between(oc, m, nc) {
						mut = true
					}
				}
			}
			for _, b := range fn.Blocks {
				for _, in := range b.Instrs {
					if st, ok := in.(*ssa.Store); ok {
						if _, f, _, ok := an.FieldOf(st.Addr); ok && f == "Request" && between(oc, st, nc) {
							mut = true
						}
					}
				}
			}
			r.Check(sameQ && before && mut, "PATH", key, c.InstrPos(cl), "delta = limit-request(after) - limit-request(before) of the same quota around its mutation",
				sprintf("bracket broken: same quota=%v, old read precedes new read=%v, mutation in between=%v (swapped or stale operands hand a wrong delta to the ancestors)", sameQ, before, mut))
		}
	}
	r.Floor("PATH", "limit-request brackets", nB, 3)

	// ---- limited upward delta
	r.Rule("FLOW: a request delta passed to updateGroupDeltaRequestNoLock for the ParentName of a quota derives from that quota's getLimitRequestNoLock(), not from its unlimited Request field")
	nU := 0
	for _, fn := range c.PkgFuncs(quotaCorePkg) {
		for _, cl := range an.CallsTo(fn, false, "(*"+load.Module+"/"+quotaCorePkg+".GroupQuotaManager).updateGroupDeltaRequestNoLock") {
			a := cl.Common().Args
			if !strings.HasSuffix(an.Path(a[1]), ".ParentName") {
				continue
			}
			nU++
			key := sprintf("%s/delta-to-parent#%d", fkey(fn), nU)
			limited, raw := false, false
			for x := range backwardAll(a[2]) {
				if call, ok := x.(*ssa.Call); ok && an.ShortCallee(&call.Call) == "getLimitRequestNoLock" {
					limited = true
				}
				if fa, ok := x.(*ssa.FieldAddr); ok {
					if _, f, _, ok := an.FieldOf(fa); ok && f == "Request" {
						raw = true
					}
				}
			}
			r.Check(limited && !raw, "FLOW", key, c.InstrPos(cl), "the parent loses exactly what it had received (the max-limited request)",
				sprintf("the delta applied to the parent derives from the limited request: %v, from the raw Request field: %v — the parent accumulated the max-limited amount, so subtracting the raw request removes too much (siblings' requests are lost behind the zero clamp)", limited, raw))
		}
	}
	r.Floor("FLOW", "request deltas applied to a parent", nU, 1)

	// ---- rebuild replays unconditionally
	r.Rule("PATH: in rebuildAllGroupQuotaNoLock the replay calls updateGroupDeltaRequestNoLock/updateGroupDeltaUsedNoLock are guarded only by the membership test of the saved map (not by the saved amounts)")
	if fn := c.Fn(quotaCorePkg, "GroupQuotaManager", "rebuildAllGroupQuotaNoLock"); fn != nil {
		n := 0
		for _, cl := range an.Calls(fn, false) {
			sn := an.ShortCallee(cl.Common())
			if sn != "updateGroupDeltaRequestNoLock" && sn != "updateGroupDeltaUsedNoLock" {
				continue
			}
			n++
			// the call must be executed whenever the membership test of the saved map succeeds: from the
			// true edge of that test, the next loop iteration is unreachable without passing the call.
			var member *ssa.If
			for _, g := range an.Guards(cl) {
				if isCommaOk(g.Cond) && g.Truth {
					member = g.If
				}
			}
			if member == nil {
				r.Fail("PATH", fkey(fn)+"/replay/"+sn, c.InstrPos(cl), "the replay call is not under the membership test of the saved map: unknown idiom")
				continue
			}
			var hdr *ssa.BasicBlock
			for d := member.Block(); d != nil; d = d.Idom() {
				for _, in := range d.Instrs {
					if _, ok := in.(*ssa.Next); ok && hdr == nil {
						hdr = d
					}
				}
			}
			start := &an.Start{Block: member.Block().Succs[0], Index: 0}
			reach := an.Explore(fn, start, nil, func(in ssa.Instruction) bool { return in == ssa.Instruction(cl) })
			skipped := hdr == nil || reach.BlockReached(hdr) || len(reach.Returns()) > 0
			r.Check(!skipped, "PATH", fkey(fn)+"/replay/"+sn, c.InstrPos(cl), "replayed for every saved quota",
				"the replay can be skipped for a saved quota (the next iteration is reachable without the call): a non-lending group without pods no longer gets its request raised back to min after a tree reset")
		}
		r.Floor("PATH", "replay calls in rebuildAllGroupQuotaNoLock", n, 2)
	}

	// ---- reset clears every accumulated figure
	r.Rule("TABLE(reset): every QuotaCalculateInfo field that package core updates incrementally (a store whose value derives from the field's own previous value) is assigned a fresh value in clearForResetNoLock, so the replay after a tree reset starts from zero")
	accumulated := map[string]string{}
	if fn := c.Fn(quotaCorePkg, "QuotaInfo", "clearForResetNoLock"); fn != nil {
		for _, f := range c.PkgFuncs(quotaCorePkg) {
			for _, b := range f.Blocks {
				for _, in := range b.Instrs {
					st, ok := in.(*ssa.Store)
					if !ok {
						continue
					}
					owner, field, base, ok := an.FieldOf(st.Addr)
					if !ok || !strings.HasSuffix(owner, "QuotaCalculateInfo") {
						continue
					}
					self := false
					for x := range backwardAll(st.Val) {
						if ld, ok := x.(*ssa.UnOp); ok {
							if o2, f2, b2, ok := an.FieldOf(ld.X); ok && o2 == owner && f2 == field && an.Path(b2) == an.Path(base) {
								self = true
							}
						}
					}
					if self {
						accumulated[field] = c.InstrPos(st)
					}
				}
			}
		}
		cleared := map[string]bool{}
		for _, b := range fn.Blocks {
			for _, in := range b.Instrs {
				if st, ok := in.(*ssa.Store); ok {
					if owner, field, _, ok := an.FieldOf(st.Addr); ok && strings.HasSuffix(owner, "QuotaCalculateInfo") {
						cleared[field] = true
					}
				}
			}
		}
		r.Floor("TABLE", "incrementally updated QuotaCalculateInfo fields", len(accumulated), 6)
		for _, f := range keysOf2(accumulated) {
			r.Check(cleared[f], "TABLE", fkey(fn)+"/clears/"+f, c.Pos(fn.Pos()), f+" is reset", "QuotaCalculateInfo."+f+" is accumulated incrementally (e.g. at "+accumulated[f]+") but not reset by clearForResetNoLock: the replay after a tree reset adds the saved amount on top of the stale one (counted twice)")
		}
	}

	c01plugin(c)
	c01walk(c)
	exactCmpPackage(c) // the max cap on the request handed to the parent is an exact comparison
	c01values(c)

	// ---- LOCK
	r.Rule("LOCK: GroupQuotaManager.{quotaInfoMap,runtimeQuotaCalculatorMap,quotaTopoNodeMap} are read under hierarchyUpdateLock (R/W) and written under the write lock; *NoLock helpers pass the requirement to their callers")
	c.RunLock("LOCK", LockCfg{Pkg: quotaCorePkg, Type: "GroupQuotaManager", Mutex: "hierarchyUpdateLock",
		Guarded: []string{"quotaInfoMap", "runtimeQuotaCalculatorMap", "quotaTopoNodeMap"}, MinFuncs: 15,
		Exempt: map[string]string{
			"pkg/scheduler/plugins/elasticquota/core.NewGroupQuotaManager": "constructor: the object is not shared yet",
		}})

	r.Rule("LOCK(per-quota): every write to an incrementally maintained figure of QuotaInfo.CalculateInfo (the fields found by TABLE(reset), incl. entries of their lists) happens while that QuotaInfo's own lock is held for writing: taken directly, or for every group of a path by scopedLockForQuotaInfo whose returned unlock is deferred; *NoLock helpers pass the requirement to their callers (per object or per slice of objects)")
	c.RunLock("LOCK", LockCfg{Pkg: quotaCorePkg, Type: "QuotaInfo", Mutex: "lock", WriteOnly: true,
		Guarded: []string{"CalculateInfo"}, MinFuncs: 5,
		ElemHeldBy: map[string]int{"(*pkg/scheduler/plugins/elasticquota/core.GroupQuotaManager).scopedLockForQuotaInfo": 1},
		FreshCtors: []string{"pkg/scheduler/plugins/elasticquota/core.NewQuotaInfo", "pkg/scheduler/plugins/elasticquota/core.NewQuotaInfoFromQuota", "(*pkg/scheduler/plugins/elasticquota/core.QuotaInfo).DeepCopy"},
		Exempt: map[string]string{
			"pkg/scheduler/plugins/elasticquota/core.NewGroupQuotaManager": "constructor: the object is not shared yet",
		},
		SubGuard: func(addr ssa.Value) bool {
			refs := addr.Referrers()
			if refs == nil {
				return false
			}
			for _, ref := range *refs {
				switch x := ref.(type) {
				case *ssa.FieldAddr:
					if _, f, _, ok := an.FieldOf(x); ok && accumulated[f] != "" {
						return true
					}
				case *ssa.Store:
					if x.Addr == addr {
						return true
					}
				}
			}
			return false
		},
	})
}

// between: a dominates m and m dominates b (same-block order respected).
func between(a, m, b ssa.Instruction) bool {
	return instrBefore(a, m) && instrBefore(m, b)
}

// mustPass: b is unreachable from the entry of its function without executing a first (conditional-constant
// exploration, so merged flags of inlined predicates are followed; strictly more precise than dominance and still
// a must-property).
func mustPass(a, b ssa.Instruction) bool {
	if a == nil || b == nil || a.Parent() != b.Parent() {
		return false
	}
	if instrBefore(a, b) {
		return true
	}
	reach := an.Explore(a.Parent(), nil, nil, func(in ssa.Instruction) bool { return in == a })
	return !reach.Reached(b)
}

func instrBefore(a, b ssa.Instruction) bool {
	if a.Block() == b.Block() {
		return instrIndex(a) < instrIndex(b)
	}
	return a.Block().Dominates(b.Block())
}

func keysOf2(m map[string]string) []string {
	var out []string
	for k := range m {
		out = append(out, k)
	}
	sort.Strings(out)
	return out
}

// c01plugin: the plugin's informer handlers always hand the event to the manager(s) that exist.
func c01plugin(c *Ctx) {
	r := c.R
	r.Rule("PATH(plugin events): in Plugin.OnPodUpdate, for a pod that stays in one tree whose manager exists: no quota->quota' reaches OnPodAdd, quota->quota' reaches OnPodUpdate, quota->none reaches OnPodDelete on every path; for a pod that changes tree: whenever the old tree's manager exists and the old quota is set, OnPodDelete(old) is reached whatever the state of the new tree's manager, and symmetrically OnPodAdd(new); Plugin.OnPodAdd / handlePodDelete reach the manager whenever quota name and manager exist")
	fn := c.Fn(quotaPluginPkg, "Plugin", "OnPodUpdate")
	if fn == nil {
		return
	}
	key := fkey(fn)
	var assoc [2]*ssa.Call // old, new
	for _, cl := range an.Calls(fn, false) {
		if an.ShortCallee(cl.Common()) == "getPodAssociateQuotaNameAndTreeID" {
			call, _ := cl.(*ssa.Call)
			p := an.Path(cl.Common().Args[1])
			if strings.Contains(p, "oldObj") {
				assoc[0] = call
			} else if strings.Contains(p, "newObj") {
				assoc[1] = call
			}
		}
	}
	if assoc[0] == nil || assoc[1] == nil {
		r.Unknown("PATH", key+"/shape", c.Pos(fn.Pos()), "quota association of the old and new pod not recognised")
		return
	}
	name := [2]ssa.Value{extract(assoc[0], 0), extract(assoc[1], 0)}
	tree := [2]ssa.Value{extract(assoc[0], 1), extract(assoc[1], 1)}
	var mgrs [2][]ssa.Value
	for _, cl := range an.Calls(fn, false) {
		if an.ShortCallee(cl.Common()) == "GetGroupQuotaManagerForTree" {
			for i := 0; i < 2; i++ {
				if cl.Common().Args[1] == tree[i] {
					mgrs[i] = append(mgrs[i], cl.Value())
				}
			}
		}
	}
	// cmp facts
	type scen struct {
		id             string
		same           an.Abs // True/False
		oldSet, newSet an.Abs // True / False / Unknown
		mgr            [2]bool
		want           string
		wantName       int
	}
	scens := []scen{
		{"same-tree/none->quota", an.True, an.False, an.True, [2]bool{true, true}, "OnPodAdd", 1},
		{"same-tree/quota->quota", an.True, an.True, an.True, [2]bool{true, true}, "OnPodUpdate", 1},
		{"same-tree/quota->none", an.True, an.True, an.False, [2]bool{true, true}, "OnPodDelete", 0},
		{"cross-tree/leave-old", an.False, an.True, an.Unknown, [2]bool{true, false}, "OnPodDelete", 0},
		{"cross-tree/enter-new", an.False, an.Unknown, an.True, [2]bool{false, true}, "OnPodAdd", 1},
	}
	for _, s := range scens {
		f := an.Facts{}
		recognised := 0
		for _, b := range fn.Blocks {
			for _, in := range b.Instrs {
				bo, ok := in.(*ssa.BinOp)
				if !ok || (bo.Op != token.EQL && bo.Op != token.NEQ) {
					continue
				}
				set := func(truthIfEq an.Abs) {
					if truthIfEq == an.Unknown {
						return
					}
					v := truthIfEq
					if bo.Op == token.NEQ {
						if v == an.True {
							v = an.False
						} else {
							v = an.True
						}
					}
					f[bo] = v
					recognised++
				}
				switch {
				case (bo.X == tree[0] && bo.Y == tree[1]) || (bo.X == tree[1] && bo.Y == tree[0]):
					set(s.same)
				case strings.HasSuffix(an.Path(bo.X), ".ResourceVersion") && strings.HasSuffix(an.Path(bo.Y), ".ResourceVersion"):
					set(an.False)
				default:
					for i := 0; i < 2; i++ {
						want := [2]an.Abs{s.oldSet, s.newSet}[i]
						if bo.X == name[i] {
							if str, ok := constString(bo.Y); ok && str == "" {
								// name == "" is the negation of "set"
								switch want {
								case an.True:
									set(an.False)
								case an.False:
									set(an.True)
								}
							}
						}
						for _, m := range mgrs[i] {
							if bo.X == m && an.IsNilConst(bo.Y) && s.mgr[i] {
								set(an.False)
							}
						}
					}
				}
			}
		}
		reach := an.Explore(fn, nil, f, func(in ssa.Instruction) bool {
			cl, ok := in.(ssa.CallInstruction)
			if !ok || an.ShortCallee(cl.Common()) != s.want || cl.Common().StaticCallee() == nil || cl.Common().StaticCallee().Signature.Recv() == nil {
				return false
			}
			a := cl.Common().Args
			if len(a) < 3 || a[1] != name[s.wantName] {
				return false
			}
			// receiver is a manager of the matching tree
			for _, m := range mgrs[s.wantName] {
				if a[0] == m {
					return true
				}
			}
			if s.same == an.True { // one tree: either lookup names the same manager
				for _, m := range mgrs[1-s.wantName] {
					if a[0] == m {
						return true
					}
				}
			}
			return false
		})
		r.Check(recognised >= 3 && len(reach.Returns()) == 0, "PATH", key+"/"+s.id, c.Pos(fn.Pos()), s.want+" is reached on every path", sprintf("the handler can return without %s on the manager of the %s tree although that manager exists and the quota name is set (%d conditions recognised): the pod stays counted in (or never reaches) that quota", s.want, []string{"old", "new"}[s.wantName], recognised))
	}
	for _, h := range []struct{ fn, want string }{{"OnPodAdd", "OnPodAdd"}, {"handlePodDelete", "OnPodDelete"}} {
		hf := c.Fn(quotaPluginPkg, "Plugin", h.fn)
		if hf == nil {
			continue
		}
		f := an.Facts{}
		for _, b := range hf.Blocks {
			for _, in := range b.Instrs {
				switch x := in.(type) {
				case *ssa.BinOp:
					if x.Op != token.EQL && x.Op != token.NEQ {
						continue
					}
					call, idx := an.ResultOfCall(x.X)
					isName := call != nil && idx == 0 && an.ShortCallee(&call.Call) == "getPodAssociateQuotaNameAndTreeID"
					isMgr := call != nil && an.ShortCallee(&call.Call) == "GetGroupQuotaManagerForTree" && an.IsNilConst(x.Y)
					if isName || isMgr {
						if x.Op == token.EQL {
							f[x] = an.False
						} else {
							f[x] = an.True
						}
					}
				case *ssa.Extract:
					if ta, ok := x.Tuple.(*ssa.TypeAssert); ok && ta.CommaOk && x.Index == 1 {
						f[x] = an.True
					}
				}
			}
		}
		reach := an.Explore(hf, nil, f, func(in ssa.Instruction) bool {
			cl, ok := in.(ssa.CallInstruction)
			return ok && an.ShortCallee(cl.Common()) == h.want && cl.Common().StaticCallee() != nil && strings.HasSuffix(an.FullName(cl.Common().StaticCallee()), "GroupQuotaManager)."+h.want)
		})
		r.Check(len(f) >= 2 && len(reach.Returns()) == 0, "PATH", fkey(hf)+"/reaches-manager", c.Pos(hf.Pos()), "the manager's "+h.want+" is reached", sprintf("Plugin.%s can return for a pod with a quota name and an existing manager without calling the manager's %s (%d conditions recognised)", h.fn, h.want, len(f)))
	}
}

// quotaPairing: request/used/cache/assigned steps of the pod-event entry points come in matching pairs (shared by C01 and C03).
func quotaPairing(c *Ctx) {
	r := c.R
	// ---- pairing
	r.Rule("PATH(pairing): for matching (quota, pod) arguments in OnPodAdd/OnPodUpdate/OnPodDelete/MigratePod/ReservePod/UnreservePod: cacheAdd => reqAdd on every path to the exit; cacheDel <= dominated by reqDel; no reqDel/usedDel reachable after cacheDel; assign(true) => usedAdd on every path; assign(false) <= dominated by usedDel; assign(v) => usedAdd under v==true")
	nPair := 0
	for _, name := range []string{"OnPodAdd", "OnPodUpdate", "OnPodDelete", "MigratePod", "ReservePod", "UnreservePod"} {
		fn := c.Fn(quotaCorePkg, "GroupQuotaManager", name)
		if fn == nil {
			continue
		}
		ops := podOps(fn)
		find := func(kind string, q, p ssa.Value) []podOp {
			var out []podOp
			for _, o := range ops {
				if o.kind == kind && sameVal(o.q, q) && sameVal(o.p, p) {
					out = append(out, o)
				}
			}
			return out
		}
		followed := func(o podOp, kind string, facts an.Facts) bool {
			targets := map[ssa.Instruction]bool{}
			for _, t := range find(kind, o.q, o.p) {
				targets[t.call] = true
			}
			if len(targets) == 0 {
				return false
			}
			reach := an.Explore(fn, an.After(o.call), facts, func(in ssa.Instruction) bool { return targets[in] })
			return len(reach.Returns()) == 0
		}
		dominated := func(o podOp, kind string) bool {
			for _, t := range find(kind, o.q, o.p) {
				tb, ob := t.call.Block(), o.call.Block()
				if (tb == ob && instrIndex(t.call) < instrIndex(o.call)) || (tb != ob && tb.Dominates(ob)) {
					return true
				}
			}
			return false
		}
		notAfter := func(o podOp, kinds ...string) string {
			reach := an.Explore(fn, an.After(o.call), nil, nil)
			for _, k := range kinds {
				for _, t := range find(k, o.q, o.p) {
					if reach.Reached(t.call) {
						return k + " at " + c.InstrPos(t.call)
					}
				}
			}
			return ""
		}
		ord := map[string]int{}
		for _, o := range ops {
			ord[o.kind]++
			key := sprintf("%s/%s#%d", fkey(fn), o.kind, ord[o.kind])
			switch o.kind {
			case "cacheAdd":
				nPair++
				r.Check(followed(o, "reqAdd", nil), "PATH", key+"=>reqAdd", c.InstrPos(o.call), "pod added to the cache always gets its request added",
					"the pod is added to the quota's cache but a return is reachable without adding its request: the request is lost")
			case "cacheDel":
				nPair++
				r.Check(dominated(o, "reqDel"), "PATH", key+"<=reqDel", c.InstrPos(o.call), "request removed before the pod leaves the cache",
					"the pod is removed from the quota's cache without its request having been removed on every path: a ghost request stays behind")
				// an assigned pod's used amount is released before it leaves the cache
				af := an.Facts{}
				for _, cl := range an.Calls(fn, false) {
					sn := an.ShortCallee(cl.Common())
					a := cl.Common().Args
					if (sn == "CheckPodIsAssigned" && sameVal(a[1], o.p)) || (sn == "getPodIsAssignedNoLock" && sameVal(a[2], o.p)) {
						af[cl.Value()] = an.True
					}
				}
				uTargets := map[ssa.Instruction]bool{}
				for _, t := range find("usedDel", o.q, o.p) {
					uTargets[t.call] = true
				}
				reachA := an.Explore(fn, nil, af, func(in ssa.Instruction) bool { return uTargets[in] })
				r.Check(len(af) > 0 && !reachA.Reached(o.call), "PATH", key+"/assigned=>usedDel", c.InstrPos(o.call), "an assigned pod's used amount is released before it leaves the cache",
					sprintf("the pod can leave the quota's cache while marked assigned without its used amount having been released (assigned tests recognised: %d): the used amount stays in the quota for ever and later pods are rejected against it", len(af)))
				bad := notAfter(o, "reqDel", "usedDel")
				r.Check(bad == "", "PATH", key+"/nothing-removed-after", c.InstrPos(o.call), "no request/used removal after the pod left the cache",
					"after the pod left the cache a removal is still performed ("+bad+"): updatePodUsedNoLock/updatePodRequestNoLock look the pod up in the cache, so the removal silently does nothing")
			case "assignT":
				nPair++
				r.Check(followed(o, "usedAdd", nil), "PATH", key+"=>usedAdd", c.InstrPos(o.call), "pod marked assigned always gets its used added",
					"the pod is marked assigned but a return is reachable without adding its used amount")
			case "assignF":
				nPair++
				r.Check(dominated(o, "usedDel"), "PATH", key+"<=usedDel", c.InstrPos(o.call), "used removed before the pod is un-assigned",
					"the pod is un-assigned without its used amount having been removed on every path")
			case "assignV":
				nPair++
				r.Check(followed(o, "usedAdd", an.Facts{o.flag: an.True}), "PATH", key+"=>usedAdd|flag", c.InstrPos(o.call), "when the flag is true the used amount is added",
					"the pod may be marked assigned (flag true) while a return is reachable without adding its used amount")
			case "usedAdd":
				// must be justified by an assignment in this function (or a dominating assigned check for updates)
				nPair++
				ok := dominated(o, "assignT") || dominated(o, "assignV")
				r.Check(ok, "PATH", key+"<=assign", c.InstrPos(o.call), "used is added only for a pod marked assigned in this step",
					"used is added for a pod that was not marked assigned before on every path")
			}
		}
	}
	r.Floor("PATH", "pairing obligations in pod-event entry points", nPair, 18)

}
