package rules

import (
	"strings"

	"golang.org/x/tools/go/ssa"

	"kverif/internal/an"
	"kverif/internal/load"
)

func init() { Registry["C01"] = c01 }

const quotaCorePkg = "pkg/scheduler/plugins/elasticquota/core"

// podOp is one accounting step on (quota, pod).
type podOp struct {
	kind string // cacheAdd cacheDel reqAdd reqDel reqUpd usedAdd usedDel usedUpd assignT assignF assignV
	q, p ssa.Value
	flag ssa.Value
	call ssa.CallInstruction
}

func sameVal(a, b ssa.Value) bool {
	if a == b {
		return true
	}
	pa, pb := an.Path(a), an.Path(b)
	return pa == pb && !strings.Contains(pa, "φ") && !strings.Contains(pa, "(")
}

func podOps(fn *ssa.Function) []podOp {
	var out []podOp
	for _, cl := range an.Calls(fn, false) {
		f := cl.Common().StaticCallee()
		if f == nil || f.Signature.Recv() == nil || !isNamedType(f.Signature.Recv().Type(), "GroupQuotaManager") {
			continue
		}
		a := cl.Common().Args // receiver first
		switch f.Name() {
		case "updatePodCacheNoLock":
			k := "cacheV"
			if isTrueConst(a[3]) {
				k = "cacheAdd"
			} else if isFalseConst(a[3]) {
				k = "cacheDel"
			}
			out = append(out, podOp{kind: k, q: a[1], p: a[2], flag: a[3], call: cl})
		case "updatePodRequestNoLock", "updatePodUsedNoLock":
			pre := "req"
			if f.Name() == "updatePodUsedNoLock" {
				pre = "used"
			}
			switch {
			case an.IsNilConst(a[2]) && !an.IsNilConst(a[3]):
				out = append(out, podOp{kind: pre + "Add", q: a[1], p: a[3], call: cl})
			case !an.IsNilConst(a[2]) && an.IsNilConst(a[3]):
				out = append(out, podOp{kind: pre + "Del", q: a[1], p: a[2], call: cl})
			default:
				out = append(out, podOp{kind: pre + "Upd", q: a[1], p: a[3], call: cl})
			}
		case "updatePodIsAssignedNoLock":
			k := "assignV"
			if isTrueConst(a[3]) {
				k = "assignT"
			} else if isFalseConst(a[3]) {
				k = "assignF"
			}
			out = append(out, podOp{kind: k, q: a[1], p: a[2], flag: a[3], call: cl})
		}
	}
	return out
}

func isFalseConst(v ssa.Value) bool {
	cst, ok := v.(*ssa.Const)
	return ok && cst.Value != nil && cst.Value.String() == "false"
}

func c01(c *Ctx) {
	r := c.R
	r.Decides("in every pod-event entry point, adding a pod to a quota's cache is always followed by adding its request, removing it is always preceded by removing its request (and used), and never followed by them; marking a pod assigned is always followed by adding its used, un-marking is preceded by removing it")
	r.Decides("every delta handed up the tree is new-minus-old around the mutation (bracket), and a request delta applied starting at a quota's parent is computed from the quota's max-limited request")
	r.Decides("the tree rebuild replays the saved request/used of every quota unconditionally")
	r.Decides("quotaInfoMap / runtimeQuotaCalculatorMap / quotaTopoNodeMap are written only under hierarchyUpdateLock held for writing and read under it")
	r.Declines("that the leaf-to-root deltas add up to the recomputed totals (clamping at zero, min-raise, hand-over arithmetic); read-side races on QuotaInfo")

	// ---- pairing
	r.Rule("PATH(pairing): for matching (quota, pod) arguments in OnPodAdd/OnPodUpdate/OnPodDelete/MigratePod/ReservePod/UnreservePod: cacheAdd => reqAdd on every path to the exit; cacheDel <= dominated by reqDel; no reqDel/usedDel reachable after cacheDel; assign(true) => usedAdd on every path; assign(false) <= dominated by usedDel; assign(v) => usedAdd under v==true")
	nPair := 0
	for _, name := range []string{"OnPodAdd", "OnPodUpdate", "OnPodDelete", "MigratePod", "ReservePod", "UnreservePod"} {
		fn := c.Fn(quotaCorePkg, "GroupQuotaManager", name)
		if fn == nil {
			continue
		}
		ops := podOps(fn)
		find := func(kind string, q, p ssa.Value) []podOp {
			var out []podOp
			for _, o := range ops {
				if o.kind == kind && sameVal(o.q, q) && sameVal(o.p, p) {
					out = append(out, o)
				}
			}
			return out
		}
		followed := func(o podOp, kind string, facts an.Facts) bool {
			targets := map[ssa.Instruction]bool{}
			for _, t := range find(kind, o.q, o.p) {
				targets[t.call] = true
			}
			if len(targets) == 0 {
				return false
			}
			reach := an.Explore(fn, an.After(o.call), facts, func(in ssa.Instruction) bool { return targets[in] })
			return len(reach.Returns()) == 0
		}
		dominated := func(o podOp, kind string) bool {
			for _, t := range find(kind, o.q, o.p) {
				tb, ob := t.call.Block(), o.call.Block()
				if (tb == ob && instrIndex(t.call) < instrIndex(o.call)) || (tb != ob && tb.Dominates(ob)) {
					return true
				}
			}
			return false
		}
		notAfter := func(o podOp, kinds ...string) string {
			reach := an.Explore(fn, an.After(o.call), nil, nil)
			for _, k := range kinds {
				for _, t := range find(k, o.q, o.p) {
					if reach.Reached(t.call) {
						return k + " at " + c.InstrPos(t.call)
					}
				}
			}
			return ""
		}
		ord := map[string]int{}
		for _, o := range ops {
			ord[o.kind]++
			key := sprintf("%s/%s#%d", fkey(fn), o.kind, ord[o.kind])
			switch o.kind {
			case "cacheAdd":
				nPair++
				r.Check(followed(o, "reqAdd", nil), "PATH", key+"=>reqAdd", c.InstrPos(o.call), "pod added to the cache always gets its request added",
					"the pod is added to the quota's cache but a return is reachable without adding its request: the request is lost")
			case "cacheDel":
				nPair++
				r.Check(dominated(o, "reqDel"), "PATH", key+"<=reqDel", c.InstrPos(o.call), "request removed before the pod leaves the cache",
					"the pod is removed from the quota's cache without its request having been removed on every path: a ghost request stays behind")
				bad := notAfter(o, "reqDel", "usedDel")
				r.Check(bad == "", "PATH", key+"/nothing-removed-after", c.InstrPos(o.call), "no request/used removal after the pod left the cache",
					"after the pod left the cache a removal is still performed ("+bad+"): updatePodUsedNoLock/updatePodRequestNoLock look the pod up in the cache, so the removal silently does nothing")
			case "assignT":
				nPair++
				r.Check(followed(o, "usedAdd", nil), "PATH", key+"=>usedAdd", c.InstrPos(o.call), "pod marked assigned always gets its used added",
					"the pod is marked assigned but a return is reachable without adding its used amount")
			case "assignF":
				nPair++
				r.Check(dominated(o, "usedDel"), "PATH", key+"<=usedDel", c.InstrPos(o.call), "used removed before the pod is un-assigned",
					"the pod is un-assigned without its used amount having been removed on every path")
			case "assignV":
				nPair++
				r.Check(followed(o, "usedAdd", an.Facts{o.flag: an.True}), "PATH", key+"=>usedAdd|flag", c.InstrPos(o.call), "when the flag is true the used amount is added",
					"the pod may be marked assigned (flag true) while a return is reachable without adding its used amount")
			case "usedAdd":
				// must be justified by an assignment in this function (or a dominating assigned check for updates)
				nPair++
				ok := dominated(o, "assignT") || dominated(o, "assignV")
				r.Check(ok, "PATH", key+"<=assign", c.InstrPos(o.call), "used is added only for a pod marked assigned in this step",
					"used is added for a pod that was not marked assigned before on every path")
			}
		}
	}
	r.Floor("PATH", "pairing obligations in pod-event entry points", nPair, 18)

	// ---- bracket
	r.Rule("PATH+FLOW(bracket): every quotav1.Subtract(new, old) whose operands are two getLimitRequestNoLock() results of one quota has the old call before and the new call after a mutation of that quota (setMax/addRequest/Request store); for Guaranteed: old is loaded before and new is the value stored")
	nB := 0
	for _, fn := range c.PkgFuncs(quotaCorePkg) {
		for _, cl := range an.Calls(fn, false) {
			if an.CalleeName(cl.Common()) != "k8s.io/apiserver/pkg/quota/v1.Subtract" {
				continue
			}
			a := cl.Common().Args
			nc, _ := an.ResultOfCall(a[0])
			oc, _ := an.ResultOfCall(a[1])
			if nc == nil || oc == nil || an.ShortCallee(&nc.Call) != "getLimitRequestNoLock" || an.ShortCallee(&oc.Call) != "getLimitRequestNoLock" {
				continue
			}
			nB++
			key := sprintf("%s/limit-request-bracket#%d", fkey(fn), nB)
			sameQ := sameVal(nc.Call.Args[0], oc.Call.Args[0])
			before := (oc.Block() == nc.Block() && instrIndex(oc) < instrIndex(nc)) || (oc.Block() != nc.Block() && oc.Block().Dominates(nc.Block()))
			// a mutation in between
			mut := false
			for _, m := range an.Calls(fn, false) {
				switch an.ShortCallee(m.Common()) {
				case "setMaxNoLock", "addRequestNonNegativeNoLock", "addChildRequestNonNegativeNoLock", "setMinNoLock":
					if between(oc, m, nc) {
						mut = true
					}
				}
			}
			for _, b := range fn.Blocks {
				for _, in := range b.Instrs {
					if st, ok := in.(*ssa.Store); ok {
						if _, f, _, ok := an.FieldOf(st.Addr); ok && f == "Request" && between(oc, st, nc) {
							mut = true
						}
					}
				}
			}
			r.Check(sameQ && before && mut, "PATH", key, c.InstrPos(cl), "delta = limit-request(after) - limit-request(before) of the same quota around its mutation",
				sprintf("bracket broken: same quota=%v, old read precedes new read=%v, mutation in between=%v (swapped or stale operands hand a wrong delta to the ancestors)", sameQ, before, mut))
		}
	}
	r.Floor("PATH", "limit-request brackets", nB, 3)

	// ---- limited upward delta
	r.Rule("FLOW: a request delta passed to updateGroupDeltaRequestNoLock for the ParentName of a quota derives from that quota's getLimitRequestNoLock(), not from its unlimited Request field")
	nU := 0
	for _, fn := range c.PkgFuncs(quotaCorePkg) {
		for _, cl := range an.CallsTo(fn, false, "(*"+load.Module+"/"+quotaCorePkg+".GroupQuotaManager).updateGroupDeltaRequestNoLock") {
			a := cl.Common().Args
			if !strings.HasSuffix(an.Path(a[1]), ".ParentName") {
				continue
			}
			nU++
			key := sprintf("%s/delta-to-parent#%d", fkey(fn), nU)
			limited, raw := false, false
			for x := range backwardAll(a[2]) {
				if call, ok := x.(*ssa.Call); ok && an.ShortCallee(&call.Call) == "getLimitRequestNoLock" {
					limited = true
				}
				if fa, ok := x.(*ssa.FieldAddr); ok {
					if _, f, _, ok := an.FieldOf(fa); ok && f == "Request" {
						raw = true
					}
				}
			}
			r.Check(limited && !raw, "FLOW", key, c.InstrPos(cl), "the parent loses exactly what it had received (the max-limited request)",
				sprintf("the delta applied to the parent derives from the limited request: %v, from the raw Request field: %v — the parent accumulated the max-limited amount, so subtracting the raw request removes too much (siblings' requests are lost behind the zero clamp)", limited, raw))
		}
	}
	r.Floor("FLOW", "request deltas applied to a parent", nU, 1)

	// ---- rebuild replays unconditionally
	r.Rule("PATH: in rebuildAllGroupQuotaNoLock the replay calls updateGroupDeltaRequestNoLock/updateGroupDeltaUsedNoLock are guarded only by the membership test of the saved map (not by the saved amounts)")
	if fn := c.Fn(quotaCorePkg, "GroupQuotaManager", "rebuildAllGroupQuotaNoLock"); fn != nil {
		n := 0
		for _, cl := range an.Calls(fn, false) {
			sn := an.ShortCallee(cl.Common())
			if sn != "updateGroupDeltaRequestNoLock" && sn != "updateGroupDeltaUsedNoLock" {
				continue
			}
			n++
			// the call must be executed whenever the membership test of the saved map succeeds: from the
			// true edge of that test, the next loop iteration is unreachable without passing the call.
			var member *ssa.If
			for _, g := range an.Guards(cl) {
				if isCommaOk(g.Cond) && g.Truth {
					member = g.If
				}
			}
			if member == nil {
				r.Fail("PATH", fkey(fn)+"/replay/"+sn, c.InstrPos(cl), "the replay call is not under the membership test of the saved map: unknown idiom")
				continue
			}
			var hdr *ssa.BasicBlock
			for d := member.Block(); d != nil; d = d.Idom() {
				for _, in := range d.Instrs {
					if _, ok := in.(*ssa.Next); ok && hdr == nil {
						hdr = d
					}
				}
			}
			start := &an.Start{Block: member.Block().Succs[0], Index: 0}
			reach := an.Explore(fn, start, nil, func(in ssa.Instruction) bool { return in == ssa.Instruction(cl) })
			skipped := hdr == nil || reach.BlockReached(hdr) || len(reach.Returns()) > 0
			r.Check(!skipped, "PATH", fkey(fn)+"/replay/"+sn, c.InstrPos(cl), "replayed for every saved quota",
				"the replay can be skipped for a saved quota (the next iteration is reachable without the call): a non-lending group without pods no longer gets its request raised back to min after a tree reset")
		}
		r.Floor("PATH", "replay calls in rebuildAllGroupQuotaNoLock", n, 2)
	}

	// ---- LOCK
	r.Rule("LOCK: GroupQuotaManager.{quotaInfoMap,runtimeQuotaCalculatorMap,quotaTopoNodeMap} are read under hierarchyUpdateLock (R/W) and written under the write lock; *NoLock helpers pass the requirement to their callers")
	c.RunLock("LOCK", LockCfg{Pkg: quotaCorePkg, Type: "GroupQuotaManager", Mutex: "hierarchyUpdateLock",
		Guarded: []string{"quotaInfoMap", "runtimeQuotaCalculatorMap", "quotaTopoNodeMap"}, MinFuncs: 15,
		Exempt: map[string]string{
			"pkg/scheduler/plugins/elasticquota/core.NewGroupQuotaManager": "constructor: the object is not shared yet",
		}})
}

// between: a dominates m and m dominates b (same-block order respected).
func between(a, m, b ssa.Instruction) bool {
	return instrBefore(a, m) && instrBefore(m, b)
}

func instrBefore(a, b ssa.Instruction) bool {
	if a.Block() == b.Block() {
		return instrIndex(a) < instrIndex(b)
	}
	return a.Block().Dominates(b.Block())
}
