package rules

import (
	"go/ast"
	"go/constant"
	"go/token"
	"go/types"
	"strings"

	"golang.org/x/tools/go/ssa"

	"kverif/internal/an"
)

// c14agg: pod-level aggregation over the containers and the clamps of the unit conversions.
func c14agg(c *Ctx) {
	r := c.R
	r.Decides("the pod-level amount handed to the conversion is a running sum that starts at 0 and adds, per container, exactly the amount the extractor returned for that container; for quota and memory it is -1 (unlimited) as soon as one container has no limits or a non-positive limit, whatever was summed before; in the unit conversions a bound named Min is applied as a lower bound and a bound named Max as an upper bound, and a non-positive quota means unlimited (-1)")
	r.Rule("AGG(sum): in SetPodCPUShares / SetPodCFSQuota / SetPodMemoryLimit the value that reaches the conversion (or the response) comes from a loop-carried sum whose initial value is 0 and whose step is sum + <extractor result of this container>")
	r.Rule("AGG(unlimited wins): in SetPodCFSQuota / SetPodMemoryLimit, from the evaluation of 'c.Limits == nil' resp. '<extractor result> <= 0' with outcome true, the value that reaches the conversion (or the response) is the constant -1 on every path (the loop is left; nothing is added afterwards)")
	type site struct{ fn, extractor, conv string }
	for _, s := range []site{
		{"SetPodCPUShares", "GetBatchMilliCPUFromResourceList", "MilliCPUToShares"},
		{"SetPodCFSQuota", "GetBatchMilliCPUFromResourceList", "MilliCPUToQuota"},
		{"SetPodMemoryLimit", "GetBatchMemoryFromResourceList", ""},
	} {
		fn := c.Fn(batchHookPkg, "plugin", s.fn)
		if fn == nil {
			continue
		}
		key := fkey(fn)
		var ext *ssa.Call
		var sink ssa.Value
		for _, cl := range an.Calls(fn, false) {
			call, ok := cl.(*ssa.Call)
			if !ok {
				continue
			}
			switch n := an.ShortCallee(&call.Call); {
			case n == s.extractor:
				ext = call
			case s.conv != "" && n == s.conv:
				sink = call.Call.Args[0]
			}
		}
		if s.conv == "" {
			// the value wrapped by ptr.To and stored into Response.Resources.MemoryLimit
			for _, b := range fn.Blocks {
				for _, in := range b.Instrs {
					st, ok := in.(*ssa.Store)
					if !ok {
						continue
					}
					if _, f, _, ok := an.FieldOf(st.Addr); ok && f == "MemoryLimit" {
						if cl, _ := an.ResultOfCall(st.Val); cl != nil && len(cl.Call.Args) == 1 {
							sink = cl.Call.Args[0]
						}
					}
				}
			}
		}
		if ext == nil || sink == nil {
			r.Unknown("AGG", key+"/shape", c.Pos(fn.Pos()), sprintf("extractor call found=%v, aggregated value found=%v: unknown idiom", ext != nil, sink != nil))
			continue
		}
		// the running sum
		sumOK := false
		var sumPhi *ssa.Phi
		for _, b := range fn.Blocks {
			for _, in := range b.Instrs {
				bo, ok := in.(*ssa.BinOp)
				if !ok || bo.Op != token.ADD {
					continue
				}
				var other ssa.Value
				switch {
				case firstSource(bo.Y) == ssa.Value(ext):
					other = bo.X
				case firstSource(bo.X) == ssa.Value(ext):
					other = bo.Y
				default:
					continue
				}
				phi, ok := other.(*ssa.Phi)
				if !ok {
					continue
				}
				back, zero, rest := false, false, true
				for _, e := range phi.Edges {
					switch {
					case e == ssa.Value(bo):
						back = true
					case e == ssa.Value(phi):
					default:
						if k, isC := constIntOf(e); isC && k == 0 {
							zero = true
						} else {
							rest = false
						}
					}
				}
				if back && zero && rest {
					sumOK = true
					sumPhi = phi
				}
			}
		}
		reaches := false
		if sumPhi != nil {
			for x := range backwardAll(sink) {
				if x == ssa.Value(sumPhi) {
					reaches = true
				}
			}
		}
		r.Check(sumOK && reaches, "AGG", key+"/sum", c.InstrPos(ext), "0 + sum of the containers' extracted amounts reaches the conversion", sprintf("the pod-level amount is not the plain sum of what the extractor returns per container (loop-carried 0 + sum found=%v, it reaches the conversion=%v)", sumOK, reaches))
		if s.fn == "SetPodCPUShares" {
			continue
		}
		// unlimited wins
		var tests []*ssa.BinOp
		for _, b := range fn.Blocks {
			for _, in := range b.Instrs {
				bo, ok := in.(*ssa.BinOp)
				if !ok {
					continue
				}
				if firstSource(bo.X) == ssa.Value(ext) {
					if k, isC := constIntOf(bo.Y); isC && ((bo.Op == token.LEQ && k == 0) || (bo.Op == token.LSS && k == 1)) {
						tests = append(tests, bo)
					}
				}
				if an.IsNilConst(bo.Y) && bo.Op == token.EQL && strings.HasSuffix(an.Path(bo.X), ".Limits") {
					tests = append(tests, bo)
				}
			}
		}
		nOK := 0
		var why []string
		for _, t := range tests {
			reach := an.Explore(fn, &an.Start{Block: t.Block(), Index: instrIndex(t)}, an.Facts{t: an.True}, nil)
			v, known := reach.EvalInt(sink)
			if known && v == -1 {
				nOK++
			} else {
				why = append(why, sprintf("%s: the aggregated value is not the constant -1 behind this test (constant=%v value=%d)", c.InstrPos(t), known, v))
			}
		}
		r.Check(len(tests) == 2 && nOK == 2, "AGG", key+"/unlimited-wins", c.InstrPos(ext), "a container without a (positive) limit makes the pod unlimited", sprintf("one unlimited container does not make the pod unlimited (%d tests recognised, expected 'Limits == nil' and 'amount <= 0'; %s): the pod cgroup becomes tighter than that container", len(tests), strings.Join(why, "; ")))
	}

	// ---- clamps of the unit conversions (the names of the package's bounds carry the intent)
	r.Rule("CLAMP(unit conversions): in system.MilliCPUToShares / MilliCPUToQuota a return of the value of a package constant whose name contains Min happens only where the computed amount compared below that constant (or, for shares, the request was non-positive), of one whose name contains Max only where it compared above it; -1 (unlimited) is returned exactly where the computed quota compared <= 0; the computed amount itself is returned only where it compared at or above every Min bound and at or below every Max bound of the function; a comparison with a Min/Max bound counts only when its other operand is the converted amount (a product or quotient), not the unconverted input")
	pk := c.P.Pkg("pkg/koordlet/util/system")
	if pk == nil {
		r.Unknown("ANCHOR", "pkg/koordlet/util/system", "", "package not found")
		return
	}
	bounds := map[string][2]string{ // function -> {Min constant, Max constant ("" = none)}
		"MilliCPUToShares": {"CPUSharesMinValue", "CPUSharesMaxValue"},
		"MilliCPUToQuota":  {"CFSQuotaMinValue", ""},
	}
	constVal := func(name string) (int64, bool) {
		if name == "" {
			return 0, false
		}
		if cst, ok := pk.Types.Scope().Lookup(name).(*types.Const); ok {
			return constant.Int64Val(constant.ToInt(cst.Val()))
		}
		return 0, false
	}
	for _, name := range []string{"MilliCPUToShares", "MilliCPUToQuota"} {
		fn := c.Fn("pkg/koordlet/util/system", "", name)
		if fn == nil {
			continue
		}
		key := fkey(fn)
		minV, hasMin := constVal(bounds[name][0])
		maxV, hasMax := constVal(bounds[name][1])
		if !hasMin || (bounds[name][1] != "" && !hasMax) {
			r.Unknown("ANCHOR", key+"/bounds", c.Pos(fn.Pos()), "the package's Min/Max constants were not found (renamed?)")
			continue
		}
		// relation of some value with a constant among the guards
		has := func(gs []an.Guard, k int64, ops ...token.Token) bool {
			for _, g := range gs {
				rel, ok := an.RelOf(g)
				if !ok {
					continue
				}
				op := rel.Op
				kv, isC := constIntOf(rel.Y)
				if !isC {
					if kv, isC = constIntOf(rel.X); !isC {
						continue
					}
					switch op { // constant on the left: mirror
					case token.LSS:
						op = token.GTR
					case token.LEQ:
						op = token.GEQ
					case token.GTR:
						op = token.LSS
					case token.GEQ:
						op = token.LEQ
					}
				}
				if kv != k {
					continue
				}
				// a bound of the result is compared with the converted amount, not with the unconverted input
				if k == minV || (hasMax && k == maxV) {
					subj := rel.X
					if _, isK := constIntOf(subj); isK {
						subj = rel.Y
					}
					converted := false
					for x := range backwardAll(subj) {
						if b2, isB := x.(*ssa.BinOp); isB && (b2.Op == token.MUL || b2.Op == token.QUO) {
							converted = true
						}
					}
					if !converted {
						continue
					}
				}
				for _, o := range ops {
					if o == op {
						return true
					}
				}
			}
			return false
		}
		okAll, nAlt := true, 0
		var why []string
		for _, alt := range an.ReturnAlts(fn) {
			nAlt++
			res := alt.Results[0]
			k, isC := constIntOf(res)
			switch {
			case isC && k == -1 && name == "MilliCPUToQuota":
				if !has(alt.Guards, 0, token.LEQ) && !has(alt.Guards, 1, token.LSS) {
					okAll = false
					why = append(why, c.InstrPos(alt.Ret)+": -1 is returned where the quota did not compare <= 0")
				}
			case isC && k == minV:
				if !has(alt.Guards, minV, token.LSS, token.LEQ) && !(name == "MilliCPUToShares" && (has(alt.Guards, 0, token.LEQ) || has(alt.Guards, 1, token.LSS))) {
					okAll = false
					why = append(why, sprintf("%s: the minimum %d is returned where the amount did not compare below it", c.InstrPos(alt.Ret), minV))
				}
			case isC && hasMax && k == maxV:
				if !has(alt.Guards, maxV, token.GTR, token.GEQ) {
					okAll = false
					why = append(why, sprintf("%s: the maximum %d is returned where the amount did not compare above it", c.InstrPos(alt.Ret), maxV))
				}
			case isC:
				okAll = false
				why = append(why, sprintf("%s: the constant %d is returned", c.InstrPos(alt.Ret), k))
			default:
				lo := has(alt.Guards, minV, token.GEQ, token.GTR)
				hi := !hasMax || has(alt.Guards, maxV, token.LEQ, token.LSS)
				pos := name != "MilliCPUToQuota" || has(alt.Guards, 0, token.GTR) || has(alt.Guards, 1, token.GEQ)
				if !lo || !hi || !pos {
					okAll = false
					why = append(why, sprintf("%s: the computed amount is returned although it was not found >= min (%v), <= max (%v), positive (%v)", c.InstrPos(alt.Ret), lo, hi, pos))
				}
			}
		}
		r.Check(okAll && nAlt >= 3, "CLAMP", key+"/bounds", c.Pos(fn.Pos()), sprintf("%d return alternatives, every bound applied in the direction its name says", nAlt), sprintf("the conversion clamps wrongly (%d return alternatives; %s)", nAlt, strings.Join(why, "; ")))
	}
}

// c14contexts: a fresh protocol context per pod / container, and the reconciler-side extractor keeps limits without requests.
func c14contexts(c *Ctx) {
	r := c.R
	r.Decides("every protocol context handed to a batch-resource setter inside a loop over pods or containers is created in that very iteration (FromReconciler does not reset a context: a reused one carries the previous pod's extended spec and response); the reconciler-side extractor copies a declared limit whether or not the same resource is also requested, and reports 'nothing declared' only when both lists are empty")
	r.Rule("FRESH(context per iteration): in package hooks/batchresource, for every call of plugin.SetPod*/SetContainer* that lies in a loop, the context argument is a PodContext/ContainerContext allocated inside the same (innermost) loop")
	n := 0
	for _, fn := range c.PkgFuncs(batchHookPkg) {
		nIn := 0
		for _, cl := range an.Calls(fn, false) {
			sn := an.ShortCallee(cl.Common())
			if !strings.HasPrefix(sn, "SetPod") && !strings.HasPrefix(sn, "SetContainer") {
				continue
			}
			hdr := an.InnermostLoopHeader(cl.Block())
			if hdr == nil || len(cl.Common().Args) < 2 {
				continue
			}
			n++
			nIn++
			ok := true
			why := ""
			for _, s := range cellSources(cl.Common().Args[1]) {
				if mi, isMI := s.(*ssa.MakeInterface); isMI {
					s = firstSource(mi.X)
				}
				a, isA := s.(*ssa.Alloc)
				if !isA {
					ok, why = false, "the context is not a fresh allocation ("+an.Path(s)+")"
					continue
				}
				in := false
				for h := an.InnermostLoopHeader(a.Block()); h != nil; {
					if h == hdr {
						in = true
					}
					// outer loops
					var outer *ssa.BasicBlock
					for d := h.Idom(); d != nil; d = d.Idom() {
						if x := an.InnermostLoopHeader(d); x != nil && x != h {
							outer = x
							break
						}
					}
					h = outer
				}
				if !in {
					ok, why = false, "the context is allocated outside the loop at "+c.InstrPos(a)
				}
			}
			r.Check(ok, "FRESH", sprintf("%s/context#%d", fkey(fn), nIn), c.InstrPos(cl), "a context of its own per iteration", "a protocol context is shared between iterations ("+why+"): a pod without a batch spec inherits the previous pod's spec and computed limits")
		}
	}
	r.Floor("FRESH", "setter calls inside loops", n, 2)

	r.Rule("PATH(extractor): in util.GetContainerTargetExtendedResources the store r.Limits[name] is guarded by the lookup in container.Resources.Limits only (not by the Requests lookup) and r.Requests[name] by the Requests lookup only; with a limit copied the function does not return nil")
	if fn := c.Fn("pkg/util", "", "GetContainerTargetExtendedResources"); fn != nil {
		ok, nL, nR := true, 0, 0
		why := ""
		for _, b := range fn.Blocks {
			for _, in := range b.Instrs {
				mu, isMU := in.(*ssa.MapUpdate)
				if !isMU {
					continue
				}
				p := an.Path(mu.Map)
				var own, other string
				switch {
				case strings.HasSuffix(p, ".Limits"):
					own, other = ".Resources.Limits", ".Resources.Requests"
					nL++
				case strings.HasSuffix(p, ".Requests"):
					own, other = ".Resources.Requests", ".Resources.Limits"
					nR++
				default:
					continue
				}
				hasOwn := false
				for _, g := range an.Guards(mu) {
					e, isE := g.Cond.(*ssa.Extract)
					if !isE {
						continue
					}
					lk, isLk := e.Tuple.(*ssa.Lookup)
					if !isLk {
						continue
					}
					lp := an.Path(lk.X)
					if strings.HasSuffix(lp, own) && g.Truth {
						hasOwn = true
					}
					if strings.HasSuffix(lp, other) {
						ok = false
						why = c.InstrPos(mu) + ": the copy into " + own[len(".Resources"):] + " depends on the lookup in " + other[len(".Resources"):]
					}
				}
				if !hasOwn {
					ok = false
					why = c.InstrPos(mu) + ": not guarded by its own lookup"
				}
			}
		}
		// non-empty limits => non-nil
		f := an.Facts{}
		for _, b := range fn.Blocks {
			for _, in := range b.Instrs {
				bo, isBo := in.(*ssa.BinOp)
				if !isBo {
					continue
				}
				cl, isCl := bo.X.(*ssa.Call)
				if !isCl || !an.IsBuiltinCall(cl, "len") || !strings.HasSuffix(an.Path(cl.Call.Args[0]), ".Limits") {
					continue
				}
				if k, isC := constIntOf(bo.Y); isC && k == 0 {
					switch bo.Op {
					case token.LEQ, token.EQL:
						f[bo] = an.False
					case token.GTR, token.NEQ:
						f[bo] = an.True
					}
				}
			}
		}
		// from the end of the loop on (the final emptiness test)
		nilOK := len(f) > 0
		for _, b := range fn.Blocks {
			for _, in := range b.Instrs {
				if bo, isBo := in.(*ssa.BinOp); isBo && f[bo] != an.Bottom {
					if _, has := f[bo]; has {
						reach := an.Explore(fn, &an.Start{Block: bo.Block(), Index: instrIndex(bo)}, f, nil)
						for _, ret := range reach.Returns() {
							for _, alt := range reach.Alts(ret) {
								if an.IsNilConst(alt.Results[0]) {
									nilOK = false
								}
							}
						}
					}
				}
			}
		}
		r.Check(ok && nL == 1 && nR == 1 && nilOK, "PATH", fkey(fn)+"/limit-without-request", c.Pos(fn.Pos()), "a declared limit is kept with or without a request", sprintf("a container's declared limit can be lost (copies found: limits=%d requests=%d; %s; 'nothing declared' although a limit was copied=%v): the pod-level sum skips the container while the container level still applies its limit", nL, nR, why, !nilOK))
	}
}

// c14ratio: the stored normalization ratio follows every change of the node's ratio.
func c14ratio(c *Ctx) {
	r := c.R
	r.Decides("Rule.UpdateCPUNormalizationRatio stores the new ratio and reports a change whenever it differs from the stored one by at least the epsilon - whatever its value (a ratio withdrawn to 1.0 or -1 must replace the stored one, or every quota keeps being divided by the old ratio)")
	r.Rule("PATH(ratio follows): in Rule.UpdateCPUNormalizationRatio, with a stored ratio present and the comparison of |stored - new| with the epsilon saying 'differs', every return is true and the store into the stored ratio is reached (no test of the new value itself sits in front)")
	fn := c.Fn(batchHookPkg, "Rule", "UpdateCPUNormalizationRatio")
	if fn == nil {
		return
	}
	f := an.Facts{}
	nCmp := 0
	for _, b := range fn.Blocks {
		for _, in := range b.Instrs {
			switch x := in.(type) {
			case *ssa.BinOp:
				// the stored pointer is set
				if an.IsNilConst(x.Y) && strings.HasSuffix(an.Path(x.X), ".cpuNormalizationRatio") {
					if x.Op == token.EQL {
						f[x] = an.False
					} else if x.Op == token.NEQ {
						f[x] = an.True
					}
				}
				// |diff| OP eps
				if cl, _ := an.ResultOfCall(x.X); cl != nil && an.ShortCallee(&cl.Call) == "Abs" {
					switch x.Op {
					case token.GEQ, token.GTR:
						f[x] = an.True
						nCmp++
					case token.LSS, token.LEQ:
						f[x] = an.False
						nCmp++
					}
				}
			}
		}
	}
	stored := false
	reach := an.Explore(fn, nil, f, nil)
	for _, in := range reach.Instrs() {
		if st, ok := in.(*ssa.Store); ok && isParamOf(fn, st.Val, 0) {
			stored = true
		}
		if st, ok := in.(*ssa.Store); ok {
			if _, fld, _, ok := an.FieldOf(st.Addr); ok && fld == "cpuNormalizationRatio" {
				stored = true
			}
		}
	}
	allTrue, n := true, 0
	for _, ret := range reach.Returns() {
		for _, alt := range reach.Alts(ret) {
			n++
			if reach.EvalAlt(alt, 0) != an.True {
				allTrue = false
			}
		}
	}
	r.Check(nCmp >= 1 && allTrue && n > 0 && stored, "PATH", fkey(fn)+"/ratio-follows", c.Pos(fn.Pos()), "a differing ratio is always stored and reported", sprintf("a ratio that differs from the stored one is not always taken over (epsilon comparison found=%v, every return true=%v, store reachable=%v): after the node's ratio is withdrawn the quotas keep being divided by the old one", nCmp >= 1, allTrue, stored))
}

func exprString(e ast.Expr) string { return types.ExprString(e) }
